"""Shared machinery for the /verif checks: rebuild of /repo, harness build, Lean build + audit,
correspondence runs, evidence, known findings, verdict."""
import fcntl, glob, hashlib, json, os, re, shutil, subprocess, sys, tempfile, time

ROOT = os.path.dirname(os.path.dirname(os.path.abspath(__file__)))
REPO = os.environ.get('VERIF_REPO', '/repo')
LEAN = os.path.join(ROOT, 'lean')
CACHE = os.path.join(ROOT, '.cache')
GUARD = 'LIBCELLML_VERIF'
ALLOWED_AXIOMS = {'propext', 'Classical.choice', 'Quot.sound'}
FORBIDDEN = re.compile(r'\b(sorry|admit|native_decide|bv_decide|implemented_by|unsafe)\b|^\s*axiom\s|maxHeartbeats\s+0|\bpartial\s+def\b', re.M)


def sh(cmd, **kw):
    kw.setdefault('stdout', subprocess.PIPE); kw.setdefault('stderr', subprocess.STDOUT); kw.setdefault('text', True)
    return subprocess.run(cmd, **kw)


def log(*a):
    print(*a, flush=True)


# ---------------------------------------------------------------------------------------------
# rebuild of /repo's current working tree (content-addressed so that 20 checks share one build)

def repo_fingerprint():
    h = hashlib.sha256()
    files = []
    for base in ('src', 'cmake'):
        for d, _, fs in os.walk(os.path.join(REPO, base)):
            for f in fs:
                files.append(os.path.join(d, f))
    files.append(os.path.join(REPO, 'CMakeLists.txt'))
    for f in sorted(files):
        h.update(f.encode()); h.update(b'\0')
        with open(f, 'rb') as fh:
            h.update(fh.read())
        h.update(b'\0')
    return h.hexdigest()[:20]


def build_lib(sanitize=False):
    """Configure + build the static library from /repo's working tree with the hooks guard on.
    Returns dict(lib=..., inc=[...]).  The object code is keyed by a hash of the sources, so a
    changed tree is always rebuilt and an unchanged one is built once."""
    fp = repo_fingerprint() + ('-san' if sanitize else '')
    os.makedirs(CACHE, exist_ok=True)
    dest = os.path.join(CACHE, 'lib-' + fp)
    with open(os.path.join(CACHE, 'lock'), 'w') as lk:
        fcntl.flock(lk, fcntl.LOCK_EX)
        if not os.path.exists(os.path.join(dest, 'ok')):
            t0 = time.time()
            scratch = tempfile.mkdtemp(prefix='verif-build-')
            try:
                flags = '-D%s' % GUARD
                dbg = '-O1'
                if sanitize:
                    flags += ' -fsanitize=address,undefined -fno-sanitize-recover=all -fno-omit-frame-pointer'
                    dbg = '-O1 -g1'
                r = sh(['cmake', '-G', 'Ninja', '-S', REPO, '-B', scratch, '-DLIBCELLML_BUILD_SHARED=OFF',
                        '-DLIBCELLML_UNIT_TESTS=OFF', '-DLIBCELLML_BINDINGS_PYTHON=OFF', '-DLIBCELLML_COVERAGE=OFF',
                        '-DLIBCELLML_MEMCHECK=OFF', '-DLIBCELLML_COMPILER_CACHE=OFF', '-DLIBCELLML_CLANG_TIDY=OFF',
                        '-DLIBCELLML_TREAT_WARNINGS_AS_ERRORS=OFF', '-DLIBCELLML_LLVM_COVERAGE=OFF',
                        '-DCMAKE_CXX_FLAGS=' + flags, '-DCMAKE_CXX_FLAGS_DEBUG=' + dbg])
                if r.returncode != 0:
                    raise BuildError('cmake configure failed:\n' + r.stdout[-3000:])
                r = sh(['cmake', '--build', scratch, '--target', 'cellml'])
                if r.returncode != 0:
                    raise BuildError('build of /repo failed:\n' + r.stdout[-6000:])
                libs = [l for l in glob.glob(os.path.join(scratch, 'src', 'libcellml*.a')) if 'debug_utilities' not in l]
                if not libs:
                    raise BuildError('no static library produced')
                shutil.rmtree(dest, ignore_errors=True)
                os.makedirs(os.path.join(dest, 'gen'))
                shutil.copy(libs[0], os.path.join(dest, 'libcellml.a'))
                for l in glob.glob(os.path.join(scratch, 'src', 'libcellml_debug_utilities*.a')):
                    shutil.copy(l, os.path.join(dest, 'libcellml_debug.a'))
                for d, _, fs in os.walk(os.path.join(scratch, 'src')):
                    for f in fs:
                        if f.endswith('.h'):
                            rel = os.path.relpath(os.path.join(d, f), os.path.join(scratch, 'src'))
                            os.makedirs(os.path.dirname(os.path.join(dest, 'gen', rel)), exist_ok=True)
                            shutil.copy(os.path.join(d, f), os.path.join(dest, 'gen', rel))
                # libxml2 / zlib flags as cmake resolved them
                link = ''
                for lf in glob.glob(os.path.join(scratch, 'CMakeCache.txt')):
                    for line in open(lf):
                        if line.startswith('LIBXML2_LIBRARY:') or line.startswith('ZLIB_LIBRARY_RELEASE:'):
                            v = line.strip().split('=', 1)[1]
                            if v and 'NOTFOUND' not in v:
                                link += ' ' + v
                        if line.startswith('LIBXML2_INCLUDE_DIR:'):
                            open(os.path.join(dest, 'xmlinc'), 'w').write(line.strip().split('=', 1)[1])
                open(os.path.join(dest, 'link'), 'w').write(link.strip())
                open(os.path.join(dest, 'ok'), 'w').write('%f' % (time.time() - t0))
            finally:
                shutil.rmtree(scratch, ignore_errors=True)
            # keep the cache small
            # (entries used in the last two hours are kept: another check may be running on them)
            olds = sorted(glob.glob(os.path.join(CACHE, 'lib-*')), key=os.path.getmtime)
            for o in olds[:-3]:
                if o != dest and time.time() - os.path.getmtime(o) > 7200:
                    shutil.rmtree(o, ignore_errors=True)
        os.utime(dest)
    link = open(os.path.join(dest, 'link')).read().split() or ['-lxml2', '-lz']
    # cmake does not always record LIBXML2_LIBRARY / ZLIB_LIBRARY_RELEASE in its cache (config-mode find): complete the line
    if not any('xml2' in l for l in link):
        link = ['-lxml2'] + link
    if not any(l.endswith('libz.so') or l.endswith('libz.a') or l == '-lz' for l in link):
        link = link + ['-lz']
    xmlinc = open(os.path.join(dest, 'xmlinc')).read().strip() if os.path.exists(os.path.join(dest, 'xmlinc')) else '/usr/include/libxml2'
    if os.path.exists(os.path.join(dest, 'libcellml_debug.a')):
        link = [os.path.join(dest, 'libcellml_debug.a')] + link
    return dict(dir=dest, lib=os.path.join(dest, 'libcellml.a'), fp=fp, sanitize=sanitize,
                inc=[os.path.join(REPO, 'src', 'api'), os.path.join(REPO, 'src'), os.path.join(dest, 'gen', 'api'),
                     os.path.join(dest, 'gen'), xmlinc], link=link)


class BuildError(Exception):
    pass


def build_hx(name, lib, extra_src=()):
    """Compile harness/<name>.cpp against the freshly built library."""
    src = os.path.join(ROOT, 'harness', name + '.cpp')
    h = hashlib.sha256()
    for f in [src] + sorted(os.path.join(ROOT, 'harness', x) for x in os.listdir(os.path.join(ROOT, 'harness')) if x.endswith('.h')) + list(extra_src):
        h.update(open(f, 'rb').read())
    out = os.path.join(lib['dir'], 'hx-%s-%s' % (name, h.hexdigest()[:12]))
    with open(os.path.join(CACHE, 'lock-hx-' + name), 'w') as lk:
        fcntl.flock(lk, fcntl.LOCK_EX)
        if not os.path.exists(out):
            cmd = ['g++', '-std=c++17', '-O1', '-D' + GUARD, '-o', out + '.tmp', src] + list(extra_src)
            if lib['sanitize']:
                cmd += ['-fsanitize=address,undefined', '-fno-sanitize-recover=all']
            for i in lib['inc']:
                cmd += ['-I', i]
            cmd += ['-I', os.path.join(ROOT, 'harness'), lib['lib']] + lib['link'] + ['-lpthread']
            r = sh(cmd)
            if r.returncode != 0:
                raise BuildError('harness %s does not compile against the current tree:\n%s' % (name, r.stdout[-6000:]))
            os.rename(out + '.tmp', out)
    return out


# ---------------------------------------------------------------------------------------------
# Lean: build, audit

def lean_dir_for(generated=None):
    """`generated`: {relative path under lean/: new content}.  If every file equals the committed
    baseline the package in /verif/lean is used; otherwise a private copy (with its .lake, so only
    the dependants rebuild) is made under a scratch directory and returned with cleanup=True."""
    generated = generated or {}
    changed = {}
    for rel, content in generated.items():
        p = os.path.join(LEAN, rel)
        old = open(p).read() if os.path.exists(p) else None
        if old != content:
            changed[rel] = content
    if not changed:
        return LEAN, None, []
    scratch = tempfile.mkdtemp(prefix='verif-lean-')
    d = os.path.join(scratch, 'lean')
    shutil.copytree(LEAN, d, symlinks=True)
    for rel, content in changed.items():
        os.makedirs(os.path.dirname(os.path.join(d, rel)), exist_ok=True)
        open(os.path.join(d, rel), 'w').write(content)
    return d, scratch, sorted(changed)


def lake_build(leandir, targets):
    with open(os.path.join(CACHE, 'lock-lake'), 'w') as lk:
        if leandir == LEAN:
            fcntl.flock(lk, fcntl.LOCK_EX)
        r = sh(['lake', 'build'] + list(targets), cwd=leandir)
    return r.returncode == 0, r.stdout


def theorem_names(leandir, prop):
    """names of the theorems in Props/<prop>.lean (the property obligations)"""
    src = open(os.path.join(leandir, 'Cellml', 'Props', prop + '.lean')).read()
    src_nc = strip_comments(src)
    return re.findall(r'^\s*theorem\s+([A-Za-z0-9_\.\']+)', src_nc, re.M), len(re.findall(r'^\s*example\b', src_nc, re.M))


def strip_comments(s):
    out = []; i = 0; depth = 0
    while i < len(s):
        if s.startswith('/-', i):
            depth += 1; i += 2; continue
        if depth and s.startswith('-/', i):
            depth -= 1; i += 2; continue
        if depth:
            if s[i] == '\n': out.append('\n')
            i += 1; continue
        if s.startswith('--', i):
            while i < len(s) and s[i] != '\n': i += 1
            continue
        out.append(s[i]); i += 1
    return ''.join(out)


def lean_sources(leandir):
    res = []
    for d, _, fs in os.walk(os.path.join(leandir, 'Cellml')):
        for f in fs:
            if f.endswith('.lean'):
                res.append(os.path.join(d, f))
    res.append(os.path.join(leandir, 'Cellml.lean'))
    return sorted(res)


def audit(leandir, prop):
    """forbidden-construct grep over the library + `#print axioms` of every property theorem.
    returns (ok, obligations, discharged, details)"""
    details = []
    bad = []
    for f in lean_sources(leandir):
        body = strip_comments(open(f).read())
        for m in FORBIDDEN.finditer(body):
            bad.append('%s: %s' % (os.path.relpath(f, leandir), m.group(0).strip()))
    names, nex = theorem_names(leandir, prop)
    ns = 'Cellml.Props.%s' % prop
    tmp = os.path.join(leandir, '.audit_%s_%d.lean' % (prop, os.getpid()))
    with open(tmp, 'w') as fh:
        fh.write('import Cellml.Props.%s\n' % prop)
        for n in names:
            fh.write('#print axioms %s.%s\n' % (ns, n))
    r = sh(['lake', 'env', 'lean', tmp], cwd=leandir)
    os.unlink(tmp)
    out = r.stdout
    discharged = 0
    per = {}
    for n in names:
        full = '%s.%s' % (ns, n)
        m = re.search(r"'%s' depends on axioms: \[([^\]]*)\]" % re.escape(full), out.replace('\n', ' '))
        m0 = re.search(r"'%s' does not depend on any axioms" % re.escape(full), out)
        if m0:
            per[n] = []
        elif m:
            per[n] = [a.strip() for a in m.group(1).split(',') if a.strip()]
        else:
            per[n] = None
        if per[n] is not None and set(per[n]) <= ALLOWED_AXIOMS:
            discharged += 1
        else:
            details.append('theorem %s: axioms %s' % (n, per[n]))
    if bad:
        details += ['forbidden construct: ' + b for b in bad]
    ok = (not bad) and discharged == len(names) and len(names) > 0
    return ok, len(names), discharged, details, per, nex


def drv_path(leandir):
    return os.path.join(leandir, '.lake', 'build', 'bin', 'drv')


# ---------------------------------------------------------------------------------------------
# evidence / verdict

class Check:
    def __init__(self, prop, tier, seed):
        self.prop, self.tier, self.seed = prop, tier, seed
        self.t0 = time.time()
        self.violations = []      # (message, replay path)
        self.known = []           # messages
        self.cov = dict(obligations=0, discharged=0, checker_cmd='', trusted_base=[], evaluations=0,
                        distinct_nontrivial=0, rule='', samples=[], traces_validated_against_impl=0, exhaustive=False)
        self.assumptions = []
        self.scratch = []

    def violation(self, what, replay_obj, found_input):
        os.makedirs(os.path.join(ROOT, 'replays'), exist_ok=True)
        fpr = hashlib.sha256(json.dumps(replay_obj, sort_keys=True).encode()).hexdigest()[:12]
        path = os.path.join(ROOT, 'replays', '%s-%s.json' % (self.prop, fpr))
        replay_obj = dict(replay_obj); replay_obj['property'] = self.prop; replay_obj['what'] = what
        replay_obj['failing_input_found'] = bool(found_input)
        json.dump(replay_obj, open(path, 'w'), indent=1)
        if any(v[1] == path for v in self.violations):
            return
        self.violations.append((what, path, found_input))

    def known_finding(self, what):
        if what not in self.known:
            self.known.append(what)

    def finish(self):
        for s in self.scratch:
            shutil.rmtree(s, ignore_errors=True)
        ev = dict(property_id=self.prop, tier=self.tier, seed=self.seed, level='proof', coverage=self.cov,
                  assumptions=self.assumptions, wall_s=round(time.time() - self.t0, 2), violations=len(self.violations))
        ev['coverage']['known_findings_reported'] = list(self.known)
        os.makedirs(os.path.join(ROOT, 'evidence'), exist_ok=True)
        json.dump(ev, open(os.path.join(ROOT, 'evidence', self.prop + '.json'), 'w'), indent=1)
        for k in self.known:
            log('KNOWN-FINDING: property=%s %s' % (self.prop, k))
        for what, path, found in self.violations:
            log('  violation detail: ' + what)
            log('VIOLATION property=%s replay=%s%s' % (self.prop, path, '' if found else ' no-failing-input-found'))
        if self.violations:
            return 1
        log('OK property=%s tier=%s obligations=%d discharged=%d evaluations=%d wall=%.1fs' % (
            self.prop, self.tier, self.cov['obligations'], self.cov['discharged'], self.cov['evaluations'], time.time() - self.t0))
        return 0


def known_findings():
    p = os.path.join(ROOT, 'known_findings.json')
    return json.load(open(p)) if os.path.exists(p) else {'findings': [], 'fixed': []}


def run_lines(exe, args, lines, timeout=600, env=None):
    """feed wire lines to an engine, return its output lines (one per input line expected)"""
    data = ''.join(l + '\n' for l in lines)
    r = subprocess.run([exe] + list(args), input=data, stdout=subprocess.PIPE, stderr=subprocess.PIPE, text=True,
                       timeout=timeout, env=env)
    return r.returncode, r.stdout.split('\n')[:-1] if r.stdout.endswith('\n') else r.stdout.split('\n'), r.stderr


def run_lines_parallel(exe, args, lines, nproc=16, timeout=3000):
    """like run_lines for stateless engines: the lines are split into contiguous chunks run concurrently"""
    from concurrent.futures import ThreadPoolExecutor
    if len(lines) < 2 * nproc:
        return run_lines(exe, args, lines, timeout=timeout)
    k = (len(lines) + nproc - 1) // nproc
    chunks = [lines[i:i + k] for i in range(0, len(lines), k)]
    with ThreadPoolExecutor(nproc) as ex:
        res = list(ex.map(lambda c: run_lines(exe, args, c, timeout=timeout), chunks))
    rc = max(r[0] for r in res)
    out = [l for r in res for l in r[1]]
    err = ''.join(r[2] for r in res)
    return rc, out, err


def hexs(s):
    if isinstance(s, str):
        s = s.encode('utf-8')
    return s.hex() or '-'


def standard_lean(chk, prop, generated=None, extra_targets=()):
    """steps 1–3 of every check: (re)generated tables, kernel re-check, audit.
    Returns (leandir, ok, build_log, changed_tables)."""
    leandir, scratch, changed = lean_dir_for(generated)
    if scratch:
        chk.scratch.append(scratch)
    ok, out = lake_build(leandir, ['Cellml.Props.' + prop, 'drv'] + list(extra_targets))
    names, nex = theorem_names(leandir, prop)
    chk.cov['obligations'] = len(names)
    chk.cov['checker_cmd'] = 'lake build Cellml.Props.%s && lake env lean <#print axioms of every theorem in Props/%s.lean> (Lean 4.33 kernel)' % (prop, prop)
    chk.cov['nonvacuity_examples'] = nex
    chk.cov['regenerated_tables_changed'] = changed
    if not ok:
        chk.cov['discharged'] = 0
        return leandir, False, out, changed
    aok, nob, ndis, details, per, nex = audit(leandir, prop)
    chk.cov['obligations'], chk.cov['discharged'] = nob, ndis
    chk.cov['axioms_per_theorem'] = per
    chk.cov['trusted_base'] = ['Lean 4.33 kernel', 'axioms: ' + ', '.join(sorted({a for v in per.values() if v for a in v}) or ['none'])]
    if not aok:
        return leandir, False, '\n'.join(details), changed
    return leandir, True, out, changed
