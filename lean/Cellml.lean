import Cellml.Num.Model
import Cellml.Num.Spec
import Cellml.Num.Proofs
import Cellml.Num.Proofs2
import Cellml.Num.Proofs3
import Cellml.Props.C16
