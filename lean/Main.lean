import Cellml.Engine.Num
import Cellml.Engine.Logger
import Cellml.Engine.Equiv
import Cellml.Engine.Units
import Cellml.Engine.Equals
import Cellml.Engine.Annot
import Cellml.Engine.Repair
import Cellml.Engine.Clone
import Cellml.Engine.Heap
import Cellml.Engine.Expr
import Cellml.Engine.Struct
import Cellml.Engine.Analyse
import Cellml.Engine.Xml
import Cellml.Engine.Attrs
import Cellml.Engine.Legacy
import Cellml.Engine.Valid
import Cellml.Engine.World
import Cellml.Engine.Flatten
import Cellml.Engine.Purity
import Cellml.Engine.Crash
open Cellml

/-- line-protocol loop: one answer per input line -/
partial def loop (h : IO.FS.Stream) (out : IO.FS.Stream) (f : String → String) : IO Unit := do
  let line ← h.getLine
  if line.isEmpty then return ()
  let l := (line.dropEndWhile (fun c => c = '\n' || c = '\r')).toString
  out.putStrLn (f l)
  loop h out f

/-- stateful line loop -/
partial def loopS {σ : Type} (h : IO.FS.Stream) (out : IO.FS.Stream) (f : σ → String → σ × String) (st : σ) : IO Unit := do
  let line ← h.getLine
  if line.isEmpty then return ()
  let l := (line.dropEndWhile (fun c => c = '\n' || c = '\r')).toString
  let (st', o) := f st l
  out.putStrLn o
  loopS h out f st'

def numLine (l : String) : String :=
  match Wire.fromHex l.trimAscii.toString with
  | some s => Engine.Num.answer s
  | none => "bad-line"

def main (args : List String) : IO UInt32 := do
  let stdin ← IO.getStdin
  let stdout ← IO.getStdout
  match args with
  | ["numpos"] => loop stdin stdout Engine.Num.posAnswer; return 0
  | ["num"] => loop stdin stdout numLine; return 0
  | ["valid"] => loop stdin stdout Engine.Valid.answer; return 0
  | ["world"] => loop stdin stdout Engine.World.answer; return 0
  | ["flatten"] => loop stdin stdout Engine.Flatten.answer; return 0
  | ["purity"] => loop stdin stdout Engine.Purity.answer; return 0
  | ["walk"] => loop stdin stdout Engine.Crash.answer; return 0
  | ["legacy"] => loop stdin stdout Engine.Legacy.answer; return 0
  | ["xml"] => loop stdin stdout Engine.Xml.answer; return 0
  | ["attrs"] => loop stdin stdout Engine.Attrs.answer; return 0
  | ["analyse"] => loop stdin stdout Engine.Analyse.answer; return 0
  | ["struct"] => loop stdin stdout Engine.Struct.answer; return 0
  | ["expr"] => loop stdin stdout Engine.Expr.answer; return 0
  | ["heap"] => loop stdin stdout Engine.Heap.answer; return 0
  | ["clone"] => loop stdin stdout Engine.Clone.answer; return 0
  | ["repair"] => loop stdin stdout Engine.Repair.answer; return 0
  | ["annot"] => loop stdin stdout Engine.Annot.answer; return 0
  | ["equals"] => loop stdin stdout Engine.Equals.answer; return 0
  | ["units"] => loop stdin stdout Engine.Units.answer; return 0
  | ["equiv"] => loop stdin stdout Engine.Equiv.answer; return 0
  | ["logger"] => loopS stdin stdout Engine.Logger.stepLine ([] : Engine.Logger.Loggers); return 0
  | ["num-enum", n] =>
    let n := n.toNat!
    for k in List.range (n + 1) do
      for s in Engine.Num.stringsOfLen k do
        stdout.putStrLn (Engine.Num.answer s)
    return 0
  | _ => IO.eprintln "usage: drv <engine> [args]"; return 2
