import Cellml.Engine.Num
open Cellml

/-- line-protocol loop: one answer per input line -/
partial def loop (h : IO.FS.Stream) (out : IO.FS.Stream) (f : String → String) : IO Unit := do
  let line ← h.getLine
  if line.isEmpty then return ()
  let l := (line.dropEndWhile (fun c => c = '\n' || c = '\r')).toString
  out.putStrLn (f l)
  loop h out f

def numLine (l : String) : String :=
  match Wire.fromHex l.trimAscii.toString with
  | some s => Engine.Num.answer s
  | none => "bad-line"

def main (args : List String) : IO UInt32 := do
  let stdin ← IO.getStdin
  let stdout ← IO.getStdout
  match args with
  | ["num"] => loop stdin stdout numLine; return 0
  | ["num-enum", n] =>
    let n := n.toNat!
    for k in List.range (n + 1) do
      for s in Engine.Num.stringsOfLen k do
        stdout.putStrLn (Engine.Num.answer s)
    return 0
  | _ => IO.eprintln "usage: drv <engine> [args]"; return 2
