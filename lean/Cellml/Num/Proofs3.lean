/-
  C16 — accepted text satisfies the preconditions of `std::stod` / `std::stoi`.
-/
import Cellml.Num.Proofs2
namespace Cellml.Num

theorem mantissa_shape {b : List Char} (h : SpecMantissa b) :
    (∃ c r, b = c :: r ∧ isDigit c = true) ∨ (∃ d r, b = '.' :: d :: r ∧ isDigit d = true) := by
  cases b with
  | nil => exact absurd rfl (specMantissa_ne_nil h)
  | cons c r =>
    rcases h.1 c List.mem_cons_self with hc | hc
    · exact Or.inl ⟨c, r, rfl, hc⟩
    · subst hc
      right
      have hcount : r.count '.' = 0 := by
        have := h.2.1; simp only [List.count_cons_self] at this; omega
      have hnd : '.' ∉ r := List.count_eq_zero.mp hcount
      obtain ⟨x, hx, hxd⟩ := h.2.2
      have hxr : x ∈ r := by
        rcases List.mem_cons.mp hx with rfl | hx
        · exact absurd hxd (by decide)
        · exact hx
      cases r with
      | nil => cases hxr
      | cons d r' =>
        refine ⟨d, r', rfl, ?_⟩
        rcases h.1 d (by simp) with hd | hd
        · exact hd
        · subst hd; exact absurd List.mem_cons_self hnd

theorem stodAccepts_of_mantissa_prefix {b rest : List Char} (h : SpecMantissa b) :
    stodAccepts (b ++ rest) = true ∧ stodAccepts ('-' :: (b ++ rest)) = true := by
  rcases mantissa_shape h with ⟨c, r, rfl, hc⟩ | ⟨d, r, rfl, hd⟩
  · have hsp := isDigit_not_space hc
    have h1 := isDigit_ne_minus hc
    have h2 := isDigit_ne_plus hc
    constructor
    · simp only [stodAccepts, List.cons_append, List.dropWhile_cons, hsp, Bool.false_eq_true, if_false,
        dropSign, h1, h2, decide_false, Bool.or_self]
      cases r ++ rest <;> simp [hc]
    · simp only [stodAccepts, List.cons_append, List.dropWhile_cons]
      have : isSpace '-' = false := by decide
      simp only [this, Bool.false_eq_true, if_false, dropSign, decide_true, Bool.true_or, if_true]
      cases r ++ rest <;> simp [hc]
  · constructor
    · have : isSpace '.' = false := by decide
      simp [stodAccepts, this, dropSign, hd]
    · have : isSpace '-' = false := by decide
      simp [stodAccepts, this, dropSign, hd]

theorem stodAccepts_of_basic_prefix {s rest : List Char} (h : SpecBasicReal s) :
    stodAccepts (s ++ rest) = true := by
  obtain ⟨sign, b, hs, rfl, hb⟩ := h
  rcases hs with rfl | rfl
  · simpa using (stodAccepts_of_mantissa_prefix (rest := rest) hb).1
  · simpa using (stodAccepts_of_mantissa_prefix (rest := rest) hb).2

theorem stodAccepts_of_specReal {s : List Char} (h : SpecReal s) : stodAccepts s = true := by
  rcases h with h | ⟨sig, e, ex, _, rfl, hsig, _⟩
  · simpa using stodAccepts_of_basic_prefix (rest := []) h
  · exact stodAccepts_of_basic_prefix hsig

theorem stoiAccepts_of_specInt {s : List Char} (h : SpecInt s) : stoiAccepts s = true := by
  obtain ⟨sign, ds, hs, rfl, hne, hd⟩ := h
  cases ds with
  | nil => exact absurd rfl hne
  | cons c r =>
    have hc : isDigit c = true := hd c List.mem_cons_self
    have hsp := isDigit_not_space hc
    have h1 := isDigit_ne_minus hc
    have h2 := isDigit_ne_plus hc
    rcases hs with rfl | rfl | rfl
    · simp [stoiAccepts, hsp, dropSign, h1, h2, hc]
    · have : isSpace '-' = false := by decide
      simp [stoiAccepts, this, dropSign, hc]
    · have : isSpace '+' = false := by decide
      simp [stoiAccepts, this, dropSign, hc]

theorem plus_not_mantissa_char : ¬ (isDigit '+' = true ∨ '+' = '.') := by decide

/-- a basic real is never empty and never starts with `+` -/
theorem basicReal_head (s : List Char) (h : SpecBasicReal s) : s ≠ [] ∧ s.head? ≠ some '+' := by
  obtain ⟨sign, b, hs, rfl, hall, _, c, hc, hd⟩ := h
  have hb : b ≠ [] := by intro hb; subst hb; simp at hc
  rcases hs with rfl | rfl
  · refine ⟨by simpa using hb, ?_⟩
    cases b with
    | nil => exact absurd rfl hb
    | cons x xs =>
      intro hx
      simp at hx
      subst hx
      exact plus_not_mantissa_char (hall '+' (by simp))
  · exact ⟨by simp, by simp⟩

end Cellml.Num
