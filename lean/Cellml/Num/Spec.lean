/-
  C16 — the grammar of the property statement, written independently of the code:

  * CellML integer: an optional sign followed by one or more digits;
  * CellML real: an optional minus sign followed by at least one decimal digit with at most one
    decimal point, optionally followed by `e`/`E` and an optionally signed integer.
-/
import Cellml.Num.Model
namespace Cellml.Num

def AllDigits (s : List Char) : Prop := ∀ c ∈ s, isDigit c = true

/-- optional sign, one or more digits -/
def SpecInt (s : List Char) : Prop :=
  ∃ sign ds, (sign = [] ∨ sign = ['-'] ∨ sign = ['+']) ∧ s = sign ++ ds ∧ ds ≠ [] ∧ AllDigits ds

/-- digits with at most one decimal point and at least one digit -/
def SpecMantissa (b : List Char) : Prop :=
  (∀ c ∈ b, isDigit c = true ∨ c = '.') ∧ b.count '.' ≤ 1 ∧ (∃ c ∈ b, isDigit c = true)

/-- optional minus sign, then a mantissa -/
def SpecBasicReal (s : List Char) : Prop :=
  ∃ sign b, (sign = [] ∨ sign = ['-']) ∧ s = sign ++ b ∧ SpecMantissa b

/-- basic real, optionally followed by `e`/`E` and an integer -/
def SpecReal (s : List Char) : Prop :=
  SpecBasicReal s ∨ ∃ sig e ex, (e = 'e' ∨ e = 'E') ∧ s = sig ++ e :: ex ∧ SpecBasicReal sig ∧ SpecInt ex

/-- the degenerate texts the pinned recogniser accepted in addition: no digit in the mantissa -/
def DegenerateMantissa (s : List Char) : Prop := s = ['-'] ∨ s = ['.'] ∨ s = ['-', '.']

end Cellml.Num
