/-
  C16 — lemmas relating the recogniser models to the grammar.
-/
import Cellml.Num.Spec
namespace Cellml.Num

theorem isDigit_ne_dot {c : Char} (h : isDigit c = true) : c ≠ '.' := by
  intro hc; subst hc; revert h; decide
theorem isDigit_ne_minus {c : Char} (h : isDigit c = true) : c ≠ '-' := by
  intro hc; subst hc; revert h; decide
theorem isDigit_ne_plus {c : Char} (h : isDigit c = true) : c ≠ '+' := by
  intro hc; subst hc; revert h; decide
theorem isDigit_ne_e {c : Char} (h : isDigit c = true) : c ≠ 'e' := by
  intro hc; subst hc; revert h; decide
theorem isDigit_ne_E {c : Char} (h : isDigit c = true) : c ≠ 'E' := by
  intro hc; subst hc; revert h; decide
theorem isDigit_not_space {c : Char} (h : isDigit c = true) : isSpace c = false := by
  simp only [isDigit, Bool.or_eq_true, decide_eq_true_eq] at h
  rcases h with ((((((((h|h)|h)|h)|h)|h)|h)|h)|h)|h <;> subst h <;> decide

/-- the mantissa test shared by both branches of `isCellMLBasicReal` -/
def mantOK (needDigit : Bool) (b : List Char) : Bool :=
  decide (b.count '.' < 2) && ((b.erase '.').all isDigit && (!needDigit || !(b.erase '.').isEmpty))

theorem erase_dot_of_count_ne_one (s : List Char) (h : ¬ s.count '.' = 1) (h2 : s.count '.' < 2) :
    s.erase '.' = s := by
  have : s.count '.' = 0 := by omega
  exact List.erase_of_not_mem (List.count_eq_zero.mp this)

theorem basicRealWith_eq (nd : Bool) (s : List Char) :
    basicRealWith nd s = match s with
      | [] => false
      | '-' :: r => mantOK nd r
      | c :: r => mantOK nd (c :: r) := by
  cases s with
  | nil => simp [basicRealWith]
  | cons c r =>
    by_cases hc : c = '-'
    · subst hc
      have hne : ('-' : Char) ≠ '.' := by decide
      have hcount : ('-' :: r).count '.' = r.count '.' := by
        rw [List.count_cons]; simp
      simp only [basicRealWith, List.isEmpty_cons, Bool.false_eq_true, if_false, hcount, List.head?_cons,
        if_true, mantOK]
      by_cases h2 : r.count '.' < 2
      · have herase : ('-' :: r).erase '.' = '-' :: r.erase '.' := by
          rw [List.erase_cons]; simp
        by_cases h1 : r.count '.' = 1
        · simp [h2, h1, herase]
        · have := erase_dot_of_count_ne_one r h1 h2
          simp [h2, h1, this]
      · simp [h2]
    · have hhead : ((c :: r).head? = some '-') = False := by simp [hc]
      have : (match c :: r with
        | [] => false
        | '-' :: r => mantOK nd r
        | c :: r => mantOK nd (c :: r)) = mantOK nd (c :: r) := by
        split
        · rename_i h; cases h
        · rename_i h; cases h; exact absurd rfl hc
        · rename_i h; cases h; rfl
      rw [this]
      simp only [basicRealWith, List.isEmpty_cons, Bool.false_eq_true, if_false, hhead, mantOK]
      by_cases h2 : (c :: r).count '.' < 2
      · by_cases h1 : (c :: r).count '.' = 1
        · simp [h2, h1]
        · have := erase_dot_of_count_ne_one (c :: r) h1 h2
          simp [h2, h1, this]
      · simp [h2]

/-- the digits-and-dots part of the mantissa test -/
theorem erase_all_iff (b : List Char) :
    (b.count '.' < 2 ∧ (b.erase '.').all isDigit = true) ↔
    ((∀ c ∈ b, isDigit c = true ∨ c = '.') ∧ b.count '.' ≤ 1) := by
  induction b with
  | nil => simp
  | cons c r ih =>
    by_cases hc : c = '.'
    · subst hc
      simp only [List.erase_cons_head, List.count_cons_self, List.all_eq_true, List.mem_cons,
        forall_eq_or_imp, or_true, true_and]
      constructor
      · rintro ⟨h2, hall⟩
        exact ⟨fun x hx => Or.inl (hall x hx), by omega⟩
      · rintro ⟨hall, h1⟩
        have h0 : r.count '.' = 0 := by omega
        have hnm : '.' ∉ r := List.count_eq_zero.mp h0
        refine ⟨by omega, fun x hx => ?_⟩
        rcases hall x hx with h | h
        · exact h
        · subst h; exact absurd hx hnm
    · have hcount : (c :: r).count '.' = r.count '.' := by
        rw [List.count_cons]; simp [hc]
      have herase : (c :: r).erase '.' = c :: r.erase '.' := by
        rw [List.erase_cons]; simp [hc]
      rw [hcount, herase]
      simp only [List.all_cons, Bool.and_eq_true, List.mem_cons, forall_eq_or_imp, hc, or_false]
      constructor
      · rintro ⟨h2, hd, hall⟩
        have := ih.mp ⟨h2, hall⟩
        exact ⟨⟨hd, this.1⟩, this.2⟩
      · rintro ⟨⟨hd, hall⟩, h1⟩
        have := ih.mpr ⟨hall, h1⟩
        exact ⟨this.1, hd, this.2⟩

theorem erase_nonempty_iff (b : List Char) (hall : (b.erase '.').all isDigit = true) :
    (b.erase '.').isEmpty = false ↔ ∃ c ∈ b, isDigit c = true := by
  constructor
  · intro h
    cases he : b.erase '.' with
    | nil => simp [he] at h
    | cons x xs =>
      have hx : x ∈ b.erase '.' := by rw [he]; exact List.mem_cons_self
      exact ⟨x, List.mem_of_mem_erase hx, List.all_eq_true.mp hall x hx⟩
  · rintro ⟨c, hc, hd⟩
    have : c ∈ b.erase '.' := (List.mem_erase_of_ne (isDigit_ne_dot hd)).mpr hc
    cases he : b.erase '.' with
    | nil => rw [he] at this; cases this
    | cons _ _ => rfl

end Cellml.Num
