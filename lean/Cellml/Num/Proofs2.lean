/-
  C16 — recognisers = grammar.
-/
import Cellml.Num.Proofs
namespace Cellml.Num

theorem mantOK_true_iff (b : List Char) : mantOK true b = true ↔ SpecMantissa b := by
  unfold mantOK SpecMantissa
  simp only [Bool.and_eq_true, decide_eq_true_eq, Bool.not_true, Bool.false_or, Bool.not_eq_true']
  constructor
  · rintro ⟨h2, hall, hne⟩
    have h := (erase_all_iff b).mp ⟨h2, hall⟩
    exact ⟨h.1, h.2, (erase_nonempty_iff b hall).mp hne⟩
  · rintro ⟨h1, h2, h3⟩
    have h := (erase_all_iff b).mpr ⟨h1, h2⟩
    exact ⟨h.1, h.2, (erase_nonempty_iff b h.2).mpr h3⟩

theorem specMantissa_head_ne_minus {c : Char} {r : List Char} (h : SpecMantissa (c :: r)) : c ≠ '-' := by
  rcases h.1 c List.mem_cons_self with hd | hd
  · exact isDigit_ne_minus hd
  · subst hd; decide

theorem specMantissa_ne_nil {b : List Char} (h : SpecMantissa b) : b ≠ [] := by
  obtain ⟨c, hc, _⟩ := h.2.2
  intro hb; subst hb; cases hc

/-- C16-1 (basic form): `isCellMLBasicReal` = optional minus, digits with ≤ 1 point and ≥ 1 digit -/
theorem basicReal_iff (s : List Char) : basicReal s = true ↔ SpecBasicReal s := by
  unfold basicReal
  rw [basicRealWith_eq]
  constructor
  · intro h
    split at h
    · cases h
    · rename_i r
      exact ⟨['-'], r, Or.inr rfl, rfl, (mantOK_true_iff r).mp h⟩
    · rename_i c r _
      exact ⟨[], c :: r, Or.inl rfl, rfl, (mantOK_true_iff _).mp h⟩
  · rintro ⟨sign, b, hs, rfl, hb⟩
    rcases hs with rfl | rfl
    · cases b with
      | nil => exact absurd rfl (specMantissa_ne_nil hb)
      | cons c r =>
        have hc := specMantissa_head_ne_minus hb
        simp only [List.nil_append]
        first
          | exact (mantOK_true_iff _).mpr hb
          | (split
             · rename_i h; cases h
             · rename_i h; cases h; exact absurd rfl hc
             · rename_i h; cases h; exact (mantOK_true_iff _).mpr hb)
    · simp only [List.cons_append, List.nil_append]
      exact (mantOK_true_iff _).mpr hb

theorem nonNegInt_iff (s : List Char) : nonNegInt s = true ↔ s ≠ [] ∧ AllDigits s := by
  unfold nonNegInt AllDigits
  cases s <;> simp

/-- C16-2: `isCellMLInteger` = optional sign, one or more digits -/
theorem cellmlInt_iff (s : List Char) : cellmlInt s = true ↔ SpecInt s := by
  constructor
  · intro h
    cases s with
    | nil => simp [cellmlInt] at h
    | cons c r =>
      simp only [cellmlInt] at h
      split at h
      · rename_i hc
        have h' := (nonNegInt_iff r).mp h
        simp only [Bool.or_eq_true, decide_eq_true_eq] at hc
        rcases hc with rfl | rfl
        · exact ⟨['-'], r, Or.inr (Or.inl rfl), rfl, h'.1, h'.2⟩
        · exact ⟨['+'], r, Or.inr (Or.inr rfl), rfl, h'.1, h'.2⟩
      · have h' := (nonNegInt_iff (c :: r)).mp h
        exact ⟨[], c :: r, Or.inl rfl, rfl, h'.1, h'.2⟩
  · rintro ⟨sign, ds, hs, rfl, hne, hd⟩
    rcases hs with rfl | rfl | rfl
    · cases ds with
      | nil => exact absurd rfl hne
      | cons c r =>
        have hc : isDigit c = true := hd c List.mem_cons_self
        have h1 := isDigit_ne_minus hc
        have h2 := isDigit_ne_plus hc
        simp only [List.nil_append, cellmlInt, h1, h2, decide_false, Bool.or_self, Bool.false_eq_true,
          if_false]
        exact (nonNegInt_iff _).mpr ⟨hne, hd⟩
    · simp only [List.cons_append, List.nil_append, cellmlInt, decide_true, Bool.true_or, if_true]
      exact (nonNegInt_iff _).mpr ⟨hne, hd⟩
    · simp only [List.cons_append, List.nil_append, cellmlInt, decide_true, Bool.or_true, if_true]
      exact (nonNegInt_iff _).mpr ⟨hne, hd⟩

/-! ### the `e` split -/

/-- characters of a basic real -/
theorem specBasicReal_chars {s : List Char} (h : SpecBasicReal s) :
    ∀ c ∈ s, isDigit c = true ∨ c = '.' ∨ c = '-' := by
  obtain ⟨sign, b, hs, rfl, hb⟩ := h
  intro c hc
  rcases List.mem_append.mp hc with h | h
  · rcases hs with rfl | rfl
    · cases h
    · simp at h; exact Or.inr (Or.inr h)
  · rcases hb.1 c h with h | h
    · exact Or.inl h
    · exact Or.inr (Or.inl h)

theorem specInt_chars {s : List Char} (h : SpecInt s) :
    ∀ c ∈ s, isDigit c = true ∨ c = '+' ∨ c = '-' := by
  obtain ⟨sign, ds, hs, rfl, _, hd⟩ := h
  intro c hc
  rcases List.mem_append.mp hc with h | h
  · rcases hs with rfl | rfl | rfl
    · cases h
    · simp at h; exact Or.inr (Or.inr h)
    · simp at h; exact Or.inr (Or.inl h)
  · exact Or.inl (hd c h)

/-- a text without `e`/`E` -/
def NoE (s : List Char) : Prop := ∀ c ∈ s, c ≠ 'e' ∧ c ≠ 'E'

theorem noE_of_basic {s : List Char} (h : SpecBasicReal s) : NoE s := by
  intro c hc
  rcases specBasicReal_chars h c hc with h | h | h
  · exact ⟨isDigit_ne_e h, isDigit_ne_E h⟩
  · subst h; decide
  · subst h; decide

theorem noE_of_int {s : List Char} (h : SpecInt s) : NoE s := by
  intro c hc
  rcases specInt_chars h c hc with h | h | h
  · exact ⟨isDigit_ne_e h, isDigit_ne_E h⟩
  · subst h; decide
  · subst h; decide

theorem normE_of_noE {s : List Char} (h : NoE s) : normE s = s := by
  unfold normE
  induction s with
  | nil => rfl
  | cons c r ih =>
    have hc := h c List.mem_cons_self
    simp only [List.map_cons, hc.2, if_false]
    rw [ih (fun x hx => h x (List.mem_cons_of_mem _ hx))]

theorem count_e_of_noE {s : List Char} (h : NoE s) : s.count 'e' = 0 :=
  List.count_eq_zero.mpr (fun hm => (h 'e' hm).1 rfl)

theorem normE_append (a b : List Char) : normE (a ++ b) = normE a ++ normE b := by
  simp [normE]

theorem takeWhile_ne_append {a : List Char} {b : List Char} (h : ∀ c ∈ a, c ≠ 'e') :
    (a ++ 'e' :: b).takeWhile (· ≠ 'e') = a := by
  induction a with
  | nil => simp [List.takeWhile]
  | cons c r ih =>
    have hc := h c List.mem_cons_self
    simp only [List.cons_append, List.takeWhile_cons, hc, ne_eq, not_false_eq_true, decide_true, if_true]
    rw [ih (fun x hx => h x (List.mem_cons_of_mem _ hx))]

theorem dropWhile_ne_append {a : List Char} {b : List Char} (h : ∀ c ∈ a, c ≠ 'e') :
    (a ++ 'e' :: b).dropWhile (· ≠ 'e') = 'e' :: b := by
  induction a with
  | nil => simp [List.dropWhile]
  | cons c r ih =>
    have hc := h c List.mem_cons_self
    simp only [List.cons_append, List.dropWhile_cons, hc, ne_eq, not_false_eq_true, decide_true, if_true]
    rw [ih (fun x hx => h x (List.mem_cons_of_mem _ hx))]

/-- splitting a list with exactly one `e` -/
theorem split_at_e (n : List Char) (h : n.count 'e' = 1) :
    n = n.takeWhile (· ≠ 'e') ++ 'e' :: (n.dropWhile (· ≠ 'e')).drop 1 ∧
    (∀ c ∈ n.takeWhile (· ≠ 'e'), c ≠ 'e') ∧
    ((n.dropWhile (· ≠ 'e')).drop 1).count 'e' = 0 := by
  induction n with
  | nil => simp at h
  | cons c r ih =>
    by_cases hc : c = 'e'
    · subst hc
      simp only [List.count_cons_self] at h
      have h0 : r.count 'e' = 0 := by omega
      simp [List.takeWhile, List.dropWhile, h0]
    · have hcount : (c :: r).count 'e' = r.count 'e' := by
        rw [List.count_cons]; simp [hc]
      rw [hcount] at h
      obtain ⟨h1, h2, h3⟩ := ih h
      simp only [List.takeWhile_cons, List.dropWhile_cons, ne_eq, hc, not_false_eq_true, decide_true, if_true]
      refine ⟨?_, ?_, h3⟩
      · simp only [List.cons_append]; rw [← h1]
      · intro x hx
        rcases List.mem_cons.mp hx with rfl | hx
        · exact hc
        · exact h2 x hx

/-- `normE` pre-image of a split -/
theorem normE_split {s a b : List Char} (h : normE s = a ++ 'e' :: b) :
    ∃ a' e b', s = a' ++ e :: b' ∧ normE a' = a ∧ (e = 'e' ∨ e = 'E') ∧ normE b' = b := by
  induction a generalizing s with
  | nil =>
    cases s with
    | nil => simp [normE] at h
    | cons c r =>
      simp only [normE, List.map_cons, List.nil_append, List.cons.injEq] at h
      refine ⟨[], c, r, rfl, rfl, ?_, h.2⟩
      by_cases hc : c = 'E'
      · exact Or.inr hc
      · simp [hc] at h; exact Or.inl h.1
  | cons x a ih =>
    cases s with
    | nil => simp [normE] at h
    | cons c r =>
      simp only [normE, List.map_cons, List.cons_append, List.cons.injEq] at h
      obtain ⟨a', e, b', hr, ha, he, hb⟩ := ih (s := r) h.2
      refine ⟨c :: a', e, b', by simp [hr], ?_, he, hb⟩
      simp [normE, h.1]; exact ha

theorem normE_noE_eq {s : List Char} (h : ∀ c ∈ normE s, c ≠ 'e') : normE s = s := by
  apply normE_of_noE
  intro c hc
  have hm : (if c = 'E' then 'e' else c) ∈ normE s := List.mem_map.mpr ⟨c, hc, rfl⟩
  by_cases hE : c = 'E'
  · simp [hE] at hm; exact absurd rfl (h 'e' (by simpa [hE] using hm))
  · simp [hE] at hm
    exact ⟨h c hm, hE⟩

/-- C16-1: `isCellMLReal` accepts exactly the CellML reals of the statement -/
theorem cellmlReal_iff (s : List Char) : cellmlReal s = true ↔ SpecReal s := by
  constructor
  · intro h
    unfold cellmlReal cellmlRealWith at h
    split at h
    · cases h
    · simp only at h
      split at h
      · rename_i hk
        split at h
        · rename_i hk1
          obtain ⟨hsplit, hpre, hpost⟩ := split_at_e (normE s) hk1
          simp only [Bool.and_eq_true] at h
          obtain ⟨a', e, b', hs, ha, he, hb⟩ := normE_split hsplit
          have hsig := (basicReal_iff _).mp h.1
          have hex := (cellmlInt_iff _).mp h.2
          have ha' : normE a' = a' := normE_noE_eq (by rw [ha]; exact hpre)
          have hb' : normE b' = b' := normE_noE_eq (by
            rw [hb]; intro c hc hce; subst hce
            exact absurd hc (List.count_eq_zero.mp hpost))
          right
          refine ⟨a', e, b', he, hs, ?_, ?_⟩
          · rw [← ha', ha]; exact hsig
          · rw [← hb', hb]; exact hex
        · rename_i hk1
          have h0 : (normE s).count 'e' = 0 := by omega
          have hn : normE s = s := normE_noE_eq (fun c hc hce => by
            subst hce; exact absurd hc (List.count_eq_zero.mp h0))
          left
          rw [hn] at h
          exact (basicReal_iff _).mp h
      · cases h
  · intro h
    rcases h with h | ⟨sig, e, ex, he, rfl, hsig, hex⟩
    · have hne : s ≠ [] := by
        obtain ⟨sign, b, _, rfl, hb⟩ := h
        have := specMantissa_ne_nil hb
        intro h'; simp at h'; exact this h'.2
      have hn := normE_of_noE (noE_of_basic h)
      have hc := count_e_of_noE (noE_of_basic h)
      unfold cellmlReal cellmlRealWith
      simp only [hn, hc]
      cases s with
      | nil => exact absurd rfl hne
      | cons c r =>
        simp only [List.isEmpty_cons, Bool.false_eq_true, if_false]
        exact (basicReal_iff _).mpr h
    · have hn1 := normE_of_noE (noE_of_basic hsig)
      have hn2 := normE_of_noE (noE_of_int hex)
      have hne : normE (e :: ex) = 'e' :: ex := by
        rcases he with rfl | rfl <;> simp [normE] <;> exact hn2
      have hn : normE (sig ++ e :: ex) = sig ++ 'e' :: ex := by
        rw [normE_append, hn1, hne]
      have hsig_ne : ∀ c ∈ sig, c ≠ 'e' := fun c hc => (noE_of_basic hsig c hc).1
      have hc : (sig ++ 'e' :: ex).count 'e' = 1 := by
        rw [List.count_append, List.count_cons_self, count_e_of_noE (noE_of_basic hsig),
          count_e_of_noE (noE_of_int hex)]
      unfold cellmlReal cellmlRealWith
      have hemp : (sig ++ e :: ex).isEmpty = false := by cases sig <;> simp
      simp only [hemp, Bool.false_eq_true, if_false, hn, hc, takeWhile_ne_append hsig_ne,
        dropWhile_ne_append hsig_ne, List.drop_one, List.tail_cons]
      simp only [Nat.lt_add_one, if_true, Bool.and_eq_true]
      exact ⟨(basicReal_iff _).mpr hsig, (cellmlInt_iff _).mpr hex⟩

end Cellml.Num
