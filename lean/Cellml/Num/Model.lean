/-
  C16 — executable model of the numeric-text recognisers of `src/utilities.cpp`.

  Every definition mirrors one C++ function (same tests, same order).  Strings are `List Char`.
  The model follows the *current* working tree of /repo (tie: engine `num`, exhaustive).
-/
namespace Cellml.Num

/-- `isEuropeanNumericCharacter` -/
def isDigit (c : Char) : Bool :=
  c = '0' || c = '1' || c = '2' || c = '3' || c = '4' || c = '5' || c = '6' || c = '7' || c = '8' || c = '9'

/-- `isNonNegativeCellMLInteger`: non-empty, all digits -/
def nonNegInt (s : List Char) : Bool := !s.isEmpty && s.all isDigit

/-- `isCellMLInteger` (= `isCellMLExponent`): optional `+`/`-`, then `isNonNegativeCellMLInteger` -/
def cellmlInt : List Char → Bool
  | [] => false
  | c :: rest => if c = '-' || c = '+' then nonNegInt rest else nonNegInt (c :: rest)

/-- `isCellMLBasicReal`, parameterised by whether a digit is demanded (`needDigit = false` is the
    pinned, defective behaviour: `"-"`, `"."`, `"-."` accepted; `true` is the repaired tree). -/
def basicRealWith (needDigit : Bool) (s : List Char) : Bool :=
  if s.isEmpty then false
  else if s.count '.' < 2 then
    let beginsMinus := s.head? = some '-'
    let t := if s.count '.' = 1 then s.erase '.' else s
    let t := if beginsMinus then t.drop 1 else t
    t.all isDigit && (!needDigit || !t.isEmpty)
  else false

/-- the current tree (after `fix: require a digit in isCellMLBasicReal`) -/
def basicReal (s : List Char) : Bool := basicRealWith true s

/-- replace every `E` by `e` -/
def normE (s : List Char) : List Char := s.map fun c => if c = 'E' then 'e' else c

/-- `isCellMLReal` -/
def cellmlRealWith (needDigit : Bool) (s : List Char) : Bool :=
  if s.isEmpty then false
  else
    let n := normE s
    let k := n.count 'e'
    if k < 2 then
      if k = 1 then
        let sig := n.takeWhile (· ≠ 'e')
        let ex := (n.dropWhile (· ≠ 'e')).drop 1
        basicRealWith needDigit sig && cellmlInt ex
      else basicRealWith needDigit n
    else false

def cellmlReal (s : List Char) : Bool := cellmlRealWith true s

/-! ### `std::stod` / `std::stoi` preconditions (libstdc++ over glibc `strtod` / `strtol`)

`stod` throws `std::invalid_argument` iff `strtod` consumed nothing: after optional white space and
an optional sign the text must start with a digit, or a `.` followed by a digit (the `inf`/`nan`/hex
forms never pass the recognisers and are not modelled as accepted).  -/

def isSpace (c : Char) : Bool := c = ' ' || c = '\t' || c = '\n' || c = '\x0b' || c = '\x0c' || c = '\r'

def dropSign : List Char → List Char
  | c :: r => if c = '-' || c = '+' then r else c :: r
  | [] => []

def stodAccepts (s : List Char) : Bool :=
  match dropSign (s.dropWhile isSpace) with
  | c :: d :: _ => isDigit c || (c = '.' && isDigit d)
  | [c] => isDigit c
  | [] => false

def stoiAccepts (s : List Char) : Bool :=
  match dropSign (s.dropWhile isSpace) with
  | c :: _ => isDigit c
  | [] => false

/-- outcome classes of `convertToDouble` / `convertToInt` before looking at the magnitude -/
inductive Conv | rejected | converts | throws
  deriving DecidableEq, Repr

def convertToDoubleClass (s : List Char) : Conv :=
  if cellmlReal s then (if stodAccepts s then .converts else .throws) else .rejected

def convertToDoubleClassWith (needDigit : Bool) (s : List Char) : Conv :=
  if cellmlRealWith needDigit s then (if stodAccepts s then .converts else .throws) else .rejected

def convertToIntClass (s : List Char) : Conv :=
  if cellmlInt s then (if stoiAccepts s then .converts else .throws) else .rejected

/-! ### magnitude: value of accepted text as `mant × 10^exp`, out-of-range classes

`stod` throws `out_of_range` (→ `convertToDouble` returns false) on overflow and on a non-zero
result below `DBL_MIN`.  Computed exactly over `Nat`/`Int`. -/

def digitVal (c : Char) : Nat := c.toNat - '0'.toNat

def natOfDigits (s : List Char) : Nat := s.foldl (fun a c => 10 * a + digitVal c) 0

def intOfText : List Char → Int
  | '-' :: r => - (natOfDigits r : Int)
  | '+' :: r => (natOfDigits r : Int)
  | r => (natOfDigits r : Int)

/-- (negative, mantissa, decimal exponent) of a text accepted by `cellmlReal` -/
def decompose (s : List Char) : Bool × Nat × Int :=
  let n := normE s
  let sig := n.takeWhile (· ≠ 'e')
  let ex := (n.dropWhile (· ≠ 'e')).drop 1
  let neg := sig.head? = some '-'
  let body := if neg then sig.drop 1 else sig
  let ip := body.takeWhile (· ≠ '.')
  let fp := (body.dropWhile (· ≠ '.')).drop 1
  (neg, natOfDigits (ip ++ fp), intOfText ex - fp.length)

inductive Range | zero | normal | overflow | underflow
  deriving DecidableEq, Repr

/-- exact comparison of `m × 10^e` with the `double` range; `overflow` from `2^1024 - 2^970`
    (round-to-nearest threshold), `underflow` below `2^-1022`. -/
def rangeClass (m : Nat) (e : Int) : Range :=
  if m = 0 then .zero
  else
    let hi := 2 ^ 1024 - 2 ^ 970
    if e ≥ 0 then
      if e.toNat > 400 then .overflow
      else if m * 10 ^ e.toNat ≥ hi then .overflow else .normal
    else
      let k := (-e).toNat
      if k > 800 + 20 * (Nat.log2 m + 1) then .underflow
      else if m ≥ hi * 10 ^ k then .overflow
      else if m * 2 ^ 1022 < 10 ^ k then .underflow
      else .normal

/-- `int` range for `std::stoi` -/
def intInRange (s : List Char) : Bool :=
  let v := intOfText s
  decide (-2147483648 ≤ v) && decide (v ≤ 2147483647)

end Cellml.Num
