/-
  C16 — where numbers are read: for each position the condition under which the library raises
  the position's issue (transcribed from parser.cpp `loadUnit` / `loadReset`, units.cpp `addUnit`,
  validator.cpp `validateUnitsUnitsItem` / `validateVariable` / the `cn` branch of MathML validation,
  xmlnode.cpp `isBasicReal` / `isInteger`).
-/
import Cellml.Num.Model
namespace Cellml.Num

inductive Pos
  | exponent | multiplier | pfx | initialValue | order | cnReal | cnMantissa | cnExponent
  deriving DecidableEq, Repr

/-- `convertToStrippedString`: leading and trailing white space removed -/
def trim (s : List Char) : List Char := ((s.dropWhile isSpace).reverse.dropWhile isSpace).reverse

def doubleInRange (s : List Char) : Bool :=
  let (_, m, e) := decompose s
  match rangeClass m e with
  | .overflow | .underflow => false
  | _ => true

def realOK (s : List Char) : Bool := cellmlReal s && doubleInRange s
def basicRealOK (s : List Char) : Bool := basicReal s && doubleInRange s
def intOK (s : List Char) : Bool := cellmlInt s && intInRange s

/-- is the position's issue raised for text `s`?  `stdPrefix` = the SI prefix names -/
def issueAt (stdPrefix : List (List Char)) : Pos → List Char → Bool
  | .exponent, s => !realOK s
  | .multiplier, s => !realOK s
  | .pfx, s => !s.isEmpty && !stdPrefix.contains s && !intOK s
  | .initialValue, s => !s.isEmpty && !cellmlReal s
  | .order, s => !intOK s
  | .cnReal, s => !basicRealOK (trim s)
  | .cnMantissa, s => !basicRealOK (trim s)
  | .cnExponent, s => !intOK (trim s)

end Cellml.Num
