/-
  C19 — executable model of the model-repair helpers (src/model.cpp, src/utilities.cpp, src/variable.cpp) and
  of the validator's interface check (src/validator.cpp: validateVariableInterface).

  A variable that has equivalences is seen through the relative positions of its equivalent variables, in the
  order of its equivalence list.
-/
namespace Cellml.Repair

/-- where the component of an equivalent variable sits relative to the component of the variable -/
inductive Rel
  | sibling      -- same parent (also: the same component)
  | vChildOfE    -- my component is a child of the other's component
  | vParentOfE   -- my component is the parent of the other's component
  | unreachable  -- none of these (incl. another model, a parentless component)
  | parentless   -- the equivalent variable has no parent component
  deriving DecidableEq, Repr

inductive IType | none_ | pub | priv | both
  deriving DecidableEq, Repr

def IType.str : IType → String
  | .none_ => "none" | .pub => "public" | .priv => "private" | .both => "public_and_private"

/-- `publicAndOrPrivateInterfaceTypeRequired`; `earlyExit = true` is the superseded loop condition -/
def required (earlyExit : Bool) : Bool × Bool → List Rel → Option (Bool × Bool)
  | acc, [] => some acc
  | acc, r :: rs =>
    if earlyExit && acc.1 && acc.2 then some acc else
    match r with
    | .sibling | .vChildOfE => required earlyExit (true, acc.2) rs
    | .vParentOfE => required earlyExit (acc.1, true) rs
    | .unreachable | .parentless => none

/-- `determineInterfaceType` (`none_` = the error / nothing-required answer) -/
def determine (earlyExit : Bool) (rels : List Rel) : IType :=
  match required earlyExit (false, false) rels with
  | some (true, true) => .both
  | some (true, false) => .pub
  | some (false, true) => .priv
  | _ => .none_

/-- `Variable::permitsInterfaceType` on the raw interface string -/
def permits (iface : String) (t : IType) : Bool :=
  t = .none_ || iface = "public_and_private" || iface = t.str

structure Var where
  iface : String
  rels : List Rel      -- non-empty: only variables with equivalences are looked at
  deriving Repr, DecidableEq

/-- one step of the loop of `Model::fixVariableInterfaces` -/
def fixVar (earlyExit : Bool) (v : Var) : Var × Bool :=
  let t := determine earlyExit v.rels
  if t = .none_ then (v, false)
  else if !permits v.iface t then ({ v with iface := t.str }, true)
  else (v, true)

/-- `Model::fixVariableInterfaces` over the variables that have equivalences (component-tree order) -/
def fixAll (earlyExit : Bool) (vs : List Var) : List Var × Bool :=
  ((vs.map (fixVar earlyExit)).map (·.1), (vs.map (fixVar earlyExit)).all (·.2))

/-- substring test of `interfaceTypeIsCompatible` -/
def isInfix (needle : List Char) : List Char → Bool
  | [] => needle.isEmpty
  | c :: cs => needle.isPrefixOf (c :: cs) || isInfix needle cs

/-- does the validator raise an interface / unreachable-equivalence issue for this variable? -/
def validatorIssue (earlyExit : Bool) (v : Var) : Bool :=
  let t := determine earlyExit v.rels
  if t = .none_ then v.rels.any (· = .unreachable)
  else !isInfix t.str.toList v.iface.toList

/-! ### units linking -/

/-- what a variable's `units()` is -/
inductive URef
  | none_                          -- no units
  | standard (name : String)       -- a childless units named like a standard unit
  | linked (name : String)         -- a units object owned by this model
  | foreign (name : String)        -- a units object owned by another model
  | foreignStd (name : String)     -- … that is childless and named like a standard unit (not counted as unlinked)
  | loose (name : String)          -- a units object without a model (set by name)
  deriving DecidableEq, Repr

/-- `linkComponentVariableUnits` for one variable: new reference and success -/
def linkVar (modelUnits : List String) : URef → URef × Bool
  | .loose n => if modelUnits.contains n then (.linked n, true) else (.loose n, false)
  | .foreign n => (.foreign n, false)
  | .foreignStd n => (.foreignStd n, false)
  | r => (r, true)

def linkAll (modelUnits : List String) (vs : List URef) : List URef × Bool :=
  ((vs.map (linkVar modelUnits)).map (·.1), (vs.map (linkVar modelUnits)).all (·.2))

/-- `areComponentVariableUnitsUnlinked` over all variables -/
def hasUnlinked (vs : List URef) : Bool :=
  vs.any fun r => match r with | .loose _ | .foreign _ => true | _ => false

/-! ### clean -/

inductive CTree where
  | mk (name id math : String) (isImport : Bool) (nVars nResets : Nat) (kids : List CTree)
  deriving Repr

structure UInfo where
  name : String
  id : String
  isImport : Bool
  nUnit : Nat
  deriving Repr, DecidableEq

/-- `traverseHierarchyAndRemoveIfEmpty`: the cleaned component, or `none` if it is to be removed -/
def cleanTree : Nat → CTree → Option CTree
  | 0, t => some t
  | f+1, .mk name id math imp nv nr kids =>
    let kids' := kids.filterMap (cleanTree f)
    if nv + nr + kids'.length = 0 ∧ math = "" ∧ imp = false ∧ name = "" ∧ id = "" then none
    else some (.mk name id math imp nv nr kids')

def emptyUnits (u : UInfo) : Bool := !u.isImport && u.name = "" && u.id = "" && u.nUnit = 0

/-- `Model::clean` -/
def clean (fuel : Nat) (comps : List CTree) (units : List UInfo) : List CTree × List UInfo :=
  (comps.filterMap (cleanTree fuel), units.filter (!emptyUnits ·))

end Cellml.Repair
