/-
  C06 — flattening: models of the two pieces of bookkeeping of `Importer::flattenModel` that decide where things end up.

  * `rebaseStack` / `rebaseTargets` / `rebaseMap` (src/utilities.cpp: `rebaseIndexStack`, `rebaseEquivalenceMap`): the
    variable equivalences of an imported component are recorded as index stacks (component path ++ variable index)
    in the library model and re-based onto the place of the import in the importing model.
  * `fresh` / `declash` (src/importer.cpp: the `newName = originalName + "_" + count` loops of `flattenComponent` and
    `transferUnitsRenamingIfRequired`): the first of `n`, `n_1`, `n_2`, … that is not used yet.

  The rest of flattening (cloning, units transfer and de-duplication, cn rewriting) is not modelled; its effect — a valid,
  import-free model that computes the same values, inputs unchanged — is decided on the implementation
  (`checks/C06.py`).
-/
namespace Cellml.Flatten

/-- `rebaseIndexStack`: a stack under `origin` is moved under `dest`, anything else becomes the empty stack -/
def rebaseStack (stack origin dest : List Nat) : List Nat :=
  if origin.isPrefixOf stack then dest ++ stack.drop origin.length else []

/-- one target of an equivalence: the variable index is set aside, the component path is re-based, a target outside the
    origin disappears -/
def rebaseTarget (t origin dest : List Nat) : Option (List Nat) :=
  match t.reverse with
  | [] => none          -- not produced by the recorder; the C++ would pop an empty vector
  | v :: revPath =>
    let r := rebaseStack revPath.reverse origin dest
    if r.isEmpty then none else some (r ++ [v])

def rebaseTargets (ts : List (List Nat)) (origin dest : List Nat) : List (List Nat) :=
  ts.filterMap fun t => rebaseTarget t origin dest

/-- `rebaseEquivalenceMap`: entries as (key, targets); an entry without remaining targets is dropped -/
def rebaseMap (m : List (List Nat × List (List Nat))) (origin dest : List Nat) : List (List Nat × List (List Nat)) :=
  m.filterMap fun (k, ts) =>
    let ts' := rebaseTargets ts origin dest
    if ts'.isEmpty then none else some (rebaseStack k origin dest, ts')

/-! names -/
def candidate (base : String) (k : Nat) : String := if k = 0 then base else base ++ "_" ++ Nat.repr k

/-- search from `k` with `fuel` steps left -/
def freshFrom (used : List String) (base : String) : Nat → Nat → String
  | 0, k => candidate base k
  | f + 1, k => if used.contains (candidate base k) then freshFrom used base f (k + 1) else candidate base k

def fresh (used : List String) (base : String) : String := freshFrom used base used.length 0

/-- the pinned tree's loop: every name of the subtree is de-clashed against the names of the importing model as they were
    before this instance, one name at a time — two names of the subtree can end up equal (`a` renamed to `a_1` next to a
    sibling `a_1`): see `Props.C06.declashPinned_collides` -/
def declashPinned (used names : List String) : List String := names.map (fresh used)

/-- the repaired loop: a name that clashes with the importing model gets the first candidate that is neither in the
    importing model, nor a name of the subtree, nor already given out -/
def declashGo (used : List String) : List String → List String → List String
  | _, [] => []
  | taken, n :: rest =>
    if used.contains n then
      let n' := fresh taken n
      n' :: declashGo used (n' :: taken) rest
    else n :: declashGo used taken rest

def declash (used names : List String) : List String := declashGo used (used ++ names) names

/-- instantiating the same subtree `k` times, one after the other -/
def instantiate (used names : List String) : Nat → List String
  | 0 => used
  | k + 1 => instantiate (used ++ declash used names) names k

end Cellml.Flatten
