/-
  C05 — requalification of variable-based constants runs to a fixpoint: when `requalify` returns, no equation typed
  "variable-based constant" reads a class that is not some kind of constant — however long the chain of equations
  hanging off a non-constant (e.g. NLA-solved) variable is, and in whatever order they are listed.
-/
import Cellml.Analyser.Proofs
namespace Cellml.Analyser

/-- does the equation `e` with unknown `u` read something that is not some kind of constant? -/
def trig (s : St) (e : E) (u : Nat) : Bool :=
  e.all.any (fun v => v ≠ u && (s.v v).ty ≠ .constant && (s.v v).ty ≠ .ctc && (s.v v).ty ≠ .cvc)

/-- one step of the requalification pass (the body of the fold in `requalifyPass`) -/
def rqStep (acc : St × Bool) (i : Nat) : St × Bool :=
  match acc.1.eqs[i]? with
  | some e =>
    if e.ty = .varConstant then
      match e.unknowns.head? with
      | some u =>
        if trig acc.1 e u then
          ((acc.1.setV u fun x => { x with ty := .algebraic }).setE i { e with ty := .algebraic }, true)
        else acc
      | none => acc
    else acc
  | none => acc

theorem requalifyPass_eq (s : St) : requalifyPass s = (List.range s.eqs.length).foldl rqStep (s, false) := rfl

/-- does equation `i` of `s` have to be requalified? -/
def needs (s : St) (i : Nat) : Bool :=
  match s.eqs[i]? with
  | some e =>
    if e.ty = .varConstant then
      (match e.unknowns.head? with
        | some u => trig s e u
        | none => false)
    else false
  | none => false

theorem rqStep_of_not_needs (acc : St × Bool) (i : Nat) (h : needs acc.1 i = false) : rqStep acc i = acc := by
  unfold rqStep
  unfold needs at h
  cases he : acc.1.eqs[i]? with
  | none => rfl
  | some e =>
    rw [he] at h
    dsimp only at h ⊢
    by_cases hv : e.ty = .varConstant
    · rw [if_pos hv] at h ⊢
      cases hu : e.unknowns.head? with
      | none => rfl
      | some u =>
        rw [hu] at h
        dsimp only at h ⊢
        rw [h]; rfl
    · rw [if_neg hv]

theorem rqStep_flag_of_needs (acc : St × Bool) (i : Nat) (h : needs acc.1 i = true) : (rqStep acc i).2 = true := by
  unfold rqStep
  unfold needs at h
  cases he : acc.1.eqs[i]? with
  | none => rw [he] at h; cases h
  | some e =>
    rw [he] at h
    dsimp only at h ⊢
    by_cases hv : e.ty = .varConstant
    · rw [if_pos hv] at h ⊢
      cases hu : e.unknowns.head? with
      | none => rw [hu] at h; cases h
      | some u =>
        rw [hu] at h
        dsimp only at h ⊢
        rw [h]; rfl
    · rw [if_neg hv] at h; cases h

theorem rqStep_flag_mono (acc : St × Bool) (i : Nat) (h : acc.2 = true) : (rqStep acc i).2 = true := by
  cases hn : needs acc.1 i
  · rw [rqStep_of_not_needs acc i hn]; exact h
  · exact rqStep_flag_of_needs acc i hn

theorem fold_flag_mono (is : List Nat) : ∀ (acc : St × Bool), acc.2 = true → (is.foldl rqStep acc).2 = true := by
  induction is with
  | nil => intro acc h; exact h
  | cons i rest ih => intro acc h; simp only [List.foldl_cons]; exact ih _ (rqStep_flag_mono acc i h)

/-- a pass that reports no change has changed nothing and met no equation that had to be requalified -/
theorem fold_unchanged (is : List Nat) : ∀ (acc : St × Bool), (is.foldl rqStep acc).2 = false →
    is.foldl rqStep acc = acc ∧ ∀ i ∈ is, needs acc.1 i = false := by
  induction is with
  | nil => intro acc _; exact ⟨rfl, fun _ h => by cases h⟩
  | cons i rest ih =>
    intro acc h
    simp only [List.foldl_cons] at h ⊢
    cases hn : needs acc.1 i
    · rw [rqStep_of_not_needs acc i hn] at h ⊢
      obtain ⟨h1, h2⟩ := ih acc h
      refine ⟨h1, fun j hj => ?_⟩
      rcases List.mem_cons.mp hj with rfl | hj
      · exact hn
      · exact h2 j hj
    · have := fold_flag_mono rest _ (rqStep_flag_of_needs acc i hn)
      rw [this] at h; cases h

/-- the state is stable: no variable-based-constant equation reads something that is not some kind of constant -/
def Stable (s : St) : Prop := ∀ i, needs s i = false

theorem stable_of_pass (s : St) (h : (requalifyPass s).2 = false) : Stable s ∧ (requalifyPass s).1 = s := by
  rw [requalifyPass_eq] at h ⊢
  obtain ⟨h1, h2⟩ := fold_unchanged _ (s, false) h
  refine ⟨fun i => ?_, by rw [h1]⟩
  by_cases hi : i < s.eqs.length
  · exact h2 i (List.mem_range.mpr hi)
  · unfold needs
    have : s.eqs[i]? = none := by simp at hi ⊢; exact hi
    simp [this]

/-- number of equations typed variable-based constant -/
def vcCount (s : St) : Nat := (s.eqs.map (·.ty)).count .varConstant

theorem vcCount_setV (s : St) (u : Nat) (f : V → V) : vcCount (s.setV u f) = vcCount s := rfl

theorem count_set_retype (l : List E) (i : Nat) (e : E) (h : l[i]? = some e) (hv : e.ty = .varConstant) :
    ((l.set i { e with ty := .algebraic }).map (·.ty)).count .varConstant + 1 = (l.map (·.ty)).count .varConstant := by
  induction l generalizing i with
  | nil => simp at h
  | cons a t ih =>
    cases i with
    | zero =>
      simp only [List.getElem?_cons_zero, Option.some.injEq] at h
      subst h
      simp [hv]
    | succ j =>
      simp only [List.getElem?_cons_succ] at h
      have := ih j h
      simp only [List.set_cons_succ, List.map_cons, List.count_cons]
      omega

/-- a step that requalifies lowers the count by one, any other leaves the state alone -/
theorem rqStep_count (acc : St × Bool) (i : Nat) :
    (needs acc.1 i = true → vcCount (rqStep acc i).1 + 1 = vcCount acc.1) ∧ (needs acc.1 i = false → rqStep acc i = acc) := by
  refine ⟨fun h => ?_, rqStep_of_not_needs acc i⟩
  unfold rqStep
  unfold needs at h
  cases he : acc.1.eqs[i]? with
  | none => rw [he] at h; cases h
  | some e =>
    rw [he] at h
    dsimp only at h ⊢
    by_cases hv : e.ty = .varConstant
    · rw [if_pos hv] at h ⊢
      cases hu : e.unknowns.head? with
      | none => rw [hu] at h; cases h
      | some u =>
        rw [hu] at h
        dsimp only at h ⊢
        rw [h]
        show ((((acc.1.setV u fun x => { x with ty := .algebraic }).setE i { e with ty := .algebraic }).eqs.map (·.ty)).count .varConstant) + 1 = _
        simp only [setE_eqs, setV_eqs]
        exact count_set_retype _ _ e he hv
    · rw [if_neg hv] at h; cases h

theorem fold_count (is : List Nat) : ∀ (acc : St × Bool),
    vcCount (is.foldl rqStep acc).1 ≤ vcCount acc.1 ∧
      ((is.foldl rqStep acc).2 = true → acc.2 = false → vcCount (is.foldl rqStep acc).1 + 1 ≤ vcCount acc.1) := by
  induction is with
  | nil => intro acc; exact ⟨Nat.le_refl _, fun h1 h2 => by simp only [List.foldl_nil] at h1; rw [h1] at h2; cases h2⟩
  | cons i rest ih =>
    intro acc
    simp only [List.foldl_cons]
    obtain ⟨c1, c2⟩ := rqStep_count acc i
    obtain ⟨i1, i2⟩ := ih (rqStep acc i)
    cases hn : needs acc.1 i
    · rw [c2 hn] at i1 i2 ⊢
      exact ⟨i1, i2⟩
    · have := c1 hn
      refine ⟨by omega, fun _ _ => by omega⟩

theorem pass_count (s : St) : (requalifyPass s).2 = true → vcCount (requalifyPass s).1 + 1 ≤ vcCount s := by
  rw [requalifyPass_eq]
  intro h
  exact (fold_count _ (s, false)).2 h rfl

/-- with at least `vcCount s + 1` passes the loop ends in a stable state -/
theorem requalifyLoop_stable : ∀ (fuel : Nat) (s : St), vcCount s < fuel → Stable (requalifyLoop fuel s) := by
  intro fuel
  induction fuel with
  | zero => intro s h; omega
  | succ fuel ih =>
    intro s h
    simp only [requalifyLoop]
    cases hp : (requalifyPass s).2
    · simp only [Bool.false_eq_true, if_false]
      obtain ⟨hs, he⟩ := stable_of_pass s hp
      rw [he]; exact hs
    · simp only [if_true]
      have := pass_count s hp
      exact ih _ (by omega)

theorem vcCount_le (s : St) : vcCount s ≤ s.eqs.length := by
  unfold vcCount
  have := List.count_le_length (a := ET.varConstant) (l := s.eqs.map (·.ty))
  simpa using this

/-- **requalification reaches its fixpoint** -/
theorem requalify_stable (s : St) : Stable (requalify s) :=
  requalifyLoop_stable _ s (by have := vcCount_le s; omega)

end Cellml.Analyser
