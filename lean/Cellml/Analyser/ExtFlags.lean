/-
  C20 — an equation that reads a class marked external is not a constant equation: once it has stopped tracking the
  marked class, both of its "computes a constant" flags are off, so the unknown it determines becomes algebraic and the
  equation is typed algebraic or NLA, never true constant / variable-based constant.  (This is the decision of
  `isNonConstantVariable` / `hasKnownVariables` in `check()`; a marked class is non-constant whatever its own type.)
-/
import Cellml.Analyser.Deps
import Cellml.Analyser.External
namespace Cellml.Analyser

/-- the marks, fixed for the whole analysis -/
def Marks (isE : Nat → Bool) (s : St) : Prop := ∀ v, (s.v v).ext = isE v

theorem marks_of_keeps {isE : Nat → Bool} {s s' : St} (h : Keeps s s') (hm : Marks isE s) : Marks isE s' :=
  fun v => ((h.2 v).2).trans (hm v)

/-- an equation that no longer tracks a marked class it reads has both constant flags off -/
def FlagOk (isE : Nat → Bool) (e0 e : E) : Prop :=
  ∀ v ∈ e0.vars, isE v = true → v ∉ e.vars → e.ctc = false ∧ e.cvc = false

/-- a typed equation that determines an ordinary unknown and reads a marked class (not one of its own unknowns) is
    not a constant equation -/
def TypedOk (isE : Nat → Bool) (e0 e : E) : Prop :=
  e.ty ≠ .unknown → e.vars ≠ [] → (∃ v ∈ e0.vars, isE v = true ∧ v ∉ e.unknowns) → e.ty ≠ .trueConstant ∧ e.ty ≠ .varConstant

def ExtInv (isE : Nat → Bool) (e0 e : E) : Prop := FlagOk isE e0 e ∧ TypedOk isE e0 e

theorem prepare_vars (s : St) (e : E) (nla : Bool) : (prepare s e nla).2.1.vars = e.vars.filter (fun v => !isKnown s v) := by
  simp [prepare]

theorem prepare_flagOk (isE : Nat → Bool) (s : St) (e e0 : E) (nla : Bool) (hm : Marks isE s) (h : FlagOk isE e0 e) :
    FlagOk isE e0 (prepare s e nla).2.1 := by
  intro v hv hext hnot
  rw [prepare_vars] at hnot
  by_cases hin : v ∈ e.vars
  · have hk : isKnown s v = true := by
      cases hkk : isKnown s v
      · exact absurd (List.mem_filter.mpr ⟨hin, by simp [hkk]⟩) hnot
      · rfl
    have hnc : isNonConstant s v = true := by simp [isNonConstant, hm v, hext]
    have h1 : (e.vars.any (isKnown s)) = true := List.any_eq_true.mpr ⟨v, hin, hk⟩
    have h2 : (e.vars.any (isNonConstant s)) = true := List.any_eq_true.mpr ⟨v, hin, hnc⟩
    simp [prepare, h1, h2]
  · obtain ⟨h1, h2⟩ := h v hv hext hin
    simp [prepare, h1, h2]

theorem prepare_unknown_vars (s : St) (e : E) (nla : Bool) :
    ∀ u ∈ (prepare s e nla).2.1.vars, ((prepare s e nla).1.v u).ty = .unknown ∨ True := fun _ _ => Or.inr trivial

/-- the fields `settle` never touches -/
theorem settle_fields (s : St) (e : E) (inits : List Nat) (nla : Bool) :
    (settle s e inits nla).2.1.vars = e.vars ∧ (settle s e inits nla).2.1.ctc = e.ctc ∧ (settle s e inits nla).2.1.cvc = e.cvc := by
  unfold settle
  split
  · exact ⟨rfl, rfl, rfl⟩
  · split
    · split
      · exact ⟨rfl, rfl, rfl⟩
      · exact ⟨rfl, rfl, rfl⟩
    · exact ⟨rfl, rfl, rfl⟩

theorem settle_flagOk (isE : Nat → Bool) (s : St) (e e0 : E) (inits : List Nat) (nla : Bool) (h : FlagOk isE e0 e) :
    FlagOk isE e0 (settle s e inits nla).2.1 := by
  obtain ⟨h1, h2, h3⟩ := settle_fields s e inits nla
  intro v hv hext hnot
  rw [h1] at hnot
  rw [h2, h3]
  exact h v hv hext hnot

/-- with both flags off, `tag` never makes a class a computed constant -/
theorem tag_ty (comp : Nat) (s : St) (v i : Nat) :
    ((tag comp false false s v).v i).ty = (if i = v ∧ i < s.vars.length ∧ (s.v i).ty = .unknown then .algebraic else (s.v i).ty) := by
  simp only [tag]
  have hlen : (s.setV v fun x => { x with rep := comp }).vars.length = s.vars.length := by simp [St.setV]
  have hv1 : ∀ j, ((s.setV v fun x => { x with rep := comp }).v j).ty = (s.v j).ty := by
    intro j; rw [v_setV]; split <;> rfl
  split
  · rename_i hu
    rw [v_setV, hlen]
    by_cases hc : v = i ∧ i < s.vars.length
    · obtain ⟨rfl, hl⟩ := hc
      rw [hv1] at hu
      simp [hl, hu]
    · have : ¬ (i = v ∧ i < s.vars.length ∧ (s.v i).ty = .unknown) := by
        intro hh; exact hc ⟨hh.1.symm, hh.2.1⟩
      simp only [hc, if_false, this, hv1]
  · rename_i hu
    rw [hv1] at hu
    rw [hv1]
    by_cases hc : i = v ∧ i < s.vars.length ∧ (s.v i).ty = .unknown
    · obtain ⟨rfl, _, h3⟩ := hc
      exact absurd h3 hu
    · simp [hc]

theorem bump_ty (s : St) (v : Nat) (b : Bool) (i : Nat) : ((bump s v b).v i).ty = (s.v i).ty := by
  simp only [bump]
  split
  · show (({ (s.setV v fun x => { x with idx := some s.stateIndex }) with stateIndex := s.stateIndex + 1 } : St).v i).ty = _
    have : ({ (s.setV v fun x => { x with idx := some s.stateIndex }) with stateIndex := s.stateIndex + 1 } : St).v i
        = (s.setV v fun x => { x with idx := some s.stateIndex }).v i := rfl
    rw [this, v_setV]; split <;> rfl
  · show (({ (s.setV v fun x => { x with idx := some s.variableIndex }) with variableIndex := s.variableIndex + 1 } : St).v i).ty = _
    have : ({ (s.setV v fun x => { x with idx := some s.variableIndex }) with variableIndex := s.variableIndex + 1 } : St).v i
        = (s.setV v fun x => { x with idx := some s.variableIndex }).v i := rfl
    rw [this, v_setV]; split <;> rfl

/-- `assign` with both flags off: a class that was not a computed constant is not one afterwards, and every class of
    the list that was unknown ends up algebraic -/
theorem assign_no_const (comp : Nat) : ∀ (l : List Nat) (s : St) (acc : List Nat) (s' : St) (u : List Nat),
    assign comp false false l s acc = some (s', u) →
    ∀ i, ((s.v i).ty ≠ .ctc ∧ (s.v i).ty ≠ .cvc) → ((s'.v i).ty ≠ .ctc ∧ (s'.v i).ty ≠ .cvc) := by
  intro l
  induction l with
  | nil => intro s acc s' u h i hi; simp [assign] at h; rw [← h.1]; exact hi
  | cons v rest ih =>
    intro s acc s' u h i hi
    simp only [assign] at h
    have hstep : ∀ b, (((bump (tag comp false false s v) v b).v i).ty ≠ .ctc ∧ ((bump (tag comp false false s v) v b).v i).ty ≠ .cvc) := by
      intro b
      rw [bump_ty, tag_ty]
      split
      · exact ⟨by simp, by simp⟩
      · exact hi
    split at h
    all_goals first
      | (cases h; done)
      | exact ih _ _ _ _ h i (hstep _)

/-- the decision at typing time: flags off and an ordinary unknown ⇒ not a constant equation -/
theorem settle_typedOk (s : St) (e : E) (inits : List Nat) (nla : Bool)
    (hc : e.ctc = false) (hv : e.cvc = false) (hne : e.vars ≠ [])
    (hunk : ∀ u ∈ e.vars, (s.v u).ty ≠ .ctc ∧ (s.v u).ty ≠ .cvc)
    (hf : (settle s e inits nla).2.2 = true) :
    (settle s e inits nla).2.1.ty ≠ .trueConstant ∧ (settle s e inits nla).2.1.ty ≠ .varConstant := by
  unfold settle at hf ⊢
  by_cases c1 : (nla && decide (e.vars.length + e.odes.length = 0) && inits.isEmpty) = true
  · rw [if_pos c1] at hf; cases hf
  · rw [if_neg c1] at hf ⊢
    by_cases c2 : goFlag s e inits nla = true
    · rw [if_pos c2] at hf ⊢
      cases hass : assign e.comp e.ctc e.cvc (toAssign e inits) s [] with
      | none => rw [hass] at hf; cases hf
      | some p =>
        obtain ⟨s', unk⟩ := p
        dsimp only
        rw [hc, hv] at hass
        have hnc := assign_no_const e.comp _ _ _ _ _ hass
        -- the type of the equation comes from the type of its lone unknown, which is one of `e.vars`
        unfold eqType
        cases hul : unknownLeftOf e with
        | none => simp
        | some u =>
          have hu : u ∈ e.vars := by
            unfold unknownLeftOf at hul
            split at hul
            · cases hvars : e.vars with
              | nil => exact absurd hvars hne
              | cons a t =>
                rw [hvars] at hul
                simp only [List.isEmpty_cons, Bool.false_eq_true, if_false, List.head?_cons, Option.some.injEq] at hul
                subst hul; simp
            · cases hul
          have := hnc u (hunk u hu)
          dsimp only
          split
          · simp
          · split <;> simp_all
    · rw [if_neg c2] at hf; cases hf

theorem foldl_setV_ty (l : List Nat) (t : VT) (s : St) (i : Nat) :
    ((l.foldl (fun s v => s.setV v fun x => { x with ty := t }) s).v i).ty = (s.v i).ty
      ∨ ((l.foldl (fun s v => s.setV v fun x => { x with ty := t }) s).v i).ty = t := by
  induction l generalizing s with
  | nil => exact Or.inl rfl
  | cons a l ih =>
    simp only [List.foldl_cons]
    rcases ih (s.setV a fun x => { x with ty := t }) with h | h
    · rw [h, v_setV]
      split
      · exact Or.inr rfl
      · exact Or.inl rfl
    · exact Or.inr h

/-- what `prepare` leaves tracked is not a computed constant in the state it returns -/
theorem prepare_tracked (s : St) (e : E) (nla : Bool) :
    ∀ u ∈ (prepare s e nla).2.1.vars, ((prepare s e nla).1.v u).ty ≠ .ctc ∧ ((prepare s e nla).1.v u).ty ≠ .cvc := by
  intro u hu
  rw [prepare_vars] at hu
  have hk : isKnown s u = false := by
    have := (List.mem_filter.mp hu).2; simpa using this
  have hty : (s.v u).ty = .unknown := by simpa [isKnown] using hk
  have h1 : (prepare s e nla).1 = (((prepare s e nla).2.2).foldl (fun s v => s.setV v fun x => { x with ty := .initAlg }) s) := by
    simp [prepare]
  rw [h1]
  rcases foldl_setV_ty _ .initAlg s u with h | h
  · rw [h, hty]; exact ⟨by simp, by simp⟩
  · rw [h]; exact ⟨by simp, by simp⟩

theorem settle_unknowns (s : St) (e : E) (inits : List Nat) (nla : Bool) (hf : (settle s e inits nla).2.2 = true) (hne : e.vars ≠ []) :
    ∀ v, v ∉ (settle s e inits nla).2.1.unknowns → v ∉ e.vars := by
  intro v hv
  unfold settle at hf hv
  by_cases c1 : (nla && decide (e.vars.length + e.odes.length = 0) && inits.isEmpty) = true
  · rw [if_pos c1] at hf; cases hf
  · rw [if_neg c1] at hf hv
    by_cases c2 : goFlag s e inits nla = true
    · rw [if_pos c2] at hf hv
      cases hass : assign e.comp e.ctc e.cvc (toAssign e inits) s [] with
      | none => rw [hass] at hf; cases hf
      | some p =>
        obtain ⟨s', unk⟩ := p
        rw [hass] at hv
        dsimp only at hv
        have hunk := assign_acc _ _ _ _ _ _ _ _ hass
        simp only [List.nil_append] at hunk
        intro hin
        apply hv
        apply List.mem_append_right
        rw [hunk]
        unfold toAssign
        cases hvars : e.vars with
        | nil => exact absurd hvars hne
        | cons a t => simp only [List.isEmpty_cons, Bool.false_eq_true, if_false]; rw [← hvars]; exact hin
    · rw [if_neg c2] at hf; cases hf

/-- one `check` of an untyped equation keeps the invariant -/
theorem checkCore_extInv (isE : Nat → Bool) (s : St) (e e0 : E) (nla : Bool) (hm : Marks isE s)
    (h : ExtInv isE e0 e) (hu : e.ty = .unknown) : ExtInv isE e0 (checkCore s e nla).2.1 := by
  have hp := prepare_flagOk isE s e e0 nla hm h.1
  refine ⟨?_, ?_⟩
  · simp only [checkCore]; exact settle_flagOk isE _ _ _ _ _ hp
  · intro hty hne hex
    have hcc := checkCore_ty s e nla
    cases hf : (checkCore s e nla).2.2
    · exact absurd ((hcc.2 hf).trans hu) hty
    · simp only [checkCore] at hf hne hex ⊢
      obtain ⟨f1, f2, f3⟩ := settle_fields (prepare s e nla).1 (prepare s e nla).2.1 (prepare s e nla).2.2 nla
      rw [f1] at hne
      obtain ⟨v, hv, hext, hnot⟩ := hex
      have hnv := settle_unknowns _ _ _ _ hf hne v hnot
      obtain ⟨c1, c2⟩ := hp v hv hext hnv
      exact settle_typedOk _ _ _ _ c1 c2 hne (prepare_tracked s e nla) hf

def ExtAll (isE : Nat → Bool) (es0 es : List E) : Prop :=
  ∀ (i : Nat) (e0 e : E), es0[i]? = some e0 → es[i]? = some e → ExtInv isE e0 e

theorem extAll_set (isE : Nat → Bool) (es0 es : List E) (i : Nat) (e e' : E) (h : ExtAll isE es0 es) (hi : es[i]? = some e)
    (hc : ∀ e0, ExtInv isE e0 e → ExtInv isE e0 e') : ExtAll isE es0 (es.set i e') := by
  intro j e0 x h0 hx
  by_cases hij : i = j
  · subst hij
    have hlt : i < es.length := (List.getElem?_eq_some_iff.mp hi).1
    rw [List.getElem?_set_self hlt] at hx
    cases hx
    exact hc e0 (h i e0 e h0 hi)
  · rw [List.getElem?_set_ne hij] at hx
    exact h j e0 x h0 hx

theorem check_ext (isE : Nat → Bool) (es0 : List E) (s : St) (i : Nat) (nla : Bool) (hm : Marks isE s) (h : ExtAll isE es0 s.eqs) :
    ExtAll isE es0 (check s i nla).1.eqs := by
  unfold check
  split
  · exact h
  · rename_i e he
    split
    · exact h
    · rename_i hty
      have hu : e.ty = .unknown := by simpa using hty
      simp only [setE_eqs, checkCore_eqs]
      exact extAll_set isE es0 s.eqs i e _ h he (fun e0 hc => checkCore_extInv isE s e e0 nla hm hc hu)

theorem sweep_ext (isE : Nat → Bool) (es0 : List E) (s : St) (nla : Bool) (hm : Marks isE s) (h : ExtAll isE es0 s.eqs) :
    ExtAll isE es0 (sweep s nla).1.eqs := by
  unfold sweep
  generalize List.range s.eqs.length = is
  suffices hh : ∀ (acc : St × Bool), Marks isE acc.1 → ExtAll isE es0 acc.1.eqs →
      ExtAll isE es0 (is.foldl (fun (acc : St × Bool) i => let r := check acc.1 i nla; (r.1, r.2 || acc.2)) acc).1.eqs from hh (s, false) hm h
  induction is with
  | nil => intro acc _ h; exact h
  | cons i rest ih =>
    intro acc hm' h'
    simp only [List.foldl_cons]
    exact ih _ (marks_of_keeps (keeps_check acc.1 i nla) hm') (check_ext isE es0 acc.1 i nla hm' h')

theorem marks_markInitialised (isE : Nat → Bool) (s : St) (hm : Marks isE s) :
    Marks isE { s with vars := s.vars.map fun x => if x.ext && x.ty = .unknown then { x with ty := .initialised } else x } := by
  intro v
  have := hm v
  simp only [St.v, List.getD_eq_getElem?_getD, List.getElem?_map] at this ⊢
  cases hx : s.vars[v]? with
  | none => simpa [hx] using this
  | some x =>
    simp only [hx, Option.map_some, Option.getD_some] at this ⊢
    split <;> simpa using this

theorem loop_ext (isE : Nat → Bool) (es0 : List E) : ∀ (fuel : Nat) (s : St) (ln : Nat) (nla : Bool), Marks isE s →
    ExtAll isE es0 s.eqs → ExtAll isE es0 (loop fuel s ln nla).eqs := by
  intro fuel
  induction fuel with
  | zero => intro s ln nla _ h; exact h
  | succ fuel ih =>
    intro s ln nla hm h
    have hs := sweep_ext isE es0 s nla hm h
    have hms := marks_of_keeps (keeps_sweep s nla) hm
    simp only [loop]
    split
    · exact ih _ _ _ hms hs
    · split
      · exact ih _ _ _ hms hs
      · split
        · split
          · exact ih _ _ _ (marks_markInitialised isE _ hms) hs
          · exact hs
        · exact hs

theorem extInv_retype (isE : Nat → Bool) (e0 e : E) (h : ExtInv isE e0 e) : ExtInv isE e0 { e with ty := .algebraic } :=
  ⟨h.1, fun _ _ _ => ⟨by simp, by simp⟩⟩

theorem requalifyPass_ext (isE : Nat → Bool) (es0 : List E) (s : St) (h : ExtAll isE es0 s.eqs) : ExtAll isE es0 (requalifyPass s).1.eqs := by
  unfold requalifyPass
  generalize List.range s.eqs.length = is
  suffices hh : ∀ (acc : St × Bool), ExtAll isE es0 acc.1.eqs →
      ExtAll isE es0 (is.foldl (fun (acc : St × Bool) i =>
        let s := acc.1
        match s.eqs[i]? with
        | some e =>
          if e.ty = .varConstant then
            match e.unknowns.head? with
            | some u =>
              if e.all.any (fun v => v ≠ u && (s.v v).ty ≠ .constant && (s.v v).ty ≠ .ctc && (s.v v).ty ≠ .cvc) then
                ((s.setV u fun x => { x with ty := .algebraic }).setE i { e with ty := .algebraic }, true)
              else acc
            | none => acc
          else acc
        | none => acc) acc).1.eqs from hh (s, false) h
  induction is with
  | nil => intro acc h; exact h
  | cons i rest ih =>
    intro acc h
    simp only [List.foldl_cons]
    apply ih
    split
    · rename_i e he
      split
      · split
        · split
          · simp only [setE_eqs, setV_eqs]
            exact extAll_set isE es0 _ i e _ h he (fun e0 hc => extInv_retype isE e0 e hc)
          · exact h
        · exact h
      · exact h
    · exact h

theorem requalifyLoop_ext (isE : Nat → Bool) (es0 : List E) : ∀ (fuel : Nat) (s : St), ExtAll isE es0 s.eqs →
    ExtAll isE es0 (requalifyLoop fuel s).eqs := by
  intro fuel
  induction fuel with
  | zero => intro s h; exact h
  | succ fuel ih =>
    intro s h
    have hp := requalifyPass_ext isE es0 s h
    simp only [requalifyLoop]
    split
    · exact ih _ hp
    · exact hp

/-- the whole analysis keeps the invariant -/
theorem analyse_ext (s : St) (h : ∀ e ∈ s.eqs, e.ty = .unknown) :
    ExtAll (fun v => (s.v v).ext) s.eqs (analyse s).eqs := by
  have h0 : ExtAll (fun v => (s.v v).ext) s.eqs s.eqs := by
    intro i e0 e h0 h1
    rw [h0] at h1
    cases h1
    have hu := h _ (List.mem_of_getElem? h0)
    exact ⟨fun v hv _ hnot => absurd hv hnot, fun hty => absurd hu hty⟩
  have h1 : ExtAll (fun v => (s.v v).ext) s.eqs (finish (loop (fuelFor s) s 1 false)).eqs := by
    rw [finish_eqs]; exact loop_ext _ s.eqs _ _ _ _ (fun _ => rfl) h0
  simp only [analyse]
  split
  · rw [nlaOverconstrained_eqs]
    exact requalifyLoop_ext _ s.eqs _ _ h1
  · exact h1

end Cellml.Analyser
