/-
  C20 — external variables in the classification model: a marked class is never left unknown by the loop (it cannot be
  the reason for an underconstrained model), the marks themselves are never changed, and no check makes a typed class
  unknown again.
-/
import Cellml.Analyser.Proofs
namespace Cellml.Analyser

/-- nothing that was known becomes unknown, and the external marks are untouched -/
def Keeps (s s' : St) : Prop :=
  s'.vars.length = s.vars.length ∧ ∀ i, ((s'.v i).ty = .unknown → (s.v i).ty = .unknown) ∧ (s'.v i).ext = (s.v i).ext

theorem Keeps.refl (s : St) : Keeps s s := ⟨rfl, fun _ => ⟨id, rfl⟩⟩

theorem Keeps.trans {a b c : St} (h1 : Keeps a b) (h2 : Keeps b c) : Keeps a c :=
  ⟨h2.1.trans h1.1, fun i => ⟨fun h => (h1.2 i).1 ((h2.2 i).1 h), ((h2.2 i).2).trans (h1.2 i).2⟩⟩

theorem v_setV (s : St) (i j : Nat) (f : V → V) :
    (s.setV i f).v j = if i = j ∧ j < s.vars.length then f (s.v j) else s.v j := by
  simp only [St.v, St.setV, List.getD_eq_getElem?_getD, List.getElem?_modify]
  by_cases hij : i = j
  · subst hij
    by_cases hl : i < s.vars.length
    · simp [hl]
    · have : s.vars[i]? = none := by simp at hl ⊢; exact hl
      simp [hl, this]
  · simp [hij]

theorem keeps_setV (s : St) (i : Nat) (f : V → V) (hf : ∀ x, (f x).ext = x.ext ∧ ((f x).ty = .unknown → x.ty = .unknown)) :
    Keeps s (s.setV i f) := by
  refine ⟨by simp [St.setV], fun j => ?_⟩
  rw [v_setV]
  split
  · exact ⟨(hf _).2, (hf _).1⟩
  · exact ⟨id, rfl⟩

theorem keeps_foldl_setV (l : List Nat) (f : V → V) (hf : ∀ x, (f x).ext = x.ext ∧ ((f x).ty = .unknown → x.ty = .unknown)) (s : St) :
    Keeps s (l.foldl (fun s v => s.setV v f) s) := by
  induction l generalizing s with
  | nil => exact Keeps.refl s
  | cons a l ih => simp only [List.foldl_cons]; exact (keeps_setV s a f hf).trans (ih _)

theorem keeps_of_vars {s t t' : St} (h : Keeps s t) (hv : t'.vars = t.vars) : Keeps s t' := by
  refine ⟨by rw [hv]; exact h.1, fun i => ?_⟩
  have : t'.v i = t.v i := by simp [St.v, hv]
  rw [this]; exact h.2 i

theorem keeps_tag (comp : Nat) (ctc cvc : Bool) (s : St) (v : Nat) : Keeps s (tag comp ctc cvc s v) := by
  have k1 : Keeps s (s.setV v fun x => { x with rep := comp }) := keeps_setV _ _ _ (fun x => ⟨rfl, id⟩)
  simp only [tag]
  split
  · refine k1.trans (keeps_setV _ _ _ (fun x => ⟨rfl, fun hx => ?_⟩))
    revert hx; cases ctc <;> cases cvc <;> simp
  · exact k1

theorem keeps_bump (s : St) (v : Nat) (b : Bool) : Keeps s (bump s v b) := by
  simp only [bump]
  split
  · exact keeps_of_vars (keeps_setV s v (fun x => { x with idx := some s.stateIndex }) (fun x => ⟨rfl, id⟩)) rfl
  · exact keeps_of_vars (keeps_setV s v (fun x => { x with idx := some s.variableIndex }) (fun x => ⟨rfl, id⟩)) rfl

theorem keeps_assign (comp : Nat) (ctc cvc : Bool) : ∀ (l : List Nat) (s : St) (acc : List Nat) (s' : St) (u : List Nat),
    assign comp ctc cvc l s acc = some (s', u) → Keeps s s' := by
  intro l
  induction l with
  | nil => intro s acc s' u h; simp [assign] at h; rw [← h.1]; exact Keeps.refl s
  | cons v rest ih =>
    intro s acc s' u h
    simp only [assign] at h
    split at h
    all_goals first
      | (cases h; done)
      | (exact ((keeps_tag comp ctc cvc s v).trans (keeps_bump _ _ _)).trans (ih _ _ _ _ h))

theorem keeps_setE (s : St) (i : Nat) (e : E) : Keeps s (s.setE i e) := ⟨rfl, fun _ => ⟨id, rfl⟩⟩

theorem keeps_prepare (s : St) (e : E) (nla : Bool) : Keeps s (prepare s e nla).1 := by
  simp only [prepare]
  exact keeps_foldl_setV _ (fun x => { x with ty := .initAlg }) (fun x => ⟨rfl, by simp⟩) s

theorem keeps_settle (s : St) (e : E) (inits : List Nat) (nla : Bool) : Keeps s (settle s e inits nla).1 := by
  unfold settle
  split
  · exact keeps_foldl_setV _ (fun x => { x with ty := .overconstrained }) (fun x => ⟨rfl, by simp⟩) s
  · split
    · split
      · exact Keeps.refl s
      · rename_i s' unk hass
        exact keeps_assign _ _ _ _ _ _ _ _ hass
    · exact Keeps.refl s

theorem keeps_check (s : St) (i : Nat) (nla : Bool) : Keeps s (check s i nla).1 := by
  unfold check
  split
  · exact Keeps.refl s
  · split
    · exact Keeps.refl s
    · simp only [checkCore]
      exact ((keeps_prepare s _ nla).trans (keeps_settle _ _ _ nla)).trans (keeps_setE _ _ _)

theorem keeps_sweep (s : St) (nla : Bool) : Keeps s (sweep s nla).1 := by
  unfold sweep
  generalize List.range s.eqs.length = is
  suffices h : ∀ (acc : St × Bool), Keeps s acc.1 →
      Keeps s (is.foldl (fun (acc : St × Bool) i => let r := check acc.1 i nla; (r.1, r.2 || acc.2)) acc).1 from h (s, false) (Keeps.refl s)
  induction is with
  | nil => intro acc h; exact h
  | cons i rest ih => intro acc h; simp only [List.foldl_cons]; exact ih _ (h.trans (keeps_check _ _ _))

/-- no marked class is unknown -/
def ExtKnown (s : St) : Prop := ∀ i, i < s.vars.length → (s.v i).ext = true → (s.v i).ty ≠ .unknown

theorem extKnown_of_keeps {s s' : St} (h : Keeps s s') (hs : ExtKnown s) : ExtKnown s' := by
  intro i hi he hu
  have := h.2 i
  exact hs i (h.1 ▸ hi) (this.2 ▸ he) (this.1 hu)

/-- the step between the second and the third pass: unknown marked classes are considered initialised -/
def markInitialised (s : St) : St :=
  { s with vars := s.vars.map fun x => if x.ext && x.ty = .unknown then { x with ty := .initialised } else x }

theorem extKnown_markInitialised (s : St) : ExtKnown (markInitialised s) := by
  intro i hi he hu
  simp only [markInitialised, List.length_map] at hi
  simp only [St.v, markInitialised, List.getD_eq_getElem?_getD, List.getElem?_map] at he hu
  have hx : s.vars[i]? = some s.vars[i] := List.getElem?_eq_getElem hi
  rw [hx] at he hu
  simp only [Option.map_some, Option.getD_some] at he hu
  by_cases hc : (s.vars[i].ext && decide (s.vars[i].ty = .unknown)) = true
  · simp [hc] at hu
  · simp only [hc, Bool.false_eq_true, if_false] at he hu
    simp [he, hu] at hc

/-- **a marked class is never left unknown**: when the loop ends, every class marked external has a type -/
theorem loop_extKnown : ∀ (fuel : Nat) (s : St) (ln : Nat) (nla : Bool) (r : St), 1 ≤ ln →
    loopO fuel s ln nla = some r → (3 ≤ ln → ExtKnown s) → (r.vars.any (·.ext) = true → ExtKnown r) := by
  intro fuel
  induction fuel with
  | zero => intro s ln nla r _ h; simp [loopO] at h
  | succ fuel ih =>
    intro s ln nla r h1 h hpre
    simp only [loopO] at h
    have ks := keeps_sweep s nla
    split at h
    · exact ih _ _ _ _ h1 h (fun h3 => extKnown_of_keeps ks (hpre h3))
    · split at h
      · rename_i h13
        have : ln = 1 ∨ ln = 3 := by simpa using h13
        exact ih _ _ _ _ (by omega) h (fun h3 => extKnown_of_keeps ks (hpre (by omega)))
      · split at h
        · split at h
          · exact ih _ 3 false _ (by omega) h (fun _ => extKnown_markInitialised _)
          · rename_i hne
            simp only [Option.some.injEq] at h
            subst h
            intro hany
            exfalso
            apply hne
            simp only [List.any_map, List.any_eq_true, Function.comp] at hany ⊢
            obtain ⟨x, hx, he⟩ := hany
            refine ⟨x, hx, ?_⟩
            split at he
            · exact he
            · exact he
        · rename_i h13 h2
          simp only [Option.some.injEq] at h
          subst h
          intro _
          have h3 : 3 ≤ ln := by
            simp only [Bool.or_eq_true, decide_eq_true_eq, not_or] at h13
            omega
          exact extKnown_of_keeps ks (hpre h3)

end Cellml.Analyser
