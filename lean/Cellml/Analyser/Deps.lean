/-
  C05 / C20 — dependency bookkeeping of the classification loop: whatever an equation reads (`mVariables` at the start)
  is, at every moment, still tracked as unknown, recorded as a dependency, or one of the equation's own unknowns; once
  the equation is typed nothing is left in the first group.  The wiring of `analyseModel`'s second half (the equations
  that compute a dependency, looked up through the internal variable of the class) is `eqDeps`.
-/
import Cellml.Analyser.Proofs
namespace Cellml.Analyser

/-- what equation `e` (now) has recorded about the classes `e0` (the same equation at the start) reads -/
def Cov (e0 e : E) : Prop :=
  (∀ v ∈ e0.vars, v ∈ e.vars ∨ v ∈ e.deps.map (·.1) ∨ v ∈ e.unknowns) ∧ (e.ty ≠ .unknown → ∀ v ∈ e.vars, v ∈ e.unknowns)

def CovAll (es0 es : List E) : Prop :=
  ∀ (i : Nat) (e0 e : E), es0[i]? = some e0 → es[i]? = some e → Cov e0 e

theorem cov_self (e : E) (h : e.ty = .unknown) : Cov e e :=
  ⟨fun _ hv => Or.inl hv, fun hn => absurd h hn⟩

theorem covAll_self (es : List E) (h : ∀ e ∈ es, e.ty = .unknown) : CovAll es es := by
  intro i e0 e h0 h1
  rw [h0] at h1
  cases h1
  exact cov_self _ (h _ (List.mem_of_getElem? h0))

theorem assign_acc (comp : Nat) (ctc cvc : Bool) : ∀ (l : List Nat) (s : St) (acc : List Nat) (s' : St) (u : List Nat),
    assign comp ctc cvc l s acc = some (s', u) → u = acc ++ l := by
  intro l
  induction l with
  | nil => intro s acc s' u h; simp [assign] at h; simp [h.2]
  | cons v rest ih =>
    intro s acc s' u h
    simp only [assign] at h
    split at h
    all_goals first
      | (cases h; done)
      | (have := ih _ _ _ _ h; simp [this])

theorem prepare_cov (s : St) (e e0 : E) (nla : Bool) (h : Cov e0 e) (hu : e.ty = .unknown) :
    Cov e0 (prepare s e nla).2.1 := by
  refine ⟨fun v hv => ?_, fun hn => ?_⟩
  · simp only [prepare]
    rcases h.1 v hv with h1 | h1 | h1
    · cases hk : isKnown s v
      · exact Or.inl (by simp [List.mem_filter, h1, hk])
      · refine Or.inr (Or.inl ?_)
        simp only [List.map_append, List.map_map, List.mem_append, List.mem_map, List.mem_filter, Function.comp]
        exact Or.inr ⟨v, ⟨h1, hk⟩, rfl⟩
    · refine Or.inr (Or.inl ?_)
      simp only [List.map_append, List.mem_append]
      exact Or.inl h1
    · exact Or.inr (Or.inr h1)
  · exact absurd ((prepare_ty s e nla).trans hu) hn

theorem settle_cov (s : St) (e e0 : E) (inits : List Nat) (nla : Bool) (h : Cov e0 e) (hu : e.ty = .unknown) :
    Cov e0 (settle s e inits nla).2.1 := by
  unfold settle
  split
  · exact h
  · split
    · split
      · exact h
      · rename_i s' unk hass
        have hunk := assign_acc _ _ _ _ _ _ _ _ hass
        simp only [List.nil_append] at hunk
        refine ⟨fun v hv => ?_, fun _ v hv => ?_⟩
        · rcases h.1 v hv with h1 | h1 | h1
          · exact Or.inl h1
          · obtain ⟨d, hd, hdv⟩ := List.mem_map.mp h1
            cases hc : (unk.any fun u => decide (d = (u, (s'.v u).rep)))
            · refine Or.inr (Or.inl (List.mem_map.mpr ⟨d, ?_, hdv⟩))
              simp only [List.mem_filter]
              exact ⟨hd, by simp [hc]⟩
            · obtain ⟨u, hu1, hu2⟩ := List.any_eq_true.mp hc
              have hu3 : d = (u, (s'.v u).rep) := by simpa using hu2
              have : v = u := by rw [← hdv, hu3]
              exact Or.inr (Or.inr (List.mem_append_right _ (this ▸ hu1)))
          · exact Or.inr (Or.inr (List.mem_append_left _ h1))
        · apply List.mem_append_right
          rw [hunk]
          unfold toAssign
          cases hv' : e.vars with
          | nil => rw [hv'] at hv; cases hv
          | cons a t => simp only [List.isEmpty_cons, Bool.false_eq_true, if_false]; rw [← hv']; exact hv
    · exact h

theorem checkCore_cov (s : St) (e e0 : E) (nla : Bool) (h : Cov e0 e) (hu : e.ty = .unknown) :
    Cov e0 (checkCore s e nla).2.1 := by
  simp only [checkCore]
  exact settle_cov _ _ _ _ _ (prepare_cov s e e0 nla h hu) ((prepare_ty s e nla).trans hu)

theorem covAll_set (es0 es : List E) (i : Nat) (e e' : E) (h : CovAll es0 es) (hi : es[i]? = some e)
    (hc : ∀ e0, Cov e0 e → Cov e0 e') : CovAll es0 (es.set i e') := by
  intro j e0 x h0 hx
  by_cases hij : i = j
  · subst hij
    have hlt : i < es.length := by
      rcases List.getElem?_eq_some_iff.mp hi with ⟨hl, _⟩; exact hl
    rw [List.getElem?_set_self hlt] at hx
    cases hx
    exact hc e0 (h i e0 e h0 hi)
  · rw [List.getElem?_set_ne hij] at hx
    exact h j e0 x h0 hx

theorem check_cov (es0 : List E) (s : St) (i : Nat) (nla : Bool) (h : CovAll es0 s.eqs) :
    CovAll es0 (check s i nla).1.eqs := by
  unfold check
  split
  · exact h
  · rename_i e he
    split
    · exact h
    · rename_i hty
      have hu : e.ty = .unknown := by simpa using hty
      simp only [setE_eqs, checkCore_eqs]
      exact covAll_set es0 s.eqs i e _ h he (fun e0 hc => checkCore_cov s e e0 nla hc hu)

theorem sweep_fold_cov (es0 : List E) (nla : Bool) : ∀ (is : List Nat) (acc : St × Bool), CovAll es0 acc.1.eqs →
    CovAll es0 (is.foldl (fun (acc : St × Bool) i => let r := check acc.1 i nla; (r.1, r.2 || acc.2)) acc).1.eqs := by
  intro is
  induction is with
  | nil => intro acc h; exact h
  | cons i rest ih =>
    intro acc h
    simp only [List.foldl_cons]
    exact ih _ (check_cov es0 acc.1 i nla h)

theorem sweep_cov (es0 : List E) (s : St) (nla : Bool) (h : CovAll es0 s.eqs) : CovAll es0 (sweep s nla).1.eqs := by
  unfold sweep
  exact sweep_fold_cov es0 nla _ (s, false) h

theorem loop_cov (es0 : List E) : ∀ (fuel : Nat) (s : St) (ln : Nat) (nla : Bool), CovAll es0 s.eqs →
    CovAll es0 (loop fuel s ln nla).eqs := by
  intro fuel
  induction fuel with
  | zero => intro s ln nla h; exact h
  | succ fuel ih =>
    intro s ln nla h
    have hs := sweep_cov es0 s nla h
    simp only [loop]
    split
    · exact ih _ _ _ hs
    · split
      · exact ih _ _ _ hs
      · split
        · split
          · exact ih _ _ _ hs
          · exact hs
        · exact hs

theorem finish_fold_eqs : ∀ (l : List Nat) (s : St),
    (l.foldl (fun s i =>
      if (s.v i).ty = .initialised then { s.setV i fun x => { x with ty := .constant, idx := some s.variableIndex } with variableIndex := s.variableIndex + 1 } else s) s).eqs = s.eqs := by
  intro l
  induction l with
  | nil => intro s; rfl
  | cons a l ih =>
    intro s
    simp only [List.foldl_cons]
    rw [ih]
    split <;> rfl

theorem finish_eqs (s : St) : (finish s).eqs = s.eqs := finish_fold_eqs _ s

theorem cov_retype (e0 e : E) (t : ET) (h : Cov e0 e) (hty : e.ty ≠ .unknown) : Cov e0 { e with ty := t } :=
  ⟨h.1, fun _ => h.2 hty⟩

theorem requalifyPass_fold_cov (es0 : List E) : ∀ (is : List Nat) (acc : St × Bool), CovAll es0 acc.1.eqs →
    CovAll es0 (is.foldl (fun (acc : St × Bool) i =>
      let s := acc.1
      match s.eqs[i]? with
      | some e =>
        if e.ty = .varConstant then
          match e.unknowns.head? with
          | some u =>
            if e.all.any (fun v => v ≠ u && (s.v v).ty ≠ .constant && (s.v v).ty ≠ .ctc && (s.v v).ty ≠ .cvc) then
              ((s.setV u fun x => { x with ty := .algebraic }).setE i { e with ty := .algebraic }, true)
            else acc
          | none => acc
        else acc
      | none => acc) acc).1.eqs := by
  intro is
  induction is with
  | nil => intro acc h; exact h
  | cons i rest ih =>
    intro acc h
    simp only [List.foldl_cons]
    apply ih
    split
    · rename_i e he
      split
      · rename_i hvc
        split
        · split
          · simp only [setE_eqs, setV_eqs]
            exact covAll_set es0 _ i e _ h he (fun e0 hc => cov_retype e0 e _ hc (by rw [hvc]; simp))
          · exact h
        · exact h
      · exact h
    · exact h

theorem requalifyPass_cov (es0 : List E) (s : St) (h : CovAll es0 s.eqs) : CovAll es0 (requalifyPass s).1.eqs := by
  unfold requalifyPass
  exact requalifyPass_fold_cov es0 _ (s, false) h

theorem requalifyLoop_cov (es0 : List E) : ∀ (fuel : Nat) (s : St), CovAll es0 s.eqs → CovAll es0 (requalifyLoop fuel s).eqs := by
  intro fuel
  induction fuel with
  | zero => intro s h; exact h
  | succ fuel ih =>
    intro s h
    have hp := requalifyPass_cov es0 s h
    simp only [requalifyLoop]
    split
    · exact ih _ hp
    · exact hp

theorem nlaOver_fold_eqs (s : St) : ∀ (l : List E) (acc : St),
    (l.foldl (fun acc e =>
      if e.ty = .nla then
        let siblings := (s.eqs.filter fun o => o.ty = .nla && o.unknowns.any (e.unknowns.contains ·)).length - 1
        if siblings + 1 > e.unknowns.length then e.unknowns.foldl (fun a v => a.setV v fun x => { x with ty := .overconstrained }) acc else acc
      else acc) acc).eqs = acc.eqs := by
  intro l
  induction l with
  | nil => intro acc; rfl
  | cons a l ih =>
    intro acc
    simp only [List.foldl_cons]
    rw [ih]
    split
    · split
      · exact foldl_setV_eqs _ _ _
      · rfl
    · rfl

theorem nlaOverconstrained_eqs (s : St) : (nlaOverconstrained s).eqs = s.eqs := nlaOver_fold_eqs s _ s

/-- the whole analysis keeps the record of what every equation reads -/
theorem analyse_cov (s : St) (h : ∀ e ∈ s.eqs, e.ty = .unknown) : CovAll s.eqs (analyse s).eqs := by
  have h1 : CovAll s.eqs (finish (loop (fuelFor s) s 1 false)).eqs := by
    rw [finish_eqs]; exact loop_cov s.eqs _ _ _ _ (covAll_self _ h)
  simp only [analyse]
  split
  · rw [nlaOverconstrained_eqs]
    exact requalifyLoop_cov s.eqs _ _ h1
  · exact h1

/-- does (typed) equation `j` compute class `v`? -/
def computes (s : St) (j v : Nat) : Bool :=
  match s.eqs[j]? with
  | some e => e.ty ≠ .unknown && e.unknowns.contains v
  | none => false

/-- the equations equation `i` depends on: those that compute one of its recorded dependencies (the lookup of
    `analyseModel` through the internal variable of the class) -/
def eqDeps (s : St) (i : Nat) : List Nat :=
  match s.eqs[i]? with
  | some e => (List.range s.eqs.length).filter fun j => e.deps.any fun d => computes s j d.1
  | none => []

end Cellml.Analyser
