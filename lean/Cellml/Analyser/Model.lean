/-
  C05 / C20 — executable model of the classification core of `Analyser::AnalyserImpl::analyseModel`:
  `AnalyserInternalEquation::check()` and the three-pass "check every equation until nothing changes" loop, over an
  abstraction of the model: variables are equivalence classes (with the component of their current representative),
  equations record their component, the classes they mention outside / inside `diff`, and what stands alone on
  either side.  Names are assumed unique per class member, so the name comparison of `variableOnLhsRhs` is
  "same class and the representative is the variable of this component".
-/
namespace Cellml.Analyser

inductive VT
  | unknown | shouldBeState | initialised | voi | state | constant | ctc | cvc | initAlg | algebraic | overconstrained
  deriving DecidableEq, Repr, Inhabited

inductive ET | unknown | trueConstant | varConstant | ode | nla | algebraic
  deriving DecidableEq, Repr, Inhabited

structure V where
  ty : VT
  idx : Option Nat := none       -- mIndex
  ext : Bool := false            -- mIsExternal
  rep : Nat                      -- component of the current representative (`mVariable`)
  deriving Repr, Inhabited

/-- what stands alone on one side of an equation: (class, is it `d class/dt`) -/
abbrev Side := Option (Nat × Bool)

structure E where
  ty : ET := .unknown
  comp : Nat
  vars : List Nat                -- mVariables
  odes : List Nat                -- mOdeVariables
  all : List Nat                 -- mAllVariables
  deps : List (Nat × Nat) := []  -- mDependencies: (class, component of its representative when the dependency was recorded)
  unknowns : List Nat := []      -- mUnknownVariables
  ctc : Bool := true             -- mComputedTrueConstant
  cvc : Bool := true             -- mComputedVariableBasedConstant
  lhs : Side
  rhs : Side
  deriving Repr, Inhabited

structure St where
  vars : List V
  eqs : List E
  stateIndex : Nat := 0          -- number of state indices handed out
  variableIndex : Nat := 0
  deriving Repr, Inhabited

def St.v (s : St) (i : Nat) : V := s.vars.getD i ⟨.unknown, none, false, 0⟩

def St.setV (s : St) (i : Nat) (f : V → V) : St := { s with vars := s.vars.modify i f }

def St.setE (s : St) (i : Nat) (e : E) : St := { s with eqs := s.eqs.set i e }

/-- `variableOnLhsRhs` for one side: the variable that stands alone there belongs to the class (fix 242ccce: through
    `areEquivalentVariables`, not through the name of the class's current representative) -/
def onSide (s : St) (_e : E) (v : Nat) : Side → Bool
  | none => false
  | some (w, isDiff) =>
    if isDiff then w = v
    else (s.v v).ty ≠ .state && w = v

def onLhsOrRhs (s : St) (e : E) (v : Nat) : Bool := onSide s e v e.lhs || onSide s e v e.rhs

def isKnown (s : St) (v : Nat) : Bool := (s.v v).ty ≠ .unknown
def isKnownOde (s : St) (v : Nat) : Bool := (s.v v).idx.isSome
def isNonConstant (s : St) (v : Nat) : Bool :=
  (s.v v).ext || ((s.v v).ty ≠ .unknown && (s.v v).ty ≠ .initialised && (s.v v).ty ≠ .ctc && (s.v v).ty ≠ .cvc)

/-- `setVariable(localVariable)` and the default type of a variable an equation is found to compute -/
def tag (comp : Nat) (ctc cvc : Bool) (s : St) (v : Nat) : St :=
  let s := s.setV v fun x => { x with rep := comp }
  if (s.v v).ty = .unknown then s.setV v fun x => { x with ty := if ctc then .ctc else if cvc then .cvc else .algebraic } else s

/-- hand out the next state / variable index -/
def bump (s : St) (v : Nat) (isState : Bool) : St :=
  if isState then { s.setV v fun x => { x with idx := some s.stateIndex } with stateIndex := s.stateIndex + 1 }
  else { s.setV v fun x => { x with idx := some s.variableIndex } with variableIndex := s.variableIndex + 1 }

/-- assign type and index to the variables an equation is found to compute; `none` = the early `return false` -/
def assign (comp : Nat) (ctc cvc : Bool) : List Nat → St → List Nat → Option (St × List Nat)
  | [], s, acc => some (s, acc)
  | v :: rest, s, acc =>
    match ((tag comp ctc cvc s v).v v).ty with
    | .state => assign comp ctc cvc rest (bump (tag comp ctc cvc s v) v true) (acc ++ [v])
    | .ctc | .cvc | .initAlg | .algebraic => assign comp ctc cvc rest (bump (tag comp ctc cvc s v) v false) (acc ++ [v])
    | _ => none

/-- first half of `check`: constant flags, dependencies, untracking of known variables, the initialised variables of a
    fully determined equation when NLA systems are looked for -/
def prepare (s : St) (e : E) (nla : Bool) : St × E × List Nat :=
  let hasKnown := e.vars.any (isKnown s) || e.odes.any (isKnown s)
  let hasNonConst := e.vars.any (isNonConstant s) || e.odes.any (isNonConstant s)
  let e := { e with ctc := e.ctc && !hasKnown, cvc := e.cvc && !hasNonConst, deps := e.deps ++ (e.vars.filter (isKnown s)).map (fun v => (v, (s.v v).rep)),
                    vars := e.vars.filter (fun v => !isKnown s v), odes := e.odes.filter (fun v => !isKnownOde s v) }
  let left := e.vars.length + e.odes.length
  let inits := if nla && left = 0 then e.all.filter (fun v => (s.v v).ty = .initialised || (s.v v).ty = .initAlg) else []
  (inits.foldl (fun s v => s.setV v fun x => { x with ty := .initAlg }) s, e, inits)

/-- the type an equation gets from its lone unknown -/
def eqType (s : St) (e : E) (unknownLeft : Option Nat) : ET :=
  match unknownLeft with
  | none => .nla
  | some u =>
    if !onLhsOrRhs s e u then .nla
    else match (s.v u).ty with
      | .state => .ode
      | .ctc => .trueConstant
      | .cvc => .varConstant
      | _ => .algebraic

theorem eqType_ne (s : St) (e : E) (u : Option Nat) : eqType s e u ≠ .unknown := by
  unfold eqType
  split
  · simp
  · split
    · simp
    · split <;> simp

def unknownLeftOf (e : E) : Option Nat :=
  if e.vars.length + e.odes.length = 1 then (if e.vars.isEmpty then e.odes.head? else e.vars.head?) else none

/-- is something determined by this equation now? -/
def goFlag (s : St) (e : E) (inits : List Nat) (nla : Bool) : Bool :=
  (match unknownLeftOf e with
    | some u => nla || onLhsOrRhs s e u
    | none => false) || !inits.isEmpty

def toAssign (e : E) (inits : List Nat) : List Nat :=
  if e.vars.isEmpty then (if e.odes.isEmpty then inits else e.odes) else e.vars

/-- second half of `check` -/
def settle (s : St) (e : E) (inits : List Nat) (nla : Bool) : St × E × Bool :=
  if nla && e.vars.length + e.odes.length = 0 && inits.isEmpty then
    (e.all.foldl (fun s v => s.setV v fun x => { x with ty := .overconstrained }) s, e, false)
  else if goFlag s e inits nla then
    match assign e.comp e.ctc e.cvc (toAssign e inits) s [] with
    | none => (s, e, false)      -- early `return false` (an uninitialised state, which makes the model invalid)
    | some (s', unk) =>
      (s', { e with ty := eqType s' e (unknownLeftOf e), unknowns := e.unknowns ++ unk, deps := e.deps.filter (fun d => !unk.any fun u => d = (u, (s'.v u).rep)) }, true)
  else (s, e, false)

/-- the body of `AnalyserInternalEquation::check` for an untyped equation `e`: the new state (variables and
    counters only), the updated equation and the "relevant check" flag -/
def checkCore (s : St) (e : E) (nla : Bool) : St × E × Bool :=
  let p := prepare s e nla
  settle p.1 p.2.1 p.2.2 nla

/-- `AnalyserInternalEquation::check` for equation `ei`; returns the new state and the "relevant check" flag -/
def check (s : St) (ei : Nat) (nla : Bool) : St × Bool :=
  match s.eqs[ei]? with
  | none => (s, false)
  | some e =>
    if e.ty ≠ .unknown then (s, false)
    else
      let r := checkCore s e nla
      (r.1.setE ei r.2.1, r.2.2)

/-- one sweep over all equations in order -/
def sweep (s : St) (nla : Bool) : St × Bool :=
  (List.range s.eqs.length).foldl (fun (acc : St × Bool) i => let r := check acc.1 i nla; (r.1, r.2 || acc.2)) (s, false)

/-- the do/while loop with its three "loop numbers"; `fuel` bounds the number of sweeps -/
def loop : Nat → St → Nat → Bool → St
  | 0, s, _, _ => s
  | fuel + 1, s, loopNumber, nla =>
    let (s, relevant) := sweep s nla
    if relevant then loop fuel s loopNumber nla
    else if loopNumber = 1 || loopNumber = 3 then loop fuel s (loopNumber + 1) true
    else if loopNumber = 2 then
      let hasExt := s.vars.any (·.ext)
      let s := { s with vars := s.vars.map fun x => if x.ext && x.ty = .unknown then { x with ty := .initialised } else x }
      if hasExt then loop fuel s 3 false else s
    else s

/-- sweeps needed at most: every relevant sweep types an equation, and there are four phase changes -/
def fuelFor (s : St) : Nat := s.eqs.length + 6

/-- after the loop: still-initialised variables become constants (in class order) -/
def finish (s : St) : St :=
  (List.range s.vars.length).foldl (fun s i =>
    if (s.v i).ty = .initialised then { s.setV i fun x => { x with ty := .constant, idx := some s.variableIndex } with variableIndex := s.variableIndex + 1 } else s) s

/-- "confirm that equations that compute a variable-based constant are still of that type": an equation that reads
    something which is not some kind of constant is requalified as algebraic; one pass in equation order -/
def requalifyPass (s : St) : St × Bool :=
  (List.range s.eqs.length).foldl (fun (acc : St × Bool) i =>
    let s := acc.1
    match s.eqs[i]? with
    | some e =>
      if e.ty = .varConstant then
        match e.unknowns.head? with
        | some u =>
          if e.all.any (fun v => v ≠ u && (s.v v).ty ≠ .constant && (s.v v).ty ≠ .ctc && (s.v v).ty ≠ .cvc) then
            ((s.setV u fun x => { x with ty := .algebraic }).setE i { e with ty := .algebraic }, true)
          else acc
        | none => acc
      else acc
    | none => acc) (s, false)

/-- ... repeated until nothing is requalified (each productive pass turns at least one equation algebraic) -/
def requalifyLoop : Nat → St → St
  | 0, s => s
  | fuel + 1, s => let (s', ch) := requalifyPass s; if ch then requalifyLoop fuel s' else s'

def requalify (s : St) : St := requalifyLoop (s.eqs.length + 1) s

/-- NLA systems with more equations than unknowns: their unknowns are overconstrained -/
def nlaOverconstrained (s : St) : St :=
  s.eqs.foldl (fun acc e =>
    if e.ty = .nla then
      let siblings := (s.eqs.filter fun o => o.ty = .nla && o.unknowns.any (e.unknowns.contains ·)).length - 1
      if siblings + 1 > e.unknowns.length then e.unknowns.foldl (fun a v => a.setV v fun x => { x with ty := .overconstrained }) acc else acc
    else acc) s

def valid (s : St) : Bool := !(s.vars.any fun v => v.ty = .unknown || v.ty = .shouldBeState || v.ty = .overconstrained)

def analyse (s : St) : St :=
  let s := finish (loop (fuelFor s) s 1 false)
  if valid s then nlaOverconstrained (requalify s) else s

inductive MT | ode | algebraic | nla | dae | underconstrained | overconstrained | unsuitably
  deriving DecidableEq, Repr

def modelType (s : St) : MT :=
  let under := s.vars.any fun v => v.ty = .unknown || v.ty = .shouldBeState
  let over := s.vars.any fun v => v.ty = .overconstrained
  if under && over then .unsuitably else if under then .underconstrained else if over then .overconstrained
  else
    let hasOde := s.vars.any fun v => v.ty = .state
    let hasNla := s.eqs.any fun e => e.ty = .nla
    if hasOde then (if hasNla then .dae else .ode) else (if hasNla then .nla else .algebraic)

/-- how a class is numbered in the analysed model -/
inductive Slot | state | variable | none
  deriving DecidableEq, Repr

def slot (v : V) : Slot :=
  if v.ext then .variable
  else match v.ty with
    | .state => .state
    | .constant | .ctc | .cvc | .algebraic | .initAlg => .variable
    | _ => .none

/-- the indices of the `AnalyserVariable`s: classes in creation order, states and the other variables counted separately,
    the variable of integration skipped -/
def idxFrom (si vi : Nat) : List V → List (Option Nat)
  | [] => []
  | v :: r =>
    match slot v with
    | .state => some si :: idxFrom (si + 1) vi r
    | .variable => some vi :: idxFrom si (vi + 1) r
    | .none => none :: idxFrom si vi r

def finalIndices (vs : List V) : List (Option Nat) := idxFrom 0 0 vs

/-- the loop with an explicit "ran out of fuel" outcome, to state that `fuelFor` is enough -/
def loopO : Nat → St → Nat → Bool → Option St
  | 0, _, _, _ => none
  | fuel + 1, s, loopNumber, nla =>
    let (s, relevant) := sweep s nla
    if relevant then loopO fuel s loopNumber nla
    else if loopNumber = 1 || loopNumber = 3 then loopO fuel s (loopNumber + 1) true
    else if loopNumber = 2 then
      let hasExt := s.vars.any (·.ext)
      let s := { s with vars := s.vars.map fun x => if x.ext && x.ty = .unknown then { x with ty := .initialised } else x }
      if hasExt then loopO fuel s 3 false else some s
    else some s

end Cellml.Analyser
