/-
  C05 — the classification loop terminates within `fuelFor` sweeps: every sweep that reports a relevant check types
  at least one more equation, no check un-types one, and there are at most four phase changes.
-/
import Cellml.Analyser.Model
namespace Cellml.Analyser

def unknownCount (s : St) : Nat := (s.eqs.map (·.ty)).count .unknown

@[simp] theorem setV_eqs (s : St) (i : Nat) (f : V → V) : (s.setV i f).eqs = s.eqs := rfl
@[simp] theorem setE_eqs (s : St) (i : Nat) (e : E) : (s.setE i e).eqs = s.eqs.set i e := rfl

theorem foldl_setV_eqs (l : List Nat) (f : V → V) (s : St) :
    (l.foldl (fun s v => s.setV v f) s).eqs = s.eqs := by
  induction l generalizing s with
  | nil => rfl
  | cons a l ih => simp only [List.foldl_cons]; rw [ih]; rfl

theorem tag_eqs (comp : Nat) (ctc cvc : Bool) (s : St) (v : Nat) : (tag comp ctc cvc s v).eqs = s.eqs := by
  simp only [tag]; split <;> rfl

theorem bump_eqs (s : St) (v : Nat) (b : Bool) : (bump s v b).eqs = s.eqs := by
  simp only [bump]; split <;> rfl

theorem assign_eqs (comp : Nat) (ctc cvc : Bool) : ∀ (l : List Nat) (s : St) (acc : List Nat) (s' : St) (u : List Nat),
    assign comp ctc cvc l s acc = some (s', u) → s'.eqs = s.eqs := by
  intro l
  induction l with
  | nil => intro s acc s' u h; simp [assign] at h; rw [← h.1]
  | cons v rest ih =>
    intro s acc s' u h
    simp only [assign] at h
    split at h
    all_goals first
      | (cases h; done)
      | (have := ih _ _ _ _ h; rw [this, bump_eqs, tag_eqs])

theorem prepare_eqs (s : St) (e : E) (nla : Bool) : (prepare s e nla).1.eqs = s.eqs := by
  simp [prepare, foldl_setV_eqs]

theorem prepare_ty (s : St) (e : E) (nla : Bool) : (prepare s e nla).2.1.ty = e.ty := by
  simp [prepare]

theorem settle_eqs (s : St) (e : E) (inits : List Nat) (nla : Bool) : (settle s e inits nla).1.eqs = s.eqs := by
  unfold settle
  split
  · simp [foldl_setV_eqs]
  · split
    · split
      · rfl
      · rename_i s' unk hass
        exact assign_eqs _ _ _ _ _ _ _ _ hass
    · rfl

theorem settle_ty (s : St) (e : E) (inits : List Nat) (nla : Bool) :
    ((settle s e inits nla).2.2 = true → (settle s e inits nla).2.1.ty ≠ .unknown)
      ∧ ((settle s e inits nla).2.2 = false → (settle s e inits nla).2.1.ty = e.ty) := by
  unfold settle
  split
  · simp
  · split
    · split
      · simp
      · refine ⟨fun _ => ?_, by simp⟩
        exact eqType_ne _ _ _
    · simp

theorem checkCore_eqs (s : St) (e : E) (nla : Bool) : (checkCore s e nla).1.eqs = s.eqs := by
  simp only [checkCore, settle_eqs, prepare_eqs]

theorem checkCore_ty (s : St) (e : E) (nla : Bool) :
    ((checkCore s e nla).2.2 = true → (checkCore s e nla).2.1.ty ≠ .unknown)
      ∧ ((checkCore s e nla).2.2 = false → (checkCore s e nla).2.1.ty = e.ty) := by
  have := settle_ty (prepare s e nla).1 (prepare s e nla).2.1 (prepare s e nla).2.2 nla
  simp only [checkCore]
  rw [prepare_ty] at this
  exact this

theorem count_set_same (l : List E) (i : Nat) (e e' : E) (h : l[i]? = some e) (ht : e'.ty = e.ty) :
    ((l.set i e').map (·.ty)).count .unknown = (l.map (·.ty)).count .unknown := by
  induction l generalizing i with
  | nil => simp
  | cons a t ih =>
    cases i with
    | zero =>
      simp only [List.getElem?_cons_zero, Option.some.injEq] at h
      subst h
      simp [ht]
    | succ j =>
      simp only [List.getElem?_cons_succ] at h
      have := ih j h
      simp only [List.set_cons_succ, List.map_cons, List.count_cons]
      omega

theorem count_set_typed (l : List E) (i : Nat) (e e' : E) (h : l[i]? = some e) (hu : e.ty = .unknown) (ht : e'.ty ≠ .unknown) :
    ((l.set i e').map (·.ty)).count .unknown + 1 = (l.map (·.ty)).count .unknown := by
  induction l generalizing i with
  | nil => simp at h
  | cons a t ih =>
    cases i with
    | zero =>
      simp only [List.getElem?_cons_zero, Option.some.injEq] at h
      subst h
      simp [hu, ht]
    | succ j =>
      simp only [List.getElem?_cons_succ] at h
      have := ih j h
      simp only [List.set_cons_succ, List.map_cons, List.count_cons]
      omega

/-- the effect of one check on the number of untyped equations -/
theorem check_count (s : St) (i : Nat) (nla : Bool) :
    ((check s i nla).2 = true → unknownCount (check s i nla).1 + 1 = unknownCount s)
      ∧ ((check s i nla).2 = false → unknownCount (check s i nla).1 = unknownCount s) := by
  unfold check
  split
  · simp
  · rename_i e he
    split
    · simp
    · rename_i hty
      have hu : e.ty = .unknown := by simpa using hty
      have h1 := checkCore_eqs s e nla
      have h2 := checkCore_ty s e nla
      simp only [unknownCount, setE_eqs, h1]
      refine ⟨fun hf => ?_, fun hf => ?_⟩
      · exact count_set_typed _ _ e _ he hu (h2.1 hf)
      · exact count_set_same _ _ e _ he (h2.2 hf)

/-- a sweep never un-types an equation, and a relevant one types at least one more -/
theorem sweep_fold (nla : Bool) : ∀ (is : List Nat) (acc : St × Bool) (n : Nat),
    unknownCount acc.1 + (if acc.2 then 1 else 0) ≤ n →
    unknownCount (is.foldl (fun (acc : St × Bool) i => let r := check acc.1 i nla; (r.1, r.2 || acc.2)) acc).1
      + (if (is.foldl (fun (acc : St × Bool) i => let r := check acc.1 i nla; (r.1, r.2 || acc.2)) acc).2 then 1 else 0) ≤ n := by
  intro is
  induction is with
  | nil => intro acc n h; exact h
  | cons i rest ih =>
    intro acc n h
    simp only [List.foldl_cons]
    apply ih
    have hc := check_count acc.1 i nla
    cases hf : (check acc.1 i nla).2
    · have := hc.2 hf
      simp only [Bool.false_or]
      omega
    · have := hc.1 hf
      simp only [Bool.true_or, if_true]
      cases acc.2 <;> simp at h ⊢ <;> omega

theorem sweep_count (s : St) (nla : Bool) :
    unknownCount (sweep s nla).1 + (if (sweep s nla).2 then 1 else 0) ≤ unknownCount s := by
  unfold sweep
  exact sweep_fold nla _ (s, false) _ (by simp)

/-- **termination**: with `unknownCount s + (5 - loopNumber)` sweeps the loop has run to its end -/
theorem loopO_some : ∀ (fuel : Nat) (s : St) (ln : Nat) (nla : Bool), 1 ≤ ln → ln ≤ 4 →
    unknownCount s + (5 - ln) ≤ fuel → (loopO fuel s ln nla).isSome = true := by
  intro fuel
  induction fuel with
  | zero => intro s ln nla h1 h4 h; omega
  | succ fuel ih =>
    intro s ln nla h1 h4 h
    have hs := sweep_count s nla
    simp only [loopO]
    cases hr : (sweep s nla).2
    · simp only [hr, Bool.false_eq_true, if_false] at hs ⊢
      by_cases h13 : (ln = 1 || ln = 3) = true
      · simp only [h13, if_true]
        have : ln = 1 ∨ ln = 3 := by simpa using h13
        exact ih _ _ _ (by omega) (by omega) (by omega)
      · simp only [h13, Bool.false_eq_true, if_false]
        by_cases h2 : ln = 2
        · simp only [h2, if_true]
          split
          · exact ih _ 3 false (by omega) (by omega) (by
              show unknownCount { (sweep s nla).1 with vars := _ } + (5 - 3) ≤ fuel
              have : unknownCount { (sweep s nla).1 with vars := ((sweep s nla).1.vars.map fun x => if x.ext && x.ty = .unknown then { x with ty := .initialised } else x) } = unknownCount (sweep s nla).1 := rfl
              omega)
          · rfl
        · simp [h2]
    · simp only [hr, if_true] at hs ⊢
      exact ih _ _ _ h1 h4 (by omega)

theorem unknownCount_le (s : St) : unknownCount s ≤ s.eqs.length := by
  unfold unknownCount
  have := List.count_le_length (a := ET.unknown) (l := s.eqs.map (·.ty))
  simpa using this

/-- the fuel `analyse` uses is enough: the loop is never cut short -/
theorem fuel_enough (s : St) : (loopO (fuelFor s) s 1 false).isSome = true :=
  loopO_some _ _ _ _ (Nat.le_refl _) (by omega) (by have := unknownCount_le s; simp only [fuelFor]; omega)

/-- `loop` is `loopO` whenever the latter finishes -/
theorem loop_eq_loopO : ∀ (fuel : Nat) (s : St) (ln : Nat) (nla : Bool) (r : St),
    loopO fuel s ln nla = some r → loop fuel s ln nla = r := by
  intro fuel
  induction fuel with
  | zero => intro s ln nla r h; simp [loopO] at h
  | succ fuel ih =>
    intro s ln nla r h
    simp only [loopO] at h
    simp only [loop]
    split at h
    · rename_i hr; simp only [hr, if_true]; exact ih _ _ _ _ h
    · rename_i hr
      simp only [hr, Bool.false_eq_true, if_false]
      split at h
      · rename_i h13; simp only [h13, if_true]; exact ih _ _ _ _ h
      · rename_i h13
        simp only [h13, Bool.false_eq_true, if_false]
        split at h
        · rename_i h2
          simp only [h2, if_true]
          split at h
          · rename_i he; simp only [he, if_true]; exact ih _ _ _ _ h
          · rename_i he; simp only [he, Bool.false_eq_true, if_false]; simpa using h
        · rename_i h2; simp only [h2, if_false]; simpa using h

end Cellml.Analyser
