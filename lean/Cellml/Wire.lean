/-
  Wire helpers shared by the driver engines: hex strings, token splitting, S-expressions.
  The same format is read and written by `harness/hx_common.h` and `vlib/wire.py`.
-/
namespace Cellml.Wire

def hexDigit (n : Nat) : Char := if n < 10 then Char.ofNat (48 + n) else Char.ofNat (87 + n)

def hexVal (c : Char) : Option Nat :=
  if '0' ≤ c ∧ c ≤ '9' then some (c.toNat - 48)
  else if 'a' ≤ c ∧ c ≤ 'f' then some (c.toNat - 87)
  else if 'A' ≤ c ∧ c ≤ 'F' then some (c.toNat - 55)
  else none

/-- bytes (as Latin-1 `Char`s) → hex; the empty string is written `-` -/
def toHex (s : List Char) : String :=
  if s.isEmpty then "-" else
  String.ofList (s.flatMap fun c => [hexDigit (c.toNat / 16 % 16), hexDigit (c.toNat % 16)])

def fromHexAux : List Char → List Char → Option (List Char)
  | [], acc => some acc.reverse
  | [_], _ => none
  | a :: b :: r, acc =>
    match hexVal a, hexVal b with
    | some x, some y => fromHexAux r (Char.ofNat (16 * x + y) :: acc)
    | _, _ => none

def fromHex (s : String) : Option (List Char) :=
  if s = "-" then some [] else fromHexAux s.toList []

def tokens (line : String) : List String :=
  (line.splitOn " ").filter (· ≠ "")

/-! S-expressions: atoms and lists; atoms are bare words or hex strings `#6162`. -/
inductive Sexp where
  | atom (s : String)
  | list (xs : List Sexp)
  deriving Repr, Inhabited

mutual
def Sexp.toString : Sexp → String
  | .atom s => s
  | .list xs => "(" ++ Sexp.listToString xs ++ ")"
def Sexp.listToString : List Sexp → String
  | [] => ""
  | [x] => x.toString
  | x :: y :: r => x.toString ++ " " ++ Sexp.listToString (y :: r)
end

/-- tokenizer: parentheses are tokens, everything else splits on blanks -/
def sexpTokens (s : String) : List String :=
  let rec go (cs : List Char) (cur : List Char) (acc : List String) : List String :=
    match cs with
    | [] => (if cur.isEmpty then acc else String.ofList cur.reverse :: acc).reverse
    | c :: r =>
      if c = '(' ∨ c = ')' then
        go r [] (String.singleton c :: (if cur.isEmpty then acc else String.ofList cur.reverse :: acc))
      else if c = ' ' ∨ c = '\t' ∨ c = '\n' ∨ c = '\r' then
        go r [] (if cur.isEmpty then acc else String.ofList cur.reverse :: acc)
      else go r (c :: cur) acc
  go s.toList [] []

/-- parse with an explicit stack; returns the first complete expression -/
def parseSexp (s : String) : Option Sexp :=
  let rec go (ts : List String) (stack : List (List Sexp)) : Option Sexp :=
    match ts with
    | [] => none
    | t :: r =>
      if t = "(" then go r ([] :: stack)
      else if t = ")" then
        match stack with
        | [] => none
        | top :: [] => some (.list top.reverse)
        | top :: below :: rest => go r ((.list top.reverse :: below) :: rest)
      else
        match stack with
        | [] => some (.atom t)
        | top :: rest => go r ((.atom t :: top) :: rest)
  go (sexpTokens s) []

end Cellml.Wire
