/-
  C01 — no input can crash the pipeline: the one new model of this property, the *guarded walk* over unit references.

  Every recursion of the library over the units of a model (Units::isDefined / isResolved / requiresImports,
  Model::hasImports, referencedUnits / unitsUsed, the validator's updateBaseUnitCount, the importer's cycle checks)
  follows the references of a units to other units of the same model; a model may contain units that refer to themselves,
  directly or through others, and may refer to units that do not exist.  Each of these functions now carries the list of
  the units on the current path and does not enter a units that is already on it.  `walk` is that scheme; the theorem
  (`Props/C01.lean`) is that it terminates: with fuel `units.length + 1` it never runs out, whatever the references are.
-/
namespace Cellml.Crash

/-- the units of a model: name and the names its unit children refer to -/
abbrev Units := List (String × List String)

inductive R | done (visited : Nat) | fuel
  deriving Repr, DecidableEq

def addR : R → R → R
  | .done a, .done b => .done (a + b)
  | _, _ => .fuel

/-- enter `name` unless it is on the path or does not exist; visit its references with `name` on the path -/
def walk (us : Units) : Nat → List String → String → R
  | 0, _, _ => .fuel
  | n + 1, onPath, name =>
    if onPath.contains name then .done 0 else
    match us.lookup name with
    | none => .done 0
    | some refs => (refs.map (walk us n (name :: onPath))).foldl addR (.done 1)

/-- the unguarded recursion of the pinned tree, for comparison: it has no bound -/
def walkUnguarded (us : Units) : Nat → String → R
  | 0, _ => .fuel
  | n + 1, name =>
    match us.lookup name with
    | none => .done 0
    | some refs => (refs.map (walkUnguarded us n)).foldl addR (.done 1)

end Cellml.Crash
