/-
  C12 — purity: a history model of the one piece of process-wide state that the library's services share, libxml2's
  `xmlKeepBlanksDefault` flag (`Cellml/Generated/Globals.lean` lists every call in /repo/src that writes process-wide
  state, regenerated on every run).

    * `Printer::printModel` ends with the flag off (src/printer.cpp: `xmlKeepBlanksDefault(0)` before the final parse);
    * `XmlNode::convertToString` turns it on (src/xmlnode.cpp), which every parse of a document with MathML (component
      math, reset test / reset values) does after reading the document, and every analysis or validation of a model with ci / cn elements;
    * `XmlDoc::parse` reads it: with the flag off, white space between the tags of the MathML is dropped.

  So what `Parser::parseModel` returns for one text depends on the calls made before in the process: a known finding.
  The model predicts, for every parse of a history, whether the math strings keep their white space.
-/
namespace Cellml.Purity

inductive Op where
  | parse (hasMath : Bool)        -- parseModel of a document with / without MathML
  | print                         -- printModel
  | analyse (hasMath : Bool)      -- analyseModel or validateModel: reading a ci / cn element goes through XmlNode::convertToString
  | other                         -- generate, flatten: they do not write the flag
  deriving Repr, DecidableEq

/-- the process-wide state: is the flag on?  libxml2 starts with it on -/
abbrev G := Bool
def init : G := true

/-- one call: the new flag, and for a parse whether white space in the MathML is kept -/
def step (g : G) : Op → G × Option Bool
  | .parse m => (if m then true else g, some g)
  | .print => (false, none)
  | .analyse m => (if m then true else g, none)
  | .other => (g, none)

def run : G → List Op → List (Option Bool)
  | _, [] => []
  | g, op :: rest => (step g op).2 :: run (step g op).1 rest

def final : G → List Op → G
  | g, [] => g
  | g, op :: rest => final (step g op).1 rest

/-- what a call observes after a history -/
def after (h : List Op) (op : Op) : Option Bool := (step (final init h) op).2

/-- the same library with a printer that puts the flag back (the repair that an existing test blocks) -/
def stepFixed (g : G) : Op → G × Option Bool
  | .parse _ => (g, some g)
  | .print => (g, none)
  | .analyse _ => (g, none)
  | .other => (g, none)

def finalFixed : G → List Op → G
  | g, [] => g
  | g, op :: rest => finalFixed (stepFixed g op).1 rest

def afterFixed (h : List Op) (op : Op) : Option Bool := (stepFixed (finalFixed init h) op).2

end Cellml.Purity
