/-
  C08 — lemmas about the units model.
-/
import Cellml.Units.Model
namespace Cellml.Units

/-! ### evaluation in dependency order -/

theorem evalUpTo_length {α : Type} (f : (Nat → Option α) → Nat → Def → Option α) (env : List Def) :
    ∀ n, (evalUpTo f env n).length = n := by
  intro n
  induction n with
  | zero => rfl
  | succ n ih => simp [evalUpTo, ih]

theorem evalUpTo_get_stable {α : Type} (f : (Nat → Option α) → Nat → Def → Option α) (env : List Def) (i : Nat) :
    ∀ n, i < n → (evalUpTo f env n)[i]? = (evalUpTo f env (i + 1))[i]? := by
  intro n
  induction n with
  | zero => intro h; omega
  | succ n ih =>
    intro h
    by_cases hi : i = n
    · subst hi; rfl
    · have hlt : i < n := by omega
      rw [← ih hlt]
      simp only [evalUpTo]
      rw [List.getElem?_append_left (by rw [evalUpTo_length]; exact hlt)]

/-- the lookup an entry sees: the values of the earlier entries, nothing else -/
def lookBelow {α : Type} (f : (Nat → Option α) → Nat → Def → Option α) (env : List Def) (i : Nat) : Nat → Option α :=
  fun j => if j < i then valueAt f env j else none

theorem valueAt_unfold {α : Type} (f : (Nat → Option α) → Nat → Def → Option α) (env : List Def) (i : Nat) (d : Def)
    (hd : env[i]? = some d) : valueAt f env i = f (lookBelow f env i) i d := by
  have hi : i < env.length := by
    rcases Nat.lt_or_ge i env.length with h | h
    · exact h
    · simp [List.getElem?_eq_none h] at hd
  unfold valueAt table
  rw [evalUpTo_get_stable f env i env.length hi]
  simp only [evalUpTo]
  rw [List.getElem?_append_right (by rw [evalUpTo_length]; exact Nat.le_refl _)]
  simp only [evalUpTo_length, Nat.sub_self, List.getElem?_cons_zero, Option.join_some, hd]
  congr 1
  funext j
  unfold lookBelow
  by_cases hj : j < i
  · simp only [hj, if_true]
    unfold valueAt table
    rw [evalUpTo_get_stable f env j env.length (by omega), evalUpTo_get_stable f env j i hj]
  · simp only [hj, if_false]
    rw [List.getElem?_eq_none (by rw [evalUpTo_length]; omega)]
    rfl

theorem valueAt_none {α : Type} (f : (Nat → Option α) → Nat → Def → Option α) (env : List Def) (i : Nat)
    (hd : env[i]? = none) : valueAt f env i = none := by
  have hi : env.length ≤ i := by
    rcases Nat.lt_or_ge i env.length with h | h
    · simp [List.getElem?_eq_getElem h] at hd
    · exact h
  unfold valueAt table
  rw [List.getElem?_eq_none (by rw [evalUpTo_length]; exact hi)]
  rfl

/-! ### sums -/

theorem sumQ_append (xs ys : List Q) : sumQ (xs ++ ys) = sumQ xs + sumQ ys := by
  induction xs with
  | nil => simp only [List.nil_append, sumQ]; grind
  | cons x xs ih => simp only [List.cons_append, sumQ, ih]; grind

theorem sumQ_perm {xs ys : List Q} (h : xs.Perm ys) : sumQ xs = sumQ ys := by
  induction h with
  | nil => rfl
  | cons x _ ih => simp only [sumQ, ih]
  | swap x y l => simp only [sumQ]; grind
  | trans _ _ ih1 ih2 => exact ih1.trans ih2

theorem sumQ_map_congr {β : Type} (l : List β) (f g : β → Q) (h : ∀ x ∈ l, f x = g x) :
    sumQ (l.map f) = sumQ (l.map g) := by
  induction l with
  | nil => rfl
  | cons x xs ih =>
    simp only [List.map_cons, sumQ]
    rw [h x List.mem_cons_self, ih (fun y hy => h y (List.mem_cons_of_mem _ hy))]

theorem sumQ_map_mul (c : Q) (l : List Q) : sumQ (l.map (c * ·)) = c * sumQ l := by
  induction l with
  | nil => simp only [List.map_nil, sumQ]; grind
  | cons x xs ih => simp only [List.map_cons, sumQ, ih]; grind

/-! ### comparison of exponent vectors -/

theorem sameVec_iff (cx : Ctx) (env : List Def) (f g : Vec) :
    sameVec cx env f g = true ↔ ∀ k, k < nDims cx env → k ≠ cx.dimless → f k = g k := by
  unfold sameVec
  simp only [List.all_eq_true, List.mem_range, Bool.or_eq_true, decide_eq_true_eq, beq_iff_eq]
  constructor
  · intro h k hk hd
    rcases h k hk with h | h
    · exact absurd h hd
    · exact h
  · intro h k hk
    by_cases hd : k = cx.dimless
    · exact Or.inl hd
    · exact Or.inr (h k hk hd)

end Cellml.Units
