/-
  C08 — executable model of the units algebra of `src/units.cpp`.

  * an environment is a list of units definitions in dependency order (a definition may refer
    to standard units and to *earlier* entries; a forward or missing reference is "undefined");
  * `mStep` mirrors `updateUnitMultiplier`: per child `log10(multiplier) + m(ref)·exponent + prefix`
    (prefix and multiplier are **not** scaled by the exponent — as in the code);
  * `bStep` mirrors `updateUnitsMap`: exponents of base dimensions, a childless user units being a
    base dimension of its own; an imported units (`alias`) passes the exponent through
    (after `fix: pass the exponent through imported units in updateUnitsMap`);
  * `compatible`, `factorLog` (= log10 of `Units::scalingFactor`), `equivalent`.
  The `std::map<std::string,double>` of base exponents (zero entries and `dimensionless` erased) is
  modelled by its lookup function on the finite universe of dimensions; comparing two such maps by
  size and inclusion is modelled by pointwise equality.
-/
namespace Cellml.Units

abbrev Q := Rat

inductive Ref
  | std (i : Nat)     -- index into the table of standard units
  | user (i : Nat)    -- index into the environment
  deriving DecidableEq, Repr

structure Child where
  ref : Ref
  pfx : Q        -- prefix as a power of ten (`convertPrefixToInt`)
  exp : Q        -- exponent
  lgMult : Q     -- log10 of the multiplier
  deriving Repr

inductive Def
  | compound (children : List Child)   -- `children = []`: a user-defined base unit
  | alias (target : Nat)               -- imported units, resolved to an environment entry
  deriving Repr

/-- a standard unit: log10 multiplier and exponents of the SI base dimensions -/
structure Std where
  mult : Q
  base : List (Nat × Q)
  deriving Repr

structure Ctx where
  stds : List Std       -- regenerated from utilities.h (Generated/StdUnits.lean)
  nBase : Nat           -- number of SI base dimensions (ids `0 … nBase-1`)
  dimless : Nat         -- id of `dimensionless`

/-- evaluate definitions in order; entry `n` sees the results of entries `< n` only -/
def evalUpTo {α : Type} (f : (Nat → Option α) → Nat → Def → Option α) (env : List Def) : Nat → List (Option α)
  | 0 => []
  | n+1 =>
    let t := evalUpTo f env n
    t ++ [match env[n]? with
          | some d => f (fun j => (t[j]?).join) n d
          | none => none]

def table {α : Type} (f : (Nat → Option α) → Nat → Def → Option α) (env : List Def) : List (Option α) :=
  evalUpTo f env env.length

def valueAt {α : Type} (f : (Nat → Option α) → Nat → Def → Option α) (env : List Def) (i : Nat) : Option α :=
  ((table f env)[i]?).join

/-! ### multiplier (`updateUnitMultiplier`) -/

def stdMult (cx : Ctx) (i : Nat) : Option Q := (cx.stds[i]?).map (·.mult)

def refM (cx : Ctx) (look : Nat → Option Q) : Ref → Option Q
  | .std i => stdMult cx i
  | .user j => look j

/-- contribution of one child: `mult + m(ref) * exp + prefixMult` -/
def childM (cx : Ctx) (look : Nat → Option Q) (c : Child) : Option Q :=
  (refM cx look c.ref).map fun b => c.lgMult + b * c.exp + c.pfx

def sumQ : List Q → Q
  | [] => 0
  | x :: xs => x + sumQ xs

def mStep (cx : Ctx) (look : Nat → Option Q) (_ : Nat) : Def → Option Q
  | .compound cs => if cs.all (fun c => (childM cx look c).isSome) then some (sumQ (cs.map fun c => (childM cx look c).getD 0)) else none
  | .alias j => look j

def mUnits (cx : Ctx) (env : List Def) (i : Nat) : Option Q := valueAt (mStep cx) env i

/-! ### the specification's scale: `(multiplier · prefix · ref)^exponent` per child -/

def childS (cx : Ctx) (look : Nat → Option Q) (c : Child) : Option Q :=
  (refM cx look c.ref).map fun b => c.exp * (c.lgMult + c.pfx + b)

def sStep (cx : Ctx) (look : Nat → Option Q) (_ : Nat) : Def → Option Q
  | .compound cs => if cs.all (fun c => (childS cx look c).isSome) then some (sumQ (cs.map fun c => (childS cx look c).getD 0)) else none
  | .alias j => look j

def sSpec (cx : Ctx) (env : List Def) (i : Nat) : Option Q := valueAt (sStep cx) env i

/-! ### base exponents (`updateUnitsMap`) -/

abbrev Vec := Nat → Q

def stdVec (cx : Ctx) (i : Nat) : Option Vec :=
  (cx.stds[i]?).map fun s => fun k => sumQ ((s.base.filter (·.1 = k)).map (·.2))

def refB (cx : Ctx) (look : Nat → Option Vec) : Ref → Option Vec
  | .std i => stdVec cx i
  | .user j => look j

def childB (cx : Ctx) (look : Nat → Option Vec) (c : Child) : Option Vec :=
  (refB cx look c.ref).map fun v => fun k => c.exp * v k

def isBaseDef : Def → Bool
  | .compound [] => true
  | _ => false

def bStep (cx : Ctx) (look : Nat → Option Vec) (i : Nat) : Def → Option Vec
  | .compound [] => some fun k => if k = cx.nBase + i then 1 else 0
  | .compound cs => if cs.all (fun c => (childB cx look c).isSome) then
      some fun k => sumQ (cs.map fun c => ((childB cx look c).getD (fun _ => 0)) k) else none
  | .alias j => look j

def bUnits (cx : Ctx) (env : List Def) (i : Nat) : Option Vec := valueAt (bStep cx) env i

/-- a units operand of the public functions: a standard unit by name, an entry of the model, or null -/
inductive Operand
  | std (i : Nat) | user (i : Nat) | null
  deriving DecidableEq, Repr

def opM (cx : Ctx) (env : List Def) : Operand → Option Q
  | .std i => stdMult cx i
  | .user i => mUnits cx env i
  | .null => none

def opB (cx : Ctx) (env : List Def) : Operand → Option Vec
  | .std i => stdVec cx i
  | .user i => bUnits cx env i
  | .null => none

/-- number of dimensions in play: SI base dimensions + one potential dimension per entry -/
def nDims (cx : Ctx) (env : List Def) : Nat := cx.nBase + env.length

def sameVec (cx : Ctx) (env : List Def) (f g : Vec) : Bool :=
  (List.range (nDims cx env)).all fun k => k = cx.dimless || f k == g k

/-- `Units::compatible` -/
def compatible (cx : Ctx) (env : List Def) (a b : Operand) : Bool :=
  match opB cx env a, opB cx env b with
  | some f, some g => sameVec cx env f g
  | _, _ => false

/-- log10 of `Units::scalingFactor(a, b)`; `none` = the function returns 0.0 -/
def factorLog (cx : Ctx) (env : List Def) (a b : Operand) : Option Q :=
  if compatible cx env a b then
    match opM cx env a, opM cx env b with
    | some x, some y => some (y - x)
    | _, _ => none
  else none

/-- `Units::equivalent` -/
def equivalent (cx : Ctx) (env : List Def) (a b : Operand) : Bool := factorLog cx env a b == some 0

end Cellml.Units
