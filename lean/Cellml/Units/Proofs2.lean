/-
  C08 — algebra of units: invariance, definedness, specification scale.
-/
import Cellml.Units.Proofs
namespace Cellml.Units

/-- strong induction over environment indices -/
theorem strong_ind {P : Nat → Prop} (h : ∀ i, (∀ j, j < i → P j) → P i) : ∀ i, P i := by
  intro i
  have : ∀ n, ∀ j, j < n → P j := by
    intro n
    induction n with
    | zero => intro j hj; omega
    | succ n ih =>
      intro j hj
      by_cases hjn : j < n
      · exact ih j hjn
      · have : j = n := by omega
        subst this
        exact h j ih
  exact this (i + 1) i (by omega)

/-- two environments of the same length whose entries behave alike under every lookup have the same values -/
theorem valueAt_congr {α : Type} (f : (Nat → Option α) → Nat → Def → Option α) (env env' : List Def)
    (hlen : env.length = env'.length)
    (hstep : ∀ i d d' look, env[i]? = some d → env'[i]? = some d' → f look i d = f look i d') :
    ∀ i, valueAt f env i = valueAt f env' i := by
  apply strong_ind
  intro i ih
  cases hd : env[i]? with
  | none =>
    have hd' : env'[i]? = none := by
      have : env.length ≤ i := by
        rcases Nat.lt_or_ge i env.length with h | h
        · simp [List.getElem?_eq_getElem h] at hd
        · exact h
      exact List.getElem?_eq_none (by omega)
    rw [valueAt_none f env i hd, valueAt_none f env' i hd']
  | some d =>
    have hi : i < env'.length := by
      rcases Nat.lt_or_ge i env.length with h | h
      · omega
      · simp [List.getElem?_eq_none h] at hd
    have hd' : env'[i]? = some env'[i] := List.getElem?_eq_getElem hi
    rw [valueAt_unfold f env i d hd, valueAt_unfold f env' i _ hd']
    have hl : lookBelow f env i = lookBelow f env' i := by
      funext j
      unfold lookBelow
      by_cases hj : j < i
      · simp only [hj, if_true]; exact ih j hj
      · simp only [hj, if_false]
    rw [hl]
    exact hstep i d _ _ hd hd'

/-! ### order of unit children does not matter -/

theorem all_perm {β : Type} {l l' : List β} (h : l.Perm l') (p : β → Bool) : l.all p = l'.all p := by
  induction h with
  | nil => rfl
  | cons x _ ih => simp [ih]
  | swap x y l => simp only [List.all_cons]; cases p x <;> cases p y <;> rfl
  | trans _ _ ih1 ih2 => exact ih1.trans ih2

theorem all_congr_mem {β : Type} (l : List β) (p q : β → Bool) (h : ∀ x ∈ l, p x = q x) : l.all p = l.all q := by
  induction l with
  | nil => rfl
  | cons x xs ih =>
    simp only [List.all_cons]
    rw [h x List.mem_cons_self, ih (fun y hy => h y (List.mem_cons_of_mem _ hy))]

theorem mStep_perm (cx : Ctx) (look : Nat → Option Q) (i : Nat) {cs cs' : List Child} (h : cs.Perm cs') :
    mStep cx look i (.compound cs) = mStep cx look i (.compound cs') := by
  simp only [mStep]
  rw [all_perm h, sumQ_perm (h.map _)]

theorem perm_nil_iff {β : Type} {l : List β} (h : ([] : List β).Perm l) : l = [] := by
  have := h.length_eq; simp at this; exact List.eq_nil_of_length_eq_zero this.symm

theorem bStep_perm (cx : Ctx) (look : Nat → Option Vec) (i : Nat) {cs cs' : List Child} (h : cs.Perm cs') :
    bStep cx look i (.compound cs) = bStep cx look i (.compound cs') := by
  cases cs with
  | nil => rw [perm_nil_iff h]
  | cons c r =>
    cases cs' with
    | nil => have := perm_nil_iff h.symm; cases this
    | cons c' r' =>
      simp only [bStep]
      rw [all_perm h]
      split
      · congr 1
        funext k
        exact sumQ_perm (h.map _)
      · rfl

/-- replacing the children of one entry by a permutation changes no multiplier … -/
theorem mUnits_perm (cx : Ctx) (env : List Def) (n : Nat) (cs cs' : List Child) (hn : env[n]? = some (.compound cs))
    (h : cs.Perm cs') : ∀ i, mUnits cx env i = mUnits cx (env.set n (.compound cs')) i := by
  apply valueAt_congr
  · simp
  · intro i d d' look hd hd'
    by_cases hi : i = n
    · subst hi
      rw [hn] at hd; cases hd
      rw [List.getElem?_set_self (by
        rcases Nat.lt_or_ge i env.length with h | h
        · exact h
        · simp [List.getElem?_eq_none h] at hn)] at hd'
      cases hd'
      exact mStep_perm cx look i h
    · rw [List.getElem?_set_ne (Ne.symm hi)] at hd'
      rw [hd] at hd'; cases hd'; rfl

/-- … and no vector of base exponents -/
theorem bUnits_perm (cx : Ctx) (env : List Def) (n : Nat) (cs cs' : List Child) (hn : env[n]? = some (.compound cs))
    (h : cs.Perm cs') : ∀ i, bUnits cx env i = bUnits cx (env.set n (.compound cs')) i := by
  apply valueAt_congr
  · simp
  · intro i d d' look hd hd'
    by_cases hi : i = n
    · subst hi
      rw [hn] at hd; cases hd
      rw [List.getElem?_set_self (by
        rcases Nat.lt_or_ge i env.length with h | h
        · exact h
        · simp [List.getElem?_eq_none h] at hn)] at hd'
      cases hd'
      exact bStep_perm cx look i h
    · rw [List.getElem?_set_ne (Ne.symm hi)] at hd'
      rw [hd] at hd'; cases hd'; rfl

/-! ### indirection: a units that merely renames an earlier one -/

theorem mUnits_indirect (cx : Ctx) (env : List Def) (i j : Nat) (hj : j < i)
    (hi : env[i]? = some (.compound [⟨.user j, 0, 1, 0⟩])) : mUnits cx env i = mUnits cx env j := by
  unfold mUnits
  rw [valueAt_unfold _ env i _ hi]
  simp only [mStep, List.all_cons, List.all_nil, Bool.and_true, childM, refM, lookBelow, hj, if_true,
    List.map_cons, List.map_nil, sumQ]
  cases h : valueAt (mStep cx) env j with
  | none => simp
  | some v => simp; grind

theorem bUnits_indirect (cx : Ctx) (env : List Def) (i j : Nat) (hj : j < i)
    (hi : env[i]? = some (.compound [⟨.user j, 0, 1, 0⟩])) : bUnits cx env i = bUnits cx env j := by
  unfold bUnits
  rw [valueAt_unfold _ env i _ hi]
  simp only [bStep, List.all_cons, List.all_nil, Bool.and_true, childB, refB, lookBelow, hj, if_true,
    List.map_cons, List.map_nil, sumQ]
  cases h : valueAt (bStep cx) env j with
  | none => simp
  | some v =>
    simp only [Option.map_some, Option.isSome_some, if_true, Option.getD_some]
    congr 1; funext k; grind

/-! ### multiplier and exponents are defined together -/

theorem refs_isSome (cx : Ctx) (lq : Nat → Option Q) (lv : Nat → Option Vec)
    (h : ∀ j, (lq j).isSome = (lv j).isSome) (r : Ref) : (refM cx lq r).isSome = (refB cx lv r).isSome := by
  cases r with
  | std i => simp [refM, refB, stdMult, stdVec]
  | user j => exact h j

theorem defined_together (cx : Ctx) (env : List Def) : ∀ i, (mUnits cx env i).isSome = (bUnits cx env i).isSome := by
  apply strong_ind
  intro i ih
  unfold mUnits bUnits at *
  cases hd : env[i]? with
  | none => rw [valueAt_none _ env i hd, valueAt_none _ env i hd]; rfl
  | some d =>
    rw [valueAt_unfold _ env i d hd, valueAt_unfold _ env i d hd]
    have hl : ∀ j, (lookBelow (mStep cx) env i j).isSome = (lookBelow (bStep cx) env i j).isSome := by
      intro j; unfold lookBelow
      by_cases hj : j < i
      · simp only [hj, if_true]; exact ih j hj
      · simp [hj]
    cases d with
    | alias j => exact hl j
    | compound cs =>
      have hall : (cs.all fun c => (childM cx (lookBelow (mStep cx) env i) c).isSome) =
          (cs.all fun c => (childB cx (lookBelow (bStep cx) env i) c).isSome) := by
        congr 1; funext c
        simp only [childM, childB, Option.isSome_map]
        exact refs_isSome cx _ _ hl c.ref
      cases cs with
      | nil => simp [mStep, bStep]
      | cons c r =>
        simp only [mStep, bStep]
        rw [hall]
        split <;> rfl

/-! ### the specification's scale -/

/-- prefixes and multipliers sit on children of exponent 1 -/
def ExpOneCarriers (env : List Def) : Prop :=
  ∀ (i : Nat) (cs : List Child), env[i]? = some (Def.compound cs) →
    ∀ c ∈ cs, c.exp = 1 ∨ (c.lgMult = 0 ∧ c.pfx = 0)

theorem mUnits_eq_sSpec (cx : Ctx) (env : List Def) (h : ExpOneCarriers env) :
    ∀ i, mUnits cx env i = sSpec cx env i := by
  apply strong_ind
  intro i ih
  unfold mUnits sSpec at *
  cases hd : env[i]? with
  | none => rw [valueAt_none _ env i hd, valueAt_none _ env i hd]
  | some d =>
    rw [valueAt_unfold _ env i d hd, valueAt_unfold _ env i d hd]
    have hl : lookBelow (mStep cx) env i = lookBelow (sStep cx) env i := by
      funext j; unfold lookBelow
      by_cases hj : j < i
      · simp only [hj, if_true]; exact ih j hj
      · simp [hj]
    cases d with
    | alias j => simp only [mStep, sStep]; rw [hl]
    | compound cs =>
      simp only [mStep, sStep]
      rw [hl]
      have hc : ∀ c ∈ cs, childM cx (lookBelow (sStep cx) env i) c = childS cx (lookBelow (sStep cx) env i) c := by
        intro c hcm
        simp only [childM, childS]
        cases hr : refM cx (lookBelow (sStep cx) env i) c.ref with
        | none => rfl
        | some b =>
          simp only [Option.map_some, Option.some.injEq]
          rcases h i cs hd c hcm with h1 | ⟨h2, h3⟩
          · rw [h1]; grind
          · rw [h2, h3]; grind
      have hall : (cs.all fun c => (childM cx (lookBelow (sStep cx) env i) c).isSome) =
          (cs.all fun c => (childS cx (lookBelow (sStep cx) env i) c).isSome) := by
        apply all_congr_mem
        intro c hcm; rw [hc c hcm]
      rw [hall]
      split
      · congr 1
        apply sumQ_map_congr
        intro c hcm; rw [hc c hcm]
      · rfl

end Cellml.Units
