/-
  C18 — the visited-list DFS decides reachability (both directions; fuel `n + 1` suffices).
-/
import Cellml.Equiv.Model
namespace Cellml.Equiv

theorem Reach.trans {adj} {a b c : Nat} (h1 : Reach adj a b) (h2 : Reach adj b c) : Reach adj a c := by
  induction h1 with
  | refl => exact h2
  | step hm _ ih => exact Reach.step hm (ih h2)

/-! ### soundness: `true` means reachable -/

theorem visitList_sound {adj : Nat → List Nat} {target : Nat} {rec : Nat → List Nat → Bool × List Nat}
    (hrec : ∀ e vis vis', rec e vis = (true, vis') → Reach adj e target) :
    ∀ es vis vis', visitList target rec es vis = (true, vis') → ∃ e ∈ es, Reach adj e target := by
  intro es
  induction es with
  | nil => intro vis vis' h; simp [visitList] at h
  | cons e es ih =>
    intro vis vis' h
    unfold visitList at h
    split at h
    · obtain ⟨e', he', hr⟩ := ih _ _ h
      exact ⟨e', List.mem_cons_of_mem _ he', hr⟩
    · split at h
      · rename_i heq
        exact ⟨e, List.mem_cons_self, hrec _ _ _ heq⟩
      · obtain ⟨e', he', hr⟩ := ih _ _ h
        exact ⟨e', List.mem_cons_of_mem _ he', hr⟩

theorem visit_sound (adj : Nat → List Nat) (target : Nat) :
    ∀ fuel v vis vis', visit adj target fuel v vis = (true, vis') → Reach adj v target := by
  intro fuel
  induction fuel with
  | zero => intro v vis vis' h; simp [visit] at h
  | succ n ih =>
    intro v vis vis' h
    unfold visit at h
    split at h
    · rename_i hv; subst hv; exact Reach.refl _
    · obtain ⟨e, he, hr⟩ := visitList_sound (fun e vis vis' h => ih e vis vis' h) _ _ _ h
      exact Reach.step he hr


/-! ### completeness: `false` (with enough fuel) means unreachable -/

/-- number of vertices of the universe `[0,n)` not yet visited -/
def unvis (n : Nat) (vis : List Nat) : Nat := ((List.range n).filter (fun u => decide (u ∉ vis))).length

theorem filter_length_mono {α} (p q : α → Bool) (h : ∀ x, p x = true → q x = true) :
    ∀ l : List α, (l.filter p).length ≤ (l.filter q).length
  | [] => by simp
  | x :: xs => by
    have ih := filter_length_mono p q h xs
    by_cases hp : p x = true
    · simp [List.filter, hp, h x hp]; exact ih
    · by_cases hq : q x = true
      · simp [List.filter, hp, hq]; omega
      · simp [List.filter, hp, hq]; exact ih

theorem unvis_mono {n : Nat} {vis vis' : List Nat} (h : ∀ u, u ∈ vis → u ∈ vis') : unvis n vis' ≤ unvis n vis := by
  unfold unvis
  apply filter_length_mono
  intro u hu
  simp only [decide_eq_true_eq] at hu ⊢
  exact fun hm => hu (h u hm)

theorem unvis_cons_lt {n v : Nat} {vis : List Nat} (hv : v < n) (hnv : v ∉ vis) : unvis n (v :: vis) < unvis n vis := by
  unfold unvis
  have hsub : ((List.range n).filter (fun u => decide (u ∉ v :: vis))) =
      ((List.range n).filter (fun u => decide (u ∉ vis))).filter (fun u => decide (u ≠ v)) := by
    rw [List.filter_filter]
    congr 1
    funext u
    simp [List.mem_cons, not_or]
  rw [hsub]
  apply List.length_filter_lt_length_iff_exists.mpr
  refine ⟨v, ?_, by simp⟩
  simp [List.mem_filter, hv, hnv]

/-- the post-condition of a failed search started from `vis`, ending in `vis'` -/
structure Post (adj : Nat → List Nat) (target : Nat) (vis vis' : List Nat) : Prop where
  mono : ∀ u, u ∈ vis → u ∈ vis'
  closed : ∀ u, u ∈ vis' → u ∉ vis → (u ≠ target ∧ ∀ w ∈ adj u, w ∈ vis')

theorem Post.refl {adj target vis} : Post adj target vis vis :=
  ⟨fun _ h => h, fun _ h hn => absurd h hn⟩

theorem Post.trans {adj target a b c} (h1 : Post adj target a b) (h2 : Post adj target b c) : Post adj target a c := by
  refine ⟨fun u hu => h2.mono u (h1.mono u hu), ?_⟩
  intro u huc hua
  by_cases hub : u ∈ b
  · obtain ⟨hne, hcl⟩ := h1.closed u hub hua
    exact ⟨hne, fun w hw => h2.mono w (hcl w hw)⟩
  · exact h2.closed u huc hub

/-- specification assumed of the recursive call inside `visitList` -/
def RecSpec (adj : Nat → List Nat) (target n fuel : Nat) (rec : Nat → List Nat → Bool × List Nat) : Prop :=
  ∀ e vis vis', e < n → e ∉ vis → unvis n vis ≤ fuel → rec e vis = (false, vis') →
    Post adj target vis vis' ∧ e ∈ vis'

theorem visitList_complete {adj : Nat → List Nat} {target n fuel : Nat} {rec : Nat → List Nat → Bool × List Nat}
    (hrec : RecSpec adj target n fuel rec) :
    ∀ es vis vis', (∀ e ∈ es, e < n) → unvis n vis ≤ fuel → visitList target rec es vis = (false, vis') →
      Post adj target vis vis' ∧ ∀ e ∈ es, e ∈ vis' := by
  intro es
  induction es with
  | nil =>
    intro vis vis' _ _ h
    simp [visitList] at h
    subst h
    exact ⟨Post.refl, fun e he => by cases he⟩
  | cons e es ih =>
    intro vis vis' hb hf h
    have hbe : e < n := hb e List.mem_cons_self
    have hbes : ∀ x ∈ es, x < n := fun x hx => hb x (List.mem_cons_of_mem _ hx)
    unfold visitList at h
    split at h
    · rename_i hmem
      obtain ⟨hp, hall⟩ := ih vis vis' hbes hf h
      refine ⟨hp, ?_⟩
      intro x hx
      cases hx with
      | head => exact hp.mono _ hmem
      | tail _ hx' => exact hall x hx'
    · rename_i hnmem
      split at h
      · cases h
      · rename_i vis1 heq
        obtain ⟨hp1, he1⟩ := hrec e vis vis1 hbe hnmem hf heq
        have hf1 : unvis n vis1 ≤ fuel := Nat.le_trans (unvis_mono hp1.mono) hf
        obtain ⟨hp2, hall⟩ := ih vis1 vis' hbes hf1 h
        refine ⟨hp1.trans hp2, ?_⟩
        intro x hx
        cases hx with
        | head => exact hp2.mono _ he1
        | tail _ hx' => exact hall x hx'

theorem visit_complete (adj : Nat → List Nat) (target n : Nat) (hadj : ∀ v, v < n → ∀ w ∈ adj v, w < n) :
    ∀ fuel, RecSpec adj target n fuel (visit adj target (fuel + 1)) := by
  intro fuel
  induction fuel with
  | zero =>
    intro e vis vis' he hne hf _
    -- unvis n vis ≤ 0 contradicts e being unvisited
    have := unvis_cons_lt (n := n) he hne
    omega
  | succ k ih =>
    intro v vis vis' hv hnv hf h
    unfold visit at h
    split at h
    · cases h
    · rename_i hvt
      have hlt := unvis_cons_lt (n := n) hv hnv
      have hf' : unvis n (v :: vis) ≤ k := by omega
      obtain ⟨hp, hall⟩ := visitList_complete ih (adj v) (v :: vis) vis' (hadj v hv) hf' h
      refine ⟨⟨fun u hu => hp.mono u (List.mem_cons_of_mem _ hu), ?_⟩, hp.mono v List.mem_cons_self⟩
      intro u hu hnu
      by_cases huv : u = v
      · subst huv; exact ⟨hvt, hall⟩
      · exact hp.closed u hu (by simp [huv, hnu])

/-- a set closed under `adj` contains everything reachable from its members -/
theorem closed_reach {adj : Nat → List Nat} {S : List Nat}
    (hcl : ∀ u, u ∈ S → ∀ w ∈ adj u, w ∈ S) :
    ∀ a b, Reach adj a b → a ∈ S → b ∈ S := by
  intro a b h
  induction h with
  | refl a => intro ha; exact ha
  | step hm _ ih => intro ha; exact ih (hcl _ ha _ hm)

/-- `Variable::hasEquivalentVariable(v, true)`-style query: DFS from `v` with an empty visited list -/
theorem dfs_correct (adj : Nat → List Nat) (n : Nat) (hadj : ∀ v, v < n → ∀ w ∈ adj v, w < n)
    (v target : Nat) (hv : v < n) :
    (visit adj target (n + 1) v []).1 = true ↔ Reach adj v target := by
  constructor
  · intro h
    cases hres : visit adj target (n + 1) v [] with
    | mk b vis' =>
      rw [hres] at h; simp at h; subst h
      exact visit_sound adj target _ _ _ _ hres
  · intro hreach
    cases hres : visit adj target (n + 1) v [] with
    | mk b vis' =>
      cases b with
      | true => rfl
      | false =>
        exfalso
        have hfuel : unvis n [] ≤ n := by
          unfold unvis; exact Nat.le_trans (List.length_filter_le _ _) (by simp)
        obtain ⟨hp, hvin⟩ := visit_complete adj target n hadj n v [] vis' hv (by simp) hfuel hres
        have hcl : ∀ u, u ∈ vis' → (u ≠ target ∧ ∀ w ∈ adj u, w ∈ vis') :=
          fun u hu => hp.closed u hu (by simp)
        have : target ∈ vis' := closed_reach (fun u hu => (hcl u hu).2) v target hreach hvin
        exact (hcl target this).1 rfl


end Cellml.Equiv
