/-
  C18 — the cached query refines the uncached one for every query history, provided the key
  separates pairs with different answers; the pair key does, the Cantor key does not.
-/
import Cellml.Equiv.Dfs
namespace Cellml.Equiv

theorem Reach.symm {adj : Nat → List Nat} (hs : ∀ a b, b ∈ adj a → a ∈ adj b) {a b : Nat}
    (h : Reach adj a b) : Reach adj b a := by
  induction h with
  | refl a => exact Reach.refl a
  | step hm _ ih => exact Reach.trans ih (Reach.step (hs _ _ hm) (Reach.refl _))

/-- `hasEquivalentVariable(v, other, true)` ⇔ distinct and connected -/
theorem hasEq_iff (adj : Nat → List Nat) (n : Nat) (hadj : ∀ v, v < n → ∀ w ∈ adj v, w < n)
    (v other : Nat) (ho : other < n) :
    hasEq adj n v other = true ↔ v ≠ other ∧ Reach adj other v := by
  unfold hasEq
  by_cases h : v = other
  · simp [h]
  · simp only [h, if_false, ne_eq, not_false_eq_true, true_and]
    exact dfs_correct adj n hadj other v ho

/-- `areEquivalentVariables(v1, v2)` ⇔ connected (the same variable included) -/
theorem areEq_iff (adj : Nat → List Nat) (n : Nat) (hadj : ∀ v, v < n → ∀ w ∈ adj v, w < n)
    (v1 v2 : Nat) (h2 : v2 < n) :
    areEq adj n v1 v2 = true ↔ Reach adj v2 v1 := by
  unfold areEq
  simp only [Bool.or_eq_true, decide_eq_true_eq]
  rw [hasEq_iff adj n hadj v1 v2 h2]
  constructor
  · rintro (h | ⟨_, h⟩)
    · subst h; exact Reach.refl _
    · exact h
  · intro h
    by_cases he : v1 = v2
    · exact Or.inl he
    · exact Or.inr ⟨he, h⟩

theorem areEq_symm (adj : Nat → List Nat) (n : Nat) (hadj : ∀ v, v < n → ∀ w ∈ adj v, w < n)
    (hs : ∀ a b, b ∈ adj a → a ∈ adj b) (a b : Nat) (ha : a < n) (hb : b < n) :
    areEq adj n a b = areEq adj n b a := by
  have h1 := areEq_iff adj n hadj a b hb
  have h2 := areEq_iff adj n hadj b a ha
  cases hx : areEq adj n a b <;> cases hy : areEq adj n b a <;> simp_all
  · exact absurd (Reach.symm hs h2) h1
  · exact absurd (Reach.symm hs h1) h2

/-- every cached entry is the uncached answer of some in-domain pair with that key -/
def CacheInv {κ : Type} (dom : Nat → Prop) (key : Nat → Nat → κ) (f : Nat → Nat → Bool) (c : Cache κ) : Prop :=
  ∀ k v, (k, v) ∈ c → ∃ a b, dom a ∧ dom b ∧ key a b = k ∧ f a b = v

/-- the key never identifies two in-domain pairs with different uncached answers -/
def KeyOK {κ : Type} (dom : Nat → Prop) (key : Nat → Nat → κ) (f : Nat → Nat → Bool) : Prop :=
  ∀ a b c d, dom a → dom b → dom c → dom d → key a b = key c d → f a b = f c d

theorem lookup_mem {κ : Type} [BEq κ] [LawfulBEq κ] {c : Cache κ} {k : κ} {v : Bool}
    (h : c.lookup k = some v) : (k, v) ∈ c := by
  induction c with
  | nil => simp [List.lookup] at h
  | cons x xs ih =>
    obtain ⟨k', v'⟩ := x
    simp only [List.lookup] at h
    split at h
    · rename_i heq
      have : k = k' := by simpa using heq
      subst this
      cases h
      exact List.mem_cons_self
    · exact List.mem_cons_of_mem _ (ih h)

theorem cachedQuery_correct {κ : Type} [BEq κ] [LawfulBEq κ] {dom : Nat → Prop} {key : Nat → Nat → κ}
    {f : Nat → Nat → Bool} (hk : KeyOK dom key f) {c : Cache κ} (hc : CacheInv dom key f c)
    (a b : Nat) (ha : dom a) (hb : dom b) :
    (cachedQuery key f c a b).1 = f a b ∧ CacheInv dom key f (cachedQuery key f c a b).2 := by
  unfold cachedQuery
  cases hl : c.lookup (key a b) with
  | some r =>
    obtain ⟨a', b', ha', hb', hkey, hv⟩ := hc _ _ (lookup_mem hl)
    exact ⟨by simp only; rw [← hv]; exact hk a' b' a b ha' hb' ha hb hkey, hc⟩
  | none =>
    refine ⟨rfl, ?_⟩
    intro k v hm
    rcases List.mem_cons.mp hm with h | h
    · cases h; exact ⟨a, b, ha, hb, rfl, rfl⟩
    · exact hc k v h

/-- C18-2: any order, any repetition — the cached answers are the uncached ones -/
theorem runQueries_correct {κ : Type} [BEq κ] [LawfulBEq κ] {dom : Nat → Prop} {key : Nat → Nat → κ}
    {f : Nat → Nat → Bool} (hk : KeyOK dom key f) :
    ∀ (qs : List (Nat × Nat)) (c : Cache κ), CacheInv dom key f c → (∀ q ∈ qs, dom q.1 ∧ dom q.2) →
      runQueries key f c qs = qs.map (fun q => f q.1 q.2) := by
  intro qs
  induction qs with
  | nil => intro c _ _; rfl
  | cons q qs ih =>
    intro c hc hd
    obtain ⟨a, b⟩ := q
    have hq := hd (a, b) List.mem_cons_self
    obtain ⟨h1, h2⟩ := cachedQuery_correct hk hc a b hq.1 hq.2
    simp only [runQueries, List.map_cons]
    rw [h1, ih _ h2 (fun q hq => hd q (List.mem_cons_of_mem _ hq))]

theorem cacheInv_nil {κ : Type} (dom : Nat → Prop) (key : Nat → Nat → κ) (f : Nat → Nat → Bool) :
    CacheInv dom key f [] := by intro k v h; cases h

/-- the pair key identifies only a pair with itself or its mirror image -/
theorem pairKey_inj (x y z w : BitVec 64) (h : pairKey x y = pairKey z w) :
    (x = z ∧ y = w) ∨ (x = w ∧ y = z) := by
  unfold pairKey at h
  split at h <;> split at h <;> simp only [Prod.mk.injEq] at h
  · exact Or.inl ⟨h.2, h.1⟩
  · exact Or.inr ⟨h.2, h.1⟩
  · exact Or.inr ⟨h.1, h.2⟩
  · exact Or.inl ⟨h.1, h.2⟩

/-- with distinct objects at distinct addresses the pair key is fine for every symmetric `f` -/
theorem pairKey_ok (dom : Nat → Prop) (addr : Nat → BitVec 64)
    (hinj : ∀ a b, dom a → dom b → addr a = addr b → a = b) (f : Nat → Nat → Bool)
    (hsymm : ∀ a b, dom a → dom b → f a b = f b a) :
    KeyOK dom (fun a b => pairKey (addr a) (addr b)) f := by
  intro a b c d ha hb hc hd h
  rcases pairKey_inj _ _ _ _ h with ⟨h1, h2⟩ | ⟨h1, h2⟩
  · rw [hinj a c ha hc h1, hinj b d hb hd h2]
  · rw [hinj a d ha hd h1, hinj b c hb hc h2]
    exact hsymm d c hd hc

end Cellml.Equiv
