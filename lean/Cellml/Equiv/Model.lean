/-
  C18 — executable model of the variable-equivalence queries.

  * `visit` / `visitList` mirror `haveEquivalentVariables` (src/variable.cpp): depth-first search
    from `variable2` for `variable1` with the `testedVariables` list;
  * `hasEq` = `Variable::hasEquivalentVariable(v, true)`, `areEq` = `libcellml::areEquivalentVariables`;
  * `cachedQuery` = `AnalyserModel::areEquivalentVariables` over an abstract key function;
  * `pairKey` = the current key (unordered pair of addresses), `cantor64` = the superseded one.
  Vertices are `Nat`s below `n`; `adj v` lists the equivalent variables of `v` in order.
-/
namespace Cellml.Equiv


/-- inner loop of `haveEquivalentVariables`: scan the equivalents of the current vertex -/
def visitList (target : Nat) (rec : Nat → List Nat → Bool × List Nat) :
    List Nat → List Nat → Bool × List Nat
  | [], vis => (false, vis)
  | e :: es, vis =>
    if e ∈ vis then visitList target rec es vis
    else
      match rec e vis with
      | (true, vis') => (true, vis')
      | (false, vis') => visitList target rec es vis'

/-- `haveEquivalentVariables(variable1 = target, variable2 = v, testedVariables = vis)` -/
def visit (adj : Nat → List Nat) (target : Nat) : Nat → Nat → List Nat → Bool × List Nat
  | 0, _, vis => (false, vis)
  | fuel+1, v, vis =>
    if v = target then (true, vis)
    else visitList target (visit adj target fuel) (adj v) (v :: vis)

/-- reachability -/
inductive Reach (adj : Nat → List Nat) : Nat → Nat → Prop
  | refl (a) : Reach adj a a
  | step {a b c} : b ∈ adj a → Reach adj b c → Reach adj a c


/-- `variable->hasEquivalentVariable(other, true)`: false on itself, else search from `other` for `variable` -/
def hasEq (adj : Nat → List Nat) (n : Nat) (v other : Nat) : Bool :=
  if v = other then false else (visit adj v (n + 1) other []).1

/-- `libcellml::areEquivalentVariables(v1, v2)` -/
def areEq (adj : Nat → List Nat) (n : Nat) (v1 v2 : Nat) : Bool :=
  v1 = v2 || hasEq adj n v1 v2

/-- the cache of `AnalyserModel` as an association list (a `std::map` that is only ever `emplace`d on a miss) -/
abbrev Cache (κ : Type) := List (κ × Bool)

def cachedQuery {κ : Type} [BEq κ] (key : Nat → Nat → κ) (f : Nat → Nat → Bool) (c : Cache κ) (a b : Nat) :
    Bool × Cache κ :=
  match c.lookup (key a b) with
  | some r => (r, c)
  | none => (f a b, (key a b, f a b) :: c)

def runQueries {κ : Type} [BEq κ] (key : Nat → Nat → κ) (f : Nat → Nat → Bool) :
    Cache κ → List (Nat × Nat) → List Bool
  | _, [] => []
  | c, (a, b) :: qs =>
    let (r, c') := cachedQuery key f c a b
    r :: runQueries key f c' qs

/-- current key (after `fix: key the equivalent-variables cache by the pair of addresses`) -/
def pairKey (x y : BitVec 64) : BitVec 64 × BitVec 64 := if y < x then (y, x) else (x, y)

/-- superseded key: Cantor pairing evaluated in `uintptr_t` -/
def cantor64 (a b : BitVec 64) : BitVec 64 :=
  let v1 := if b < a then b else a
  let v2 := if b < a then a else b
  (((v1 + v2) * (v1 + v2 + 1)) >>> 1) + v2

end Cellml.Equiv
