/-
  C13 — freshness of generated identifiers, cache synchronisation, post-condition of assignment.
-/
import Cellml.Annot.Model
namespace Cellml.Annot

/-! ### makeUniqueId -/

theorem hexStr_ne_empty (n : Nat) : hexStr n ≠ "" := by
  unfold hexStr
  intro h
  have := congrArg String.toList h
  simp at this
  try exact toDigits_ne_nil n this

theorem makeUnique_of_exists (cache : List String) : ∀ fuel c, (∃ k, k < fuel ∧ hexStr (c + k) ∉ cache) →
    (makeUnique cache fuel c).1 = hexStr (makeUnique cache fuel c).2 ∧ c ≤ (makeUnique cache fuel c).2 ∧
    (makeUnique cache fuel c).1 ∉ cache := by
  intro fuel
  induction fuel with
  | zero => intro c ⟨k, hk, _⟩; omega
  | succ f ih =>
    intro c ⟨k, hk, hfree⟩
    unfold makeUnique
    by_cases hc : cache.contains (hexStr c) = true
    · rw [if_pos hc]
      have hk0 : k ≠ 0 := by
        intro h0; subst h0
        simp at hfree
        exact hfree (by simpa using hc)
      have := ih (c + 1) ⟨k - 1, by omega, by
        have : c + 1 + (k - 1) = c + k := by omega
        rw [this]; exact hfree⟩
      exact ⟨this.1, by omega, this.2.2⟩
    · rw [if_neg hc]
      exact ⟨rfl, Nat.le_refl _, by simpa using hc⟩

/-- among `|cache| + 1` consecutive counter values one renders to a string outside the cache -/
theorem exists_free (cache : List String) (c : Nat) : ∃ k, k < cache.length + 1 ∧ hexStr (c + k) ∉ cache := by
  apply Classical.byContradiction
  intro hno
  have hall : ∀ k, k < cache.length + 1 → hexStr (c + k) ∈ cache := by
    intro k hk
    apply Classical.byContradiction
    intro hn
    exact hno ⟨k, hk, hn⟩
  let l := (List.range (cache.length + 1)).map fun k => hexStr (c + k)
  have hnd : l.Nodup := by
    apply List.pairwise_map.2
    apply List.Pairwise.imp _ (List.pairwise_lt_range (n := cache.length + 1))
    intro a b hab h
    have := hexStr_inj _ _ h
    omega
  have hsub : l ⊆ cache := by
    intro x hx
    obtain ⟨k, hk, rfl⟩ := List.mem_map.mp hx
    exact hall k (List.mem_range.mp hk)
  have := hnd.length_le_of_subset hsub
  simp [l] at this
  try omega

/-- C13-1: `makeUniqueId` terminates within `|cache| + 1` steps with an identifier that is not in the cache;
    the counter never goes back -/
theorem makeUnique_fresh (cache : List String) (c : Nat) :
    (makeUnique cache (cache.length + 1) c).1 = hexStr (makeUnique cache (cache.length + 1) c).2 ∧
    c ≤ (makeUnique cache (cache.length + 1) c).2 ∧ (makeUnique cache (cache.length + 1) c).1 ∉ cache :=
  makeUnique_of_exists cache _ c (exists_free cache c)

/-! ### list facts -/

theorem count_set (l : List String) : ∀ (i : Nat) (a x : String), i < l.length →
    (l.set i a).count x + (if l.getD i "" = x then 1 else 0) = l.count x + (if a = x then 1 else 0) := by
  induction l with
  | nil => intro i a x h; simp at h
  | cons y ys ih =>
    intro i a x h
    cases i with
    | zero =>
      simp only [List.set_cons_zero, List.count_cons, List.getD_cons_zero, beq_iff_eq]
      omega
    | succ i =>
      have := ih i a x (by simpa using h)
      simp only [List.set_cons_succ, List.count_cons, List.getD_cons_succ, beq_iff_eq] at *
      omega

theorem nonEmpty_set_perm (l : List String) : ∀ (i : Nat) (a : String), i < l.length → l.getD i "" = "" → a ≠ "" →
    (nonEmpty (l.set i a)).Perm (a :: nonEmpty l) := by
  induction l with
  | nil => intro i a h; simp at h
  | cons y ys ih =>
    intro i a h hget ha
    cases i with
    | zero =>
      simp only [List.getD_cons_zero] at hget
      subst hget
      simp [nonEmpty, ha]
    | succ i =>
      have := ih i a (by simpa using h) (by simpa using hget) ha
      simp only [nonEmpty, List.set_cons_succ, List.filter_cons] at *
      by_cases hy : y = ""
      · simp [hy]; simpa [nonEmpty] using this
      · simp only [ne_eq, hy, not_false_eq_true, decide_true, if_true]
        exact (List.Perm.cons y this).trans (List.Perm.swap a y _)

theorem mem_nonEmpty {l : List String} {x : String} : x ∈ nonEmpty l ↔ x ∈ l ∧ x ≠ "" := by
  simp [nonEmpty]

theorem getD_mem {l : List String} {i : Nat} (h : i < l.length) : l.getD i "" ∈ l := by
  rw [List.getD_eq_getElem?_getD, List.getElem?_eq_getElem h]; simp

theorem getD_set_ne (l : List String) (i j : Nat) (a : String) (h : i ≠ j) : (l.set i a).getD j "" = l.getD j "" := by
  simp [List.getD_eq_getElem?_getD, List.getElem?_set_ne h]

theorem getD_set_self (l : List String) (i : Nat) (a : String) (h : i < l.length) : (l.set i a).getD i "" = a := by
  simp [List.getD_eq_getElem?_getD, List.getElem?_set_self h]

theorem nonEmpty_clear_perm (l : List String) : ∀ (i : Nat), i < l.length → l.getD i "" ≠ "" →
    (nonEmpty (l.set i "")).Perm ((nonEmpty l).erase (l.getD i "")) := by
  induction l with
  | nil => intro i h; simp at h
  | cons y ys ih =>
    intro i hlt hold
    cases i with
    | zero =>
      simp only [List.getD_cons_zero] at hold ⊢
      simp [nonEmpty, hold]
    | succ i =>
      have hlt' : i < ys.length := by simpa using hlt
      have hold' : ys.getD i "" ≠ "" := by simpa using hold
      have h := ih i hlt' hold'
      simp only [List.set_cons_succ, List.getD_cons_succ]
      by_cases hy : y = ""
      · subst hy
        simpa [nonEmpty] using h
      · have e1 : nonEmpty (y :: ys.set i "") = y :: nonEmpty (ys.set i "") := by simp [nonEmpty, hy]
        have e2 : nonEmpty (y :: ys) = y :: nonEmpty ys := by simp [nonEmpty, hy]
        rw [e1, e2, List.erase_cons]
        by_cases hyx : y = ys.getD i ""
        · have hmem : ys.getD i "" ∈ nonEmpty ys := mem_nonEmpty.mpr ⟨getD_mem hlt', hold'⟩
          simp only [hyx, beq_self_eq_true, if_true]
          exact (List.Perm.cons _ h).trans (List.perm_cons_erase hmem).symm
        · have : (y == ys.getD i "") = false := by simpa using hyx
          simp only [this, Bool.false_eq_true, if_false]
          exact List.Perm.cons y h

/-! ### the cache is the multiset of identifiers of the model -/

def Fresh (s : AState) : Prop := s.cache.Perm (nonEmpty s.ids)

/-- ids that were empty in `s0` and are filled in `s` occur exactly once in `s` -/
def NewUnique (s0 s : AState) : Prop :=
  ∀ j, s0.ids.getD j "" = "" → s.ids.getD j "" ≠ "" → s.ids.count (s.ids.getD j "") = 1

structure VisitInv (s0 s : AState) : Prop where
  fresh : Fresh s
  len : s.ids.length = s0.ids.length
  old : ∀ j, s0.ids.getD j "" ≠ "" → s.ids.getD j "" = s0.ids.getD j ""
  filled : ∀ j, s.ids.getD j "" = "" → s0.ids.getD j "" = ""
  uniq : NewUnique s0 s

theorem visit_inv (s0 s : AState) (i : Nat) (h : VisitInv s0 s) : VisitInv s0 (visit s i) := by
  unfold visit
  by_cases hc : s.ids.getD i "" = "" ∧ i < s.ids.length
  · simp only [hc, and_self, if_true]
    obtain ⟨hget, hlt⟩ := hc
    have hf := makeUnique_fresh s.cache s.counter
    generalize hm : makeUnique s.cache (s.cache.length + 1) s.counter = r at hf
    obtain ⟨id, c⟩ := r
    simp only at hf ⊢
    have hid : id ≠ "" := by rw [hf.1]; exact hexStr_ne_empty c
    have hnotin : id ∉ s.ids := by
      intro hin
      exact hf.2.2 (h.fresh.mem_iff.mpr (mem_nonEmpty.mpr ⟨hin, hid⟩))
    refine ⟨?_, ?_, ?_, ?_, ?_⟩
    · exact (List.Perm.cons id h.fresh).trans (nonEmpty_set_perm s.ids i id hlt hget hid).symm
    · simp [h.len]
    · intro j hj
      by_cases hij : i = j
      · subst hij
        have := h.old i hj
        rw [hget] at this
        exact absurd this.symm hj
      · simp only [getD_set_ne _ _ _ _ hij]; exact h.old j hj
    · intro j hj
      by_cases hij : i = j
      · subst hij; rw [getD_set_self _ _ _ hlt] at hj; exact absurd hj hid
      · rw [getD_set_ne _ _ _ _ hij] at hj; exact h.filled j hj
    · intro j hj0 hj
      by_cases hij : i = j
      · subst hij
        simp only [getD_set_self _ _ _ hlt]
        have := count_set s.ids i id id hlt
        have h0 : s.ids.count id = 0 := List.count_eq_zero.mpr hnotin
        simp only [hget, if_true] at this
        have hne : ("" : String) ≠ id := fun h => hid h.symm
        simp only [hne, if_false] at this
        omega
      · simp only [getD_set_ne _ _ _ _ hij] at hj ⊢
        have hx := h.uniq j hj0 hj
        have hjlt : j < s.ids.length := by
          rcases Nat.lt_or_ge j s.ids.length with h' | h'
          · exact h'
          · simp [List.getD_eq_getElem?_getD, List.getElem?_eq_none h'] at hj
        have hxne : s.ids.getD j "" ≠ id := fun he => hnotin (he ▸ getD_mem hjlt)
        have := count_set s.ids i id (s.ids.getD j "") hlt
        have h1 : ¬ (s.ids.getD i "" = s.ids.getD j "") := by rw [hget]; exact fun he => hj he.symm
        have h2 : ¬ (id = s.ids.getD j "") := fun he => hxne he.symm
        simp only [h1, h2, if_false] at this
        omega
  · simp only [hc, if_false]; exact h

theorem visitAll_inv (vs : List Nat) : ∀ (s0 s : AState), VisitInv s0 s → VisitInv s0 (visitAll s vs) := by
  induction vs with
  | nil => intro s0 s h; exact h
  | cons v vs ih => intro s0 s h; exact ih s0 (visit s v) (visit_inv s0 s v h)

theorem visitInv_refl (s : AState) (h : Fresh s) : VisitInv s s :=
  ⟨h, rfl, fun _ _ => rfl, fun _ h => h, fun j h0 h1 => absurd h0 h1⟩

/-- a visited slot is filled and stays filled -/
theorem visit_fills (s : AState) (i : Nat) (hlt : i < s.ids.length) : (visit s i).ids.getD i "" ≠ "" := by
  unfold visit
  by_cases hc : s.ids.getD i "" = "" ∧ i < s.ids.length
  · simp only [hc, and_self, if_true]
    have hf := makeUnique_fresh s.cache s.counter
    generalize makeUnique s.cache (s.cache.length + 1) s.counter = r at hf
    obtain ⟨id, c⟩ := r
    simp only at hf
    simp only [getD_set_self _ _ _ hlt]
    rw [hf.1]; exact hexStr_ne_empty c
  · simp only [hc, if_false]
    intro h; exact hc ⟨h, hlt⟩

theorem visit_len (s : AState) (i : Nat) : (visit s i).ids.length = s.ids.length := by
  unfold visit; split <;> simp

theorem visit_keeps (s : AState) (i j : Nat) (h : s.ids.getD j "" ≠ "") : (visit s i).ids.getD j "" ≠ "" := by
  unfold visit
  by_cases hc : s.ids.getD i "" = "" ∧ i < s.ids.length
  · simp only [hc, and_self, if_true]
    by_cases hij : i = j
    · subst hij; exact absurd hc.1 h
    · simp only [getD_set_ne _ _ _ _ hij]; exact h
  · simp only [hc, if_false]; exact h

theorem visitAll_len (vs : List Nat) : ∀ s : AState, (visitAll s vs).ids.length = s.ids.length := by
  induction vs with
  | nil => intro s; rfl
  | cons v vs ih => intro s; simp only [visitAll, List.foldl_cons]; exact (ih (visit s v)).trans (visit_len s v)

theorem visitAll_keeps (vs : List Nat) : ∀ (s : AState) (j : Nat), s.ids.getD j "" ≠ "" → (visitAll s vs).ids.getD j "" ≠ "" := by
  induction vs with
  | nil => intro s j h; exact h
  | cons v vs ih => intro s j h; exact ih (visit s v) j (visit_keeps s v j h)

theorem visitAll_fills (vs : List Nat) : ∀ (s : AState) (i : Nat), i ∈ vs → i < s.ids.length →
    (visitAll s vs).ids.getD i "" ≠ "" := by
  induction vs with
  | nil => intro s i h; cases h
  | cons v vs ih =>
    intro s i hi hlt
    simp only [visitAll, List.foldl_cons]
    rcases List.mem_cons.mp hi with rfl | hi
    · exact visitAll_keeps vs (visit s i) i (visit_fills s i hlt)
    · exact ih (visit s v) i hi (by rw [visit_len]; exact hlt)

/-! ### synchronisation between cache and snapshot, in every history -/

/-- the cache is the multiset of the identifiers the recorded hash was computed from -/
def Sync (s : AState) : Prop :=
  match s.snap with
  | none => True
  | some p => s.cache.Perm (nonEmpty p)

theorem update_fresh (s : AState) (h : Sync s) (hm : s.hasModel = true) :
    Fresh (update s) ∧ Sync (update s) ∧ (update s).ids = s.ids ∧ (update s).hasModel = true ∧ (update s).counter = s.counter := by
  unfold update
  rw [if_neg (by simp [hm])]
  by_cases hs : s.snap = some s.ids
  · rw [if_pos hs]
    refine ⟨?_, h, rfl, hm, rfl⟩
    unfold Sync at h; rw [hs] at h; exact h
  · rw [if_neg hs]
    refine ⟨?_, ?_, rfl, hm, rfl⟩
    · exact List.Perm.refl _
    · show Sync { s with cache := nonEmpty s.ids, snap := some s.ids }
      unfold Sync; exact List.Perm.refl _

theorem update_sync (s : AState) (h : Sync s) : Sync (update s) := by
  by_cases hm : s.hasModel = true
  · exact (update_fresh s h hm).2.1
  · unfold update; simp [hm]; exact h

theorem sync_of_fresh_snap (s : AState) (h : Fresh s) : Sync { s with snap := some s.ids } := by
  unfold Fresh at h
  simpa [Sync] using h

theorem step_sync (refresh : Bool) (sh : Shape) (s : AState) (op : Op) (h : Sync s)
    (hr : refresh = true) : Sync (step refresh sh s op) := by
  subst hr
  cases op with
  | setModel ids =>
    simp only [step, setModel]
    apply update_sync; simp [Sync]
  | switch =>
    simp only [step, switchModel, setModel]
    apply update_sync; simp [Sync]
  | edit i id => simpa [step, edit, Sync] using h
  | assignAll =>
    simp only [step, assignAll]
    by_cases hm : s.hasModel = true
    · simp only [hm, Bool.not_true, Bool.false_eq_true, if_false, if_true]
      have hu := update_fresh s h hm
      have hv := visitAll_inv sh.visits (update s) (update s) (visitInv_refl _ hu.1)
      have := hv.fresh
      unfold Fresh at this
      simpa [Sync] using this
    · simp [hm]; exact h
  | assignIds k =>
    simp only [step, assignIds]
    by_cases hm : s.hasModel = true
    · simp only [hm, Bool.not_true, Bool.false_eq_true, if_false, if_true, setModel]
      apply update_sync; simp [Sync]
    · simp [hm]; exact h
  | assignId i =>
    simp only [step, assignId]
    by_cases hc : (!s.hasModel) = true ∨ ¬ i < s.ids.length
    · simp only [hc, if_true]; exact h
    · simp only [hc, if_false]
      have hm : s.hasModel = true := by
        cases hh : s.hasModel with
        | true => rfl
        | false => exact absurd (Or.inl (by simp [hh])) hc
      have hlt : i < s.ids.length := by
        rcases Nat.lt_or_ge i s.ids.length with h' | h'
        · exact h'
        · exact absurd (Or.inr (by omega)) hc
      have hu := update_fresh s h hm
      have hf := makeUnique_fresh (update s).cache (update s).counter
      generalize makeUnique (update s).cache ((update s).cache.length + 1) (update s).counter = r at hf
      obtain ⟨id, c⟩ := r
      simp only at hf
      simp only [Sync]
      have hid : id ≠ "" := by rw [hf.1]; exact hexStr_ne_empty c
      -- the cache of `update s` is the multiset of non-empty ids; replacing slot `i`
      rw [hu.2.2.1]
      by_cases hold : s.ids.getD i "" = ""
      · simp only [hold, if_true]
        exact (List.Perm.cons id hu.1).trans (by rw [hu.2.2.1]; exact (nonEmpty_set_perm s.ids i id hlt hold hid).symm)
      · simp only [hold, if_false]
        -- clear slot i first, then fill it
        have hclear := nonEmpty_clear_perm s.ids i hlt hold
        have hset : s.ids.set i id = (s.ids.set i "").set i id := by simp
        rw [hset]
        have h1 := nonEmpty_set_perm (s.ids.set i "") i id (by simpa using hlt) (getD_set_self _ _ _ hlt) hid
        refine (List.Perm.cons id ?_).trans h1.symm
        have : (update s).cache.Perm (nonEmpty s.ids) := by have := hu.1; unfold Fresh at this; rw [hu.2.2.1] at this; exact this
        exact (this.erase _).trans hclear.symm
  | clearAll =>
    simp only [step, clearAll]
    by_cases hm : s.hasModel = true
    · simp [hm, Sync]
    · simp [hm]; exact h
  | lookup id =>
    simp only [step, item]
    exact update_sync s h

theorem init_sync : Sync init := by simp [Sync, init]

/-- C13: in every history the annotator's list is synchronised with the recorded model state -/
theorem run_sync (sh : Shape) (ops : List Op) : ∀ s, Sync s → Sync (run true sh s ops) := by
  induction ops with
  | nil => intro s h; exact h
  | cons op ops ih => intro s h; exact ih _ (step_sync true sh s op h rfl)

theorem visit_other (s : AState) (i j : Nat) (h : i ≠ j) : (visit s i).ids.getD j "" = s.ids.getD j "" := by
  unfold visit
  split
  · simp only; exact getD_set_ne s.ids i j _ h
  · rfl

theorem visitAll_other (vs : List Nat) : ∀ (s : AState) (j : Nat), j ∉ vs → (visitAll s vs).ids.getD j "" = s.ids.getD j "" := by
  induction vs with
  | nil => intro s j _; rfl
  | cons v vs ih =>
    intro s j hj
    simp only [List.mem_cons, not_or] at hj
    show (visitAll (visit s v) vs).ids.getD j "" = _
    rw [ih (visit s v) j hj.2, visit_other s v j (fun e => hj.1 e.symm)]

theorem update_ids (s : AState) : (update s).ids = s.ids := by
  unfold update; split
  · rfl
  · split <;> rfl

theorem setModel_ids (s : AState) (ids : List String) : (setModel s ids).ids = ids := by
  unfold setModel; rw [update_ids]

end Cellml.Annot
