/-
  C13 — automatic identifiers are the lower-case hexadecimal rendering of a counter; the rendering is injective.
-/
namespace Cellml.Annot

/-- `std::stringstream << std::hex << n` -/
def hexStr (n : Nat) : String := String.ofList (Nat.toDigits 16 n)

theorem digitChar_inj16' : ∀ a, a < 16 → ∀ b, b < 16 → Nat.digitChar a = Nat.digitChar b → a = b := by
  decide

theorem digitChar_inj16 (a b : Nat) (ha : a < 16) (hb : b < 16) (h : Nat.digitChar a = Nat.digitChar b) : a = b :=
  digitChar_inj16' a ha b hb h

theorem toDigits_ne_nil (n : Nat) : Nat.toDigits 16 n ≠ [] := by
  rw [Nat.toDigits_eq_if (by decide)]
  split <;> simp

theorem toDigits16_inj : ∀ m n : Nat, Nat.toDigits 16 m = Nat.toDigits 16 n → m = n := by
  intro m
  induction m using Nat.strongRecOn with
  | _ m ih =>
    intro n h
    rw [Nat.toDigits_eq_if (n := m) (by decide), Nat.toDigits_eq_if (n := n) (by decide)] at h
    by_cases hm : m < 16 <;> by_cases hn : n < 16 <;> simp only [hm, hn, if_true, if_false] at h
    · exact digitChar_inj16 m n hm hn (by simpa using h)
    · have hl := congrArg List.length h
      have := toDigits_ne_nil (n / 16)
      simp at hl
    · have hl := congrArg List.length h
      have := toDigits_ne_nil (m / 16)
      simp at hl
    · have h1 := List.append_inj' h (by simp)
      have hq : m / 16 = n / 16 := ih (m / 16) (Nat.div_lt_self (by omega) (by decide)) (n / 16) h1.1
      have hr : m % 16 = n % 16 :=
        digitChar_inj16 _ _ (Nat.mod_lt _ (by decide)) (Nat.mod_lt _ (by decide)) (by simpa using h1.2)
      have := Nat.div_add_mod m 16
      have := Nat.div_add_mod n 16
      omega

theorem hexStr_inj (m n : Nat) (h : hexStr m = hexStr n) : m = n := by
  unfold hexStr at h
  exact toDigits16_inj m n (by
    have := congrArg String.toList h
    simpa using this)

end Cellml.Annot
