/-
  C13 — executable model of the identifier bookkeeping of `Annotator` (src/annotator.cpp).

  The model sees a CellML model as a fixed sequence of identifier *slots* (model, import source, units, unit,
  component, component_ref, variable, connection, map_variables, reset, reset_value, test_value, encapsulation)
  and the *visit sequence* of `doSetAllAutomaticIds` over them (a slot can be visited more than once: a
  connection from each of its variables, a mapping from both ends).  The harness computes slots and visits
  from the real object graph; exact identifiers are compared, so a wrong traversal shows as a disagreement.

  State: the ids currently in the model (`ids`, shared with the user, who may edit them), the annotator's
  cache (`mIdList` keys, as a multiset), the snapshot behind `mHash`, and `mCounter`.
-/
import Cellml.Annot.Hex
namespace Cellml.Annot

structure Shape where
  kinds : List Nat          -- element type of each slot (index into `CellmlElementType`)
  visits : List Nat         -- slot indices in the order `doSetAllAutomaticIds` reaches them

structure AState where
  ids : List String         -- current id of every slot, "" = none
  cache : List String       -- keys of mIdList
  snap : Option (List String)   -- the ids `mHash` was computed from (every slot is hashed); none = mHash == 0
  counter : Nat
  hasModel : Bool
  other : List String := []   -- the ids of a second model object of the same shape, not attached to the annotator
  deriving Repr

def init : AState := ⟨[], [], none, 0xb4da55, false, []⟩

def nonEmpty (ids : List String) : List String := ids.filter (· ≠ "")

/-- `AnnotatorImpl::update`: rebuild the list iff the hash of the model differs from the recorded one -/
def update (s : AState) : AState :=
  if !s.hasModel then s
  else if s.snap = some s.ids then s
  else { s with cache := nonEmpty s.ids, snap := some s.ids }

/-- `Annotator::setModel`: mHash = 0; update() -/
def setModel (s : AState) (ids : List String) : AState :=
  update { s with ids := ids, hasModel := true, snap := none }

/-- `makeUniqueId`: bump the counter while its rendering is in the cache; `fuel` bounds the loop -/
def makeUnique (cache : List String) : Nat → Nat → String × Nat
  | 0, c => (hexStr c, c)
  | f+1, c => if cache.contains (hexStr c) then makeUnique cache f (c + 1) else (hexStr c, c)

/-- visit one slot: assign a fresh id iff the slot is empty -/
def visit (s : AState) (i : Nat) : AState :=
  if s.ids.getD i "" = "" ∧ i < s.ids.length then
    let (id, c) := makeUnique s.cache (s.cache.length + 1) s.counter
    { s with ids := s.ids.set i id, cache := id :: s.cache, counter := c }
  else s

def visitAll (s : AState) (vs : List Nat) : AState := vs.foldl visit s

/-- `assignAllIds()` after `fix: refresh the annotator's identifier list …` (`refresh = true`);
    `refresh = false` is the superseded behaviour -/
def assignAll (refresh : Bool) (sh : Shape) (s : AState) : AState × Bool :=
  if !s.hasModel then (s, false) else
  let s := if refresh then update s else s
  let n := s.cache.length
  let s' := visitAll s sh.visits
  ({ s' with snap := some s'.ids }, decide (s'.cache.length > n))

/-- `assignIds(type)`: same traversal restricted to one kind; ends with `setModel(model)` -/
def assignIds (refresh : Bool) (sh : Shape) (s : AState) (kind : Nat) : AState × Bool :=
  if !s.hasModel then (s, false) else
  let s := if refresh then update s else s
  let n := s.cache.length
  let s' := visitAll s (sh.visits.filter fun i => sh.kinds.getD i 0 = kind)
  let s'' := setModel s' s'.ids
  (s'', decide (s''.cache.length > n))

/-- `assignId(item)` on a slot of the annotator's model: always a fresh id, the old one leaves the cache -/
def assignId (s : AState) (i : Nat) : AState × String :=
  if !s.hasModel ∨ ¬ i < s.ids.length then (s, "") else
  let old := s.ids.getD i ""
  let s := update s
  let (id, c) := makeUnique s.cache (s.cache.length + 1) s.counter
  let cache := if old = "" then s.cache else s.cache.erase old
  let ids := s.ids.set i id
  ({ s with ids := ids, cache := id :: cache, counter := c, snap := some ids }, id)

/-- `clearAllIds()` -/
def clearAll (s : AState) : AState :=
  if !s.hasModel then s else
  let s := update s
  { s with ids := s.ids.map fun _ => "", cache := [], snap := none }

/-- the user edits the model behind the annotator's back -/
def edit (s : AState) (i : Nat) (id : String) : AState := { s with ids := s.ids.set i id }

/-! lookups (all call `update()` first) -/
def itemCount (s : AState) (id : String) : AState × Nat :=
  let s := update s; (s, s.cache.count id)

/-- `item(id)`: the slot carrying a unique id; none = empty item + issue -/
def item (s : AState) (id : String) : AState × Option Nat :=
  let s := update s
  (s, if s.cache.count id = 1 then s.ids.findIdx? (· = id) else none)

def insertSorted (x : String) : List String → List String
  | [] => [x]
  | y :: ys => if x < y then x :: y :: ys else if x = y then y :: ys else y :: insertSorted x ys

/-- `ids()`: the distinct keys in `std::multimap` order -/
def idsOf (s : AState) : AState × List String :=
  let s := update s; (s, s.cache.foldl (fun acc x => insertSorted x acc) [])

def duplicateIds (s : AState) : AState × List String :=
  let (s, l) := idsOf s; (s, l.filter fun x => s.cache.count x > 1)

/-- `setModel(otherModel)`: attach the other model object (same shape, its own ids) -/
def switchModel (s : AState) : AState :=
  setModel { s with ids := s.other, other := s.ids } s.other

/-! `Printer::printModel(model, true)`: the printer collects the identifiers present in the model (`listIds`, MathML
    identifiers excepted), and every printed element without one gets `makeUniqueId(idList)`, which starts counting at
    0xb4da55 on every call and records what it hands out.  The model itself is not touched. -/

/-- the identifiers handed out for `k` elements that lack one -/
def freshIds (existing : List String) : Nat → List String
  | 0 => []
  | k+1 =>
    let id := (makeUnique existing (existing.length + 1) 0xb4da55).1
    id :: freshIds (id :: existing) k

/-- what `listIds` collects: the identifier of every slot that is not a MathML block (kind 6) -/
def printerIds (sh : Shape) (ids : List String) : List String :=
  nonEmpty ((ids.zip sh.kinds).filterMap fun p => if p.2 = 6 then none else some p.1)

/-- operations of a history -/
inductive Op
  | setModel (ids : List String)
  | switch
  | edit (i : Nat) (id : String)
  | assignAll
  | assignIds (kind : Nat)
  | assignId (i : Nat)
  | clearAll
  | lookup (id : String)
  deriving Repr

def step (refresh : Bool) (sh : Shape) (s : AState) : Op → AState
  | .setModel ids => setModel s ids
  | .switch => switchModel s
  | .edit i id => edit s i id
  | .assignAll => (assignAll refresh sh s).1
  | .assignIds k => (assignIds refresh sh s k).1
  | .assignId i => (assignId s i).1
  | .clearAll => clearAll s
  | .lookup id => (item s id).1

def run (refresh : Bool) (sh : Shape) (s : AState) (ops : List Op) : AState := ops.foldl (step refresh sh) s

end Cellml.Annot
