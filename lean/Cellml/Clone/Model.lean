/-
  C11 — executable model of `clone()` (src/units.cpp, variable.cpp, reset.cpp, component.cpp, model.cpp).

  Every object carries the *epoch* `ep` of the call that created it; `clone e x` creates its objects in epoch `e`.
  Import sources are **not** cloned by the code (`setImportSource(importSource())`): they keep their epoch — the
  clone shares them with the original (known finding; `shareImp = false` is the counterfactual that clones them).
-/
namespace Cellml.Clone

structure ImpSrc where
  ep : Nat
  id : String
  url : String
  deriving DecidableEq, Repr

structure Imp where
  src : Option ImpSrc
  ref : String
  deriving DecidableEq, Repr

structure UnitChild where
  ref : String
  pfx : String
  id : String
  exp : String
  mult : String
  deriving DecidableEq, Repr

structure Units where
  ep : Nat
  id : String
  name : String
  imp : Imp
  children : List UnitChild
  deriving DecidableEq, Repr

structure Variable where
  ep : Nat
  id : String
  name : String
  initial : String
  iface : String
  units : Option Units
  deriving DecidableEq, Repr

/-- what a reset's (test) variable is: nothing, the k-th variable of the owning component, or a free-standing one -/
inductive VRef
  | none_
  | own (k : Nat)
  | free (v : Variable)
  deriving DecidableEq, Repr

structure Reset where
  ep : Nat
  id : String
  order : Option Int        -- `none` = not set
  resetValue : String
  resetValueId : String
  testValue : String
  testValueId : String
  var : VRef
  testVar : VRef
  deriving DecidableEq, Repr

inductive Component where
  | mk (ep : Nat) (id name encId math : String) (imp : Imp) (vars : List Variable) (resets : List Reset)
       (kids : List Component)
  deriving Repr

/-- a variable by position: path of component indices, index of the variable -/
abbrev VPos := List Nat × Nat

structure Model where
  ep : Nat
  id : String
  name : String
  encId : String
  units : List Units
  comps : List Component
  equivs : List (VPos × VPos)
  deriving Repr

def cloneImp (shareImp : Bool) (e : Nat) (i : Imp) : Imp :=
  { i with src := i.src.map fun s => if shareImp then s else { s with ep := e } }

/-- `Units::clone` -/
def cloneUnits (shareImp : Bool) (e : Nat) (u : Units) : Units :=
  { ep := e, id := u.id, name := u.name, imp := cloneImp shareImp e u.imp, children := u.children }

/-- `Variable::clone` -/
def cloneVariable (shareImp : Bool) (e : Nat) (v : Variable) : Variable :=
  { ep := e, id := v.id, name := v.name, initial := v.initial, iface := v.iface,
    units := v.units.map (cloneUnits shareImp e) }

def cloneVRef (shareImp : Bool) (e : Nat) : VRef → VRef
  | .none_ => .none_
  | .own k => .own k       -- re-targeted by index in `Component::clone`
  | .free v => .free (cloneVariable shareImp e v)

/-- `Reset::clone` (as completed by `Component::clone` for variables of the owning component) -/
def cloneReset (shareImp : Bool) (e : Nat) (r : Reset) : Reset :=
  { ep := e, id := r.id, order := r.order, resetValue := r.resetValue, resetValueId := r.resetValueId,
    testValue := r.testValue, testValueId := r.testValueId,
    var := cloneVRef shareImp e r.var, testVar := cloneVRef shareImp e r.testVar }

/-- `Component::clone` (recursion bounded by `fuel`) -/
def cloneComponent (shareImp : Bool) (e : Nat) : Nat → Component → Component
  | 0, c => c
  | f+1, .mk _ id name encId math imp vars resets kids =>
    .mk e id name encId math (cloneImp shareImp e imp) (vars.map (cloneVariable shareImp e))
      (resets.map (cloneReset shareImp e)) (kids.map (cloneComponent shareImp e f))

/-- `fixComponentUnits`: a variable whose units name is defined in the (cloned) model gets that units object -/
def relinkVariable (mu : List Units) (v : Variable) : Variable :=
  match v.units with
  | some u => match mu.find? (·.name = u.name) with
    | some m => { v with units := some m }
    | none => v
  | none => v

def relinkComponent (mu : List Units) : Nat → Component → Component
  | 0, c => c
  | f+1, .mk ep id name encId math imp vars resets kids =>
    .mk ep id name encId math imp (vars.map (relinkVariable mu)) resets (kids.map (relinkComponent mu f))

/-- `Model::clone` -/
def cloneModel (shareImp : Bool) (e : Nat) (fuel : Nat) (m : Model) : Model :=
  let us := m.units.map (cloneUnits shareImp e)
  { ep := e, id := m.id, name := m.name, encId := m.encId, units := us,
    comps := m.comps.map fun c => relinkComponent us fuel (cloneComponent shareImp e fuel c),
    equivs := m.equivs }

end Cellml.Clone
