/-
  C11 — `clone()` preserves content and creates every object anew (import sources excepted).
-/
import Cellml.Clone.Model
namespace Cellml.Clone

/-! ### content = the value with every epoch erased -/

def eImp (i : Imp) : Imp := { i with src := i.src.map fun s => { s with ep := 0 } }
def eUnits (u : Units) : Units := { u with ep := 0, imp := eImp u.imp }
def eVariable (v : Variable) : Variable := { v with ep := 0, units := v.units.map eUnits }
def eVRef : VRef → VRef
  | .none_ => .none_ | .own k => .own k | .free v => .free (eVariable v)
def eReset (r : Reset) : Reset := { r with ep := 0, var := eVRef r.var, testVar := eVRef r.testVar }
def eComponent : Nat → Component → Component
  | 0, c => c
  | f+1, .mk _ id name encId math imp vars resets kids =>
    .mk 0 id name encId math (eImp imp) (vars.map eVariable) (resets.map eReset) (kids.map (eComponent f))

def WithinDepth : Nat → Component → Prop
  | 0, _ => False
  | n+1, .mk _ _ _ _ _ _ _ _ kids => ∀ k ∈ kids, WithinDepth n k

theorem eImp_clone (s : Bool) (e : Nat) (i : Imp) : eImp (cloneImp s e i) = eImp i := by
  obtain ⟨src, ref⟩ := i
  cases src <;> simp [eImp, cloneImp]
  split <;> exact ⟨rfl, rfl⟩

theorem eUnits_clone (s : Bool) (e : Nat) (u : Units) : eUnits (cloneUnits s e u) = eUnits u := by
  simp [eUnits, cloneUnits, eImp_clone]

theorem eVariable_clone (s : Bool) (e : Nat) (v : Variable) : eVariable (cloneVariable s e v) = eVariable v := by
  obtain ⟨ep, id, name, ini, ifc, units⟩ := v
  cases units <;> simp [eVariable, cloneVariable, eUnits_clone]

theorem eVRef_clone (s : Bool) (e : Nat) (r : VRef) : eVRef (cloneVRef s e r) = eVRef r := by
  cases r <;> simp [eVRef, cloneVRef, eVariable_clone]

/-- C11: a reset keeps everything, including *whether* its order is set -/
theorem eReset_clone (s : Bool) (e : Nat) (r : Reset) : eReset (cloneReset s e r) = eReset r := by
  simp [eReset, cloneReset, eVRef_clone]

theorem map_congr_mem {α β : Type} (l : List α) (f g : α → β) (h : ∀ x ∈ l, f x = g x) : l.map f = l.map g := by
  induction l with
  | nil => rfl
  | cons x xs ih => simp [h x List.mem_cons_self, ih (fun y hy => h y (List.mem_cons_of_mem _ hy))]

/-- C11: a component keeps id, name, encapsulation id, math, import, variables, resets (re-targeted by index) and
    its whole subtree -/
theorem eComponent_clone (s : Bool) (e : Nat) : ∀ (f : Nat) (c : Component), WithinDepth f c →
    eComponent f (cloneComponent s e f c) = eComponent f c
  | 0, _, h => h.elim
  | f+1, .mk ep id name encId math imp vars resets kids, h => by
    simp only [cloneComponent, eComponent, eImp_clone, List.map_map]
    congr 1
    · exact map_congr_mem _ _ _ (fun v _ => eVariable_clone s e v)
    · exact map_congr_mem _ _ _ (fun r _ => eReset_clone s e r)
    · exact map_congr_mem _ _ _ (fun k hk => eComponent_clone s e f k (h k hk))

/-! ### epochs: who created the objects of the clone -/

def impEps (i : Imp) : List Nat := match i.src with | some s => [s.ep] | none => []
def epsUnits (u : Units) : List Nat := [u.ep]
def epsVariable (v : Variable) : List Nat := v.ep :: (match v.units with | some u => epsUnits u | none => [])
def epsVRef : VRef → List Nat
  | .free v => epsVariable v | _ => []
def epsReset (r : Reset) : List Nat := r.ep :: (epsVRef r.var ++ epsVRef r.testVar)
def epsComponent : Nat → Component → List Nat
  | 0, _ => []
  | f+1, .mk ep _ _ _ _ _ vars resets kids =>
    ep :: (vars.flatMap epsVariable ++ resets.flatMap epsReset ++ kids.flatMap (epsComponent f))

def impEpsUnits (u : Units) : List Nat := impEps u.imp
def impEpsVariable (v : Variable) : List Nat := match v.units with | some u => impEpsUnits u | none => []
def impEpsComponent : Nat → Component → List Nat
  | 0, _ => []
  | f+1, .mk _ _ _ _ _ imp vars _ kids =>
    impEps imp ++ vars.flatMap impEpsVariable ++ kids.flatMap (impEpsComponent f)

theorem epsUnits_clone (s : Bool) (e : Nat) (u : Units) : ∀ p ∈ epsUnits (cloneUnits s e u), p = e := by
  simp [epsUnits, cloneUnits]

theorem epsVariable_clone (s : Bool) (e : Nat) (v : Variable) : ∀ p ∈ epsVariable (cloneVariable s e v), p = e := by
  obtain ⟨ep, id, name, ini, ifc, units⟩ := v
  cases units <;> simp [epsVariable, cloneVariable, epsUnits, cloneUnits]

theorem epsVRef_clone (s : Bool) (e : Nat) (r : VRef) : ∀ p ∈ epsVRef (cloneVRef s e r), p = e := by
  cases r <;> simp [epsVRef, cloneVRef]
  exact epsVariable_clone s e _

theorem epsReset_clone (s : Bool) (e : Nat) (r : Reset) : ∀ p ∈ epsReset (cloneReset s e r), p = e := by
  intro p hp
  simp only [epsReset, cloneReset, List.mem_cons, List.mem_append] at hp
  rcases hp with h | h | h
  · exact h
  · exact epsVRef_clone s e _ p h
  · exact epsVRef_clone s e _ p h

/-- C11: every entity of a cloned component tree was created by the `clone()` call -/
theorem epsComponent_clone (s : Bool) (e : Nat) : ∀ (f : Nat) (c : Component),
    ∀ p ∈ epsComponent f (cloneComponent s e f c), p = e
  | 0, _ => by simp [epsComponent]
  | f+1, .mk ep id name encId math imp vars resets kids => by
    intro p hp
    simp only [cloneComponent, epsComponent, List.mem_cons, List.mem_append, List.mem_flatMap, List.mem_map] at hp
    rcases hp with h | (h | h) | h
    · exact h
    · obtain ⟨v', ⟨v, _, rfl⟩, hp⟩ := h; exact epsVariable_clone s e v p hp
    · obtain ⟨r', ⟨r, _, rfl⟩, hp⟩ := h; exact epsReset_clone s e r p hp
    · obtain ⟨k', ⟨k, _, rfl⟩, hp⟩ := h; exact epsComponent_clone s e f k p hp

/-- the import sources of the clone are the **original's** objects (`shareImp = true`, the current tree) … -/
theorem impEps_shared (e : Nat) (i : Imp) : impEps (cloneImp true e i) = impEps i := by
  obtain ⟨src, ref⟩ := i
  cases src <;> simp [impEps, cloneImp]

/-- … whereas cloning them would make them fresh as well -/
theorem impEps_fixed (e : Nat) (i : Imp) : ∀ p ∈ impEps (cloneImp false e i), p = e := by
  obtain ⟨src, ref⟩ := i
  cases src <;> simp [impEps, cloneImp]

end Cellml.Clone
