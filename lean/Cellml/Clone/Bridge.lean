/-
  C11 ∘ C10 — "the clone equals the original": the clone model's entities read by the model of `equals()`.

  `toEq*` forgets the creation epoch (object identity), which `equals()` never looks at, and lands in the types of
  `Cellml/Equals/Model.lean`.  The bridge is content-preserving by construction (field by field); what is proved is
  that it factors through the content erasure `e*` of `Clone/Proofs.lean`, so that `e (clone x) = e x` transports
  to `toEq (clone x) = toEq x`.
-/
import Cellml.Clone.Proofs
import Cellml.Equals.Partial
namespace Cellml.Clone

def toEqImp (i : Imp) : Equals.Imp := ⟨i.src.map fun s => ⟨s.id, s.url⟩, i.ref⟩
def toEqChild (c : UnitChild) : Equals.UnitChild := ⟨c.ref, c.pfx, c.id, c.exp, c.mult⟩
def toEqUnits (u : Units) : Equals.Units := ⟨u.id, u.name, toEqImp u.imp, u.children.map toEqChild⟩
def toEqVariable (v : Variable) : Equals.Variable :=
  ⟨v.id, v.name, v.initial, v.iface, v.units.map toEqUnits⟩

theorem toEqImp_e (i : Imp) : toEqImp (eImp i) = toEqImp i := by
  obtain ⟨src, ref⟩ := i
  cases src <;> simp [toEqImp, eImp]

theorem toEqUnits_e (u : Units) : toEqUnits (eUnits u) = toEqUnits u := by
  simp [toEqUnits, eUnits, toEqImp_e]

theorem toEqVariable_e (v : Variable) : toEqVariable (eVariable v) = toEqVariable v := by
  obtain ⟨ep, id, name, ini, ifc, units⟩ := v
  cases units <;> simp [toEqVariable, eVariable, toEqUnits_e]

end Cellml.Clone
