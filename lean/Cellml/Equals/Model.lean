/-
  C10 — executable model of the `doEquals` chain (entity, namedentity, importedentity,
  importsource, units, variable, reset, componententity, component, model .cpp and
  `equalEntities` of utilities.cpp), at the level of values.

  * exponents / multipliers are opaque tokens (the 1-ulp band of `areNearlyEqual` is not modelled);
  * `greedy r xs ys`: for each `x` in order erase the first remaining `y` with `r x y`;
  * variables are matched against only the first `|mine|` variables of the other component and
    without a size test (`sizeTest = false`: the current tree, pinned by test `Equality.parseMath`);
    `sizeTest = true` is the counterfactual `Fixed_sizeTest`.
-/
import Cellml.Equals.Greedy
namespace Cellml.Equals

structure ImportSrc where
  id : String
  url : String
  deriving DecidableEq, Repr

/-- `ImportedEntity`: `src = some _` ⇔ `isImport()` -/
structure Imp where
  src : Option ImportSrc
  ref : String
  deriving DecidableEq, Repr

structure UnitChild where
  ref : String
  pfx : String
  id : String
  exp : String
  mult : String
  deriving DecidableEq, Repr

structure Units where
  id : String
  name : String
  imp : Imp
  children : List UnitChild
  deriving DecidableEq, Repr

structure Variable where
  id : String
  name : String
  initial : String
  iface : String
  units : Option Units
  deriving DecidableEq, Repr

structure Reset where
  id : String
  order : Int
  resetValue : String
  resetValueId : String
  testValue : String
  testValueId : String
  var : Option Variable
  testVar : Option Variable
  deriving DecidableEq, Repr

inductive Component where
  | mk (id name encId math : String) (imp : Imp) (vars : List Variable) (resets : List Reset)
       (kids : List Component)
  deriving Repr

structure Model where
  id : String
  name : String
  encId : String
  units : List Units
  comps : List Component
  deriving Repr

/-- `ImportedEntity::doEquals` -/
def eqImp (a b : Imp) : Bool :=
  match a.src, b.src with
  | some x, some y => a.ref == b.ref && (x.id == y.id && x.url == y.url)
  | none, none => a.ref == b.ref
  | _, _ => false

/-- `Units::doEquals` -/
def eqUnits (a b : Units) : Bool :=
  a.id == b.id && a.name == b.name && a.children.length == b.children.length && eqImp a.imp b.imp
    && greedy (fun x y => decide (x = y)) a.children b.children

def eqOpt {α : Type} (r : α → α → Bool) : Option α → Option α → Bool
  | some x, some y => r x y
  | none, none => true
  | _, _ => false

/-- `Variable::doEquals` -/
def eqVariable (a b : Variable) : Bool :=
  a.id == b.id && a.name == b.name && a.initial == b.initial && a.iface == b.iface && eqOpt eqUnits a.units b.units

/-- `Reset::doEquals` -/
def eqReset (a b : Reset) : Bool :=
  a.id == b.id && a.order == b.order && a.resetValue == b.resetValue && a.resetValueId == b.resetValueId
    && a.testValue == b.testValue && a.testValueId == b.testValueId
    && eqOpt eqVariable a.testVar b.testVar && eqOpt eqVariable a.var b.var

/-- `Component::doEquals` (through `ComponentEntity`, `NamedEntity`, `Entity`), recursion bounded by `fuel` -/
def eqComponent (sizeTest : Bool) : Nat → Component → Component → Bool
  | 0, _, _ => false
  | n+1, .mk id₁ name₁ enc₁ math₁ imp₁ vars₁ resets₁ kids₁, .mk id₂ name₂ enc₂ math₂ imp₂ vars₂ resets₂ kids₂ =>
    id₁ == id₂ && name₁ == name₂ && enc₁ == enc₂ && kids₁.length == kids₂.length
      -- each of my children is matched with a distinct child `c` of the other side such that `c->equals(mine)`
      && greedy (fun mine other => eqComponent sizeTest n other mine) kids₁ kids₂
      && math₁ == math₂
      && resets₁.length == resets₂.length && greedy eqReset resets₁ resets₂
      && (if sizeTest then vars₁.length == vars₂.length && greedy eqVariable vars₁ vars₂
          else greedy eqVariable vars₁ (vars₂.take vars₁.length))
      && eqImp imp₁ imp₂

/-- `Model::doEquals` -/
def eqModel (sizeTest : Bool) (fuel : Nat) (a b : Model) : Bool :=
  a.id == b.id && a.name == b.name && a.encId == b.encId && a.comps.length == b.comps.length
    && greedy (fun mine other => eqComponent sizeTest fuel other mine) a.comps b.comps
    && a.units.length == b.units.length && greedy eqUnits a.units b.units

/-- nesting depth of a component tree (enough fuel for `eqComponent`) -/
def Component.depth : Component → Nat
  | .mk _ _ _ _ _ _ _ kids => 1 + (kids.attach.map fun ⟨k, _⟩ => k.depth).foldl max 0

end Cellml.Equals
