/-
  C10 — the specification: equality of content up to the order of children at every level, and the
  proof that `doEquals` (with size tests everywhere) decides exactly that.
-/
import Cellml.Equals.Model
import Cellml.Equals.Match
namespace Cellml.Equals

def OptRel {α : Type} (R : α → α → Prop) : Option α → Option α → Prop
  | some x, some y => R x y
  | none, none => True
  | _, _ => False

def IsoUnits (a b : Units) : Prop :=
  a.id = b.id ∧ a.name = b.name ∧ a.imp = b.imp ∧ a.children.Perm b.children

def IsoVariable (a b : Variable) : Prop :=
  a.id = b.id ∧ a.name = b.name ∧ a.initial = b.initial ∧ a.iface = b.iface ∧ OptRel IsoUnits a.units b.units

def IsoReset (a b : Reset) : Prop :=
  a.id = b.id ∧ a.order = b.order ∧ a.resetValue = b.resetValue ∧ a.resetValueId = b.resetValueId ∧
  a.testValue = b.testValue ∧ a.testValueId = b.testValueId ∧
  OptRel IsoVariable a.testVar b.testVar ∧ OptRel IsoVariable a.var b.var

/-- isomorphism of component trees of depth `≤ n` -/
def IsoComponent : Nat → Component → Component → Prop
  | 0, _, _ => False
  | n+1, .mk id₁ name₁ enc₁ math₁ imp₁ vars₁ resets₁ kids₁, .mk id₂ name₂ enc₂ math₂ imp₂ vars₂ resets₂ kids₂ =>
    id₁ = id₂ ∧ name₁ = name₂ ∧ enc₁ = enc₂ ∧ math₁ = math₂ ∧ imp₁ = imp₂ ∧
    PermMatch IsoVariable vars₁ vars₂ ∧ PermMatch IsoReset resets₁ resets₂ ∧ PermMatch (IsoComponent n) kids₁ kids₂

def IsoModel (n : Nat) (a b : Model) : Prop :=
  a.id = b.id ∧ a.name = b.name ∧ a.encId = b.encId ∧ PermMatch IsoUnits a.units b.units ∧
  PermMatch (IsoComponent n) a.comps b.comps

/-- the tree has depth at most `n` -/
def WithinDepth : Nat → Component → Prop
  | 0, _ => False
  | n+1, .mk _ _ _ _ _ _ _ kids => ∀ k ∈ kids, WithinDepth n k

/-! ### `Iso` is an equivalence at every level -/

theorem OptRel.refl {α : Type} {R : α → α → Prop} (h : ∀ x, R x x) : ∀ o, OptRel R o o
  | some x => h x
  | none => trivial

theorem OptRel.symm {α : Type} {R : α → α → Prop} (h : ∀ x y, R x y → R y x) : ∀ a b, OptRel R a b → OptRel R b a
  | some x, some y, hr => h x y hr
  | none, none, _ => trivial
  | some _, none, hr => hr.elim
  | none, some _, hr => hr.elim

theorem OptRel.trans {α : Type} {R : α → α → Prop} (h : ∀ x y z, R x y → R y z → R x z) :
    ∀ a b c, OptRel R a b → OptRel R b c → OptRel R a c
  | some x, some y, some z, h1, h2 => h x y z h1 h2
  | none, none, none, _, _ => trivial
  | some _, none, _, h1, _ => h1.elim
  | none, some _, _, h1, _ => h1.elim
  | some _, some _, none, _, h2 => h2.elim
  | none, none, some _, _, h2 => h2.elim

theorem IsoUnits.refl (a : Units) : IsoUnits a a := ⟨rfl, rfl, rfl, List.Perm.refl _⟩
theorem IsoUnits.symm (a b : Units) (h : IsoUnits a b) : IsoUnits b a :=
  ⟨h.1.symm, h.2.1.symm, h.2.2.1.symm, h.2.2.2.symm⟩
theorem IsoUnits.trans (a b c : Units) (h1 : IsoUnits a b) (h2 : IsoUnits b c) : IsoUnits a c :=
  ⟨h1.1.trans h2.1, h1.2.1.trans h2.2.1, h1.2.2.1.trans h2.2.2.1, h1.2.2.2.trans h2.2.2.2⟩

theorem IsoVariable.refl (a : Variable) : IsoVariable a a := ⟨rfl, rfl, rfl, rfl, OptRel.refl IsoUnits.refl _⟩
theorem IsoVariable.symm (a b : Variable) (h : IsoVariable a b) : IsoVariable b a :=
  ⟨h.1.symm, h.2.1.symm, h.2.2.1.symm, h.2.2.2.1.symm, OptRel.symm IsoUnits.symm _ _ h.2.2.2.2⟩
theorem IsoVariable.trans (a b c : Variable) (h1 : IsoVariable a b) (h2 : IsoVariable b c) : IsoVariable a c :=
  ⟨h1.1.trans h2.1, h1.2.1.trans h2.2.1, h1.2.2.1.trans h2.2.2.1, h1.2.2.2.1.trans h2.2.2.2.1,
   OptRel.trans IsoUnits.trans _ _ _ h1.2.2.2.2 h2.2.2.2.2⟩

theorem IsoReset.refl (a : Reset) : IsoReset a a :=
  ⟨rfl, rfl, rfl, rfl, rfl, rfl, OptRel.refl IsoVariable.refl _, OptRel.refl IsoVariable.refl _⟩
theorem IsoReset.symm (a b : Reset) (h : IsoReset a b) : IsoReset b a := by
  obtain ⟨h1, h2, h3, h4, h5, h6, h7, h8⟩ := h
  exact ⟨h1.symm, h2.symm, h3.symm, h4.symm, h5.symm, h6.symm, OptRel.symm IsoVariable.symm _ _ h7,
    OptRel.symm IsoVariable.symm _ _ h8⟩
theorem IsoReset.trans (a b c : Reset) (h : IsoReset a b) (h' : IsoReset b c) : IsoReset a c := by
  obtain ⟨h1, h2, h3, h4, h5, h6, h7, h8⟩ := h
  obtain ⟨g1, g2, g3, g4, g5, g6, g7, g8⟩ := h'
  exact ⟨h1.trans g1, h2.trans g2, h3.trans g3, h4.trans g4, h5.trans g5, h6.trans g6,
    OptRel.trans IsoVariable.trans _ _ _ h7 g7, OptRel.trans IsoVariable.trans _ _ _ h8 g8⟩

theorem IsoComponent.symm : ∀ n a b, IsoComponent n a b → IsoComponent n b a
  | 0, _, _, h => h.elim
  | n+1, .mk .., .mk .., h => by
    obtain ⟨h1, h2, h3, h4, h5, h6, h7, h8⟩ := h
    exact ⟨h1.symm, h2.symm, h3.symm, h4.symm, h5.symm, PermMatch.symm IsoVariable.symm h6,
      PermMatch.symm IsoReset.symm h7, PermMatch.symm (IsoComponent.symm n) h8⟩

theorem IsoComponent.trans : ∀ n a b c, IsoComponent n a b → IsoComponent n b c → IsoComponent n a c
  | 0, _, _, _, h, _ => h.elim
  | n+1, .mk .., .mk .., .mk .., h, h' => by
    obtain ⟨h1, h2, h3, h4, h5, h6, h7, h8⟩ := h
    obtain ⟨g1, g2, g3, g4, g5, g6, g7, g8⟩ := h'
    exact ⟨h1.trans g1, h2.trans g2, h3.trans g3, h4.trans g4, h5.trans g5, PermMatch.trans IsoVariable.trans h6 g6,
      PermMatch.trans IsoReset.trans h7 g7, PermMatch.trans (IsoComponent.trans n) h8 g8⟩

theorem IsoComponent.refl : ∀ n a, WithinDepth n a → IsoComponent n a a
  | 0, _, h => h.elim
  | n+1, .mk _ _ _ _ _ vars resets kids, h =>
    ⟨rfl, rfl, rfl, rfl, rfl, PermMatch.refl vars (fun x _ => IsoVariable.refl x),
      PermMatch.refl resets (fun x _ => IsoReset.refl x),
      PermMatch.refl kids (fun k hk => IsoComponent.refl n k (h k hk))⟩

/-! ### `doEquals` decides `Iso` -/

theorem eqImp_iff (a b : Imp) : eqImp a b = true ↔ a = b := by
  obtain ⟨sa, ra⟩ := a
  obtain ⟨sb, rb⟩ := b
  cases sa with
  | none => cases sb with
    | none => simp [eqImp]
    | some y => simp [eqImp]
  | some x => cases sb with
    | none => simp [eqImp]
    | some y =>
      obtain ⟨xi, xu⟩ := x
      obtain ⟨yi, yu⟩ := y
      simp [eqImp]
      constructor
      · rintro ⟨h1, h2, h3⟩; exact ⟨⟨h2, h3⟩, h1⟩
      · rintro ⟨⟨h2, h3⟩, h1⟩; exact ⟨h1, h2, h3⟩

theorem eqUnits_iff (a b : Units) : eqUnits a b = true ↔ IsoUnits a b := by
  unfold eqUnits IsoUnits
  simp only [Bool.and_eq_true, beq_iff_eq, eqImp_iff]
  constructor
  · rintro ⟨⟨⟨⟨h1, h2⟩, h3⟩, h4⟩, h5⟩
    have := (greedy_iff (fun x y => decide (x = y)) (by simp)
      (by simp) _ _ h3).mp h5
    refine ⟨h1, h2, h4, permMatch_eq_iff.mp (this.imp (fun _ _ _ _ h => by simpa using h))⟩
  · rintro ⟨h1, h2, h3, h4⟩
    refine ⟨⟨⟨⟨h1, h2⟩, h4.length_eq⟩, h3⟩, ?_⟩
    apply (greedy_iff (fun x y => decide (x = y)) (by simp)
      (by simp) _ _ h4.length_eq).mpr
    exact (permMatch_eq_iff.mpr h4).imp (fun _ _ _ _ h => by simpa using h)

theorem eqOpt_iff {α : Type} {r : α → α → Bool} {R : α → α → Prop} (h : ∀ x y, r x y = true ↔ R x y) :
    ∀ a b, eqOpt r a b = true ↔ OptRel R a b
  | some x, some y => h x y
  | none, none => by simp [eqOpt, OptRel]
  | some _, none => by simp [eqOpt, OptRel]
  | none, some _ => by simp [eqOpt, OptRel]

theorem eqVariable_iff (a b : Variable) : eqVariable a b = true ↔ IsoVariable a b := by
  unfold eqVariable IsoVariable
  simp only [Bool.and_eq_true, beq_iff_eq, eqOpt_iff eqUnits_iff, and_assoc]

theorem eqReset_iff (a b : Reset) : eqReset a b = true ↔ IsoReset a b := by
  unfold eqReset IsoReset
  simp only [Bool.and_eq_true, beq_iff_eq, eqOpt_iff eqVariable_iff, and_assoc]

theorem eqUnits_symm (a b : Units) (h : eqUnits a b = true) : eqUnits b a = true :=
  (eqUnits_iff b a).mpr (IsoUnits.symm a b ((eqUnits_iff a b).mp h))
theorem eqUnits_trans (a b c : Units) (h1 : eqUnits a b = true) (h2 : eqUnits b c = true) : eqUnits a c = true :=
  (eqUnits_iff a c).mpr (IsoUnits.trans a b c ((eqUnits_iff a b).mp h1) ((eqUnits_iff b c).mp h2))
theorem eqVariable_symm (a b : Variable) (h : eqVariable a b = true) : eqVariable b a = true :=
  (eqVariable_iff b a).mpr (IsoVariable.symm a b ((eqVariable_iff a b).mp h))
theorem eqVariable_trans (a b c : Variable) (h1 : eqVariable a b = true) (h2 : eqVariable b c = true) :
    eqVariable a c = true :=
  (eqVariable_iff a c).mpr (IsoVariable.trans a b c ((eqVariable_iff a b).mp h1) ((eqVariable_iff b c).mp h2))
theorem eqReset_symm (a b : Reset) (h : eqReset a b = true) : eqReset b a = true :=
  (eqReset_iff b a).mpr (IsoReset.symm a b ((eqReset_iff a b).mp h))
theorem eqReset_trans (a b c : Reset) (h1 : eqReset a b = true) (h2 : eqReset b c = true) : eqReset a c = true :=
  (eqReset_iff a c).mpr (IsoReset.trans a b c ((eqReset_iff a b).mp h1) ((eqReset_iff b c).mp h2))

/-- matching lists by a decision procedure for an equivalence = matching by the relation -/
theorem greedy_iso {α : Type} (r : α → α → Bool) (R : α → α → Prop) (hr : ∀ x y, r x y = true ↔ R x y)
    (hs : ∀ a b, R a b → R b a) (ht : ∀ a b c, R a b → R b c → R a c) (xs ys : List α) :
    (xs.length = ys.length ∧ greedy r xs ys = true) ↔ PermMatch R xs ys := by
  constructor
  · rintro ⟨hl, hg⟩
    have := (greedy_iff r (fun a b h => (hr b a).mpr (hs a b ((hr a b).mp h)))
      (fun a b c h1 h2 => (hr a c).mpr (ht a b c ((hr a b).mp h1) ((hr b c).mp h2))) xs ys hl).mp hg
    exact this.imp (fun x _ y _ h => (hr x y).mp h)
  · intro h
    refine ⟨h.length_eq, ?_⟩
    apply (greedy_iff r (fun a b h => (hr b a).mpr (hs a b ((hr a b).mp h)))
      (fun a b c h1 h2 => (hr a c).mpr (ht a b c ((hr a b).mp h1) ((hr b c).mp h2))) xs ys h.length_eq).mpr
    exact h.imp (fun x _ y _ h => (hr x y).mpr h)

/-- C10 (Fixed_sizeTest): `Component::equals` = isomorphism of component trees -/
theorem eqComponent_iff : ∀ n a b, eqComponent true n a b = true ↔ IsoComponent n a b
  | 0, _, _ => by simp [eqComponent, IsoComponent]
  | n+1, .mk id₁ name₁ enc₁ math₁ imp₁ vars₁ resets₁ kids₁, .mk id₂ name₂ enc₂ math₂ imp₂ vars₂ resets₂ kids₂ => by
    have hk := greedy_iso (fun mine other => eqComponent true n other mine) (IsoComponent n)
      (fun x y => (eqComponent_iff n y x).trans ⟨IsoComponent.symm n y x, IsoComponent.symm n x y⟩)
      (IsoComponent.symm n) (IsoComponent.trans n) kids₁ kids₂
    have hv := greedy_iso eqVariable IsoVariable eqVariable_iff IsoVariable.symm IsoVariable.trans vars₁ vars₂
    have hr := greedy_iso eqReset IsoReset eqReset_iff IsoReset.symm IsoReset.trans resets₁ resets₂
    simp only [eqComponent, IsoComponent, Bool.and_eq_true, beq_iff_eq, if_true, eqImp_iff]
    constructor
    · rintro ⟨⟨⟨⟨⟨⟨⟨⟨⟨h1, h2⟩, h3⟩, h4⟩, h5⟩, h6⟩, h7⟩, h8⟩, ⟨h9, h10⟩⟩, h11⟩
      exact ⟨h1, h2, h3, h6, h11, hv.mp ⟨h9, h10⟩, hr.mp ⟨h7, h8⟩, hk.mp ⟨h4, h5⟩⟩
    · rintro ⟨h1, h2, h3, h6, h11, g1, g2, g3⟩
      obtain ⟨h9, h10⟩ := hv.mpr g1
      obtain ⟨h7, h8⟩ := hr.mpr g2
      obtain ⟨h4, h5⟩ := hk.mpr g3
      exact ⟨⟨⟨⟨⟨⟨⟨⟨⟨h1, h2⟩, h3⟩, h4⟩, h5⟩, h6⟩, h7⟩, h8⟩, ⟨h9, h10⟩⟩, h11⟩

theorem eqModel_iff (n : Nat) (a b : Model) : eqModel true n a b = true ↔ IsoModel n a b := by
  have hk := greedy_iso (fun mine other => eqComponent true n other mine) (IsoComponent n)
    (fun x y => (eqComponent_iff n y x).trans ⟨IsoComponent.symm n y x, IsoComponent.symm n x y⟩)
    (IsoComponent.symm n) (IsoComponent.trans n) a.comps b.comps
  have hu := greedy_iso eqUnits IsoUnits eqUnits_iff IsoUnits.symm IsoUnits.trans a.units b.units
  simp only [eqModel, IsoModel, Bool.and_eq_true, beq_iff_eq]
  constructor
  · rintro ⟨⟨⟨⟨⟨⟨h1, h2⟩, h3⟩, h4⟩, h5⟩, h6⟩, h7⟩
    exact ⟨h1, h2, h3, hu.mp ⟨h6, h7⟩, hk.mp ⟨h4, h5⟩⟩
  · rintro ⟨h1, h2, h3, g1, g2⟩
    obtain ⟨h6, h7⟩ := hu.mpr g1
    obtain ⟨h4, h5⟩ := hk.mpr g2
    exact ⟨⟨⟨⟨⟨⟨h1, h2⟩, h3⟩, h4⟩, h5⟩, h6⟩, h7⟩

end Cellml.Equals
