/-
  C10 — matching up to permutation, and its relation to the greedy procedure.
-/
import Cellml.Equals.Greedy
namespace Cellml.Equals
variable {α : Type}

/-- `xs` and `ys` can be paired off one-to-one by `R` -/
def PermMatch (R : α → α → Prop) (xs ys : List α) : Prop := ∃ zs, zs.Perm ys ∧ All₂ R xs zs

theorem All₂.length_eq {R : α → α → Prop} : ∀ {xs ys : List α}, All₂ R xs ys → xs.length = ys.length
  | _, _, .nil => rfl
  | _, _, .cons _ h => by simp [All₂.length_eq h]

theorem All₂.imp {R S : α → α → Prop} : ∀ {xs ys : List α}, (∀ x ∈ xs, ∀ y ∈ ys, R x y → S x y) → All₂ R xs ys → All₂ S xs ys
  | _, _, _, .nil => .nil
  | _, _, h, .cons hr ht =>
    .cons (h _ List.mem_cons_self _ List.mem_cons_self hr)
      (All₂.imp (fun x hx y hy => h x (List.mem_cons_of_mem _ hx) y (List.mem_cons_of_mem _ hy)) ht)

theorem All₂.flip {R : α → α → Prop} : ∀ {xs ys : List α}, All₂ R xs ys → All₂ (fun a b => R b a) ys xs
  | _, _, .nil => .nil
  | _, _, .cons hr ht => .cons hr (All₂.flip ht)

theorem All₂.refl {R : α → α → Prop} : ∀ (xs : List α), (∀ x ∈ xs, R x x) → All₂ R xs xs
  | [], _ => .nil
  | x :: xs, h => .cons (h x List.mem_cons_self) (All₂.refl xs (fun y hy => h y (List.mem_cons_of_mem _ hy)))

theorem All₂.trans {R : α → α → Prop} (ht : ∀ a b c, R a b → R b c → R a c) :
    ∀ {xs ys zs : List α}, All₂ R xs ys → All₂ R ys zs → All₂ R xs zs
  | _, _, _, .nil, .nil => .nil
  | _, _, _, .cons h1 t1, .cons h2 t2 => .cons (ht _ _ _ h1 h2) (All₂.trans ht t1 t2)

theorem All₂.eq_of_eq : ∀ {xs ys : List α}, All₂ (· = ·) xs ys → xs = ys
  | _, _, .nil => rfl
  | _, _, .cons h t => by rw [h, All₂.eq_of_eq t]

/-- a permutation of the right-hand side can be transported to the left-hand side -/
theorem All₂.perm_right {R : α → α → Prop} {zs ys : List α} (hp : zs.Perm ys) :
    ∀ {xs : List α}, All₂ R xs zs → ∃ xs', xs'.Perm xs ∧ All₂ R xs' ys := by
  induction hp with
  | nil => intro xs h; cases h; exact ⟨[], List.Perm.refl _, .nil⟩
  | cons z _ ih =>
    intro xs h
    cases h with
    | cons hr ht =>
      obtain ⟨xs', hp', ha⟩ := ih ht
      exact ⟨_ :: xs', List.Perm.cons _ hp', .cons hr ha⟩
  | swap a b l =>
    intro xs h
    cases h with
    | cons hr1 ht1 =>
      cases ht1 with
      | cons hr2 ht2 =>
        exact ⟨_ :: _ :: _, List.Perm.swap _ _ _, .cons hr2 (.cons hr1 ht2)⟩
  | trans _ _ ih1 ih2 =>
    intro xs h
    obtain ⟨xs1, hp1, ha1⟩ := ih1 h
    obtain ⟨xs2, hp2, ha2⟩ := ih2 ha1
    exact ⟨xs2, hp2.trans hp1, ha2⟩

theorem PermMatch.length_eq {R : α → α → Prop} {xs ys : List α} (h : PermMatch R xs ys) : xs.length = ys.length := by
  obtain ⟨zs, hp, ha⟩ := h
  rw [ha.length_eq, hp.length_eq]

theorem PermMatch.refl {R : α → α → Prop} (xs : List α) (h : ∀ x ∈ xs, R x x) : PermMatch R xs xs :=
  ⟨xs, List.Perm.refl _, All₂.refl xs h⟩

theorem PermMatch.symm {R : α → α → Prop} (hs : ∀ a b, R a b → R b a) {xs ys : List α}
    (h : PermMatch R xs ys) : PermMatch R ys xs := by
  obtain ⟨zs, hp, ha⟩ := h
  obtain ⟨xs', hp', ha'⟩ := All₂.perm_right hp ha
  exact ⟨xs', hp', (All₂.flip ha').imp (fun _ _ _ _ h => hs _ _ h)⟩

theorem PermMatch.trans {R : α → α → Prop} (ht : ∀ a b c, R a b → R b c → R a c) {xs ys zs : List α}
    (h1 : PermMatch R xs ys) (h2 : PermMatch R ys zs) : PermMatch R xs zs := by
  obtain ⟨ys', hp1, ha1⟩ := h1
  obtain ⟨zs', hp2, ha2⟩ := h2
  -- ys' ~ ys and ys matches zs': transport to ys'
  obtain ⟨ys'', hp3, ha3⟩ := All₂.perm_right (R := fun a b => R b a) hp1.symm (All₂.flip ha2)
  -- ha3 : All₂ (flip R) ys'' ys' with ys'' ~ zs'
  exact ⟨ys'', hp3.trans hp2, All₂.trans ht ha1 (All₂.flip ha3)⟩

theorem PermMatch.imp {R S : α → α → Prop} {xs ys : List α} (h : ∀ x ∈ xs, ∀ y ∈ ys, R x y → S x y)
    (hm : PermMatch R xs ys) : PermMatch S xs ys := by
  obtain ⟨zs, hp, ha⟩ := hm
  exact ⟨zs, hp, ha.imp (fun x hx y hy => h x hx y (hp.mem_iff.mp hy))⟩

/-- with plain equality, matching up to permutation is `List.Perm` -/
theorem permMatch_eq_iff {xs ys : List α} : PermMatch (· = ·) xs ys ↔ xs.Perm ys := by
  constructor
  · rintro ⟨zs, hp, ha⟩; rw [ha.eq_of_eq]; exact hp
  · intro h; exact ⟨xs, h, All₂.refl xs (fun _ _ => rfl)⟩

/-- the greedy procedure decides matching up to permutation, for an equivalence relation and equal lengths -/
theorem greedy_iff (r : α → α → Bool)
    (hsymm : ∀ a b, r a b = true → r b a = true)
    (htrans : ∀ a b c, r a b = true → r b c = true → r a c = true)
    (xs ys : List α) (hl : xs.length = ys.length) :
    greedy r xs ys = true ↔ PermMatch (fun a b => r a b = true) xs ys :=
  ⟨fun h => greedy_sound r xs ys hl h, fun ⟨zs, hp, ha⟩ => greedy_complete r hsymm htrans xs ys zs hp ha⟩

theorem removeFirst_subset {p : α → Bool} {ys ys' : List α} (h : removeFirst p ys = some ys') : ∀ y ∈ ys', y ∈ ys := by
  obtain ⟨y0, _, hperm⟩ := removeFirst_some h
  intro y hy
  exact hperm.mem_iff.mp (List.mem_cons_of_mem _ hy)

theorem removeFirst_congr {p q : α → Bool} : ∀ (ys : List α), (∀ y ∈ ys, p y = q y) → removeFirst p ys = removeFirst q ys
  | [], _ => rfl
  | y :: ys, h => by
    simp only [removeFirst]
    rw [h y List.mem_cons_self, removeFirst_congr ys (fun z hz => h z (List.mem_cons_of_mem _ hz))]

/-- two relations that agree on the elements involved drive the greedy procedure identically -/
theorem greedy_congr {r s : α → α → Bool} : ∀ (xs ys : List α), (∀ x ∈ xs, ∀ y ∈ ys, r x y = s x y) →
    greedy r xs ys = greedy s xs ys
  | [], _, _ => rfl
  | x :: xs, ys, h => by
    simp only [greedy]
    rw [removeFirst_congr ys (fun y hy => h x List.mem_cons_self y hy)]
    cases hr : removeFirst (s x) ys with
    | none => rfl
    | some ys' =>
      exact greedy_congr xs ys' (fun a ha b hb => h a (List.mem_cons_of_mem _ ha) b (removeFirst_subset hr b hb))

end Cellml.Equals
