/-
  C10 — consequences for the current tree (variables matched without a size test), and cancellation.
-/
import Cellml.Equals.Iso
namespace Cellml.Equals

/-- every component of the tree has exactly `k` variables -/
def UniformVars (k : Nat) : Nat → Component → Prop
  | 0, _ => False
  | n+1, .mk _ _ _ _ _ vars _ kids => vars.length = k ∧ ∀ c ∈ kids, UniformVars k n c

/-- where all components have the same number of variables the missing size test is invisible -/
theorem eqComponent_agree (k : Nat) : ∀ n a b, UniformVars k n a → UniformVars k n b →
    eqComponent false n a b = eqComponent true n a b
  | 0, _, _, h, _ => h.elim
  | n+1, .mk id₁ name₁ enc₁ math₁ imp₁ vars₁ resets₁ kids₁, .mk id₂ name₂ enc₂ math₂ imp₂ vars₂ resets₂ kids₂, ha, hb => by
    have hg : greedy (fun mine other => eqComponent false n other mine) kids₁ kids₂ =
        greedy (fun mine other => eqComponent true n other mine) kids₁ kids₂ :=
      greedy_congr kids₁ kids₂ (fun x hx y hy => eqComponent_agree k n y x (hb.2 y hy) (ha.2 x hx))
    have hl : vars₁.length = vars₂.length := ha.1.trans hb.1.symm
    have ht : vars₂.take vars₁.length = vars₂ := by rw [hl]; exact List.take_length
    simp only [eqComponent, hg, Bool.false_eq_true, if_false, if_true, ht]
    simp only [hl, beq_self_eq_true, Bool.true_and]

/-! ### cancellation: matched lists that share all but one element agree on that element -/

variable {α : Type}

def countRel (r : α → α → Bool) (z : α) (l : List α) : Nat := (l.filter (r z)).length

theorem countRel_perm (r : α → α → Bool) (z : α) {l l' : List α} (h : l.Perm l') : countRel r z l = countRel r z l' :=
  (h.filter _).length_eq

theorem countRel_all₂ (r : α → α → Bool) (hs : ∀ a b, r a b = true → r b a = true)
    (ht : ∀ a b c, r a b = true → r b c = true → r a c = true) (z : α) :
    ∀ {xs ys : List α}, All₂ (fun a b => r a b = true) xs ys → countRel r z xs = countRel r z ys
  | _, _, .nil => rfl
  | _, _, .cons (x := x) (z := y) hxy hrest => by
    have ih := countRel_all₂ r hs ht z hrest
    unfold countRel at *
    have hb : r z x = r z y := by
      cases h1 : r z x <;> cases h2 : r z y <;> try rfl
      · exact absurd (ht z y x h2 (hs x y hxy)) (by simp [h1])
      · exact absurd (ht z x y h1 hxy) (by simp [h2])
    simp only [List.filter_cons, hb]
    split <;> simp [ih]

theorem permMatch_cancel (r : α → α → Bool) (hrefl : ∀ a, r a a = true) (hs : ∀ a b, r a b = true → r b a = true)
    (ht : ∀ a b c, r a b = true → r b c = true → r a c = true) (x y : α) (l : List α)
    (h : PermMatch (fun a b => r a b = true) (x :: l) (y :: l)) : r x y = true := by
  obtain ⟨zs, hp, ha⟩ := h
  have h1 := countRel_all₂ r hs ht x ha
  have h2 := countRel_perm r x hp
  rw [h2] at h1
  unfold countRel at h1
  simp only [List.filter_cons, hrefl x, if_true, List.length_cons] at h1
  cases hxy : r x y with
  | true => rfl
  | false => simp [hxy] at h1

end Cellml.Equals
