/-
  C10 — the greedy one-to-one matching used by every `doEquals` (scan the unmatched entries of the
  other side in order, erase the first match) is sound, and complete against an equivalence relation.
-/
namespace Cellml.Equals

variable {α : Type}

def removeFirst (p : α → Bool) : List α → Option (List α)
  | [] => none
  | y :: ys => if p y then some ys else (removeFirst p ys).map (y :: ·)

def greedy (r : α → α → Bool) : List α → List α → Bool
  | [], _ => true
  | x :: xs, ys =>
    match removeFirst (r x) ys with
    | none => false
    | some ys' => greedy r xs ys'

/-- what removeFirst returns -/
theorem removeFirst_some {p : α → Bool} {ys ys' : List α} (h : removeFirst p ys = some ys') :
    ∃ y, p y = true ∧ (y :: ys').Perm ys := by
  induction ys generalizing ys' with
  | nil => simp [removeFirst] at h
  | cons a as ih =>
    unfold removeFirst at h
    split at h
    · rename_i hp
      cases h
      exact ⟨a, hp, List.Perm.refl _⟩
    · cases hr : removeFirst p as with
      | none => simp [hr] at h
      | some zs =>
        simp [hr] at h
        subst h
        obtain ⟨y, hy, hperm⟩ := ih hr
        refine ⟨y, hy, ?_⟩
        exact (List.Perm.swap a y zs).trans (List.Perm.cons a hperm)

theorem removeFirst_none {p : α → Bool} {ys : List α} (h : removeFirst p ys = none) :
    ∀ y ∈ ys, p y = false := by
  induction ys with
  | nil => intro y hy; cases hy
  | cons a as ih =>
    unfold removeFirst at h
    split at h
    · cases h
    · rename_i hp
      cases hr : removeFirst p as with
      | some zs => simp [hr] at h
      | none =>
        intro y hy
        cases hy with
        | head => simpa using hp
        | tail _ hm => exact ih hr y hm

inductive All₂ (R : α → α → Prop) : List α → List α → Prop
  | nil : All₂ R [] []
  | cons {x z xs zs} : R x z → All₂ R xs zs → All₂ R (x :: xs) (z :: zs)

/-- soundness: greedy success yields a matching permutation -/
theorem greedy_sound (r : α → α → Bool) : ∀ (xs ys : List α), xs.length = ys.length → greedy r xs ys = true →
    ∃ zs : List α, zs.Perm ys ∧ All₂ (fun x z => r x z = true) xs zs := by
  intro xs
  induction xs with
  | nil => intro ys hl _; cases ys with
    | nil => exact ⟨[], List.Perm.refl _, All₂.nil⟩
    | cons _ _ => simp at hl
  | cons x xs ih =>
    intro ys hl h
    unfold greedy at h
    cases hr : removeFirst (r x) ys with
    | none => simp [hr] at h
    | some ys' =>
      simp [hr] at h
      obtain ⟨y, hy, hperm⟩ := removeFirst_some hr
      have hl' : xs.length = ys'.length := by
        have := hperm.length_eq; simp at this hl; omega
      obtain ⟨zs, hz, hf⟩ := ih ys' hl' h
      exact ⟨y :: zs, (List.Perm.cons y hz).trans hperm, All₂.cons hy hf⟩


theorem All₂.append {R : α → α → Prop} : ∀ {xa la xb lb : List α}, All₂ R xa la → All₂ R xb lb → All₂ R (xa ++ xb) (la ++ lb)
  | _, _, _, _, .nil, h => by simpa using h
  | _, _, _, _, .cons hr ht, h => by simpa using All₂.cons hr (All₂.append ht h)

theorem All₂.split {R : α → α → Prop} : ∀ {xs l1 : List α} {y : α} {l2 : List α}, All₂ R xs (l1 ++ y :: l2) →
    ∃ xa xj xb, xs = xa ++ xj :: xb ∧ All₂ R xa l1 ∧ R xj y ∧ All₂ R xb l2 := by
  intro xs l1
  induction l1 generalizing xs with
  | nil =>
    intro y l2 h
    cases h with
    | cons hr ht => exact ⟨[], _, _, rfl, All₂.nil, hr, ht⟩
  | cons a l1 ih =>
    intro y l2 h
    cases h with
    | cons hr ht =>
      obtain ⟨xa, xj, xb, he, ha, hj, hb⟩ := ih ht
      exact ⟨_ :: xa, xj, xb, by simp [he], All₂.cons hr ha, hj, hb⟩

theorem removeFirst_isSome_of_mem {p : α → Bool} {ys : List α} {z : α} (hz : z ∈ ys) (hp : p z = true) :
    ∃ ys', removeFirst p ys = some ys' := by
  cases h : removeFirst p ys with
  | some ys' => exact ⟨ys', rfl⟩
  | none => have := removeFirst_none h z hz; simp [hp] at this

/-- completeness: if some permutation matches, greedy succeeds (exchange argument) -/
theorem greedy_complete (r : α → α → Bool)
    (hsymm : ∀ a b, r a b = true → r b a = true)
    (htrans : ∀ a b c, r a b = true → r b c = true → r a c = true) :
    ∀ (xs ys zs : List α), zs.Perm ys → All₂ (fun x z => r x z = true) xs zs → greedy r xs ys = true := by
  intro xs
  induction xs with
  | nil => intro ys zs _ _; simp [greedy]
  | cons x xs ih =>
    intro ys zs hperm hall
    cases hall with
    | @cons _ z _ zs' hxz hrest =>
      have hzmem : z ∈ ys := hperm.mem_iff.mp (List.mem_cons_self)
      obtain ⟨ys', hr⟩ := removeFirst_isSome_of_mem hzmem hxz
      obtain ⟨y, hxy, hyperm⟩ := removeFirst_some hr
      unfold greedy
      simp only [hr]
      -- (z :: zs') ~ ys ~ (y :: ys')
      have hp2 : (z :: zs').Perm (y :: ys') := hperm.trans hyperm.symm
      have hymem : y ∈ z :: zs' := hp2.mem_iff.mpr (List.mem_cons_self)
      cases hymem with
      | head =>
        -- y = z
        exact ih ys' zs' (List.Perm.cons_inv hp2) hrest
      | tail _ hm =>
        obtain ⟨l1, l2, hsplit⟩ := List.append_of_mem hm
        subst hsplit
        obtain ⟨xa, xj, xb, he, ha, hj, hb⟩ := All₂.split hrest
        -- new matching: l1 ++ z :: l2
        have hxjz : r xj z = true := htrans _ _ _ (htrans _ _ _ hj (hsymm _ _ hxy)) hxz
        have hall' : All₂ (fun x z => r x z = true) xs (l1 ++ z :: l2) := by
          rw [he]; exact All₂.append ha (All₂.cons hxjz hb)
        have hperm' : (l1 ++ z :: l2).Perm ys' := by
          have h1 : (z :: (l1 ++ y :: l2)).Perm (y :: (l1 ++ z :: l2)) := by
            have a1 : (l1 ++ y :: l2).Perm (y :: (l1 ++ l2)) := List.perm_middle
            have a2 : (l1 ++ z :: l2).Perm (z :: (l1 ++ l2)) := List.perm_middle
            exact ((List.Perm.cons z a1).trans (List.Perm.swap y z _)).trans (List.Perm.cons y a2.symm)
          exact List.Perm.cons_inv (h1.symm.trans hp2)
        exact ih ys' _ hperm' hall'


end Cellml.Equals
