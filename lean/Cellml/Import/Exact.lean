/-
  C07 — exactness of `fetchUnits`: the fuel-free characterisation `UOk` (a finite derivation: the file of every import
  is a model, is not a file the descent came through, contains the referenced units, whose own import and whose imported
  children are fetched in turn) holds exactly when `fetchUnits` answers `ok`, for every fuel above the measure.
-/
import Cellml.Import.Proofs
namespace Cellml.Import

theorem seqR_ok_iff {a : R} {b : Unit → R} : seqR a b = .ok ↔ a = .ok ∧ b () = .ok := by
  unfold seqR
  cases a <;> simp

theorem allR_ok_iff {α : Type} (f : α → R) (xs : List α) : allR f xs = .ok ↔ ∀ x ∈ xs, f x = .ok := by
  induction xs with
  | nil => simp [allR]
  | cons x xs ih =>
    simp only [allR, seqR_ok_iff, ih, List.mem_cons, forall_eq_or_imp]

/-- what it takes for an imported units to be fetched, without fuel -/
inductive UOk (w : World) : List String → String → UnitsE → Prop
  | notImported {path : List String} {cur : String} {u : UnitsE} : u.imp = none → UOk w path cur u
  | imported {path : List String} {cur : String} {u su : UnitsE} {url ref : String} {us : List UnitsE} {cs : List CompE} :
      u.imp = some (url, ref) → w.lookup url = some (.model us cs) → ¬ url ∈ path → findU us ref = some su →
      UOk w (path ++ [cur]) url su →
      (∀ k ∈ su.kids, (findU us k).isSome = true) →
      (∀ k ∈ su.kids, ∀ ku, findU us k = some ku → ku.imp.isSome = true → UOk w (path ++ [cur]) url ku) →
      UOk w path cur u

/-- soundness: `ok` comes with a derivation, whatever the fuel -/
theorem fetchUnits_sound : ∀ (n : Nat) (w : World) (path : List String) (cur : String) (u : UnitsE),
    fetchUnits n w path cur u = .ok → UOk w path cur u := by
  intro n
  induction n with
  | zero => intro w path cur u h; simp [fetchUnits] at h
  | succ n ih =>
    intro w path cur u h
    unfold fetchUnits at h
    cases himp : u.imp with
    | none => exact .notImported himp
    | some ur =>
      obtain ⟨url, ref⟩ := ur
      simp only [himp] at h
      cases hlk : w.lookup url with
      | none => simp [hlk] at h
      | some fc =>
        cases fc with
        | missing => simp [hlk] at h
        | notXml => simp [hlk] at h
        | model us cs =>
          simp only [hlk] at h
          split at h
          · cases h
          · rename_i hpath
            cases hf : findU us ref with
            | none => simp [hf] at h
            | some su =>
              simp only [hf] at h
              obtain ⟨h1, h2⟩ := seqR_ok_iff.mp h
              have h2' := (allR_ok_iff _ _).mp h2
              refine .imported himp hlk (by simpa using hpath) hf (ih w _ url su h1) ?_ ?_
              · intro k hk
                have hk' := h2' k hk
                cases hfk : findU us k with
                | none => simp [hfk] at hk'
                | some ku => rfl
              · intro k hk ku hfk hi
                have hk' := h2' k hk
                simp only [hfk, hi, if_true] at hk'
                exact ih w _ url ku hk'

/-- completeness: a derivation is found by `fetchUnits` with any fuel above the measure -/
theorem fetchUnits_complete (w : World) : ∀ {path : List String} {cur : String} {u : UnitsE}, UOk w path cur u →
    ∀ n, mu w path cur [] < n → fetchUnits n w path cur u = .ok := by
  intro path cur u h
  induction h with
  | notImported himp =>
    intro n hn
    cases n with
    | zero => omega
    | succ n => unfold fetchUnits; simp [himp]
  | @imported path cur u su url ref us cs himp hlk hpath hf _ hex _ ihsu ihkids =>
    intro n hn
    cases n with
    | zero => omega
    | succ n =>
      have hdec := mu_import w path cur url [] (lookup_file hlk) (by simpa using hpath)
      unfold fetchUnits
      simp only [himp, hlk]
      have hp : path.contains url = false := by simpa using hpath
      simp only [hp, Bool.false_eq_true, if_false, hf]
      refine seqR_ok_iff.mpr ⟨ihsu n (by omega), (allR_ok_iff _ _).mpr ?_⟩
      intro k hk
      have hsome := hex k hk
      cases hfk : findU us k with
      | none => simp [hfk] at hsome
      | some ku =>
        simp only []
        split
        · rename_i hi
          exact ihkids k hk ku hfk hi n (by omega)
        · rfl

/-- what it takes for a component to be fetched, without fuel -/
inductive COk (w : World) : List String → String → CompE → Prop
  | noModel {path : List String} {cur : String} {c : CompE} :
      (∀ us cs, w.lookup cur ≠ some (.model us cs)) → COk w path cur c
  | noImports {path : List String} {cur : String} {c : CompE} {us : List UnitsE} {cs : List CompE} :
      w.lookup cur = some (.model us cs) → reqImp cs.length cs c = false → COk w path cur c
  | localKids {path : List String} {cur : String} {c : CompE} {us : List UnitsE} {cs : List CompE} :
      w.lookup cur = some (.model us cs) → c.imp = none →
      (∀ k ∈ c.kids, ∀ kc, findC cs k = some kc → COk w path cur kc) → COk w path cur c
  | imported {path : List String} {cur : String} {c sc : CompE} {url ref : String} {us us' : List UnitsE} {cs cs' : List CompE} :
      w.lookup cur = some (.model us cs) → c.imp = some (url, ref) → w.lookup url = some (.model us' cs') → ¬ url ∈ path →
      findC cs' ref = some sc → COk w (path ++ [cur]) url sc →
      (∀ k ∈ sc.kids, ∀ kc, findC cs' k = some kc → COk w (path ++ [cur]) url kc) →
      (∀ un ∈ (subUnits cs'.length cs' sc).eraseDups, ∃ uu, findU us' un = some uu ∧ UOk w (path ++ [cur]) url uu) →
      (path ≠ [] → ∀ k ∈ c.kids, ∀ kc, findC cs k = some kc → COk w path cur kc) →
      COk w path cur c

theorem reqImp_of_imp {cs : List CompE} {c : CompE} {x : String × String} (h : c.imp = some x) : reqImp cs.length cs c = true := by
  cases hn : cs.length <;> simp [reqImp, h]

/-- soundness for components -/
theorem fetchComponent_sound : ∀ (n : Nat) (w : World) (path : List String) (cur : String) (c : CompE),
    fetchComponent n w path cur c = .ok → COk w path cur c := by
  intro n
  induction n with
  | zero => intro w path cur c h; simp [fetchComponent] at h
  | succ n ih =>
    intro w path cur c h
    unfold fetchComponent at h
    cases hcur : w.lookup cur with
    | none => exact .noModel (by intro us cs; simp [hcur])
    | some fc0 =>
      cases fc0 with
      | missing => exact .noModel (by intro us cs; simp [hcur])
      | notXml => exact .noModel (by intro us cs; simp [hcur])
      | model us cs =>
        simp only [hcur] at h
        by_cases hreq : reqImp cs.length cs c = true
        · simp only [hreq, Bool.not_true, Bool.false_eq_true, if_false] at h
          cases himp : c.imp with
          | none =>
            simp only [himp] at h
            have h' := (allR_ok_iff _ _).mp h
            refine .localKids hcur himp ?_
            intro k hk kc hfk
            have := h' k hk
            simp only [hfk] at this
            exact ih w path cur kc this
          | some ur =>
            obtain ⟨url, ref⟩ := ur
            simp only [himp] at h
            cases hlk : w.lookup url with
            | none => simp [hlk] at h
            | some fc =>
              cases fc with
              | missing => simp [hlk] at h
              | notXml => simp [hlk] at h
              | model us' cs' =>
                simp only [hlk] at h
                split at h
                · cases h
                · rename_i hpath
                  cases hf : findC cs' ref with
                  | none => simp [hf] at h
                  | some sc =>
                    simp only [hf] at h
                    obtain ⟨h1, h23⟩ := seqR_ok_iff.mp h
                    obtain ⟨h2, h34⟩ := seqR_ok_iff.mp h23
                    obtain ⟨h3, h4⟩ := seqR_ok_iff.mp h34
                    have h2' := (allR_ok_iff _ _).mp h2
                    have h3' := (allR_ok_iff _ _).mp h3
                    refine .imported hcur himp hlk (by simpa using hpath) hf (ih w _ url sc h1) ?_ ?_ ?_
                    · intro k hk kc hfk
                      have := h2' k hk
                      simp only [hfk] at this
                      exact ih w _ url kc this
                    · intro un hun
                      have := h3' un hun
                      cases hfu : findU us' un with
                      | none => simp [hfu] at this
                      | some uu =>
                        simp only [hfu] at this
                        exact ⟨uu, rfl, fetchUnits_sound n w _ url uu this⟩
                    · intro hne k hk kc hfk
                      have hemp : path.isEmpty = false := by cases path <;> simp_all
                      simp only [hemp, Bool.false_eq_true, if_false] at h4
                      have := (allR_ok_iff _ _).mp h4 k hk
                      simp only [hfk] at this
                      exact ih w path cur kc this
        · have hreq' : reqImp cs.length cs c = false := by simpa using hreq
          exact .noImports hcur hreq'

/-- completeness for components: a derivation is found with any fuel above the measure (the encapsulation hierarchy
    of every file being a tree: `Ranked`) -/
theorem fetchComponent_complete (w : World) (h : String × String → Nat) (H : Nat) (hr : Ranked w h H) :
    ∀ {path : List String} {cur : String} {c : CompE}, COk w path cur c → InFileC w cur c →
    ∀ n, muF w path cur * (H + 1) + h (cur, c.name) + (unitPairs w).length < n → fetchComponent n w path cur c = .ok := by
  intro path cur c hc
  induction hc with
  | @noModel path cur c hno =>
    intro _ n hn
    cases n with
    | zero => omega
    | succ n =>
      unfold fetchComponent
      cases hcur : w.lookup cur with
      | none => rfl
      | some fc =>
        cases fc with
        | missing => rfl
        | notXml => rfl
        | model us cs => exact absurd hcur (hno us cs)
  | @noImports path cur c us cs hcur hreq =>
    intro _ n hn
    cases n with
    | zero => omega
    | succ n => unfold fetchComponent; simp [hcur, hreq]
  | @localKids path cur c us cs hcur himp _ ih =>
    intro hin n hn
    cases n with
    | zero => omega
    | succ n =>
      obtain ⟨us0, cs0, hlk0, hcmem⟩ := hin
      rw [hcur] at hlk0
      cases hlk0
      unfold fetchComponent
      simp only [hcur]
      split
      · rfl
      · simp only [himp]
        refine (allR_ok_iff _ _).mpr ?_
        intro k hk
        cases hfk : findC cs k with
        | none => rfl
        | some kc =>
          simp only []
          have hlt := hr.2 cur us cs c k kc hcur hcmem hk hfk
          exact ih k hk kc hfk ⟨us, cs, hcur, findC_mem hfk⟩ n (by omega)
  | @imported path cur c sc url ref us us' cs cs' hcur himp hlk hpath hf _ _ hunits _ ihsc ihkids ihown =>
    intro hin n hn
    cases n with
    | zero => omega
    | succ n =>
      have hdec := muF_import w path cur url (lookup_file hlk) (by simpa using hpath)
      have hH : ∀ p, h p ≤ H := hr.1
      have hmul : muF w (path ++ [cur]) url * (H + 1) + (H + 1) ≤ muF w path cur * (H + 1) := by
        have : muF w (path ++ [cur]) url + 1 ≤ muF w path cur := hdec
        calc muF w (path ++ [cur]) url * (H + 1) + (H + 1) = (muF w (path ++ [cur]) url + 1) * (H + 1) := by
              rw [Nat.add_mul, Nat.one_mul]
          _ ≤ muF w path cur * (H + 1) := Nat.mul_le_mul_right _ this
      unfold fetchComponent
      simp only [hcur, reqImp_of_imp himp, Bool.not_true, Bool.false_eq_true, if_false, himp, hlk]
      have hp : path.contains url = false := by simpa using hpath
      simp only [hp, Bool.false_eq_true, if_false, hf]
      refine seqR_ok_iff.mpr ⟨?_, seqR_ok_iff.mpr ⟨(allR_ok_iff _ _).mpr ?_, seqR_ok_iff.mpr ⟨(allR_ok_iff _ _).mpr ?_, ?_⟩⟩⟩
      · have := hH (url, sc.name)
        exact ihsc ⟨us', cs', hlk, findC_mem hf⟩ n (by omega)
      · intro k hk
        cases hfk : findC cs' k with
        | none => rfl
        | some kc =>
          simp only []
          have := hH (url, kc.name)
          exact ihkids k hk kc hfk ⟨us', cs', hlk, findC_mem hfk⟩ n (by omega)
      · intro un hun
        obtain ⟨uu, hfu, hok⟩ := hunits un hun
        simp only [hfu]
        have h1 := mu_nil_le w (path ++ [cur]) url
        have h2 : muF w (path ++ [cur]) url ≤ muF w (path ++ [cur]) url * (H + 1) := Nat.le_mul_of_pos_right _ (by omega)
        exact fetchUnits_complete w hok n (by omega)
      · split
        · rfl
        · rename_i hemp
          have hne : path ≠ [] := by intro he; rw [he] at hemp; simp at hemp
          obtain ⟨us0, cs0, hlk0, hcmem⟩ := hin
          rw [hcur] at hlk0
          cases hlk0
          refine (allR_ok_iff _ _).mpr ?_
          intro k hk
          cases hfk : findC cs k with
          | none => rfl
          | some kc =>
            simp only []
            have hlt := hr.2 cur us cs c k kc hcur hcmem hk hfk
            exact ihown hne k hk kc hfk ⟨us, cs, hcur, findC_mem hfk⟩ n (by omega)

end Cellml.Import
