/-
  C07 — exactness of `fetchUnits`: the fuel-free characterisation `UOk` (a finite derivation: the file of every import
  is a model, is not a file the descent came through, contains the referenced units, whose own import and whose imported
  children are fetched in turn) holds exactly when `fetchUnits` answers `ok`, for every fuel above the measure.
-/
import Cellml.Import.Proofs
namespace Cellml.Import

theorem seqR_ok_iff {a : R} {b : Unit → R} : seqR a b = .ok ↔ a = .ok ∧ b () = .ok := by
  unfold seqR
  cases a <;> simp

theorem allR_ok_iff {α : Type} (f : α → R) (xs : List α) : allR f xs = .ok ↔ ∀ x ∈ xs, f x = .ok := by
  induction xs with
  | nil => simp [allR]
  | cons x xs ih =>
    simp only [allR, seqR_ok_iff, ih, List.mem_cons, forall_eq_or_imp]

/-- what it takes for an imported units to be fetched, without fuel -/
inductive UOk (w : World) : List String → String → UnitsE → Prop
  | notImported {path : List String} {cur : String} {u : UnitsE} : u.imp = none → UOk w path cur u
  | imported {path : List String} {cur : String} {u su : UnitsE} {url ref : String} {us : List UnitsE} {cs : List CompE} :
      u.imp = some (url, ref) → w.lookup url = some (.model us cs) → ¬ url ∈ path → findU us ref = some su →
      UOk w (path ++ [cur]) url su →
      (∀ k ∈ su.kids, (findU us k).isSome = true) →
      (∀ k ∈ su.kids, ∀ ku, findU us k = some ku → ku.imp.isSome = true → UOk w (path ++ [cur]) url ku) →
      UOk w path cur u

/-- soundness: `ok` comes with a derivation, whatever the fuel -/
theorem fetchUnits_sound : ∀ (n : Nat) (w : World) (path : List String) (cur : String) (u : UnitsE),
    fetchUnits n w path cur u = .ok → UOk w path cur u := by
  intro n
  induction n with
  | zero => intro w path cur u h; simp [fetchUnits] at h
  | succ n ih =>
    intro w path cur u h
    unfold fetchUnits at h
    cases himp : u.imp with
    | none => exact .notImported himp
    | some ur =>
      obtain ⟨url, ref⟩ := ur
      simp only [himp] at h
      cases hlk : w.lookup url with
      | none => simp [hlk] at h
      | some fc =>
        cases fc with
        | missing => simp [hlk] at h
        | notXml => simp [hlk] at h
        | model us cs =>
          simp only [hlk] at h
          split at h
          · cases h
          · rename_i hpath
            cases hf : findU us ref with
            | none => simp [hf] at h
            | some su =>
              simp only [hf] at h
              obtain ⟨h1, h2⟩ := seqR_ok_iff.mp h
              have h2' := (allR_ok_iff _ _).mp h2
              refine .imported himp hlk (by simpa using hpath) hf (ih w _ url su h1) ?_ ?_
              · intro k hk
                have hk' := h2' k hk
                cases hfk : findU us k with
                | none => simp [hfk] at hk'
                | some ku => rfl
              · intro k hk ku hfk hi
                have hk' := h2' k hk
                simp only [hfk, hi, if_true] at hk'
                exact ih w _ url ku hk'

/-- completeness: a derivation is found by `fetchUnits` with any fuel above the measure -/
theorem fetchUnits_complete (w : World) : ∀ {path : List String} {cur : String} {u : UnitsE}, UOk w path cur u →
    ∀ n, mu w path cur [] < n → fetchUnits n w path cur u = .ok := by
  intro path cur u h
  induction h with
  | notImported himp =>
    intro n hn
    cases n with
    | zero => omega
    | succ n => unfold fetchUnits; simp [himp]
  | @imported path cur u su url ref us cs himp hlk hpath hf _ hex _ ihsu ihkids =>
    intro n hn
    cases n with
    | zero => omega
    | succ n =>
      have hdec := mu_import w path cur url [] (lookup_file hlk) (by simpa using hpath)
      unfold fetchUnits
      simp only [himp, hlk]
      have hp : path.contains url = false := by simpa using hpath
      simp only [hp, Bool.false_eq_true, if_false, hf]
      refine seqR_ok_iff.mpr ⟨ihsu n (by omega), (allR_ok_iff _ _).mpr ?_⟩
      intro k hk
      have hsome := hex k hk
      cases hfk : findU us k with
      | none => simp [hfk] at hsome
      | some ku =>
        simp only []
        split
        · rename_i hi
          exact ihkids k hk ku hfk hi n (by omega)
        · rfl

end Cellml.Import
