/-
  C07 — helper lemmas: fuel is never exhausted (`fetchUnits_ne_fuel`, `fetchComponent_ne_fuel`).

  The depth of a descent is bounded by a measure that every recursive call decreases:
    * an import step goes from `(path, cur)` to `(path ++ [cur], url)` with `url` a file of the world that is not in
      `path`; `2 * #(files not in path and different from cur) + (1 if cur is not in path)` decreases;
    * a local step adds a pair `(cur, name)`, which names a units of the world and is not in `loc`, to `loc`;
      `#(units of the world not in loc)` decreases.
-/
import Cellml.Import.Model
namespace Cellml.Import

theorem seqR_ne_fuel {a : R} {b : Unit → R} (ha : a ≠ .fuel) (hb : b () ≠ .fuel) : seqR a b ≠ .fuel := by
  unfold seqR; cases a <;> simp_all

theorem allR_ne_fuel {α : Type} (f : α → R) (xs : List α) (h : ∀ x ∈ xs, f x ≠ .fuel) : allR f xs ≠ .fuel := by
  induction xs with
  | nil => simp [allR]
  | cons x xs ih =>
    simp only [allR]
    exact seqR_ne_fuel (h x (by simp)) (ih fun y hy => h y (by simp [hy]))

/-- strict decrease of a filtered length when one more element is excluded -/
theorem length_filter_lt {α : Type} (l : List α) (p q : α → Bool) (a : α)
    (hqp : ∀ x, q x = true → p x = true) (ha : a ∈ l) (hpa : p a = true) (hqa : q a = false) :
    (l.filter q).length < (l.filter p).length := by
  induction l with
  | nil => cases ha
  | cons x xs ih =>
    have hle : ∀ ys : List α, (ys.filter q).length ≤ (ys.filter p).length := by
      intro ys
      induction ys with
      | nil => simp
      | cons y ys ihy =>
        simp only [List.filter_cons]
        cases hq : q y with
        | false => cases hp : p y <;> simp <;> omega
        | true => simp [hqp y hq]; omega
    simp only [List.filter_cons]
    rcases List.mem_cons.mp ha with rfl | hmem
    · simp [hpa, hqa]; have := hle xs; omega
    · have := ih hmem
      cases hq : q x with
      | false => cases hp : p x <;> simp <;> omega
      | true => simp [hqp x hq]; omega

/-- the depth budget of a descent of `fetchUnits` -/
def mu (w : World) (path : List String) (cur : String) (loc : List (String × String)) : Nat :=
  2 * ((filesOf w).filter fun f => !path.contains f && f != cur).length + (if path.contains cur then 0 else 1)
    + ((unitPairs w).filter fun p => !loc.contains p).length

theorem lookup_mem {w : World} {k : String} {v : FileC} (h : w.lookup k = some v) : (k, v) ∈ w := by
  induction w with
  | nil => simp [List.lookup] at h
  | cons x xs ih =>
    obtain ⟨a, b⟩ := x
    simp only [List.lookup] at h
    by_cases hk : k == a
    · simp only [hk] at h
      have : k = a := by simpa using hk
      subst this
      cases h
      simp
    · simp only [hk] at h
      exact List.mem_cons_of_mem _ (ih h)

theorem lookup_file {w : World} {k : String} {v : FileC} (h : w.lookup k = some v) : k ∈ filesOf w := by
  have := lookup_mem h
  exact List.mem_map.mpr ⟨(k, v), this, rfl⟩

theorem pair_mem {w : World} {cur : String} {us : List UnitsE} {cs : List CompE} {u : UnitsE}
    (h : w.lookup cur = some (.model us cs)) (hu : u ∈ us) : (cur, u.name) ∈ unitPairs w := by
  have := lookup_mem h
  exact List.mem_flatMap.mpr ⟨(cur, .model us cs), this, List.mem_map.mpr ⟨u, hu, rfl⟩⟩

theorem findU_mem {us : List UnitsE} {k : String} {u : UnitsE} (h : findU us k = some u) : u ∈ us :=
  List.mem_of_find?_eq_some h

theorem mu_local (w : World) (path : List String) (cur : String) (loc : List (String × String)) (p : String × String)
    (hp : p ∈ unitPairs w) (hl : loc.contains p = false) : mu w path cur (p :: loc) < mu w path cur loc := by
  unfold mu
  have := length_filter_lt (unitPairs w) (fun q => !loc.contains q) (fun q => !(p :: loc).contains q) p
    (by intro x hx; simp only [List.contains_cons, Bool.not_eq_true', Bool.or_eq_false_iff] at hx
        have : ¬ x ∈ loc := by simpa using hx.2
        simpa using this)
    hp (by have : ¬ p ∈ loc := by simpa using hl
           simpa using this) (by simp)
  omega

theorem mu_import (w : World) (path : List String) (cur url : String) (loc : List (String × String))
    (hu : url ∈ filesOf w) (hp : path.contains url = false) : mu w (path ++ [cur]) url loc < mu w path cur loc := by
  unfold mu
  by_cases he : url = cur
  · subst he
    have h1 : ((filesOf w).filter fun f => !(path ++ [url]).contains f && f != url)
        = ((filesOf w).filter fun f => !path.contains f && f != url) := by
      apply List.filter_congr
      intro x _
      by_cases hx : x = url <;> simp [hx]
    rw [h1]
    have h2 : (path ++ [url]).contains url = true := by simp
    simp only [h2, hp, if_true]
    simp
  · have := length_filter_lt (filesOf w) (fun f => !path.contains f && f != cur) (fun f => !(path ++ [cur]).contains f && f != url) url
      (by
        intro x hx
        simp only [Bool.and_eq_true, Bool.not_eq_true', bne_iff_ne, ne_eq] at hx ⊢
        obtain ⟨h1, _⟩ := hx
        have : ¬ x ∈ path ++ [cur] := by simpa using h1
        simp only [List.mem_append, List.mem_singleton, not_or] at this
        exact ⟨by simpa using this.1, this.2⟩)
      hu (by have : ¬ url ∈ path := by simpa using hp
             simp [this, he]) (by simp)
    split <;> split <;> omega

/-- `u` is a units of file `cur` -/
def InFile (w : World) (cur : String) (u : UnitsE) : Prop := ∃ us cs, w.lookup cur = some (.model us cs) ∧ u ∈ us

theorem fetchUnits_ne_fuel : ∀ (n : Nat) (w : World) (path : List String) (cur : String) (u : UnitsE),
    mu w path cur [] < n → fetchUnits n w path cur u ≠ .fuel := by
  intro n
  induction n with
  | zero => intro w path cur u h; omega
  | succ n ih =>
    intro w path cur u hmu
    unfold fetchUnits
    cases himp : u.imp with
    | none => simp
    | some ur =>
      obtain ⟨url, ref⟩ := ur
      simp only []
      cases hlk : w.lookup url with
      | none => simp
      | some fc =>
        cases fc with
        | missing => simp
        | notXml => simp
        | model us' cs' =>
          simp only []
          split
          · simp
          · rename_i hpath
            have hdec := mu_import w path cur url [] (lookup_file hlk) (by simpa using hpath)
            cases hf : findU us' ref with
            | none => simp
            | some su =>
              simp only []
              apply seqR_ne_fuel
              · exact ih w _ url su (by omega)
              · apply allR_ne_fuel
                intro k _
                cases hk : findU us' k with
                | none => simp
                | some ku =>
                  simp only []
                  split
                  · exact ih w _ url ku (by omega)
                  · simp

/-! Components: the encapsulation hierarchy of a file is a tree (C09 proves that the mutators keep it acyclic); here it
    is a hypothesis, in the form of a rank that decreases from a component to its children. -/
def Ranked (w : World) (h : String × String → Nat) (H : Nat) : Prop :=
  (∀ p, h p ≤ H) ∧
  ∀ f us cs c k kc, w.lookup f = some (.model us cs) → c ∈ cs → k ∈ c.kids → findC cs k = some kc →
    h (f, kc.name) < h (f, c.name)

def muF (w : World) (path : List String) (cur : String) : Nat :=
  2 * ((filesOf w).filter fun f => !path.contains f && f != cur).length + (if path.contains cur then 0 else 1)

theorem mu_eq (w : World) (path : List String) (cur : String) (loc : List (String × String)) :
    mu w path cur loc = muF w path cur + ((unitPairs w).filter fun p => !loc.contains p).length := rfl

theorem mu_nil_le (w : World) (path : List String) (cur : String) :
    mu w path cur [] ≤ muF w path cur + (unitPairs w).length := by
  rw [mu_eq]
  have := List.length_filter_le (fun p => !([] : List (String × String)).contains p) (unitPairs w)
  omega

theorem muF_import (w : World) (path : List String) (cur url : String)
    (hu : url ∈ filesOf w) (hp : path.contains url = false) : muF w (path ++ [cur]) url < muF w path cur := by
  have := mu_import w path cur url [] hu hp
  rw [mu_eq, mu_eq] at this
  omega

def InFileC (w : World) (cur : String) (c : CompE) : Prop := ∃ us cs, w.lookup cur = some (.model us cs) ∧ c ∈ cs

theorem findC_mem {cs : List CompE} {k : String} {c : CompE} (h : findC cs k = some c) : c ∈ cs :=
  List.mem_of_find?_eq_some h

theorem fetchComponent_ne_fuel (w : World) (h : String × String → Nat) (H : Nat) (hr : Ranked w h H) :
    ∀ (n : Nat) (path : List String) (cur : String) (c : CompE),
    muF w path cur * (H + 1) + h (cur, c.name) + (unitPairs w).length < n → InFileC w cur c →
    fetchComponent n w path cur c ≠ .fuel := by
  intro n
  induction n with
  | zero => intro path cur c hn; omega
  | succ n ih =>
    intro path cur c hn hin
    obtain ⟨us, cs, hlk, hc⟩ := hin
    unfold fetchComponent
    rw [hlk]
    simp only []
    split
    · simp
    · cases himp : c.imp with
      | none =>
        simp only []
        apply allR_ne_fuel
        intro k hk
        cases hf : findC cs k with
        | none => simp
        | some kc =>
          simp only []
          have := hr.2 cur us cs c k kc hlk hc hk hf
          exact ih path cur kc (by omega) ⟨us, cs, hlk, findC_mem hf⟩
      | some ur =>
        obtain ⟨url, ref⟩ := ur
        simp only []
        cases hlk' : w.lookup url with
        | none => simp
        | some fc =>
          cases fc with
          | missing => simp
          | notXml => simp
          | model us' cs' =>
            simp only []
            split
            · simp
            · rename_i hpath
              have hdec := muF_import w path cur url (lookup_file hlk') (by simpa using hpath)
              have hH : ∀ p, h p ≤ H := hr.1
              have hmul : muF w (path ++ [cur]) url * (H + 1) + (H + 1) ≤ muF w path cur * (H + 1) := by
                have : muF w (path ++ [cur]) url + 1 ≤ muF w path cur := hdec
                calc muF w (path ++ [cur]) url * (H + 1) + (H + 1) = (muF w (path ++ [cur]) url + 1) * (H + 1) := by
                      rw [Nat.add_mul, Nat.one_mul]
                  _ ≤ muF w path cur * (H + 1) := Nat.mul_le_mul_right _ this
              cases hf : findC cs' ref with
              | none => simp
              | some sc =>
                simp only []
                apply seqR_ne_fuel
                · have := hH (url, sc.name)
                  exact ih _ url sc (by omega) ⟨us', cs', hlk', findC_mem hf⟩
                · apply seqR_ne_fuel
                  · apply allR_ne_fuel
                    intro k _
                    cases hk : findC cs' k with
                    | none => simp
                    | some kc =>
                      simp only []
                      have := hH (url, kc.name)
                      exact ih _ url kc (by omega) ⟨us', cs', hlk', findC_mem hk⟩
                  · apply seqR_ne_fuel
                    · apply allR_ne_fuel
                      intro un _
                      cases hu : findU us' un with
                      | none => simp
                      | some uu =>
                        simp only []
                        have h1 := mu_nil_le w (path ++ [cur]) url
                        have h2 : muF w (path ++ [cur]) url ≤ muF w (path ++ [cur]) url * (H + 1) := Nat.le_mul_of_pos_right _ (by omega)
                        exact fetchUnits_ne_fuel n w _ url uu (by omega)
                    · split
                      · simp
                      · apply allR_ne_fuel
                        intro k hk
                        cases hfk : findC cs k with
                        | none => simp
                        | some kc =>
                          simp only []
                          have := hr.2 cur us cs c k kc hlk hc hk hfk
                          exact ih path cur kc (by omega) ⟨us, cs, hlk, findC_mem hfk⟩

theorem muF_le (w : World) (cur : String) : muF w [] cur ≤ 2 * w.length + 1 := by
  unfold muF
  have := List.length_filter_le (fun f => !([] : List String).contains f && f != cur) (filesOf w)
  have hl : (filesOf w).length = w.length := by simp [filesOf]
  split <;> omega

/-- the fuel of `resolve` is enough for every imported units of the origin -/
theorem fuel_units (w : World) (origin : String) : mu w [] origin [] < fuelFor w := by
  have h1 := mu_nil_le w [] origin
  have h2 := muF_le w origin
  unfold fuelFor
  have : 2 * w.length + 1 ≤ (2 * w.length + 1) * (compBound w + 1) := Nat.le_mul_of_pos_right _ (by omega)
  omega

/-- … and for every imported component, when the rank is bounded by `compBound w` -/
theorem fuel_comp (w : World) (origin : String) (h : String × String → Nat) (hH : ∀ p, h p ≤ compBound w) (c : CompE) :
    muF w [] origin * (compBound w + 1) + h (origin, c.name) + (unitPairs w).length < fuelFor w := by
  have h2 := muF_le w origin
  have := hH (origin, c.name)
  unfold fuelFor
  have : muF w [] origin * (compBound w + 1) ≤ (2 * w.length + 1) * (compBound w + 1) := Nat.mul_le_mul_right _ h2
  omega

end Cellml.Import
