/-
  C07 — import resolution: a model of `Importer::resolveImports` (src/importer.cpp: `fetchUnits`, `fetchComponent`,
  `fetchModel`, `checkForImportCycles`) over a *world* of files in one directory.

  A file is missing, not XML, or a model with units (imported, or local with references to other units of the file)
  and components (imported, or local with encapsulated children and the names of the units their variables use).  XML
  that is not CellML parses to the empty model.  Components are listed flat, children by name (names are unique in a
  file).

  What is transcribed: the order of the checks (file, cycle test, referenced entity, the entity's own import, its
  children / units), the cycle test on the *files* of the epochs that are on the history stack (`path`: the source
  files of the ancestors; the new epoch's own source `cur` is pushed only after the test), local units accepted
  as they are, the units of every local component of an imported component's subtree, and the per-item handling of `resolveImports` (every imported item of the origin is
  tried; one issue per item that fails).  Recursion is by fuel; `Cellml/Import/Proofs.lean` shows that the fuel
  `fuelFor w` is never exhausted.

  Not modelled: URL normalisation and directories, the library cache across calls, parser errors of an imported file
  that relate to the imported entity, the texts of the issues.
-/
namespace Cellml.Import

structure UnitsE where
  name : String
  imp : Option (String × String) := none     -- (url, reference)
  kids : List String := []                    -- references of the unit children that are not standard units
  deriving Repr, Inhabited, DecidableEq

structure CompE where
  name : String
  imp : Option (String × String) := none
  kids : List String := []                    -- encapsulated children (names)
  units : List String := []                   -- non-standard units used by its variables / cn elements
  deriving Repr, Inhabited, DecidableEq

inductive FileC where
  | missing
  | notXml
  | model (us : List UnitsE) (cs : List CompE)
  deriving Repr, Inhabited

abbrev World := List (String × FileC)

/-- why an item could not be fetched (the reference rule of the issue) -/
inductive Why | missingFile | nullModel | cycle | missingUnits | missingComponent
  deriving Repr, DecidableEq, Inhabited

inductive R | ok | fail (w : Why) | fuel
  deriving Repr, DecidableEq, Inhabited

def seqR (a : R) (b : Unit → R) : R :=
  match a with
  | .ok => b ()
  | r => r

/-- run `f` over the list, stopping at the first result that is not `ok` -/
def allR {α : Type} (f : α → R) : List α → R
  | [] => .ok
  | x :: xs => seqR (f x) fun _ => allR f xs

def findU (us : List UnitsE) (n : String) : Option UnitsE := us.find? (·.name == n)
def findC (cs : List CompE) (n : String) : Option CompE := cs.find? (·.name == n)

def filesOf (w : World) : List String := w.map (·.1)

/-- `fetchUnits`; `path` = source files of the epochs on the history stack, `cur` = file of `u`.  Units that are not
    imported are accepted without looking at the units they are defined with (only the direct children of the target
    of an import are looked at): see known finding C07-imports-below-local-units -/
def fetchUnits : Nat → World → List String → String → UnitsE → R
  | 0, _, _, _, _ => .fuel
  | n + 1, w, path, cur, u =>
    match u.imp with
    | none => .ok
    | some (url, ref) =>
      match w.lookup url with
      | none => .fail .missingFile
      | some .missing => .fail .missingFile
      | some .notXml => .fail .nullModel
      | some (.model us _) =>
        if path.contains url then .fail .cycle else
        match findU us ref with
        | none => .fail .missingUnits
        | some su =>
          seqR (fetchUnits n w (path ++ [cur]) url su) fun _ =>
          allR (fun k => match findU us k with
            | none => .fail .missingUnits
            | some ku => if ku.imp.isSome then fetchUnits n w (path ++ [cur]) url ku else .ok) su.kids

/-- `Component::requiresImports` -/
def reqImp : Nat → List CompE → CompE → Bool
  | 0, _, c => c.imp.isSome
  | n + 1, cs, c => c.imp.isSome || c.kids.any fun k => match findC cs k with | none => false | some kc => reqImp n cs kc

/-- units used by a component and by the local components encapsulated below it, in the order in which `fetchComponent`
    collects them: it keeps the components still to visit on a stack, so the children of a component are taken last
    child first -/
def subUnits : Nat → List CompE → CompE → List String
  | 0, _, c => c.units
  | n + 1, cs, c => c.units ++ c.kids.reverse.flatMap fun k => match findC cs k with
      | none => []
      | some kc => if kc.imp.isSome then [] else subUnits n cs kc

def fetchComponent : Nat → World → List String → String → CompE → R
  | 0, _, _, _, _ => .fuel
  | n + 1, w, path, cur, c =>
    match w.lookup cur with
    | some (.model _ cs) =>
      if !reqImp cs.length cs c then .ok else
      match c.imp with
      | none => allR (fun k => match findC cs k with
          | none => .ok
          | some kc => fetchComponent n w path cur kc) c.kids
      | some (url, ref) =>
        match w.lookup url with
        | none => .fail .missingFile
        | some .missing => .fail .missingFile
        | some .notXml => .fail .nullModel
        | some (.model us' cs') =>
          if path.contains url then .fail .cycle else
          match findC cs' ref with
          | none => .fail .missingComponent
          | some sc =>
            seqR (fetchComponent n w (path ++ [cur]) url sc) fun _ =>
            seqR (allR (fun k => match findC cs' k with
              | none => .ok
              | some kc => fetchComponent n w (path ++ [cur]) url kc) sc.kids) fun _ =>
            seqR (allR (fun un => match findU us' un with
              | none => .fail .missingComponent
              | some uu => fetchUnits n w (path ++ [cur]) url uu) ((subUnits cs'.length cs' sc).eraseDups)) fun _ =>
            -- the components that a library model encapsulates in this import (those of the origin are fetched in
            -- their own right by `resolve`)
            if path.isEmpty then .ok else
            allR (fun k => match findC cs k with
              | none => .ok
              | some kc => fetchComponent n w path cur kc) c.kids
    | _ => .ok

/-- all (file, units name) pairs of the world -/
def unitPairs (w : World) : List (String × String) :=
  w.flatMap fun f => match f.2 with
    | .model us _ => us.map fun u => (f.1, u.name)
    | _ => []

/-- number of components of the largest file: a bound on the depth of an encapsulation hierarchy -/
def compBound (w : World) : Nat :=
  w.foldr (fun f acc => match f.2 with | .model _ cs => max cs.length acc | _ => acc) 0

/-- enough fuel for every descent: see `Proofs.lean` -/
def fuelFor (w : World) : Nat := (2 * w.length + 1) * (compBound w + 1) + compBound w + (unitPairs w).length + 1

/-- `resolveImports`: every imported units, then every imported component of the origin; the reasons of the failures in
    that order (one issue each) -/
def resolve (w : World) (origin : String) : List R :=
  match w.lookup origin with
  | some (.model us cs) =>
    ((us.filter (·.imp.isSome)).map fun u => fetchUnits (fuelFor w) w [] origin u)
      ++ ((cs.filter (·.imp.isSome)).map fun c => fetchComponent (fuelFor w) w [] origin c)
  | _ => []

def status (rs : List R) : Bool := rs.all (· == .ok)

end Cellml.Import
