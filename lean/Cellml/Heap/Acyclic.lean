/-
  C09 — the hierarchy (parent pointers) stays acyclic.
-/
import Cellml.Heap.Proofs
namespace Cellml.Heap

/-- `a` is a proper ancestor of `z` along parent pointers -/
inductive Anc (h : Heap) : Nat → Nat → Prop
  | direct {a z} : h.parent z = some a → Anc h a z
  | step {a p z} : h.parent z = some p → Anc h a p → Anc h a z

def Acyclic (h : Heap) : Prop := ∀ z, ¬ Anc h z z

theorem Anc.trans {h : Heap} {a b c : Nat} (h1 : Anc h a b) (h2 : Anc h b c) : Anc h a c := by
  induction h2 with
  | direct hp => exact Anc.step hp h1
  | step hp _ ih => exact Anc.step hp ih

/-- the executable ancestor test is sound: `some false` means "not an ancestor" -/
theorem hasAncestor_false (h : Heap) : ∀ (fuel this e : Nat), hasAncestor h fuel this e = some false → ¬ Anc h e this := by
  intro fuel
  induction fuel with
  | zero => intro this e hf; simp [hasAncestor] at hf
  | succ f ih =>
    intro this e hf hanc
    unfold hasAncestor at hf
    cases hp : h.parent this with
    | none =>
      cases hanc with
      | direct hd => rw [hp] at hd; cases hd
      | step hd _ => rw [hp] at hd; cases hd
    | some p =>
      simp only [hp] at hf
      by_cases hpe : p = e
      · simp [hpe] at hf
      · simp only [hpe, if_false] at hf
        cases hanc with
        | direct hd => rw [hp] at hd; exact hpe (Option.some.inj hd)
        | step hd ha => rw [hp] at hd; cases hd; exact ih p e hf ha

/-- clearing a parent pointer only removes ancestors -/
theorem anc_clear (h : Heap) (y : Nat) (ks : Nat → CK → List Nat) {a z : Nat}
    (ha : Anc { h with parent := upd h.parent y none, kids := ks } a z) : Anc h a z := by
  induction ha with
  | @direct z hp =>
    by_cases hz : z = y
    · subst hz; simp [upd] at hp
    · simp [upd, hz] at hp; exact Anc.direct hp
  | @step p z hp _ ih =>
    by_cases hz : z = y
    · subst hz; simp [upd] at hp
    · simp [upd, hz] at hp; exact Anc.step hp ih

theorem detach_acyclic (h : Heap) (c : Nat) (k : CK) (y : Nat) (ha : Acyclic h) : Acyclic (detach h c k y) := by
  intro z hz
  exact ha z (anc_clear h y _ hz)

theorem removePtr_anc (look : Look) (h : Heap) (c : Nat) (k : CK) (x : Nat) {a z : Nat}
    (ha : Anc (removePtr look h c k x).1 a z) : Anc h a z := by
  unfold removePtr at ha
  cases hf : findPtr look h c k x with
  | none => simp [hf] at ha; exact ha
  | some y => simp only [hf] at ha; exact anc_clear h y _ ha

/-- redirecting the parent pointer of `x` to `c`: every new ancestor relation is an old one or goes through the new edge -/
theorem anc_set (h : Heap) (x c : Nat) (ks : Nat → CK → List Nat) {a z : Nat}
    (hx : ¬ Anc h x c) (hne : c ≠ x)
    (ha : Anc { h with parent := upd h.parent x (some c), kids := ks } a z) :
    Anc h a z ∨ ((a = c ∨ Anc h a c) ∧ (z = x ∨ Anc h x z)) := by
  induction ha with
  | @direct z hp =>
    by_cases hz : z = x
    · subst hz; simp [upd] at hp; subst hp; exact Or.inr ⟨Or.inl rfl, Or.inl rfl⟩
    · simp [upd, hz] at hp; exact Or.inl (Anc.direct hp)
  | @step p z hp _ ih =>
    by_cases hz : z = x
    · subst hz
      simp [upd] at hp; subst hp
      rcases ih with ih | ⟨_, ih2⟩
      · exact Or.inr ⟨Or.inr ih, Or.inl rfl⟩
      · rcases ih2 with ih2 | ih2
        · exact absurd ih2 hne
        · exact absurd ih2 hx
    · simp [upd, hz] at hp
      rcases ih with ih | ⟨ih1, ih2⟩
      · exact Or.inl (Anc.step hp ih)
      · refine Or.inr ⟨ih1, Or.inr ?_⟩
        rcases ih2 with ih2 | ih2
        · subst ih2; exact Anc.direct hp
        · exact Anc.step hp ih2

/-- attaching `x` under `c` keeps the hierarchy acyclic when `x` is neither `c` nor an ancestor of `c` -/
theorem attach_acyclic (h : Heap) (c : Nat) (k : CK) (x : Nat) (ha : Acyclic h) (hx : ¬ Anc h x c) (hne : c ≠ x) :
    Acyclic (attach h c k x) := by
  intro z hz
  rcases anc_set h x c _ hx hne hz with h1 | ⟨h1, h2⟩
  · exact ha z h1
  · rcases h1 with h1 | h1 <;> rcases h2 with h2 | h2
    · exact hne (h1.symm.trans h2)
    · subst h1; exact hx h2
    · subst h2; exact hx h1
    · exact hx (h2.trans h1)

/-- `Component::addComponent` keeps the component hierarchy acyclic (that is what the `hasAncestor` test and the
    self test are for) -/
theorem addComponent_acyclic (look : Look) (fuel : Nat) (h : Heap) (c x : Nat) (ha : Acyclic h) :
    Acyclic (addComponent look fuel h c x).1 := by
  unfold addComponent
  by_cases hcx : c = x
  · simp [hcx]; exact ha
  · simp only [hcx, if_false]
    cases hf : hasAncestor h fuel c x with
    | none => exact ha
    | some b =>
      cases b with
      | true => exact ha
      | false =>
        have hnot := hasAncestor_false h fuel c x hf
        simp only [addChild]
        cases hp : h.parent x with
        | none => exact attach_acyclic h c .comp x ha hnot hcx
        | some p =>
          by_cases hpc : p = c
          · simp [hpc]; exact attach_acyclic h c .comp x ha hnot hcx
          · simp only [hpc, ne_eq, not_false_eq_true, if_true]
            apply attach_acyclic _ c .comp x
            · intro z hz; exact ha z (removePtr_anc look h p .comp x hz)
            · intro hz; exact hnot (removePtr_anc look h p .comp x hz)
            · exact hcx

/-- adding a leaf (variable, reset, units: nothing has it as parent) or adding under a root never closes a cycle -/
theorem addChild_acyclic (look : Look) (h : Heap) (c : Nat) (k : CK) (x : Nat) (ha : Acyclic h) (hne : c ≠ x)
    (hx : (∀ z, h.parent z ≠ some x) ∨ h.parent c = none) : Acyclic (addChild look h c k x).1 := by
  have hnot : ¬ Anc h x c := by
    intro hanc
    rcases hx with hx | hx
    · -- somebody has x as parent along the chain
      have : ∃ z, h.parent z = some x := by
        clear hne ha
        induction hanc with
        | direct hp => exact ⟨_, hp⟩
        | step _ _ ih => exact ih
      obtain ⟨z, hz⟩ := this; exact hx z hz
    · cases hanc with
      | direct hp => rw [hx] at hp; cases hp
      | step hp _ => rw [hx] at hp; cases hp
  simp only [addChild]
  cases hp : h.parent x with
  | none => exact attach_acyclic h c k x ha hnot hne
  | some p =>
    by_cases hpc : p = c
    · simp [hpc]; exact attach_acyclic h c k x ha hnot hne
    · simp only [hpc, ne_eq, not_false_eq_true, if_true]
      apply attach_acyclic _ c k x
      · intro z hz; exact ha z (removePtr_anc look h p k x hz)
      · intro hz; exact hnot (removePtr_anc look h p k x hz)
      · exact hne

end Cellml.Heap
