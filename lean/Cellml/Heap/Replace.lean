/-
  C09 — `replaceComponent(index, component)` / `replaceUnits(index, units)` keep the ownership invariant: the replacement
  leaves its previous parent first (lookup by pointer there), the child to replace is located again when that changed
  the list, and the replaced child loses its parent pointer.
-/
import Cellml.Heap.Acyclic
namespace Cellml.Heap

variable {kindOf : Nat → CK}

theorem set_nodup (l : List Nat) (x : Nat) (hn : l.Nodup) (hx : x ∉ l) : ∀ j, (l.set j x).Nodup := by
  induction l with
  | nil => intro j; simp
  | cons a t ih =>
    intro j
    have hat : a ∉ t := (List.nodup_cons.mp hn).1
    have hnt : t.Nodup := (List.nodup_cons.mp hn).2
    have hxa : x ≠ a := fun he => hx (by simp [he])
    have hxt : x ∉ t := fun hm => hx (List.mem_cons_of_mem _ hm)
    cases j with
    | zero => simp only [List.set_cons_zero]; exact List.nodup_cons.mpr ⟨hxt, hnt⟩
    | succ j =>
      simp only [List.set_cons_succ]
      refine List.nodup_cons.mpr ⟨?_, ih hnt hxt j⟩
      intro hm
      rcases List.mem_or_eq_of_mem_set hm with hm | hm
      · exact hat hm
      · exact hxa hm.symm

/-- what is listed after `set j x`, apart from `x`, was listed before and is not the element that stood at `j` -/
theorem mem_set_ne (l : List Nat) (x old : Nat) (hn : l.Nodup) : ∀ j, l[j]? = some old → ∀ z, z ∈ l.set j x → z ≠ x →
    z ∈ l ∧ z ≠ old := by
  induction l with
  | nil => intro j hj; simp at hj
  | cons a t ih =>
    intro j hj z hz hzx
    have hat : a ∉ t := (List.nodup_cons.mp hn).1
    have hnt : t.Nodup := (List.nodup_cons.mp hn).2
    cases j with
    | zero =>
      simp only [List.getElem?_cons_zero, Option.some.injEq] at hj
      subst hj
      simp only [List.set_cons_zero, List.mem_cons] at hz
      rcases hz with hz | hz
      · exact absurd hz hzx
      · exact ⟨List.mem_cons_of_mem _ hz, fun he => hat (he ▸ hz)⟩
    | succ j =>
      simp only [List.getElem?_cons_succ] at hj
      simp only [List.set_cons_succ, List.mem_cons] at hz
      rcases hz with hz | hz
      · subst hz
        refine ⟨by simp, fun he => ?_⟩
        subst he
        exact hat (List.mem_of_getElem? hj)
      · obtain ⟨h1, h2⟩ := ih hnt j hj z hz hzx
        exact ⟨List.mem_cons_of_mem _ h1, h2⟩

theorem mem_set_self (l : List Nat) (x : Nat) : ∀ j, j < l.length → x ∈ l.set j x := by
  intro j hj
  exact List.mem_set hj x

/-- the general step: in a heap with the invariant, an object listed nowhere takes the place of the child at `j` -/
theorem replaceAt_inv (h1 : Heap) (c : Nat) (k : CK) (x old j : Nat) (hi : Inv kindOf h1) (hk : kindOf x = k)
    (hun : ∀ c' k', x ∉ h1.kids c' k') (hj : (h1.kids c k)[j]? = some old) :
    Inv kindOf { h1 with parent := upd (upd h1.parent old none) x (some c),
                         kids := updK h1.kids c k ((h1.kids c k).set j x) } := by
  have hold : old ∈ h1.kids c k := List.mem_of_getElem? hj
  refine ⟨?_, ?_, ?_, hi.symm⟩
  · intro c' k' z hz
    simp only at hz ⊢
    by_cases hck : c' = c ∧ k' = k
    · obtain ⟨rfl, rfl⟩ := hck
      rw [updK_same] at hz
      by_cases hzx : z = x
      · subst hzx; simp [upd]
      · obtain ⟨hm, hne⟩ := mem_set_ne _ x old (hi.nodup c' k') j hj z hz hzx
        simp only [upd, hzx, hne, if_false]
        exact hi.listed c' k' z hm
    · rw [updK_other _ _ _ _ _ _ hck] at hz
      have hzx : z ≠ x := fun he => hun c' k' (he ▸ hz)
      have hzo : z ≠ old := fun he => hck (hi.one_container (he ▸ hz) hold)
      simp only [upd, hzx, hzo, if_false]
      exact hi.listed c' k' z hz
  · intro c' k'
    simp only
    by_cases hck : c' = c ∧ k' = k
    · obtain ⟨rfl, rfl⟩ := hck
      rw [updK_same]
      exact set_nodup _ x (hi.nodup c' k') (hun c' k') j
    · rw [updK_other _ _ _ _ _ _ hck]; exact hi.nodup c' k'
  · intro c' k' z hz
    simp only at hz
    by_cases hck : c' = c ∧ k' = k
    · obtain ⟨rfl, rfl⟩ := hck
      rw [updK_same] at hz
      rcases List.mem_or_eq_of_mem_set hz with hz | hz
      · exact hi.typed c' k' z hz
      · subst hz; exact hk
    · rw [updK_other _ _ _ _ _ _ hck] at hz; exact hi.typed c' k' z hz

/-- the replacement leaves its previous parent: afterwards it is listed nowhere -/
theorem leave_unlisted (look : Look) (h : Heap) (k : CK) (x : Nat) (hi : Inv kindOf h) (hk : kindOf x = k) :
    let h1 := match h.parent x with
      | some p => (removePtr look h p k x).1
      | none => h
    Inv kindOf h1 ∧ ∀ c' k', x ∉ h1.kids c' k' := by
  cases hp : h.parent x with
  | none => exact ⟨hi, fun c' k' => hi.unlisted hp c' k'⟩
  | some p =>
    simp only
    refine ⟨removePtr_inv look h p k x hi, ?_⟩
    intro c' k' hx
    unfold removePtr at hx
    cases hf : findPtr look h p k x with
    | none =>
      simp only [hf] at hx
      have hl := hi.listed c' k' x hx
      rw [hp] at hl
      have : c' = p := (Option.some.inj hl).symm
      subst this
      have hk' : k' = k := (hi.typed c' k' x hx).symm.trans hk
      subst hk'
      rw [findPtr_self look h c' k' x hx] at hf; cases hf
    | some y =>
      simp only [hf] at hx
      simp only [detach] at hx
      by_cases hck : c' = p ∧ k' = k
      · obtain ⟨rfl, rfl⟩ := hck
        rw [updK_same] at hx
        have hxm := List.mem_of_mem_erase hx
        rw [findPtr_self look h c' k' x hxm] at hf; cases hf
        exact (List.Nodup.not_mem_erase (hi.nodup c' k')) hx
      · rw [updK_other _ _ _ _ _ _ hck] at hx
        have hl := hi.listed c' k' x hx
        rw [hp] at hl
        have hcp : c' = p := (Option.some.inj hl).symm
        exact hck ⟨hcp, (hi.typed c' k' x hx).symm.trans hk⟩

/-- a removal from another list leaves this one alone -/
theorem removePtr_kids_other (look : Look) (h : Heap) (p : Nat) (k : CK) (x c : Nat) (k' : CK) (hne : ¬ (c = p ∧ k' = k)) :
    (removePtr look h p k x).1.kids c k' = h.kids c k' := by
  unfold removePtr
  split
  · simp only [detach]; exact updK_other _ _ _ _ _ _ hne
  · rfl

theorem getElem?_idxOf_of_lt (l : List Nat) (a : Nat) (h : l.idxOf a < l.length) : l[l.idxOf a]? = some a := by
  rw [List.getElem?_eq_getElem h]
  exact congrArg some (List.getElem_idxOf h)

/-- the tail of both replacements: with the child to replace located at `j` (if `j` is an index at all) -/
theorem replace_core (h1 : Heap) (c : Nat) (k : CK) (x old j : Nat) (hi : Inv kindOf h1) (hk : kindOf x = k)
    (hun : ∀ c' k', x ∉ h1.kids c' k') (hj : j < (h1.kids c k).length → (h1.kids c k)[j]? = some old) :
    Inv kindOf (if j < (h1.kids c k).length then
        (({ h1 with parent := upd (upd h1.parent old none) x (some c),
                    kids := updK h1.kids c k ((h1.kids c k).set j x) } : Heap), true)
      else (h1, false)).1 := by
  by_cases hlt : j < (h1.kids c k).length
  · simp only [hlt, if_true]
    exact replaceAt_inv h1 c k x old j hi hk hun (hj hlt)
  · simp only [hlt, if_false]; exact hi

theorem replaceUnits_inv (look : Look) (h : Heap) (m i x : Nat) (hi : Inv kindOf h) (hk : kindOf x = .units) :
    Inv kindOf (replaceUnits look h m i x).1 := by
  unfold replaceUnits
  cases hg : (h.kids m .units)[i]? with
  | none => exact hi
  | some old =>
    simp only
    by_cases hxo : x = old
    · simp only [hxo, if_true]; exact hi
    · simp only [hxo, if_false]
      have hl := leave_unlisted look h .units x hi hk
      cases hp : h.parent x with
      | none =>
        simp only [hp] at hl
        simp only [Option.isSome_none, Bool.false_eq_true, if_false]
        exact replace_core h m .units x old i hl.1 hk hl.2 (fun _ => hg)
      | some p =>
        simp only [hp] at hl
        simp only [Option.isSome_some, if_true]
        exact replace_core _ m .units x old _ hl.1 hk hl.2 (fun hlt => getElem?_idxOf_of_lt _ old hlt)

theorem replaceComponent_inv (look : Look) (fuel : Nat) (h : Heap) (c i x : Nat) (hi : Inv kindOf h) (hk : kindOf x = .comp) :
    Inv kindOf (replaceComponent look fuel h c i x).1 := by
  unfold replaceComponent
  cases hg : (h.kids c .comp)[i]? with
  | none => exact hi
  | some old =>
    simp only
    by_cases hxo : x = old
    · simp only [hxo, if_true]; exact hi
    · simp only [hxo, if_false]
      by_cases hxc : x = c
      · simp only [hxc, if_true]; exact hi
      · simp only [hxc, if_false]
        cases hasAncestor h fuel c x with
        | none => exact hi
        | some b =>
          cases b with
          | true => exact hi
          | false =>
            simp only
            have hl := leave_unlisted look h .comp x hi hk
            cases hp : h.parent x with
            | none =>
              simp only [hp] at hl
              simp only [reduceCtorEq, if_false]
              exact replace_core h c .comp x old i hl.1 hk hl.2 (fun _ => hg)
            | some p =>
              simp only [hp] at hl
              by_cases hpc : p = c
              · subst hpc
                simp only [if_true]
                exact replace_core _ p .comp x old _ hl.1 hk hl.2 (fun hlt => getElem?_idxOf_of_lt _ old hlt)
              · have hpc' : ¬ (some p = some c) := fun he => hpc (Option.some.inj he)
                simp only [hpc', if_false]
                refine replace_core _ c .comp x old i hl.1 hk hl.2 (fun _ => ?_)
                have hne : ¬ (c = p ∧ CK.comp = CK.comp) := fun ⟨he, _⟩ => hpc he.symm
                rw [removePtr_kids_other look h p .comp x c .comp hne]
                exact hg

/-! the replacements do not touch equivalence lists -/

theorem removePtr_equiv (look : Look) (h : Heap) (p : Nat) (k : CK) (x : Nat) : (removePtr look h p k x).1.equiv = h.equiv := by
  unfold removePtr; split <;> rfl

theorem replace_core_equiv (h1 : Heap) (c : Nat) (k : CK) (x old j : Nat) :
    (if j < (h1.kids c k).length then
        (({ h1 with parent := upd (upd h1.parent old none) x (some c),
                    kids := updK h1.kids c k ((h1.kids c k).set j x) } : Heap), true)
      else (h1, false)).1.equiv = h1.equiv := by
  split <;> rfl

theorem replaceUnits_equiv (look : Look) (h : Heap) (m i x : Nat) : (replaceUnits look h m i x).1.equiv = h.equiv := by
  unfold replaceUnits
  cases (h.kids m .units)[i]? with
  | none => rfl
  | some old =>
    simp only
    by_cases hxo : x = old
    · simp only [hxo, if_true]
    · simp only [hxo, if_false]
      cases hp : h.parent x with
      | none => simp only; exact replace_core_equiv h m .units x old _
      | some p => simp only; rw [replace_core_equiv]; exact removePtr_equiv look h p .units x

theorem replaceComponent_equiv (look : Look) (fuel : Nat) (h : Heap) (c i x : Nat) :
    (replaceComponent look fuel h c i x).1.equiv = h.equiv := by
  unfold replaceComponent
  cases (h.kids c .comp)[i]? with
  | none => rfl
  | some old =>
    simp only
    by_cases hxo : x = old
    · simp only [hxo, if_true]
    · simp only [hxo, if_false]
      by_cases hxc : x = c
      · simp only [hxc, if_true]
      · simp only [hxc, if_false]
        cases hasAncestor h fuel c x with
        | none => rfl
        | some b =>
          cases b with
          | true => rfl
          | false =>
            simp only
            cases hp : h.parent x with
            | none => simp only; exact replace_core_equiv h c .comp x old _
            | some p => simp only; rw [replace_core_equiv]; exact removePtr_equiv look h p .comp x

/-! frame: a replacement by an object that has no parent touches the two objects and the one list only -/

theorem replaceUnits_exact (look : Look) (h : Heap) (m i x old : Nat) (hg : (h.kids m .units)[i]? = some old)
    (hxo : x ≠ old) (hp : h.parent x = none) :
    (replaceUnits look h m i x).2 = true ∧
    (replaceUnits look h m i x).1.kids m .units = (h.kids m .units).set i x ∧
    (replaceUnits look h m i x).1.parent x = some m ∧ (replaceUnits look h m i x).1.parent old = none ∧
    (∀ z, z ≠ x → z ≠ old → (replaceUnits look h m i x).1.parent z = h.parent z) ∧
    (∀ c' k', ¬ (c' = m ∧ k' = .units) → (replaceUnits look h m i x).1.kids c' k' = h.kids c' k') := by
  have hlt : i < (h.kids m .units).length := by
    rcases Nat.lt_or_ge i (h.kids m .units).length with hl | hl
    · exact hl
    · rw [List.getElem?_eq_none hl] at hg; cases hg
  have hox : old ≠ x := fun he => hxo he.symm
  unfold replaceUnits
  simp only [hg, hxo, if_false, hp, Option.isSome_none, Bool.false_eq_true, hlt, if_true]
  refine ⟨trivial, updK_same _ _ _ _, by simp [upd], by simp [upd, hox], ?_, ?_⟩
  · intro z hzx hzo; simp [upd, hzx, hzo]
  · intro c' k' hck; exact updK_other _ _ _ _ _ _ hck

/-! acyclicity -/

/-- redirecting a parent pointer to something that is neither the object nor one of its descendants closes no cycle -/
theorem set_acyclic (h : Heap) (x c : Nat) (ks : Nat → CK → List Nat) (ha : Acyclic h) (hx : ¬ Anc h x c) (hne : c ≠ x) :
    Acyclic { h with parent := upd h.parent x (some c), kids := ks } := by
  intro z hz
  rcases anc_set h x c _ hx hne hz with h1 | ⟨h1, h2⟩
  · exact ha z h1
  · rcases h1 with h1 | h1 <;> rcases h2 with h2 | h2
    · exact hne (h1.symm.trans h2)
    · subst h1; exact hx h2
    · subst h2; exact hx h1
    · exact hx (h2.trans h1)

theorem replace_core_acyclic (h1 : Heap) (c : Nat) (k : CK) (x old j : Nat) (ha : Acyclic h1) (hx : ¬ Anc h1 x c) (hne : c ≠ x) :
    Acyclic (if j < (h1.kids c k).length then
        (({ h1 with parent := upd (upd h1.parent old none) x (some c),
                    kids := updK h1.kids c k ((h1.kids c k).set j x) } : Heap), true)
      else (h1, false)).1 := by
  split
  · have ha2 : Acyclic { h1 with parent := upd h1.parent old none, kids := h1.kids } :=
      fun z hz => ha z (anc_clear h1 old _ hz)
    have hx2 : ¬ Anc { h1 with parent := upd h1.parent old none, kids := h1.kids } x c :=
      fun hz => hx (anc_clear h1 old _ hz)
    exact set_acyclic { h1 with parent := upd h1.parent old none, kids := h1.kids } x c _ ha2 hx2 hne
  · exact ha

/-- `replaceComponent` keeps the component hierarchy acyclic: a component is never replaced by its own container or
    by one of the container's ancestors -/
theorem replaceComponent_acyclic (look : Look) (fuel : Nat) (h : Heap) (c i x : Nat) (ha : Acyclic h) :
    Acyclic (replaceComponent look fuel h c i x).1 := by
  unfold replaceComponent
  cases (h.kids c .comp)[i]? with
  | none => exact ha
  | some old =>
    simp only
    by_cases hxo : x = old
    · simp only [hxo, if_true]; exact ha
    · simp only [hxo, if_false]
      by_cases hxc : x = c
      · simp only [hxc, if_true]; exact ha
      · simp only [hxc, if_false]
        cases hf : hasAncestor h fuel c x with
        | none => exact ha
        | some b =>
          cases b with
          | true => exact ha
          | false =>
            have hnot := hasAncestor_false h fuel c x hf
            have hcx : c ≠ x := fun he => hxc he.symm
            simp only
            cases hp : h.parent x with
            | none => simp only; exact replace_core_acyclic h c .comp x old _ ha hnot hcx
            | some p =>
              simp only
              apply replace_core_acyclic _ c .comp x old _ _ _ hcx
              · intro z hz; exact ha z (removePtr_anc look h p .comp x hz)
              · intro hz; exact hnot (removePtr_anc look h p .comp x hz)

end Cellml.Heap
