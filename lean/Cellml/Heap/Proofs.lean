/-
  C09 — the ownership invariant and its preservation by every mutator of the model.
-/
import Cellml.Heap.Model
namespace Cellml.Heap

/-- `kindOf` is the (fixed) kind of each object: component, variable, reset or units (models only own) -/
structure Inv (kindOf : Nat → CK) (h : Heap) : Prop where
  /-- every entity listed by a container reports that container as its parent -/
  listed : ∀ c k x, x ∈ h.kids c k → h.parent x = some c
  /-- no entity is listed twice -/
  nodup : ∀ c k, (h.kids c k).Nodup
  /-- a list of children of one kind holds objects of that kind -/
  typed : ∀ c k x, x ∈ h.kids c k → kindOf x = k
  /-- variable equivalence is symmetric -/
  symm : ∀ v w, w ∈ h.equiv v → v ∈ h.equiv w

variable {kindOf : Nat → CK}

/-- … hence no entity is listed by two containers, or in two lists -/
theorem Inv.one_container {h : Heap} (hi : Inv kindOf h) {c c' : Nat} {k k' : CK} {x : Nat}
    (h1 : x ∈ h.kids c k) (h2 : x ∈ h.kids c' k') : c = c' ∧ k = k' := by
  have a := hi.listed c k x h1
  have b := hi.listed c' k' x h2
  rw [a] at b
  exact ⟨Option.some.inj b, (hi.typed c k x h1).symm.trans (hi.typed c' k' x h2)⟩

/-- an object without a parent is listed nowhere -/
theorem Inv.unlisted {h : Heap} (hi : Inv kindOf h) {x : Nat} (hp : h.parent x = none) (c : Nat) (k : CK) : x ∉ h.kids c k := by
  intro hx; rw [hi.listed c k x hx] at hp; cases hp

theorem updK_same (f : Nat → CK → List Nat) (c : Nat) (k : CK) (v : List Nat) : updK f c k v c k = v := by
  simp [updK]

theorem updK_other (f : Nat → CK → List Nat) (c : Nat) (k : CK) (v : List Nat) (c' : Nat) (k' : CK)
    (h : ¬ (c' = c ∧ k' = k)) : updK f c k v c' k' = f c' k' := by
  simp [updK, h]

/-- removing a child (and clearing its parent pointer) keeps the invariant -/
theorem detach_inv (h : Heap) (c : Nat) (k : CK) (y : Nat) (hi : Inv kindOf h) (hy : y ∈ h.kids c k) :
    Inv kindOf (detach h c k y) := by
  refine ⟨?_, ?_, ?_, hi.symm⟩
  · intro c' k' x hx
    simp only [detach] at hx ⊢
    by_cases hck : c' = c ∧ k' = k
    · obtain ⟨rfl, rfl⟩ := hck
      rw [updK_same] at hx
      have hxm : x ∈ h.kids c' k' := List.mem_of_mem_erase hx
      have hne : x ≠ y := by
        intro he; subst he
        exact (List.Nodup.not_mem_erase (hi.nodup c' k')) hx
      simp only [upd, hne, if_false]
      exact hi.listed c' k' x hxm
    · rw [updK_other _ _ _ _ _ _ hck] at hx
      have hne : x ≠ y := by
        intro he; subst he
        exact hck (hi.one_container hx hy)
      simp only [upd, hne, if_false]
      exact hi.listed c' k' x hx
  · intro c' k'
    simp only [detach]
    by_cases hck : c' = c ∧ k' = k
    · obtain ⟨rfl, rfl⟩ := hck
      rw [updK_same]
      exact (hi.nodup c' k').erase y
    · rw [updK_other _ _ _ _ _ _ hck]
      exact hi.nodup c' k'
  · intro c' k' x hx
    simp only [detach] at hx
    by_cases hck : c' = c ∧ k' = k
    · obtain ⟨rfl, rfl⟩ := hck
      rw [updK_same] at hx
      exact hi.typed c' k' x (List.mem_of_mem_erase hx)
    · rw [updK_other _ _ _ _ _ _ hck] at hx
      exact hi.typed c' k' x hx

/-- after `detach` the child has no parent and is listed nowhere; nothing else changed -/
theorem detach_parent (h : Heap) (c : Nat) (k : CK) (y : Nat) : (detach h c k y).parent y = none := by
  simp [detach, upd]

theorem detach_frame (h : Heap) (c : Nat) (k : CK) (y z : Nat) (hz : z ≠ y) : (detach h c k y).parent z = h.parent z := by
  simp [detach, upd, hz]

/-- appending an object that is listed nowhere (and of the right kind) keeps the invariant -/
theorem attach_inv (h : Heap) (c : Nat) (k : CK) (x : Nat) (hi : Inv kindOf h) (hk : kindOf x = k)
    (hun : ∀ c' k', x ∉ h.kids c' k') : Inv kindOf (attach h c k x) := by
  refine ⟨?_, ?_, ?_, hi.symm⟩
  · intro c' k' z hz
    simp only [attach] at hz ⊢
    by_cases hck : c' = c ∧ k' = k
    · obtain ⟨rfl, rfl⟩ := hck
      rw [updK_same] at hz
      rcases List.mem_append.mp hz with hz | hz
      · have hne : z ≠ x := fun he => hun c' k' (he ▸ hz)
        simp only [upd, hne, if_false]; exact hi.listed c' k' z hz
      · simp at hz; subst hz; simp [upd]
    · rw [updK_other _ _ _ _ _ _ hck] at hz
      have hne : z ≠ x := fun he => hun c' k' (he ▸ hz)
      simp only [upd, hne, if_false]; exact hi.listed c' k' z hz
  · intro c' k'
    simp only [attach]
    by_cases hck : c' = c ∧ k' = k
    · obtain ⟨rfl, rfl⟩ := hck
      rw [updK_same]
      apply List.nodup_append.mpr
      refine ⟨hi.nodup c' k', by simp, ?_⟩
      intro a ha b hb
      simp at hb; subst hb
      intro he; subst he; exact hun c' k' ha
    · rw [updK_other _ _ _ _ _ _ hck]; exact hi.nodup c' k'
  · intro c' k' z hz
    simp only [attach] at hz
    by_cases hck : c' = c ∧ k' = k
    · obtain ⟨rfl, rfl⟩ := hck
      rw [updK_same] at hz
      rcases List.mem_append.mp hz with hz | hz
      · exact hi.typed c' k' z hz
      · simp at hz; subst hz; exact hk
    · rw [updK_other _ _ _ _ _ _ hck] at hz; exact hi.typed c' k' z hz

theorem findPtr_mem (look : Look) (h : Heap) (c : Nat) (k : CK) (x y : Nat) (hf : findPtr look h c k x = some y) :
    y ∈ h.kids c k := by
  unfold findPtr at hf
  split at hf
  · cases hf; assumption
  · exact List.mem_of_find?_eq_some hf

/-- a child is found as itself (not as a look-alike) -/
theorem findPtr_self (look : Look) (h : Heap) (c : Nat) (k : CK) (x : Nat) (hx : x ∈ h.kids c k) :
    findPtr look h c k x = some x := by
  simp [findPtr, hx]

theorem removePtr_inv (look : Look) (h : Heap) (c : Nat) (k : CK) (x : Nat) (hi : Inv kindOf h) :
    Inv kindOf (removePtr look h c k x).1 := by
  unfold removePtr
  cases hf : findPtr look h c k x with
  | none => exact hi
  | some y => exact detach_inv h c k y hi (findPtr_mem look h c k x y hf)

theorem removeIdx_inv (h : Heap) (c : Nat) (k : CK) (i : Nat) (hi : Inv kindOf h) : Inv kindOf (removeIdx h c k i).1 := by
  unfold removeIdx
  cases hf : (h.kids c k)[i]? with
  | none => exact hi
  | some y => exact detach_inv h c k y hi (List.mem_of_getElem? hf)

theorem removeName_inv (nameOf : Nat → String) (h : Heap) (c : Nat) (k : CK) (n : String) (hi : Inv kindOf h) :
    Inv kindOf (removeName nameOf h c k n).1 := by
  unfold removeName
  cases hf : (h.kids c k).find? (fun y => nameOf y = n) with
  | none => exact hi
  | some y => exact detach_inv h c k y hi (List.mem_of_find?_eq_some hf)

theorem removeAll_inv (h : Heap) (c : Nat) (k : CK) (hi : Inv kindOf h) : Inv kindOf (removeAll h c k) := by
  refine ⟨?_, ?_, ?_, hi.symm⟩
  · intro c' k' x hx
    simp only [removeAll] at hx ⊢
    by_cases hck : c' = c ∧ k' = k
    · obtain ⟨rfl, rfl⟩ := hck; rw [updK_same] at hx; cases hx
    · rw [updK_other _ _ _ _ _ _ hck] at hx
      have : x ∉ h.kids c k := fun hm => hck (hi.one_container hx hm)
      simp only [this, if_false]; exact hi.listed c' k' x hx
  · intro c' k'
    simp only [removeAll]
    by_cases hck : c' = c ∧ k' = k
    · obtain ⟨rfl, rfl⟩ := hck; rw [updK_same]; exact List.nodup_nil
    · rw [updK_other _ _ _ _ _ _ hck]; exact hi.nodup c' k'
  · intro c' k' x hx
    simp only [removeAll] at hx
    by_cases hck : c' = c ∧ k' = k
    · obtain ⟨rfl, rfl⟩ := hck; rw [updK_same] at hx; cases hx
    · rw [updK_other _ _ _ _ _ _ hck] at hx; exact hi.typed c' k' x hx

/-- `add…`: the claim excludes adding an entity to the container that already holds it (`h.parent x ≠ some c`;
    existing tests pin that it is then listed twice) -/
theorem addChild_inv (look : Look) (h : Heap) (c : Nat) (k : CK) (x : Nat) (hi : Inv kindOf h) (hk : kindOf x = k)
    (hnot : h.parent x ≠ some c) : Inv kindOf (addChild look h c k x).1 := by
  unfold addChild
  cases hp : h.parent x with
  | none =>
    simp only
    exact attach_inv h c k x hi hk (fun c' k' => hi.unlisted hp c' k')
  | some p =>
    have hpc : p ≠ c := fun he => hnot (by rw [hp, he])
    simp only [hpc, ne_eq, not_false_eq_true, if_true]
    have hi1 : Inv kindOf (removePtr look h p k x).1 := removePtr_inv look h p k x hi
    apply attach_inv _ c k x hi1 hk
    intro c' k' hx
    -- x listed in the heap after the removal
    unfold removePtr at hx hi1
    cases hf : findPtr look h p k x with
    | none =>
      simp only [hf] at hx
      -- x would be listed in h: then its parent is c', so c' = p, k' = k, and findPtr would have found it
      have hl := hi.listed c' k' x hx
      rw [hp] at hl
      have : c' = p := (Option.some.inj hl).symm
      subst this
      have hk' : k' = k := (hi.typed c' k' x hx).symm.trans hk
      subst hk'
      rw [findPtr_self look h c' k' x hx] at hf; cases hf
    | some y =>
      simp only [hf] at hx
      simp only [detach] at hx
      by_cases hck : c' = p ∧ k' = k
      · obtain ⟨rfl, rfl⟩ := hck
        rw [updK_same] at hx
        have hxm := List.mem_of_mem_erase hx
        -- x is a child of p, so it was found as itself and erased
        rw [findPtr_self look h c' k' x hxm] at hf; cases hf
        exact (List.Nodup.not_mem_erase (hi.nodup c' k')) hx
      · rw [updK_other _ _ _ _ _ _ hck] at hx
        have hl := hi.listed c' k' x hx
        rw [hp] at hl
        have hcp : c' = p := (Option.some.inj hl).symm
        exact hck ⟨hcp, (hi.typed c' k' x hx).symm.trans hk⟩

theorem addComponent_inv (look : Look) (fuel : Nat) (h : Heap) (c x : Nat) (hi : Inv kindOf h) (hk : kindOf x = .comp)
    (hnot : h.parent x ≠ some c) : Inv kindOf (addComponent look fuel h c x).1 := by
  unfold addComponent
  split
  · exact hi
  · split
    · exact addChild_inv look h c .comp x hi hk hnot
    · exact hi

/-! ### equivalences -/

theorem upd_same {β : Type} (f : Nat → β) (a : Nat) (v : β) : upd f a v a = v := by simp [upd]
theorem upd_other {β : Type} (f : Nat → β) (a : Nat) (v : β) (b : Nat) (h : b ≠ a) : upd f a v b = f b := by simp [upd, h]

theorem addEquivalence_inv (h : Heap) (v w : Nat) (hi : Inv kindOf h) : Inv kindOf (addEquivalence h v w).1 := by
  unfold addEquivalence
  by_cases hvw : v = w
  · simp [hvw]; exact hi
  · simp only [hvw, if_false]
    have hcons : ((h.equiv v).contains w) = ((h.equiv w).contains v) := by
      cases h1 : (h.equiv v).contains w <;> cases h2 : (h.equiv w).contains v <;> try rfl
      · have := hi.symm w v (by simpa using h2); simp at h1; exact absurd this h1
      · have := hi.symm v w (by simpa using h1); simp at h2; exact absurd this h2
    cases hc : (h.equiv v).contains w with
    | true =>
      have hc2 : (h.equiv w).contains v = true := by rw [← hcons]; exact hc
      simp only [hc, hc2, Bool.not_true, Bool.false_and, Bool.and_false, Bool.false_eq_true, if_false]
      exact hi
    | false =>
      have hc2 : (h.equiv w).contains v = false := by rw [← hcons]; exact hc
      simp only [hc, hc2, Bool.not_false, Bool.and_self, if_true]
      refine ⟨hi.listed, hi.nodup, hi.typed, ?_⟩
      intro a b hab
      simp only at hab ⊢
      have hwv : w ≠ v := fun he => hvw he.symm
      by_cases haw : a = w
      · subst haw
        rw [upd_same] at hab
        rcases List.mem_append.mp hab with hb | hb
        · by_cases hbv : b = v
          · subst hbv; simp at hc2; exact absurd hb hc2
          · by_cases hba : b = a
            · subst hba; rw [upd_same]; exact List.mem_append_left _ hb
            · rw [upd_other _ _ _ _ hba, upd_other _ _ _ _ hbv]; exact hi.symm a b hb
        · simp at hb; subst hb
          rw [upd_other _ _ _ _ hvw, upd_same]; simp
      · rw [upd_other _ _ _ _ haw] at hab
        by_cases hav : a = v
        · subst hav
          rw [upd_same] at hab
          rcases List.mem_append.mp hab with hb | hb
          · by_cases hbw : b = w
            · subst hbw; simp at hc; exact absurd hb hc
            · by_cases hba : b = a
              · subst hba; rw [upd_other _ _ _ _ hbw, upd_same]; exact List.mem_append_left _ hb
              · rw [upd_other _ _ _ _ hbw, upd_other _ _ _ _ hba]; exact hi.symm a b hb
          · simp at hb; subst hb; rw [upd_same]; simp
        · rw [upd_other _ _ _ _ hav] at hab
          have hba := hi.symm a b hab
          by_cases hbw : b = w
          · subst hbw; rw [upd_same]; exact List.mem_append_left _ hba
          · rw [upd_other _ _ _ _ hbw]
            by_cases hbv : b = v
            · subst hbv; rw [upd_same]; exact List.mem_append_left _ hba
            · rw [upd_other _ _ _ _ hbv]; exact hba

end Cellml.Heap

namespace Cellml.Heap
variable {kindOf : Nat → CK}

theorem removeEquivalence_inv (h : Heap) (v w : Nat) (hi : Inv kindOf h) (hnd : ∀ x, (h.equiv x).Nodup) :
    Inv kindOf (removeEquivalence h v w).1 := by
  unfold removeEquivalence
  by_cases hc : (h.equiv v).contains w = true
  · simp only [hc, if_true]
    have hwv : w ∈ h.equiv v := by simpa using hc
    have hvw : v ∈ h.equiv w := hi.symm v w hwv
    by_cases hvweq : v = w
    · -- a self equivalence (cannot arise through addEquivalence): both erasures hit the same list
      subst hvweq
      split
      · refine ⟨hi.listed, hi.nodup, hi.typed, ?_⟩
        intro a b hab
        simp only at hab ⊢
        by_cases hav : a = v
        · subst hav
          rw [upd_same, upd_same] at hab
          have hb : b ∈ h.equiv a := List.mem_of_mem_erase (List.mem_of_mem_erase hab)
          have hba := hi.symm a b hb
          by_cases hbv : b = a
          · subst hbv; rw [upd_same, upd_same]; exact hab
          · rw [upd_other _ _ _ _ hbv, upd_other _ _ _ _ hbv]; exact hba
        · rw [upd_other _ _ _ _ hav, upd_other _ _ _ _ hav] at hab
          have hba := hi.symm a b hab
          by_cases hbv : b = v
          · subst hbv
            rw [upd_same, upd_same]
            exact (List.mem_erase_of_ne hav).mpr ((List.mem_erase_of_ne hav).mpr hba)
          · rw [upd_other _ _ _ _ hbv, upd_other _ _ _ _ hbv]; exact hba
      · refine ⟨hi.listed, hi.nodup, hi.typed, ?_⟩
        intro a b hab
        simp only at hab ⊢
        rename_i hno
        rw [upd_same] at hno
        have : v ∈ (h.equiv v).erase v → False := fun hm => hno (by simpa using hm)
        -- v occurs once in its own list, so after one erasure it is gone; all other entries are untouched
        by_cases hav : a = v
        · subst hav
          rw [upd_same] at hab
          have hb : b ∈ h.equiv a := List.mem_of_mem_erase hab
          by_cases hbv : b = a
          · subst hbv; exact absurd hab (by intro hm; exact this hm)
          · rw [upd_other _ _ _ _ hbv]; exact hi.symm a b hb
        · rw [upd_other _ _ _ _ hav] at hab
          have hba := hi.symm a b hab
          by_cases hbv : b = v
          · subst hbv; rw [upd_same]; exact (List.mem_erase_of_ne hav).mpr hba
          · rw [upd_other _ _ _ _ hbv]; exact hba
    · have hwne : w ≠ v := fun he => hvweq he.symm
      have h1 : (upd h.equiv v ((h.equiv v).erase w) w).contains v = true := by
        rw [upd_other _ _ _ _ hwne]; simpa using hvw
      simp only [h1, if_true]
      refine ⟨hi.listed, hi.nodup, hi.typed, ?_⟩
      intro a b hab
      simp only at hab ⊢
      by_cases haw : a = w
      · subst haw
        rw [upd_same, upd_other _ _ _ _ hwne] at hab
        have hb : b ∈ h.equiv a := List.mem_of_mem_erase hab
        have hbv : b ≠ v := by
          intro he; subst he
          exact (List.Nodup.not_mem_erase (hnd a)) hab
        have hba := hi.symm a b hb
        by_cases hbw : b = a
        · subst hbw; rw [upd_same, upd_other _ _ _ _ hwne]; exact hab
        · rw [upd_other _ _ _ _ hbw, upd_other _ _ _ _ hbv]; exact hba
      · rw [upd_other _ _ _ _ haw] at hab
        by_cases hav : a = v
        · subst hav
          rw [upd_same] at hab
          have hb : b ∈ h.equiv a := List.mem_of_mem_erase hab
          have hbw : b ≠ w := by
            intro he; subst he
            exact (List.Nodup.not_mem_erase (hnd a)) hab
          have hba := hi.symm a b hb
          by_cases hba' : b = a
          · subst hba'; rw [upd_other _ _ _ _ hbw, upd_same]; exact hab
          · rw [upd_other _ _ _ _ hbw, upd_other _ _ _ _ hba']; exact hba
        · rw [upd_other _ _ _ _ hav] at hab
          have hba := hi.symm a b hab
          by_cases hbw : b = w
          · subst hbw
            rw [upd_same, upd_other _ _ _ _ hwne]
            exact (List.mem_erase_of_ne hav).mpr hba
          · rw [upd_other _ _ _ _ hbw]
            by_cases hbv : b = v
            · subst hbv; rw [upd_same]; exact (List.mem_erase_of_ne haw).mpr hba
            · rw [upd_other _ _ _ _ hbv]; exact hba
  · simp only [hc, Bool.false_eq_true, if_false]; exact hi

end Cellml.Heap
