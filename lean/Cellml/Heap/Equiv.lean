/-
  C09 — equivalence lists: symmetry under removeAllEquivalences, absence of duplicates; the step theorem.
-/
import Cellml.Heap.Replace
namespace Cellml.Heap
variable {kindOf : Nat → CK}

/-- no variable is listed twice in an equivalence list -/
def EqNodup (h : Heap) : Prop := ∀ x, (h.equiv x).Nodup

theorem removeAllEquivalences_inv (h : Heap) (v : Nat) (hi : Inv kindOf h) (hnd : EqNodup h) :
    Inv kindOf (removeAllEquivalences h v) := by
  refine ⟨hi.listed, hi.nodup, hi.typed, ?_⟩
  intro a b hab
  simp only [removeAllEquivalences] at hab ⊢
  by_cases hav : a = v
  · subst hav; simp at hab
  · simp only [hav, if_false] at hab
    by_cases hm : a ∈ h.equiv v
    · simp only [hm, if_true] at hab
      have hb : b ∈ h.equiv a := List.mem_of_mem_erase hab
      have hbv : b ≠ v := by
        intro he; subst he
        exact (List.Nodup.not_mem_erase (hnd a)) hab
      simp only [hbv, if_false]
      have hba := hi.symm a b hb
      split
      · exact (List.mem_erase_of_ne hav).mpr hba
      · exact hba
    · simp only [hm, if_false] at hab
      have hbv : b ≠ v := by
        intro he; subst he
        exact hm (hi.symm a b hab)
      simp only [hbv, if_false]
      have hba := hi.symm a b hab
      split
      · exact (List.mem_erase_of_ne hav).mpr hba
      · exact hba

theorem eqNodup_add (h : Heap) (v w : Nat) (hnd : EqNodup h) : EqNodup (addEquivalence h v w).1 := by
  unfold addEquivalence
  by_cases hvw : v = w
  · simp [hvw]; exact hnd
  · simp only [hvw, if_false]
    have app : ∀ (l : List Nat) (x : Nat), l.Nodup → l.contains x = false → (l ++ [x]).Nodup := by
      intro l x hl hx
      apply List.nodup_append.mpr
      refine ⟨hl, by simp, ?_⟩
      intro a ha b hb
      simp at hb; subst hb
      intro he; subst he; simp at hx; exact hx ha
    cases h1 : (h.equiv v).contains w <;> cases h2 : (h.equiv w).contains v <;>
      simp only [Bool.not_true, Bool.not_false, Bool.and_self, Bool.and_false, Bool.false_and, Bool.and_true,
        Bool.false_eq_true, if_false, if_true]
    · intro x
      simp only
      by_cases hxw : x = w
      · subst hxw; rw [upd_same]; exact app _ _ (hnd x) h2
      · rw [upd_other _ _ _ _ hxw]
        by_cases hxv : x = v
        · subst hxv; rw [upd_same]; exact app _ _ (hnd x) h1
        · rw [upd_other _ _ _ _ hxv]; exact hnd x
    · exact hnd
    · intro x
      simp only
      by_cases hxw : x = w
      · subst hxw; rw [upd_same]; exact app _ _ (hnd x) h2
      · rw [upd_other _ _ _ _ hxw]; exact hnd x
    · exact hnd

theorem eqNodup_remove (h : Heap) (v w : Nat) (hnd : EqNodup h) : EqNodup (removeEquivalence h v w).1 := by
  unfold removeEquivalence
  by_cases hc : (h.equiv v).contains w = true
  · simp only [hc, if_true]
    by_cases hc2 : (upd h.equiv v ((h.equiv v).erase w) w).contains v = true
    · simp only [hc2, if_true]
      intro x
      simp only
      by_cases hxw : x = w
      · subst hxw; rw [upd_same]
        by_cases hxv : x = v
        · subst hxv; rw [upd_same]; exact ((hnd x).erase _).erase _
        · rw [upd_other _ _ _ _ hxv]; exact (hnd x).erase _
      · rw [upd_other _ _ _ _ hxw]
        by_cases hxv : x = v
        · subst hxv; rw [upd_same]; exact (hnd x).erase _
        · rw [upd_other _ _ _ _ hxv]; exact hnd x
    · have hc2' : (upd h.equiv v ((h.equiv v).erase w) w).contains v = false := by simpa using hc2
      simp only [hc2', Bool.false_eq_true, if_false]
      intro x
      simp only
      by_cases hxv : x = v
      · subst hxv; rw [upd_same]; exact (hnd x).erase _
      · rw [upd_other _ _ _ _ hxv]; exact hnd x
  · simp only [hc, if_false]; exact hnd

theorem eqNodup_removeAll (h : Heap) (v : Nat) (hnd : EqNodup h) : EqNodup (removeAllEquivalences h v) := by
  intro x
  simp only [removeAllEquivalences]
  split
  · exact List.nodup_nil
  · split
    · exact (hnd x).erase _
    · exact hnd x

theorem release_inv (h : Heap) (v : Nat) (hi : Inv kindOf h) (hnd : EqNodup h) : Inv kindOf (release h v).1 := by
  unfold release
  split
  · refine ⟨hi.listed, hi.nodup, hi.typed, ?_⟩
    intro a b hab
    simp only at hab ⊢
    by_cases hav : a = v
    · subst hav; simp at hab
    · simp only [hav, if_false] at hab
      have hb : b ∈ h.equiv a := List.mem_of_mem_erase hab
      have hbv : b ≠ v := by
        intro he; subst he
        exact (List.Nodup.not_mem_erase (hnd a)) hab
      simp only [hbv, if_false]
      exact (List.mem_erase_of_ne hav).mpr (hi.symm a b hb)
  · exact hi

theorem eqNodup_release (h : Heap) (v : Nat) (hnd : EqNodup h) : EqNodup (release h v).1 := by
  unfold release
  split
  · intro x
    simp only
    split
    · exact List.nodup_nil
    · exact (hnd x).erase _
  · exact hnd

/-- after a release nobody lists the dead variable any more, and the fresh variable under its identifier lists nobody -/
theorem release_forgets (h : Heap) (v : Nat) (hp : h.parent v = none) :
    (release h v).2 = true ∧ (release h v).1.equiv v = [] ∧ ∀ x, (h.equiv x).Nodup → v ∉ (release h v).1.equiv x := by
  unfold release
  simp only [hp, if_true]
  refine ⟨trivial, ?_, ?_⟩
  · simp
  · intro x hx
    by_cases hxv : x = v
    · simp [hxv]
    · simp only [hxv, if_false]
      exact List.Nodup.not_mem_erase hx

def isContainerOp : Op → Bool
  | .addEquivalence .. | .removeEquivalence .. | .removeAllEquivalences .. | .release .. => false
  | _ => true

theorem addChild_equiv (look : Look) (h : Heap) (c : Nat) (k : CK) (x : Nat) : (addChild look h c k x).1.equiv = h.equiv := by
  unfold addChild attach
  simp only
  cases h.parent x with
  | none => rfl
  | some p =>
    simp only
    split
    · unfold removePtr; split <;> rfl
    · rfl

/-- the container operations do not touch equivalence lists -/
theorem step_equiv_frame (look : Look) (nameOf : Nat → String) (fuel : Nat) (h : Heap) (op : Op)
    (hop : isContainerOp op = true) : (step look nameOf fuel h op).1.equiv = h.equiv := by
  cases op <;> simp only [isContainerOp] at hop <;> simp only [step] <;> try (exact absurd hop (by decide))
  · unfold addComponent; split
    · rfl
    · split
      · exact addChild_equiv look h _ _ _
      · rfl
  · exact addChild_equiv look h _ _ _
  · exact addChild_equiv look h _ _ _
  · exact addChild_equiv look h _ _ _
  · exact addChild_equiv look h _ _ _
  · unfold removeIdx; split <;> rfl
  · unfold removePtr; split <;> rfl
  · unfold removeName; split <;> rfl
  · rfl
  · exact replaceComponent_equiv look fuel h _ _ _
  · exact replaceUnits_equiv look h _ _ _

/-- C09 step theorem: every valid operation preserves the ownership invariant -/
theorem step_inv (look : Look) (nameOf : Nat → String) (fuel : Nat) (h : Heap) (op : Op)
    (hi : Inv kindOf h) (hnd : EqNodup h) (hv : Valid kindOf h op) :
    Inv kindOf (step look nameOf fuel h op).1 ∧ EqNodup (step look nameOf fuel h op).1 := by
  have frame : isContainerOp op = true → EqNodup (step look nameOf fuel h op).1 := by
    intro hop x; rw [step_equiv_frame look nameOf fuel h op hop]; exact hnd x
  cases op with
  | addComponent c x => exact ⟨addComponent_inv look fuel h c x hi hv.1 hv.2, frame rfl⟩
  | addToModel m x => exact ⟨addChild_inv look h m .comp x hi hv.1 hv.2, frame rfl⟩
  | addVariable c x => exact ⟨addChild_inv look h c .var x hi hv.1 hv.2, frame rfl⟩
  | addReset c x => exact ⟨addChild_inv look h c .reset x hi hv.1 hv.2, frame rfl⟩
  | addUnits m x => exact ⟨addChild_inv look h m .units x hi hv.1 hv.2, frame rfl⟩
  | removeIdx c k i => exact ⟨removeIdx_inv h c k i hi, frame rfl⟩
  | removePtr c k x => exact ⟨removePtr_inv look h c k x hi, frame rfl⟩
  | removeName c k n => exact ⟨removeName_inv nameOf h c k n hi, frame rfl⟩
  | removeAll c k => exact ⟨removeAll_inv h c k hi, frame rfl⟩
  | addEquivalence v w => exact ⟨addEquivalence_inv h v w hi, eqNodup_add h v w hnd⟩
  | removeEquivalence v w => exact ⟨removeEquivalence_inv h v w hi hnd, eqNodup_remove h v w hnd⟩
  | removeAllEquivalences v => exact ⟨removeAllEquivalences_inv h v hi hnd, eqNodup_removeAll h v hnd⟩
  | release v => exact ⟨release_inv h v hi hnd, eqNodup_release h v hnd⟩
  | replaceComponent c i x => exact ⟨replaceComponent_inv look fuel h c i x hi hv, frame rfl⟩
  | replaceUnits m i x => exact ⟨replaceUnits_inv look h m i x hi hv, frame rfl⟩

/-- C09: the invariant holds after every history of valid operations -/
theorem run_inv (look : Look) (nameOf : Nat → String) (fuel : Nat) (ops : List Op) :
    ∀ h, Inv kindOf h → EqNodup h → AllValid kindOf look nameOf fuel h ops →
      Inv kindOf (run look nameOf fuel h ops) ∧ EqNodup (run look nameOf fuel h ops) := by
  induction ops with
  | nil => intro h hi hnd _; exact ⟨hi, hnd⟩
  | cons op ops ih =>
    intro h hi hnd hv
    obtain ⟨h1, h2⟩ := step_inv look nameOf fuel h op hi hnd hv.1
    exact ih _ h1 h2 hv.2

theorem empty_inv : Inv kindOf empty ∧ EqNodup empty := by
  refine ⟨⟨?_, ?_, ?_, ?_⟩, ?_⟩
  · intro c k x hx; simp [empty] at hx
  · intro c k; simp [empty]
  · intro c k x hx; simp [empty] at hx
  · intro v w hx; simp [empty] at hx
  · intro x; simp [empty]

end Cellml.Heap
