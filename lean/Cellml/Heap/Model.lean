/-
  C09 — heap model of the ownership bookkeeping of the object model (componententity.cpp, component.cpp,
  model.cpp, variable.cpp, parentedentity.cpp), after the repairs recorded in known_findings.json.

  Objects are natural numbers.  Every object has a parent pointer (`ParentedEntity::mParent`, weak) and, per kind of
  child, an ordered child list (`mComponents`, `mVariables`, `mResets`, `mUnits`); variables have an equivalence list.
  A lookup "by pointer" finds the object itself if it is a child and otherwise the first structurally equal child;
  structural equality is a parameter `look` of the model (the engine instantiates it with the C10 model evaluated on
  the heap), so every theorem below holds for *any* notion of look-alike.
-/
namespace Cellml.Heap

inductive CK | comp | var | reset | units
  deriving DecidableEq, Repr

structure Heap where
  parent : Nat → Option Nat
  kids : Nat → CK → List Nat
  equiv : Nat → List Nat

def upd {β : Type} (f : Nat → β) (a : Nat) (v : β) : Nat → β := fun x => if x = a then v else f x

def updK (f : Nat → CK → List Nat) (c : Nat) (k : CK) (v : List Nat) : Nat → CK → List Nat :=
  fun c' k' => if c' = c ∧ k' = k then v else f c' k'

/-- erase child `y` from the list and clear **its** parent pointer -/
def detach (h : Heap) (c : Nat) (k : CK) (y : Nat) : Heap :=
  { h with parent := upd h.parent y none, kids := updK h.kids c k ((h.kids c k).erase y) }

/-- `setParent` + `push_back` -/
def attach (h : Heap) (c : Nat) (k : CK) (x : Nat) : Heap :=
  { h with parent := upd h.parent x (some c), kids := updK h.kids c k (h.kids c k ++ [x]) }

abbrev Look := Heap → Nat → Nat → Bool

/-- `find…(ptr)`: the object itself if it is a child, else the first structurally equal child -/
def findPtr (look : Look) (h : Heap) (c : Nat) (k : CK) (x : Nat) : Option Nat :=
  if x ∈ h.kids c k then some x else (h.kids c k).find? (look h x)

/-- `remove…(ptr)` -/
def removePtr (look : Look) (h : Heap) (c : Nat) (k : CK) (x : Nat) : Heap × Bool :=
  match findPtr look h c k x with
  | some y => (detach h c k y, true)
  | none => (h, false)

/-- `remove…(index)` / `take…(index)` -/
def removeIdx (h : Heap) (c : Nat) (k : CK) (i : Nat) : Heap × Bool :=
  match (h.kids c k)[i]? with
  | some y => (detach h c k y, true)
  | none => (h, false)

/-- `remove…(name)`: the first child carrying the name -/
def removeName (nameOf : Nat → String) (h : Heap) (c : Nat) (k : CK) (n : String) : Heap × Bool :=
  match (h.kids c k).find? (fun y => nameOf y = n) with
  | some y => (detach h c k y, true)
  | none => (h, false)

/-- `removeAll…` -/
def removeAll (h : Heap) (c : Nat) (k : CK) : Heap :=
  { h with parent := fun x => if x ∈ h.kids c k then none else h.parent x, kids := updK h.kids c k [] }

/-- `ParentedEntity::hasAncestor` with explicit fuel (`none` = the recursion does not end: a cycle) -/
def hasAncestor (h : Heap) : Nat → Nat → Nat → Option Bool
  | 0, _, _ => none
  | f+1, this, e =>
    match h.parent this with
    | none => some false
    | some p => if p = e then some true else hasAncestor h f p e

/-- `addVariable` / `addReset` / `Model::addUnits` / `Model::doAddComponent`: move out of a different previous
    parent (lookup by pointer in the previous parent), then set the parent and append -/
def addChild (look : Look) (h : Heap) (c : Nat) (k : CK) (x : Nat) : Heap × Bool :=
  let h1 := match h.parent x with
    | some p => if p ≠ c then (removePtr look h p k x).1 else h
    | none => h
  (attach h1 c k x, true)

/-- `Component::doAddComponent` (child component into a component) -/
def addComponent (look : Look) (fuel : Nat) (h : Heap) (c x : Nat) : Heap × Bool :=
  if c = x then (h, false)
  else match hasAncestor h fuel c x with
    | some false => addChild look h c .comp x
    | _ => (h, false)       -- an ancestor (or, in the model only, fuel exhausted)

/-! equivalences (`Variable::addEquivalence`, `removeEquivalence`, `removeAllEquivalences`) -/

def addEquivalence (h : Heap) (v w : Nat) : Heap × Bool :=
  if v = w then (h, false)        -- added on one side, found on the other, undone
  else
    let can1 := !(h.equiv v).contains w
    let can2 := !(h.equiv w).contains v
    if can1 && can2 then ({ h with equiv := upd (upd h.equiv v (h.equiv v ++ [w])) w (h.equiv w ++ [v]) }, true)
    else if !can1 && can2 then ({ h with equiv := upd h.equiv w (h.equiv w ++ [v]) }, false)
    else (h, false)               -- can1 && !can2 is undone; neither: nothing

def removeEquivalence (h : Heap) (v w : Nat) : Heap × Bool :=
  if (h.equiv v).contains w then
    let e1 := upd h.equiv v ((h.equiv v).erase w)
    if (e1 w).contains v then ({ h with equiv := upd e1 w ((e1 w).erase v) }, true)
    else ({ h with equiv := e1 }, false)
  else (h, false)

def removeAllEquivalences (h : Heap) (v : Nat) : Heap :=
  { h with equiv := fun x => if x = v then [] else if x ∈ h.equiv v then (h.equiv x).erase v else h.equiv x }

/-- the last reference to a variable that no component owns is dropped: the object dies, the weak entries that pointed
    to it expire (every query skips them), and the identifier stands for a fresh variable from then on; a variable that
    a component still owns stays alive -/
def release (h : Heap) (v : Nat) : Heap × Bool :=
  if h.parent v = none then ({ h with equiv := fun x => if x = v then [] else (h.equiv x).erase v }, true) else (h, false)



/-- `ComponentEntity::replaceComponent(index, newComponent)` (after the repair e1765a5) -/
def replaceComponent (look : Look) (fuel : Nat) (h : Heap) (c i x : Nat) : Heap × Bool :=
  match (h.kids c .comp)[i]? with
  | none => (h, false)
  | some old =>
    if x = old then (h, true)
    else if x = c then (h, false)
    else match hasAncestor h fuel c x with
      | some false =>
        -- the replacement leaves its previous parent (lookup by pointer there)
        let h1 := match h.parent x with
          | some p => (removePtr look h p .comp x).1
          | none => h
        -- the list has changed if the replacement came out of this very container: locate the component to replace again
        let j := if h.parent x = some c then (h1.kids c .comp).idxOf old else i
        if j < (h1.kids c .comp).length then
          let l := (h1.kids c .comp).set j x
          ({ h1 with parent := upd (upd h1.parent old none) x (some c), kids := updK h1.kids c .comp l }, true)
        else (h1, false)
      | _ => (h, false)

/-- `Model::replaceUnits(index, units)` (after the repair e1765a5) -/
def replaceUnits (look : Look) (h : Heap) (m i x : Nat) : Heap × Bool :=
  match (h.kids m .units)[i]? with
  | none => (h, false)
  | some old =>
    if x = old then (h, true)
    else
      let h1 := match h.parent x with
        | some p => (removePtr look h p .units x).1
        | none => h
      let j := if (h.parent x).isSome then (h1.kids m .units).idxOf old else i
      if j < (h1.kids m .units).length then
        let l := (h1.kids m .units).set j x
        ({ h1 with parent := upd (upd h1.parent old none) x (some m), kids := updK h1.kids m .units l }, true)
      else (h1, false)

/-- the public mutators covered by the model -/
inductive Op
  | addComponent (c x : Nat)          -- Component::addComponent
  | addToModel (m x : Nat)            -- Model::addComponent
  | addVariable (c x : Nat)
  | addReset (c x : Nat)
  | addUnits (m x : Nat)
  | removeIdx (c : Nat) (k : CK) (i : Nat)      -- remove…(index), take…(index)
  | removePtr (c : Nat) (k : CK) (x : Nat)      -- remove…(pointer)
  | removeName (c : Nat) (k : CK) (n : String)  -- remove…(name), take…(name)
  | removeAll (c : Nat) (k : CK)
  | addEquivalence (v w : Nat)
  | removeEquivalence (v w : Nat)
  | removeAllEquivalences (v : Nat)
  | release (v : Nat)                 -- the owner's last reference to a parentless variable goes away
  | replaceComponent (c i x : Nat)    -- ComponentEntity::replaceComponent(index, component)
  | replaceUnits (m i x : Nat)        -- Model::replaceUnits(index, units)
  deriving Repr

def step (look : Look) (nameOf : Nat → String) (fuel : Nat) (h : Heap) : Op → Heap × Bool
  | .addComponent c x => addComponent look fuel h c x
  | .addToModel m x => addChild look h m .comp x
  | .addVariable c x => addChild look h c .var x
  | .addReset c x => addChild look h c .reset x
  | .addUnits m x => addChild look h m .units x
  | .removeIdx c k i => removeIdx h c k i
  | .removePtr c k x => removePtr look h c k x
  | .removeName c k n => removeName nameOf h c k n
  | .removeAll c k => (removeAll h c k, true)
  | .addEquivalence v w => addEquivalence h v w
  | .removeEquivalence v w => removeEquivalence h v w
  | .removeAllEquivalences v => (removeAllEquivalences h v, true)
  | .release v => release h v
  | .replaceComponent c i x => replaceComponent look fuel h c i x
  | .replaceUnits m i x => replaceUnits look h m i x

/-- what the claim asks of an operation: objects of the right kind, and not "add to the container that already holds it" -/
def Valid (kindOf : Nat → CK) (h : Heap) : Op → Prop
  | .addComponent c x => kindOf x = .comp ∧ h.parent x ≠ some c
  | .addToModel m x => kindOf x = .comp ∧ h.parent x ≠ some m
  | .addVariable c x => kindOf x = .var ∧ h.parent x ≠ some c
  | .addReset c x => kindOf x = .reset ∧ h.parent x ≠ some c
  | .addUnits m x => kindOf x = .units ∧ h.parent x ≠ some m
  | .replaceComponent _ _ x => kindOf x = .comp
  | .replaceUnits _ _ x => kindOf x = .units
  | _ => True

def run (look : Look) (nameOf : Nat → String) (fuel : Nat) (h : Heap) (ops : List Op) : Heap :=
  ops.foldl (fun h op => (step look nameOf fuel h op).1) h

/-- every operation of the history is valid in the state it is applied to -/
def AllValid (kindOf : Nat → CK) (look : Look) (nameOf : Nat → String) (fuel : Nat) : Heap → List Op → Prop
  | _, [] => True
  | h, op :: ops => Valid kindOf h op ∧ AllValid kindOf look nameOf fuel (step look nameOf fuel h op).1 ops

def empty : Heap := ⟨fun _ => none, fun _ _ => [], fun _ => []⟩


end Cellml.Heap
