/-
  Engine `xml` (C02): a hex string → `#hex of escape` `safe=<0|1>` `wf=<0|1>` (is the raw text a well-formed attribute value)
-/
import Cellml.Xml.Escape
import Cellml.Wire
namespace Cellml.Engine.Xml
open Cellml.Xml Cellml.Wire

def answer (line : String) : String :=
  let t := line.trimAscii.toString
  match fromHex (if t.startsWith "#" then (t.drop 1).toString else t) with
  | some s =>
    let e := escape s
    "#" ++ (if e.isEmpty then "" else toHex e) ++ " safe=" ++ (if safe s then "1" else "0") ++ " wf=" ++ (if wellFormed s then "1" else "0")
  | none => "bad-line"

end Cellml.Engine.Xml
