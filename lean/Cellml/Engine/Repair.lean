/-
  Engine `repair` (C19).
  `(fix (vars (v <path> <idx> <iface>)*) (equivs (e <pathA> <idxA> T)*))`  T = (in <path> <idx>) | (out) | (loosevar)
      → `(r <b> (v <iface after> <validator issue before> <validator issue after>)*)` for the variables that have
        equivalences, in component-tree order (the `vars` list is given in that order)
  `(link (units #name*) (u KIND #name)*)`  KIND = none | standard | linked | foreign | loose
      → `(r <unlinked before> <b> <unlinked after> (u KIND #name)*)`
  `(clean M)` → `(r (comps <tree>*) (units #name|#id …))`
-/
import Cellml.Repair.Model
import Cellml.Engine.Entity
namespace Cellml.Engine.Repair
open Cellml.Repair Cellml.Wire Cellml.Engine.Entity

def parsePath (s : String) : Option (List Nat) :=
  if s = "-" then some [] else (s.splitOn ".").mapM String.toNat?

def parentOf (p : List Nat) : List Nat := p.dropLast

/-- relative position from the component paths (both inside the same model) -/
def relOf (pv pe : List Nat) : Rel :=
  if parentOf pv = parentOf pe then .sibling
  else if parentOf pv = pe then .vChildOfE
  else if parentOf pe = pv then .vParentOfE
  else .unreachable

structure VRec where
  path : List Nat
  idx : Nat
  iface : String
  rels : List Rel

def addRel (vs : List VRec) (p : List Nat) (i : Nat) (r : Rel) : List VRec :=
  vs.map fun v => if v.path = p ∧ v.idx = i then { v with rels := v.rels ++ [r] } else v

def H (s : String) : String := "#" ++ (let h := toHex s.toList; if h = "-" then "" else h)
def b (x : Bool) : String := if x then "1" else "0"

def fixAnswer (vars equivs : List Sexp) : Option String := do
  let vs ← vars.mapM fun s => match s with
    | .list [.atom "v", .atom p, .atom i, ifc] => do pure (⟨← parsePath p, ← i.toNat?, ← str ifc, []⟩ : VRec)
    | _ => none
  let vs ← equivs.foldlM (fun (vs : List VRec) s => match s with
    | .list [.atom "e", .atom pa, .atom ia, t] => do
      let pa ← parsePath pa; let ia ← ia.toNat?
      match t with
      | .list [.atom "in", .atom pb, .atom ib] => do
        let pb ← parsePath pb; let ib ← ib.toNat?
        pure (addRel (addRel vs pa ia (relOf pa pb)) pb ib (relOf pb pa))
      | .list [.atom "out"] => pure (addRel vs pa ia .unreachable)
      | .list [.atom "loosevar"] => pure (addRel vs pa ia .parentless)
      | _ => none
    | _ => none) vs
  let withEq := vs.filter fun v => !v.rels.isEmpty
  let ms : List Var := withEq.map fun v => ⟨v.iface, v.rels⟩
  let (after, ok) := fixAll false ms
  let rows := (ms.zip after).map fun (m, a) => s!"(v {H a.iface} {b (validatorIssue false m)} {b (validatorIssue false a)})"
  pure ("(r " ++ b ok ++ String.join (rows.map fun r => " " ++ r) ++ ")")

def parseURef : Sexp → Option URef
  | .list [.atom "u", .atom k, n] => do
    let n ← str n
    match k with
    | "none" => some .none_ | "standard" => some (.standard n) | "linked" => some (.linked n)
    | "foreign" => some (.foreign n) | "foreignstd" => some (.foreignStd n) | "loose" => some (.loose n) | _ => none
  | _ => none

def showURef : URef → String
  | .none_ => "(u none #)" | .standard n => s!"(u standard {H n})" | .linked n => s!"(u linked {H n})"
  | .foreign n => s!"(u foreign {H n})" | .foreignStd n => s!"(u foreignstd {H n})" | .loose n => s!"(u loose {H n})"

def toCTree : Nat → Equals.Component → CTree
  | 0, .mk id name _ math imp vars resets _ => .mk name id math imp.src.isSome vars.length resets.length []
  | f+1, .mk id name _ math imp vars resets kids =>
    .mk name id math imp.src.isSome vars.length resets.length (kids.map (toCTree f))

def showCTree : Nat → CTree → String
  | 0, _ => ""
  | f+1, .mk name id _ _ nv nr kids => s!"(c {H name} {H id} {nv} {nr}{String.join (kids.map fun k => " " ++ showCTree f k)})"

def answer (line : String) : String :=
  match parseSexp line with
  | some (.list [.atom "fix", .list (.atom "vars" :: vars), .list (.atom "equivs" :: equivs)]) =>
    (fixAnswer vars equivs).getD "bad-line"
  | some (.list (.atom "link" :: .list (.atom "units" :: us) :: refs)) =>
    match us.mapM str, refs.mapM parseURef with
    | some mu, some rs =>
      let (after, ok) := linkAll mu rs
      s!"(r {b (hasUnlinked rs)} {b ok} {b (hasUnlinked after)}" ++ String.join (after.map fun r => " " ++ showURef r) ++ ")"
    | _, _ => "bad-line"
  | some (.list [.atom "clean", m]) =>
    match parseModel m with
    | some m =>
      let us : List UInfo := m.units.map fun u => ⟨u.name, u.id, u.imp.src.isSome, u.children.length⟩
      let (cs, us') := clean 64 (m.comps.map (toCTree 64)) us
      s!"(r (comps{String.join (cs.map fun c => " " ++ showCTree 64 c)}) (units{String.join (us'.map fun u => " " ++ H u.name ++ "|" ++ H u.id)}))"
    | none => "bad-line"
  | _ => "bad-line"

end Cellml.Engine.Repair
