/-
  Engine `purity` (C12): `(history p1|p0|pr|a1|a0|o …)` → for every parse of the history, in order, `1` when the white
  space of MathML is kept and `0` when it is dropped
-/
import Cellml.Purity.Model
import Cellml.Wire
namespace Cellml.Engine.Purity
open Cellml.Purity Cellml.Wire

def parseOp : Sexp → Option Op
  | .atom "p1" => some (.parse true) | .atom "p0" => some (.parse false) | .atom "pr" => some .print
  | .atom "a1" => some (.analyse true) | .atom "a0" => some (.analyse false) | .atom "o" => some .other
  | _ => none

def answer (line : String) : String :=
  match parseSexp line with
  | some (.list (.atom "history" :: ops)) =>
    match ops.mapM parseOp with
    | some h => " ".intercalate ((run init h).filterMap fun o => o.map fun b => if b then "1" else "0")
    | none => "bad-line"
  | _ => "bad-line"

end Cellml.Engine.Purity
