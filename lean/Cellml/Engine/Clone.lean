/-
  Engine `clone` (C11): `(clone <kind> X [(equivs …)])` → `(r <wire dump of the clone>)`
  (kinds: units, var, reset, comp, model; wire format of Cellml/Engine/Entity.lean).
-/
import Cellml.Clone.Model
import Cellml.Engine.Entity
namespace Cellml.Engine.Clone
open Cellml.Clone Cellml.Wire
open Cellml.Engine.Entity (str)

def H (s : String) : String := "#" ++ (let h := toHex s.toList; if h = "-" then "" else h)

def pImp : Sexp → Option Imp
  | .list [.atom "imp", i, u, r] => do pure ⟨some ⟨1, ← str i, ← str u⟩, ← str r⟩
  | .list [.atom "noimp", r] => do pure ⟨none, ← str r⟩
  | _ => none

def pUnitChild : Sexp → Option UnitChild
  | .list [.atom "unit", r, p, i, e, m] => do pure ⟨← str r, ← str p, ← str i, ← str e, ← str m⟩
  | _ => none

def pUnits : Sexp → Option Units
  | .list (.atom "units" :: i :: n :: imp :: cs) => do pure ⟨1, ← str i, ← str n, ← pImp imp, ← cs.mapM pUnitChild⟩
  | _ => none

def pVar : Sexp → Option Variable
  | .list [.atom "var", i, n, iv, ifc, u] => do
    let units ← match u with
      | .list [.atom "nounits"] => some none
      | s => (pUnits s).map some
    pure ⟨1, ← str i, ← str n, ← str iv, ← str ifc, units⟩
  | _ => none

def pVRef : Sexp → Option VRef
  | .list [.atom "novar"] => some .none_
  | .list [.atom "own", .atom k] => k.toNat?.map .own
  | s => (pVar s).map .free

def pReset : Sexp → Option Reset
  | .list [.atom "reset", i, .atom o, rv, rvi, tv, tvi, v, t] => do
    let order ← if o = "none" then some none else o.toInt?.map some
    pure ⟨1, ← str i, order, ← str rv, ← str rvi, ← str tv, ← str tvi, ← pVRef v, ← pVRef t⟩
  | _ => none

def pComp : Nat → Sexp → Option Component
  | 0, _ => none
  | n+1, .list [.atom "comp", i, nm, e, m, imp, .list (.atom "vars" :: vs), .list (.atom "resets" :: rs), .list (.atom "kids" :: ks)] => do
    pure (.mk 1 (← str i) (← str nm) (← str e) (← str m) (← pImp imp) (← vs.mapM pVar) (← rs.mapM pReset) (← ks.mapM (pComp n)))
  | _, _ => none

def pModel : Sexp → Option Model
  | .list [.atom "model", i, n, e, .list (.atom "units" :: us), .list (.atom "comps" :: cs)] => do
    pure ⟨1, ← str i, ← str n, ← str e, ← us.mapM pUnits, ← cs.mapM (pComp 64), []⟩
  | _ => none

def sImp (i : Imp) : String :=
  match i.src with
  | some s => s!"(imp {H s.id} {H s.url} {H i.ref})"
  | none => s!"(noimp {H i.ref})"

def sUnits (u : Units) : String :=
  s!"(units {H u.id} {H u.name} {sImp u.imp}" ++
    String.join (u.children.map fun c => s!" (unit {H c.ref} {H c.pfx} {H c.id} {H c.exp} {H c.mult})") ++ ")"

def sVar (v : Variable) : String :=
  s!"(var {H v.id} {H v.name} {H v.initial} {H v.iface} " ++ (match v.units with | some u => sUnits u | none => "(nounits)") ++ ")"

def sVRef : VRef → String
  | .none_ => "(novar)" | .own k => s!"(own {k})" | .free v => sVar v

def sReset (r : Reset) : String :=
  s!"(reset {H r.id} " ++ (match r.order with | some o => toString o | none => "none") ++
    s!" {H r.resetValue} {H r.resetValueId} {H r.testValue} {H r.testValueId} {sVRef r.var} {sVRef r.testVar})"

def sComp : Nat → Component → String
  | 0, _ => ""
  | f+1, .mk _ id name encId math imp vars resets kids =>
    s!"(comp {H id} {H name} {H encId} {H math} {sImp imp} (vars" ++ String.join (vars.map fun v => " " ++ sVar v) ++
      ") (resets" ++ String.join (resets.map fun r => " " ++ sReset r) ++ ") (kids" ++
      String.join (kids.map fun k => " " ++ sComp f k) ++ "))"

def sModel (m : Model) : String :=
  s!"(model {H m.id} {H m.name} {H m.encId} (units" ++ String.join (m.units.map fun u => " " ++ sUnits u) ++ ") (comps" ++
    String.join (m.comps.map fun c => " " ++ sComp 64 c) ++ "))"

def answer (line : String) : String :=
  match parseSexp line with
  | some (.list (.atom "clone" :: .atom kind :: x :: _)) =>
    let r : Option String :=
      match kind with
      | "units" => (pUnits x).map fun u => sUnits (cloneUnits true 2 u)
      | "var" => (pVar x).map fun v => sVar (cloneVariable true 2 v)
      | "reset" => (pReset x).map fun r => sReset (cloneReset true 2 r)
      | "comp" => (pComp 64 x).map fun c => sComp 64 (cloneComponent true 2 64 c)
      | "model" => (pModel x).map fun m => sModel (cloneModel true 2 64 m)
      | _ => none
    match r with
    | some s => "(r " ++ s ++ ")"
    | none => "bad-line"
  | _ => "bad-line"

end Cellml.Engine.Clone
