/-
  Engine `analyse` (C05 / C20): `(analyse (vars (v <type> <ext> <repComp>)*) (eqs (e <comp> (vars i*) (odes i*) (all i*) <lhs> <rhs>)*))`
  → `type <model type> vars <ty>:<idx|->,… eqs <ty>:<unknown>+…,… deps <equation>+…,…` (the equations each equation depends on)
-/
import Cellml.Analyser.Model
import Cellml.Analyser.Deps
import Cellml.Wire
namespace Cellml.Engine.Analyse
open Cellml.Analyser Cellml.Wire

def parseVT : String → Option VT
  | "unknown" => some .unknown | "shouldBeState" => some .shouldBeState | "initialised" => some .initialised
  | "voi" => some .voi | "state" => some .state
  | _ => none

def showVT : VT → String
  | .unknown => "unknown" | .shouldBeState => "shouldBeState" | .initialised => "initialised" | .voi => "voi" | .state => "state"
  | .constant => "constant" | .ctc => "computed_constant" | .cvc => "computed_constant" | .initAlg => "algebraic"
  | .algebraic => "algebraic" | .overconstrained => "overconstrained"

def showET : ET → String
  | .unknown => "unknown" | .trueConstant => "true_constant" | .varConstant => "variable_based_constant" | .ode => "ode"
  | .nla => "nla" | .algebraic => "algebraic"

def showMT : MT → String
  | .ode => "ode" | .algebraic => "algebraic" | .nla => "nla" | .dae => "dae" | .underconstrained => "underconstrained"
  | .overconstrained => "overconstrained" | .unsuitably => "unsuitably_constrained"

def parseV : Sexp → Option V
  | .list [.atom "v", .atom ty, .atom ext, .atom rep] => do some { ty := ← parseVT ty, ext := ext = "1", rep := ← rep.toNat? }
  | _ => none

def nats : Sexp → Option (List Nat)
  | .list (.atom _ :: xs) => xs.mapM fun x => match x with | .atom a => a.toNat? | _ => none
  | _ => none

def parseSide : Sexp → Option Side
  | .atom "_" => some none
  | .list [.atom "ci", .atom i] => do some (some (← i.toNat?, false))
  | .list [.atom "diff", .atom i] => do some (some (← i.toNat?, true))
  | _ => none

def parseE : Sexp → Option E
  | .list [.atom "e", .atom c, vs, os, al, l, r] => do
    some { comp := ← c.toNat?, vars := ← nats vs, odes := ← nats os, all := ← nats al, lhs := ← parseSide l, rhs := ← parseSide r }
  | _ => none

def answer (line : String) : String :=
  match parseSexp line with
  | some (.list [.atom "analyse", .list (.atom "vars" :: vs), .list (.atom "eqs" :: es)]) =>
    match vs.mapM parseV, es.mapM parseE with
    | some vs, some es =>
      let s := analyse { vars := vs, eqs := es }
      let showIdx := fun (o : Option Nat) => match o with | some i => toString i | none => "-"
      let fi := finalIndices s.vars
      "type " ++ showMT (modelType s) ++ " vars " ++ ",".intercalate ((s.vars.zip fi).map fun (v, i) => (if v.ext then "external" else showVT v.ty) ++ ":" ++ showIdx i)
        ++ " eqs " ++ ",".intercalate (s.eqs.map fun e => showET e.ty ++ ":" ++ "+".intercalate (e.unknowns.map toString))
        ++ " deps " ++ ",".intercalate ((List.range s.eqs.length).map fun i => "+".intercalate ((eqDeps s i).map toString))
    | _, _ => "bad-line"
  | _ => "bad-line"

end Cellml.Engine.Analyse
