/-
  Engine `world` (C07): `(world <origin> (file <name> missing|notxml|(model (units (u <name> _|(imp <url> <ref>) (kids k*))*)
  (comps (c <name> _|(imp <url> <ref>) (kids (c …)*) (units n*))*)))*)`
  → `resolve <0|1> <why>*` (one reason per imported item of the origin that fails, units first)
-/
import Cellml.Import.Model
import Cellml.Wire
namespace Cellml.Engine.World
open Cellml.Import Cellml.Wire

def atoms (xs : List Sexp) : Option (List String) :=
  xs.mapM fun x => match x with | .atom a => some a | _ => none

def parseImp : Sexp → Option (Option (String × String))
  | .atom "_" => some none
  | .list [.atom "imp", .atom u, .atom r] => some (some (u, r))
  | _ => none

def parseU : Sexp → Option UnitsE
  | .list [.atom "u", .atom n, i, .list (.atom "kids" :: ks)] => do
    some { name := n, imp := ← parseImp i, kids := ← atoms ks }
  | _ => none

/-- a nested component and its descendants, flattened (children by name); nesting deeper than the fuel is rejected -/
def parseC : Nat → Sexp → Option (List CompE)
  | 0, _ => none
  | d + 1, .list [.atom "c", .atom n, i, .list (.atom "kids" :: ks), .list (.atom "units" :: us)] => do
    let kids ← ks.mapM (parseC d)
    let names := kids.filterMap fun l => l.head?.map (·.name)
    some ({ name := n, imp := ← parseImp i, kids := names, units := ← atoms us } :: kids.flatten)
  | _, _ => none

def parseFile : Sexp → Option (String × FileC)
  | .list [.atom "file", .atom n, .atom "missing"] => some (n, .missing)
  | .list [.atom "file", .atom n, .atom "notxml"] => some (n, .notXml)
  | .list [.atom "file", .atom n, .list [.atom "model", .list (.atom "units" :: us), .list (.atom "comps" :: cs)]] => do
    some (n, .model (← us.mapM parseU) ((← cs.mapM (parseC 32)).flatten))
  | _ => none

def showR : R → String
  | .ok => "ok" | .fuel => "fuel"
  | .fail .missingFile => "missing_file" | .fail .nullModel => "null_model" | .fail .cycle => "cycle"
  | .fail .missingUnits => "missing_units" | .fail .missingComponent => "missing_component"

def answer (line : String) : String :=
  match parseSexp line with
  | some (.list (.atom "world" :: .atom origin :: fs)) =>
    match fs.mapM parseFile with
    | some w =>
      let rs := resolve w origin
      "resolve " ++ (if status rs then "1" else "0") ++ String.join ((rs.filter (· != .ok)).map fun r => " " ++ showR r)
    | none => "bad-line"
  | _ => "bad-line"

end Cellml.Engine.World
