/-
  Engine `num`: the C16 recognisers and conversion classes on a text.
  output: `<hex> <nonNegInt><int><basicReal><real> <double class> <int class>`
  classes: R rejected, C converted, O out of range, T throws
-/
import Cellml.Num.Model
import Cellml.Num.Positions
import Cellml.Wire
namespace Cellml.Engine.Num
open Cellml.Num Cellml.Wire

def bit (b : Bool) : Char := if b then '1' else '0'

def doubleClass (s : List Char) : Char :=
  match convertToDoubleClass s with
  | .rejected => 'R'
  | .throws => 'T'
  | .converts =>
    let (_, m, e) := decompose s
    match rangeClass m e with
    | .overflow | .underflow => 'O'
    | _ => 'C'

def intClass (s : List Char) : Char :=
  match convertToIntClass s with
  | .rejected => 'R'
  | .throws => 'T'
  | .converts => if intInRange s then 'C' else 'O'

def answer (s : List Char) : String :=
  toHex s ++ " " ++ String.ofList [bit (nonNegInt s), bit (cellmlInt s), bit (basicReal s), bit (cellmlReal s)]
    ++ " " ++ String.singleton (doubleClass s) ++ " " ++ String.singleton (intClass s)

def alphabet : List Char := "0123456789+-.eE a".toList

/-- all strings of length exactly `n` over `alphabet`, in lexicographic order of positions -/
def stringsOfLen : Nat → List (List Char)
  | 0 => [[]]
  | n+1 => alphabet.flatMap fun c => (stringsOfLen n).map (c :: ·)

def siPrefixes : List (List Char) :=
  ["yotta", "zetta", "exa", "peta", "tera", "giga", "mega", "kilo", "hecto", "deca", "deci", "centi", "milli",
   "micro", "nano", "pico", "femto", "atto", "zepto", "yocto"].map String.toList

def parsePos : String → Option Pos
  | "exponent" => some .exponent | "multiplier" => some .multiplier | "prefix" => some .pfx
  | "initial" => some .initialValue | "order" => some .order | "cnreal" => some .cnReal
  | "cnmant" => some .cnMantissa | "cnexp" => some .cnExponent | _ => none

/-- `numpos`: `<position> <hex>` → `<position> <hex> <1 if the position's issue is raised>` -/
def posAnswer (line : String) : String :=
  match Cellml.Wire.tokens line with
  | [p, h] =>
    match parsePos p, fromHex h with
    | some pos, some s => s!"{p} {h} {if issueAt siPrefixes pos s then 1 else 0}"
    | _, _ => "bad-line"
  | _ => "bad-line"

end Cellml.Engine.Num
