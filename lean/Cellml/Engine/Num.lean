/-
  Engine `num`: the C16 recognisers and conversion classes on a text.
  output: `<hex> <nonNegInt><int><basicReal><real> <double class> <int class>`
  classes: R rejected, C converted, O out of range, T throws
-/
import Cellml.Num.Model
import Cellml.Wire
namespace Cellml.Engine.Num
open Cellml.Num Cellml.Wire

def bit (b : Bool) : Char := if b then '1' else '0'

def doubleClass (s : List Char) : Char :=
  match convertToDoubleClass s with
  | .rejected => 'R'
  | .throws => 'T'
  | .converts =>
    let (_, m, e) := decompose s
    match rangeClass m e with
    | .overflow | .underflow => 'O'
    | _ => 'C'

def intClass (s : List Char) : Char :=
  match convertToIntClass s with
  | .rejected => 'R'
  | .throws => 'T'
  | .converts => if intInRange s then 'C' else 'O'

def answer (s : List Char) : String :=
  toHex s ++ " " ++ String.ofList [bit (nonNegInt s), bit (cellmlInt s), bit (basicReal s), bit (cellmlReal s)]
    ++ " " ++ String.singleton (doubleClass s) ++ " " ++ String.singleton (intClass s)

def alphabet : List Char := "0123456789+-.eE a".toList

/-- all strings of length exactly `n` over `alphabet`, in lexicographic order of positions -/
def stringsOfLen : Nat → List (List Char)
  | 0 => [[]]
  | n+1 => alphabet.flatMap fun c => (stringsOfLen n).map (c :: ·)

end Cellml.Engine.Num
