/-
  Engine `logger` (C15): replays the traced operations of every real logger object in the model
  and prints the observers the model predicts.
  input : `L <id> <ops…>`  with ops `a0|a1|a2` (add ERROR|WARNING|MESSAGE), `r<k>`, `c`
  output: `O <id> <issueCount> <errorCount> <warningCount> <messageCount> <levels|-> E:… W:… M:… oob=1 tail=<0|1>`
-/
import Cellml.Logger.Model
import Cellml.Wire
namespace Cellml.Engine.Logger
open Cellml.Logger

def parseOp (t : String) : Option Op :=
  match t.toList with
  | ['a', '0'] => some (.add .error)
  | ['a', '1'] => some (.add .warning)
  | ['a', '2'] => some (.add .message)
  | ['c'] => some .removeAll
  | 'r' :: ds => (String.ofList ds).toNat?.map .removeError
  | _ => none

def levelChar : Level → Char
  | .error => 'E' | .warning => 'W' | .message => 'M'

def showIdx (tag : String) (xs : List Nat) : String :=
  tag ++ String.join (xs.map fun p => toString p ++ ",")

def render (id : String) (s : LState) (tail : Bool) : String :=
  let lv := if s.issues.isEmpty then "-" else String.ofList (s.issues.map levelChar)
  s!"O {id} {issueCount s} {errorCount s} {warningCount s} {messageCount s} {lv} {showIdx "E:" s.errs} {showIdx "W:" s.warns} {showIdx "M:" s.msgs} oob=1 tail={if tail then 1 else 0}"

/-- state of all loggers seen so far: id ↦ (state, all removals so far were tail removals) -/
abbrev Loggers := List (String × LState × Bool)

def lookup (ls : Loggers) (id : String) : LState × Bool :=
  match ls.find? (·.1 = id) with
  | some (_, s, t) => (s, t)
  | none => (init, true)

def store (ls : Loggers) (id : String) (s : LState) (t : Bool) : Loggers :=
  (id, s, t) :: ls.filter (·.1 ≠ id)

def stepLine (ls : Loggers) (line : String) : Loggers × String :=
  match Cellml.Wire.tokens line with
  | "L" :: id :: ops =>
    match ops.mapM parseOp with
    | none => (ls, "bad-line")
    | some ops =>
      let (s, t) := lookup ls id
      let t' := t && tailRemovalsOnly s ops
      match run s ops with
      | none => (ls, s!"O {id} THROW")
      | some s' => (store ls id s' t', render id s' t')
  | _ => (ls, "bad-line")

end Cellml.Engine.Logger
