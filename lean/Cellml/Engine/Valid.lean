/-
  Engine `valid` (C04): `(names #hex …)` → names reported as duplicated (sorted, comma separated, `-` if none);
  `(ids #hex …)` → ids reported as duplicated
-/
import Cellml.Valid.Model
import Cellml.Wire
namespace Cellml.Engine.Valid
open Cellml.Valid Cellml.Wire

def strs (xs : List Sexp) : Option (List String) :=
  xs.mapM fun x => match x with
    | .atom a => (fromHex (a.drop 1).toString).map String.ofList
    | _ => none

def sortStrs (l : List String) : List String := (l.toArray.qsort (· < ·)).toList

def answer (line : String) : String :=
  match parseSexp line with
  | some (.list (.atom "names" :: xs)) =>
    match strs xs with
    | some ns =>
      let rep := (nameIssues ns).filterMap fun i => ns[i]?
      if rep.isEmpty then "-" else ",".intercalate (sortStrs rep)
    | none => "bad-line"
  | some (.list (.atom "ids" :: xs)) =>
    match strs xs with
    | some is =>
      let rep := idIssues is
      if rep.isEmpty then "-" else ",".intercalate (sortStrs rep)
    | none => "bad-line"
  | some (.list [.atom "ident", .atom a]) =>
    match fromHex (a.drop 1).toString with
    | some cs =>
      match identifier (String.ofList cs).toList with
      | .ok => "ok" | .empty => "empty" | .beginsWithDigit => "begins_with_digit" | .notLatinAlphanumeric => "not_latin_alphanumeric"
    | none => "bad-line"
  | _ => "bad-line"

end Cellml.Engine.Valid
