/-
  Engine `heap` (C09): one history per line over a fixed universe of 12 objects
    0,1 models · 2,3,4 components (3 and 4 identical) · 5,6,7 variables (6 and 7 identical) · 8,9 units (identical)
    · 10,11 resets (identical);  99 = null pointer
  `(heap OP*)`, OP = (ac c x) (am m x) (av c x) (ar c x) (au m x) (ri c K i) (rp c K x) (rn c K #name) (ra c K)
                     (ae v w) (re v w) (rae v) (rc c i x) (ru m i x) (rel v) (cl x)          K = comp|var|reset|units
  → `(r (<result> <graph dump>)*)`
-/
import Cellml.Heap.Model
import Cellml.Equals.Model
import Cellml.Engine.Entity
namespace Cellml.Engine.Heap
open Cellml.Heap Cellml.Wire

def N : Nat := 12

def nameOf (x : Nat) : String :=
  match x with
  | 0 => "m0" | 1 => "m1" | 2 => "a" | 3 => "b" | 4 => "b" | 5 => "x" | 6 => "y" | 7 => "y"
  | 8 => "u" | 9 => "u" | 10 => "r" | 11 => "r" | _ => ""

def kindOf (x : Nat) : CK :=
  if x < 5 then .comp else if x < 8 then .var else if x < 10 then .units else .reset

def isModel (x : Nat) : Bool := x < 2
def isComp (x : Nat) : Bool := 2 ≤ x ∧ x < 5

def noImp : Equals.Imp := ⟨none, ""⟩

def varValue (x : Nat) : Equals.Variable := ⟨"", nameOf x, "", "", none⟩
def resetValue (_ : Nat) : Equals.Reset := ⟨"", 1, "", "", "", "", none, none⟩

/-- the component subtree at `x` as a value of the equality model -/
def compValue (h : Heap) : Nat → Nat → Equals.Component
  | 0, x => .mk "" (nameOf x) "" "" noImp [] [] []
  | f+1, x => .mk "" (nameOf x) "" "" noImp ((h.kids x .var).map varValue) ((h.kids x .reset).map resetValue)
      ((h.kids x .comp).map (compValue h f))

/-- structural equality between the argument `x` and a child `y` (`y->equals(x)`), per kind -/
def look : Look := fun h x y =>
  if kindOf x ≠ kindOf y then false
  else match kindOf x with
    | .comp => Equals.eqComponent false 16 (compValue h 12 y) (compValue h 12 x)
    | _ => nameOf x = nameOf y

def parseCK : String → Option CK
  | "comp" => some .comp | "var" => some .var | "reset" => some .reset | "units" => some .units | _ => none

def showList (l : List Nat) : String := ",".intercalate (l.map toString)

def dump (h : Heap) : String :=
  " | ".intercalate ((List.range N).map fun x =>
    s!"{x}:" ++ (match h.parent x with | some p => toString p | none => "-") ++ ":" ++ showList (h.kids x .comp) ++ ":" ++
      showList (h.kids x .var) ++ ":" ++ showList (h.kids x .reset) ++ ":" ++ showList (h.kids x .units) ++ ":" ++ showList (h.equiv x))

def nat (s : Sexp) : Option Nat := match s with | .atom a => a.toNat? | _ => none

/-- null pointers and objects of the wrong kind never reach the model operations (the C++ type system / null tests) -/
def okObj (x : Nat) : Bool := x < N

def opStep (h : Heap) : Sexp → Option (Heap × Bool)
  | .list [.atom "ac", c, x] => do
    let c ← nat c; let x ← nat x
    pure (if okObj x then addComponent look 16 h c x else (h, false))
  | .list [.atom "am", m, x] => do
    let m ← nat m; let x ← nat x
    pure (if okObj x then addChild look h m .comp x else (h, false))
  | .list [.atom "av", c, x] => do
    let c ← nat c; let x ← nat x
    pure (if okObj x then addChild look h c .var x else (h, false))
  | .list [.atom "ar", c, x] => do
    let c ← nat c; let x ← nat x
    pure (if okObj x then addChild look h c .reset x else (h, false))
  | .list [.atom "au", m, x] => do
    let m ← nat m; let x ← nat x
    pure (if okObj x then addChild look h m .units x else (h, false))
  | .list [.atom "ri", c, .atom k, i] => do pure (removeIdx h (← nat c) (← parseCK k) (← nat i))
  | .list [.atom "rp", c, .atom k, x] => do
    let c ← nat c; let k ← parseCK k; let x ← nat x
    pure (if okObj x then removePtr look h c k x else (h, false))
  | .list [.atom "rn", c, .atom k, n] => do pure (removeName nameOf h (← nat c) (← parseCK k) (← Entity.str n))
  | .list [.atom "ra", c, .atom k] => do pure (removeAll h (← nat c) (← parseCK k), true)
  | .list [.atom "ae", v, w] => do
    let v ← nat v; let w ← nat w
    pure (if okObj v && okObj w then addEquivalence h v w else (h, false))
  | .list [.atom "re", v, w] => do
    let v ← nat v; let w ← nat w
    pure (if okObj v && okObj w then removeEquivalence h v w else (h, false))
  | .list [.atom "rae", v] => do pure (removeAllEquivalences h (← nat v), true)
  | .list [.atom "cl", x] => do
    -- clone() of a model or component: a fresh object graph, the heap is untouched
    let x ← nat x
    pure (h, decide (x < 5))
  | .list [.atom "rel", v] => do
    -- outside the invariant (a history that re-added a child) a component may still list a variable whose parent pointer
    -- is empty; such a variable is still owned and is not released
    let v ← nat v
    pure (if okObj v && kindOf v = .var && !((List.range N).any fun c => (h.kids c .var).contains v) then release h v else (h, false))
  | .list [.atom "rc", c, i, x] => do
    let c ← nat c; let i ← nat i; let x ← nat x
    pure (if okObj x then replaceComponent look 16 h c i x else (h, false))
  | .list [.atom "ru", m, i, x] => do
    let m ← nat m; let i ← nat i; let x ← nat x
    pure (if okObj x then replaceUnits look h m i x else (h, false))
  | _ => none

def runOps : Heap → List Sexp → Option (List String)
  | _, [] => some []
  | h, op :: ops => do
    let (h', r) ← opStep h op
    let rest ← runOps h' ops
    pure (s!"({if r then 1 else 0} {dump h'})" :: rest)

def answer (line : String) : String :=
  match parseSexp line with
  | some (.list (.atom "heap" :: ops)) =>
    match runOps empty ops with
    | some rs => "(r " ++ " ".intercalate rs ++ ")"
    | none => "bad-op"
  | _ => "bad-line"

end Cellml.Engine.Heap
