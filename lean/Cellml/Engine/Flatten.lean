/-
  Engine `flatten` (C06): `(rebase (s*) (o*) (d*))` → the re-based stack (`-` when empty);
  `(rebasemap (o*) (d*) (e (k*) (t*)…)…)` → `k: t | t ; k: …`; `(names (used*) (sub*) <k>)` → names after k instances
-/
import Cellml.Flatten.Model
import Cellml.Wire
namespace Cellml.Engine.Flatten
open Cellml.Flatten Cellml.Wire

def nats (xs : List Sexp) : Option (List Nat) :=
  xs.mapM fun x => match x with | .atom a => a.toNat? | _ => none

def natsOf : Sexp → Option (List Nat)
  | .list xs => nats xs
  | _ => none

def atoms (xs : List Sexp) : Option (List String) :=
  xs.mapM fun x => match x with | .atom a => some a | _ => none

def showStack (s : List Nat) : String := if s.isEmpty then "-" else " ".intercalate (s.map toString)

def parseEntry : Sexp → Option (List Nat × List (List Nat))
  | .list (.atom "e" :: k :: ts) => do some (← natsOf k, ← ts.mapM natsOf)
  | _ => none

def answer (line : String) : String :=
  match parseSexp line with
  | some (.list [.atom "rebase", .list s, .list o, .list d]) =>
    match nats s, nats o, nats d with
    | some s, some o, some d => showStack (rebaseStack s o d)
    | _, _, _ => "bad-line"
  | some (.list (.atom "rebasemap" :: .list o :: .list d :: es)) =>
    match nats o, nats d, es.mapM parseEntry with
    | some o, some d, some m =>
      let r := rebaseMap m o d
      if r.isEmpty then "-" else " ; ".intercalate (r.map fun (k, ts) => showStack k ++ ": " ++ " | ".intercalate (ts.map showStack))
    | _, _, _ => "bad-line"
  | some (.list [.atom "names", .list used, .list sub, .atom k]) =>
    match atoms used, atoms sub, k.toNat? with
    | some u, some s, some k => " ".intercalate (instantiate u s k)
    | _, _, _ => "bad-line"
  | _ => "bad-line"

end Cellml.Engine.Flatten
