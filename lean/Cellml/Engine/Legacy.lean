/-
  Engine `legacy` (C14): `(iface (pub <value>) (priv <value>) …)` → merged interface; `(respell #hex)` → #hex;
  `(gate <strict 0|1> <10|11|20|other>)` → 0|1; `(group #relationship|_ …)` → 0|1;
  `(groups <fixed 0|1> (names n …) (g (r name kid …) …) (g …) …)` → `name>parent` / `name>-` for every listed name
-/
import Cellml.Legacy.Model
import Cellml.Legacy.Groups
import Cellml.Wire
namespace Cellml.Engine.Legacy
open Cellml.Legacy Cellml.Wire

def showIface : Iface → String
  | .none => "none" | .pub => "public" | .priv => "private" | .both => "public_and_private"

def parseAttr : Sexp → Option (Bool × String)
  | .list [.atom "pub", .atom v] => some (true, v)
  | .list [.atom "priv", .atom v] => some (false, v)
  | _ => none

/-- nested `(r name kid …)` to a tree; the fuel bounds the nesting depth of the line -/
def parseRefF : Nat → Sexp → Option Ref
  | 0, _ => none
  | f+1, .list (.atom "r" :: .atom n :: kids) => (kids.mapM (parseRefF f)).map (Ref.mk n)
  | _, _ => none

def parseRef (s : Sexp) : Option Ref := parseRefF 64 s

def parseGroup : Sexp → Option (List Ref)
  | .list (.atom "g" :: rs) => rs.mapM parseRef
  | _ => none

def answer (line : String) : String :=
  match parseSexp line with
  | some (.list (.atom "iface" :: as)) =>
    match as.mapM parseAttr with
    | some l => showIface (merge l)
    | none => "bad-line"
  | some (.list [.atom "respell", .atom h]) =>
    match fromHex (h.drop 1).toString with
    | some cs => "#" ++ toHex (respell (String.ofList cs)).toList
    | none => "bad-line"
  | some (.list (.atom "group" :: rs)) =>
    match rs.mapM (fun r => match r with
        | .atom "_" => some none
        | .atom h => (fromHex (h.drop 1).toString).map fun cs => some (String.ofList cs)
        | _ => none) with
    | some l => if isEncapsulation l then "1" else "0"
    | none => "bad-line"
  | some (.list (.atom "groups" :: .atom f :: .list (.atom "names" :: ns) :: gs)) =>
    match gs.mapM parseGroup with
    | some l =>
      let m := grun (f = "1") (docOps l)
      " ".intercalate (ns.map fun n => match n with
        | .atom x => x ++ ">" ++ (m x).getD "-"
        | _ => "?")
    | none => "bad-line"
  | some (.list [.atom "gate", .atom s, .atom v]) =>
    let ver := if v = "10" then Version.v10 else if v = "11" then .v11 else if v = "20" then .v20 else .other
    if loads (s = "1") ver then "1" else "0"
  | _ => "bad-line"

end Cellml.Engine.Legacy
