/-
  Wire format of the shared value-level object model (used by the `equals`, `clone`, … engines):
    U    = (units <id> <name> IMP (unit <ref> <pfx> <id> <exp> <mult>)*)
    IMP  = (imp <srcid> <url> <ref>) | (noimp <ref>)
    V    = (var <id> <name> <initial> <iface> UO)        UO = (nounits) | U
    R    = (reset <id> <order|none> <rv> <rvid> <tv> <tvid> VO VO)   (variable, test variable)   VO = (novar) | (own <k>) | V
    C    = (comp <id> <name> <encid> <math> IMP (vars V*) (resets R*) (kids C*))
    M    = (model <id> <name> <encid> (units U*) (comps C*))
  strings are hex atoms `#6162` (`#` = empty).
-/
import Cellml.Equals.Model
import Cellml.Wire
namespace Cellml.Engine.Entity
open Cellml.Equals Cellml.Wire

def str : Sexp → Option String
  | .atom a =>
    if a.startsWith "#" then (fromHex (let h := (a.drop 1).toString; if h.isEmpty then "-" else h)).map String.ofList
    else some a
  | _ => none

def parseImp : Sexp → Option Imp
  | .list [.atom "imp", i, u, r] => do pure ⟨some ⟨← str i, ← str u⟩, ← str r⟩
  | .list [.atom "noimp", r] => do pure ⟨none, ← str r⟩
  | _ => none

def parseUnitChild : Sexp → Option UnitChild
  | .list [.atom "unit", r, p, i, e, m] => do pure ⟨← str r, ← str p, ← str i, ← str e, ← str m⟩
  | _ => none

def parseUnits : Sexp → Option Units
  | .list (.atom "units" :: i :: n :: imp :: cs) => do
    pure ⟨← str i, ← str n, ← parseImp imp, ← cs.mapM parseUnitChild⟩
  | _ => none

def parseUnitsOpt : Sexp → Option (Option Units)
  | .list [.atom "nounits"] => some none
  | s => (parseUnits s).map some

def parseVar : Sexp → Option Variable
  | .list [.atom "var", i, n, iv, ifc, u] => do pure ⟨← str i, ← str n, ← str iv, ← str ifc, ← parseUnitsOpt u⟩
  | _ => none

/-- a reset refers to no variable, to the k-th variable of its own component `(own k)`, or to a free-standing one -/
def parseVarOpt (vars : List Variable) : Sexp → Option (Option Variable)
  | .list [.atom "novar"] => some none
  | .list [.atom "own", .atom k] => do let k ← k.toNat?; pure vars[k]?
  | s => (parseVar s).map some

/-- order `none` = not set (value 0, which is what `Reset::order()` returns) -/
def parseOrder (o : String) : Option Int := if o = "none" then some 0 else o.toInt?

def parseReset (vars : List Variable) : Sexp → Option Reset
  | .list [.atom "reset", i, .atom o, rv, rvi, tv, tvi, v, t] => do
    pure ⟨← str i, ← parseOrder o, ← str rv, ← str rvi, ← str tv, ← str tvi, ← parseVarOpt vars v, ← parseVarOpt vars t⟩
  | _ => none

/-- component trees: explicit fuel (documents are finite; the reader never loops) -/
def parseComp : Nat → Sexp → Option Component
  | 0, _ => none
  | n+1, .list [.atom "comp", i, nm, e, m, imp, .list (.atom "vars" :: vs), .list (.atom "resets" :: rs), .list (.atom "kids" :: ks)] => do
    let vars ← vs.mapM parseVar
    pure (.mk (← str i) (← str nm) (← str e) (← str m) (← parseImp imp) vars (← rs.mapM (parseReset vars))
      (← ks.mapM (parseComp n)))
  | _, _ => none

def parseModel : Sexp → Option Model
  | .list [.atom "model", i, n, e, .list (.atom "units" :: us), .list (.atom "comps" :: cs)] => do
    pure ⟨← str i, ← str n, ← str e, ← us.mapM parseUnits, ← cs.mapM (parseComp 64)⟩
  | _ => none

end Cellml.Engine.Entity
