/-
  Engine `units` (C08): `(units (env <def>*) (order …) (q <op> <op>)*)`
  → `(r (q <compat> <zero> <m a> <m b> <equiv>)*)`  with exact rationals `p/q` or `none`.
-/
import Cellml.Units.Model
import Cellml.Generated.StdUnits
import Cellml.Wire
namespace Cellml.Engine.Units
open Cellml.Units Cellml.Wire

def parseRat (s : String) : Option Rat :=
  match s.splitOn "/" with
  | [p] => p.toInt?.map fun n => (n : Rat)
  | [p, q] => do
    let n ← p.toInt?
    let d ← q.toNat?
    if d = 0 then none else some ((n : Rat) / (d : Rat))
  | _ => none

def showRat (r : Rat) : String := if r.den = 1 then toString r.num else s!"{r.num}/{r.den}"

def parseChild : Sexp → Option Child
  | .list [.atom k, .atom j, .atom p, .atom e, .atom l] => do
    let j ← j.toNat?
    let ref ← if k = "u" then some (Ref.user j) else if k = "s" then some (Ref.std j) else none
    pure ⟨ref, ← parseRat p, ← parseRat e, ← parseRat l⟩
  | _ => none

def parseDef : Sexp → Option Def
  | .list (.atom "c" :: cs) => (cs.mapM parseChild).map Def.compound
  | .list [.atom "a", .atom j] => j.toNat?.map Def.alias
  | _ => none

def parseOp : Sexp → Option Operand
  | .list [.atom "u", .atom i] => i.toNat?.map Operand.user
  | .list [.atom "s", .atom i] => i.toNat?.map Operand.std
  | .list [.atom "n"] => some .null
  | _ => none

def showOpt : Option Rat → String
  | some r => showRat r
  | none => "none"

def answer (line : String) : String :=
  match parseSexp line with
  | some (.list (.atom "units" :: parts)) =>
    let envS := parts.findSome? fun p => match p with | .list (.atom "env" :: ds) => some ds | _ => none
    match envS.bind (·.mapM parseDef) with
    | none => "bad-line"
    | some env =>
      let cx := Cellml.Generated.StdUnits.ctx
      let qs := parts.filterMap fun p => match p with
        | .list [.atom "q", a, b] => (do pure ((← parseOp a), (← parseOp b)) : Option (Operand × Operand))
        | _ => none
      let outs := qs.map fun (a, b) =>
        let c := compatible cx env a b
        let f := factorLog cx env a b
        s!"(q {if c then 1 else 0} {if f.isNone then 1 else 0} {showOpt (opM cx env a)} {showOpt (opM cx env b)} {if equivalent cx env a b then 1 else 0})"
      "(r " ++ " ".intercalate outs ++ ")"
  | _ => "bad-line"

end Cellml.Engine.Units
