/-
  Engine `equals` (C10): `(eq <kind> A B)` → `E <a.equals(b)><b.equals(a)><a.equals(a)><b.equals(b)> F<same four with the size test everywhere>`
-/
import Cellml.Engine.Entity
namespace Cellml.Engine.Equals
open Cellml.Equals Cellml.Wire Cellml.Engine.Entity

def bit (b : Bool) : Char := if b then '1' else '0'

def four {α : Type} (f : α → α → Bool) (a b : α) : String := String.ofList [bit (f a b), bit (f b a), bit (f a a), bit (f b b)]

def answer (line : String) : String :=
  match parseSexp line with
  | some (.list (.atom "eq" :: .atom kind :: a :: b :: _)) =>
    let r : Option String :=
      match kind with
      | "units" => do let x ← parseUnits a; let y ← parseUnits b; pure ("E" ++ four eqUnits x y ++ " F" ++ four eqUnits x y)
      | "var" => do let x ← parseVar a; let y ← parseVar b; pure ("E" ++ four eqVariable x y ++ " F" ++ four eqVariable x y)
      | "reset" => do let x ← parseReset [] a; let y ← parseReset [] b; pure ("E" ++ four eqReset x y ++ " F" ++ four eqReset x y)
      | "comp" => do
        let x ← parseComp 64 a; let y ← parseComp 64 b
        pure ("E" ++ four (eqComponent false 64) x y ++ " F" ++ four (eqComponent true 64) x y)
      | "model" => do
        let x ← parseModel a; let y ← parseModel b
        pure ("E" ++ four (eqModel false 64) x y ++ " F" ++ four (eqModel true 64) x y)
      | _ => none
    r.getD "bad-line"
  | _ => "bad-line"

end Cellml.Engine.Equals
