/-
  Engine `annot` (C13): `(annot (kinds k…) (visits v…) (init #id…) (ops OP…))` → `(r RES…)`, one RES per op:
  `(<result> (ids #id…))`.
-/
import Cellml.Annot.Model
import Cellml.Engine.Entity
namespace Cellml.Engine.Annot
open Cellml.Annot Cellml.Wire Cellml.Engine.Entity

def H (s : String) : String := "#" ++ (let h := toHex s.toList; if h = "-" then "" else h)

def nats (xs : List Sexp) : Option (List Nat) := xs.mapM fun x => match x with | .atom a => a.toNat? | _ => none

def showIds (ids : List String) : String := "(ids" ++ String.join (ids.map fun i => " " ++ H i) ++ ")"

/-- the n-th (modulo) slot of a kind -/
def slotOfKind (sh : Shape) (kind n : Nat) : Option Nat :=
  let idx := (List.range sh.kinds.length).filter fun i => sh.kinds.getD i 0 = kind
  if idx.isEmpty then none else idx[n % idx.length]?

def opStep (sh : Shape) (s : AState) : Sexp → Option (AState × String)
  | .list [.atom "assignidk", .atom k, .atom n] | .list [.atom "assignid2k", .atom k, .atom n] => do
    let k ← k.toNat?; let n ← n.toNat?
    match slotOfKind sh k n with
    | some i => let (s', id) := assignId s i; pure (s', H id)
    | none => pure (s, "#")
  | .list [.atom "editk", .atom k, .atom n, id] => do
    let k ← k.toNat?; let n ← n.toNat?; let id ← str id
    match slotOfKind sh k n with
    | some i => pure (edit s i id, "ok")
    | none => pure (s, "ok")
  | .list [.atom "printauto", .atom k] => do
    -- `k` = number of printed elements without an identifier (counted by the harness in the plain print)
    let k ← k.toNat?
    pure (s, s!"(p 1 0 {k}" ++ String.join ((freshIds (printerIds sh s.ids) k).map fun i => " " ++ H i) ++ ")")
  | .list [.atom "setmodel"] => let s' := setModel s s.ids; some (s', "ok")
  | .list [.atom "switch"] => let s' := switchModel s; some (s', "ok")
  | .list [.atom "edit", .atom i, id] => do let i ← i.toNat?; let id ← str id; pure (edit s i id, "ok")
  | .list [.atom "assignall"] => let (s', b) := assignAll true sh s; some (s', if b then "b1" else "b0")
  | .list [.atom "assignids", .atom k] => do
    let k ← k.toNat?
    let (s', b) := assignIds true sh s k
    pure (s', if b then "b1" else "b0")
  | .list [.atom "assignid", .atom i] => do let i ← i.toNat?; let (s', id) := assignId s i; pure (s', H id)
  | .list [.atom "assignid2", .atom i] => do let i ← i.toNat?; let (s', id) := assignId s i; pure (s', H id)
  | .list [.atom "clearall"] => some (clearAll s, "ok")
  | .list [.atom "item", id] => do
    let id ← str id
    let (s', r) := item s id
    pure (s', match r with | some k => s!"i{k}" | none => "none")
  | .list [.atom "itemi", id, .atom k] => do
    -- item(id, index): one of the items that carry the id when the index is below their number, otherwise nothing (with an issue)
    let id ← str id; let k ← k.toNat?
    let (s', n) := itemCount s id
    pure (s', if s'.hasModel && k < n then "some" else "none1")
  | .list [.atom "count", id] => do let id ← str id; let (s', n) := itemCount s id; pure (s', s!"n{n}")
  | .list [.atom "ids"] => let (s', l) := idsOf s; some (s', "(l" ++ String.join (l.map fun i => " " ++ H i) ++ ")")
  | .list [.atom "dups"] => let (s', l) := duplicateIds s; some (s', "(l" ++ String.join (l.map fun i => " " ++ H i) ++ ")")
  | _ => none

def runOps (sh : Shape) : AState → List Sexp → Option (List String)
  | _, [] => some []
  | s, op :: ops => do
    let (s', r) ← opStep sh s op
    let rest ← runOps sh s' ops
    pure (s!"({r} {showIds s'.ids})" :: rest)

def answer (line : String) : String :=
  match parseSexp line with
  | some (.list [.atom "annot", .list (.atom "kinds" :: ks), .list (.atom "visits" :: vs), .list (.atom "init" :: is), .list (.atom "ops" :: ops)]) =>
    match nats ks, nats vs, is.mapM str with
    | some ks, some vs, some is =>
      match runOps ⟨ks, vs⟩ { init with ids := is, other := is } ops with
      | some rs => "(r " ++ " ".intercalate rs ++ ")"
      | none => "bad-op"
    | _, _, _ => "bad-line"
  | _ => "bad-line"

end Cellml.Engine.Annot
