/-
  Engine `walk` (C01): `(walk (u <name> r*)*)` → for every units, in order, `<name>:<k>` where k is the number of units
  the guarded walk enters below it (the length of the real `referencedUnits`)
-/
import Cellml.Crash.Model
import Cellml.Wire
namespace Cellml.Engine.Crash
open Cellml.Crash Cellml.Wire

def parseU : Sexp → Option (String × List String)
  | .list (.atom "u" :: .atom n :: rs) => do
    some (n, ← rs.mapM fun x => match x with | .atom a => some a | _ => none)
  | _ => none

def answer (line : String) : String :=
  match parseSexp line with
  | some (.list (.atom "walk" :: us)) =>
    match us.mapM parseU with
    | some units =>
      " ".intercalate (units.map fun (n, _) =>
        match walk units (units.length + 1) [] n with
        | .done k => n ++ ":" ++ toString (k - 1)
        | .fuel => n ++ ":fuel")
    | none => "bad-line"
  | _ => "bad-line"

end Cellml.Engine.Crash
