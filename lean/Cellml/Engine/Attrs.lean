/-
  Engine `attrs` (C02): `(unit (a #name #value)…)` → `(stored #ref #prefix #exp #mult #id) (printed (a #name #value)…)`,
  `(variable (a #name #value)…)` likewise.  Numbers are canonical texts: a CellML real that is an integer is rendered
  as that integer, other reals as they stand (the check only sends reals whose rendering is their own text).
-/
import Cellml.Xml.Attrs
import Cellml.Wire
namespace Cellml.Engine.Attrs
open Cellml.Xml Cellml.Num Cellml.Wire

def H (s : String) : String := "#" ++ (let h := toHex s.toList; if h = "-" then "" else h)

def unH (s : Sexp) : Option String :=
  match s with
  | .atom a => if a = "#" then some "" else (fromHex (a.drop 1).toString).map String.ofList
  | _ => none

def parseAttr : Sexp → Option (String × String)
  | .list [.atom "a", n, v] => do some (← unH n, ← unH v)
  | _ => none

/-- the reader: `isCellMLReal` and `convertToDouble`, with integers brought to their canonical text -/
def rd (s : String) : Option String :=
  if cellmlReal s.toList then
    (if cellmlInt s.toList then some (toString (intOfText s.toList)) else some s)
  else none

def showAttrs (as : Attrs) : String := "(printed" ++ String.join (as.map fun a => " (a " ++ H a.1 ++ " " ++ H a.2 ++ ")") ++ ")"

def answer (line : String) : String :=
  match parseSexp line with
  | some (.list (.atom "unit" :: as)) =>
    match as.mapM parseAttr with
    | some l =>
      let u := loadUnit "1" rd l
      "(stored " ++ H u.reference ++ " " ++ H u.pfx ++ " " ++ H u.exponent ++ " " ++ H u.multiplier ++ " " ++ H u.id ++ ") "
        ++ showAttrs (printUnit "1" id u)
    | none => "bad-line"
  | some (.list (.atom "variable" :: as)) =>
    match as.mapM parseAttr with
    | some l =>
      let v := loadVariable l
      "(stored " ++ H v.name ++ " " ++ H v.units ++ " " ++ H v.initialValue ++ " " ++ H v.interface ++ " " ++ H v.id ++ ") "
        ++ showAttrs (printVariable v)
    | none => "bad-line"
  | _ => "bad-line"

end Cellml.Engine.Attrs
