/-
  Engine `expr` (C03): `(expr <C|PY> <ast>)` → `#hex` of the generated text, as `hx_expr`.
-/
import Cellml.Gen.Spec
import Cellml.Generated.Profiles
import Cellml.Wire
namespace Cellml.Engine.Expr
open Cellml.Gen Cellml.Wire

def hexAtom (s : String) : Option String :=
  if s.startsWith "#" then (fromHex (s.drop 1).toString |>.map String.ofList) else none

def parseAstP : Nat → Sexp → Option Ast
  | 0, _ => none
  | _, .atom "_" => some .nul
  | _, .list [.atom "cn", .atom v] => (hexAtom v).map Ast.cn
  | _, .list [.atom "ci", .atom v] => (hexAtom v).map Ast.ci
  | _, .list [.atom ty] => do some (.node (← Ty.ofName ty) .nul .nul)
  | n + 1, .list [.atom ty, l] => do some (.node (← Ty.ofName ty) (← parseAstP n l) .nul)
  | n + 1, .list [.atom ty, l, r] => do some (.node (← Ty.ofName ty) (← parseAstP n l) (← parseAstP n r))
  | _, _ => none

def showHex (s : String) : String := "#" ++ (if s.isEmpty then "" else toHex s.toList)

def noSpace (s : String) : String := String.ofList (s.toList.filter (· ≠ ' '))

def tokText (p : Profile) : Tok → String
  | .atom s => s
  | .op o => noSpace (p.opStr o)
  | .lp => "(" | .rp => ")" | .comma => "," | .q => "?" | .colon => ":" | .kwIf => "if" | .kwElse => "else"

/-- the token view of a document spells the rendered text (spaces aside) -/
def lexOK (p : Profile) (d : Doc) : Bool :=
  String.join ((toks p.style d).map (tokText p)) == noSpace (render p d)

def flag (b : Bool) : String := if b then "1" else "0"

def answer (line : String) : String :=
  match parseSexp line with
  | some (.list [.atom "expr", .atom prof, a]) =>
    match parseAstP 1000 a with
    | some ast =>
      let p := if prof = "C" then Cellml.Generated.Profiles.profC else Cellml.Generated.Profiles.profPy
      let d := genDoc p ast
      showHex (render p d) ++ " ex=" ++ flag (exprOK .expr ast) ++ " ok=" ++ flag (ok p.style d) ++ " lex=" ++ flag (lexOK p d)
    | none => "bad-line"
  | _ => "bad-line"

end Cellml.Engine.Expr
