/-
  Engine `struct` (C17): `(struct <C|PY> <hasOdes> (voi <var>*) (states <var>*) (vars <var>*) (asts <ast>*))`,
  var = `(v #name #units #comp <type>)` → predicted sizes, counts, emitted helpers, called functions.
-/
import Cellml.Struct.Model
import Cellml.Generated.Methods
import Cellml.Generated.Profiles
import Cellml.Engine.Expr
namespace Cellml.Engine.Struct
open Cellml.Gen Cellml.Struct Cellml.Wire Cellml.Engine.Expr

def parseVar : Sexp → Option Var
  | .list [.atom "v", .atom n, .atom u, .atom c, .atom ty] => do
    some ⟨← hexAtom n, ← hexAtom u, ← hexAtom c, ← ty.toNat?⟩
  | _ => none

def parseVars : Sexp → Option (List Var)
  | .list (.atom _ :: vs) => vs.mapM parseVar
  | _ => none

def helperName : Helper → String
  | .eq => "eq" | .neq => "neq" | .lt => "lt" | .leq => "leq" | .gt => "gt" | .geq => "geq" | .and => "and" | .or => "or"
  | .xor => "xor" | .not => "not" | .min => "min" | .max => "max" | .sec => "sec" | .csc => "csc" | .cot => "cot"
  | .sech => "sech" | .csch => "csch" | .coth => "coth" | .asec => "asec" | .acsc => "acsc" | .acot => "acot"
  | .asech => "asech" | .acsch => "acsch" | .acoth => "acoth"

def joinOr (xs : List String) : String := if xs.isEmpty then "-" else ",".intercalate xs

def answer (line : String) : String :=
  match parseSexp line with
  | some (.list [.atom "struct", .atom prof, .atom odes, voi, states, vars, .list (.atom "asts" :: asts)]) =>
    match parseVars voi, parseVars states, parseVars vars, asts.mapM (parseAstP 1000) with
    | some vo, some st, some va, some ts =>
      let m : AModel := ⟨odes = "1", vo, st, va⟩
      let (p, hb) := if prof = "C" then (Cellml.Generated.Profiles.profC, Cellml.Generated.Methods.hasBodyC)
        else (Cellml.Generated.Profiles.profPy, Cellml.Generated.Methods.hasBodyPy)
      let s := sizes m
      let called := (ts.flatMap fun t => calledFns (genDoc p t)).eraseDups
      s!"sizes {s.comp} {s.name} {s.units} counts {stateCount m} {variableCount m} helpers {joinOr ((emitted p hb ts).map helperName)} called {joinOr called}"
    | _, _, _, _ => "bad-line"
  | _ => "bad-line"

end Cellml.Engine.Struct
