/-
  Engine `equiv` (C18).
  `K <a> <b>`                     (hex words) → `K <lo> <hi>`  the cache key of the current tree
  `G <n> E:<a>-<b>,… A:<hexaddr>,… Q:<a>-<b>,…` → `R H:<bits> C:<bits> size=<distinct keys>`
     H = `a->hasEquivalentVariable(b, true)` per query, C = cached `areEquivalentVariables(a, b)` in order
-/
import Cellml.Equiv.Model
import Cellml.Wire
namespace Cellml.Engine.Equiv
open Cellml.Equiv

def parseHexWord (s : String) : Option (BitVec 64) :=
  let rec go (cs : List Char) (acc : Nat) : Option Nat :=
    match cs with
    | [] => some acc
    | c :: r => match Cellml.Wire.hexVal c with
      | some v => go r (16 * acc + v)
      | none => none
  (go s.toList 0).map (BitVec.ofNat 64)

def showHexWord (w : BitVec 64) : String :=
  let n := w.toNat
  let rec go (k : Nat) (n : Nat) (acc : List Char) : List Char :=
    match k with
    | 0 => acc
    | k+1 => go k (n / 16) (Cellml.Wire.hexDigit (n % 16) :: acc)
  let ds := (go 16 n []).dropWhile (· = '0')
  String.ofList (if ds.isEmpty then ['0'] else ds)

def parsePairs (s : String) : Option (List (Nat × Nat)) :=
  if s.isEmpty then some [] else
  (s.splitOn ",").filter (· ≠ "") |>.mapM fun p =>
    match p.splitOn "-" with
    | [a, b] => do pure ((← a.toNat?), (← b.toNat?))
    | _ => none

/-- `Variable::addEquivalence`: each end records the other unless it is already listed -/
def addEdge (adj : List (List Nat)) (a b : Nat) : List (List Nat) :=
  let add (adj : List (List Nat)) (x y : Nat) : List (List Nat) :=
    adj.mapIdx fun i l => if i = x ∧ ¬ y ∈ l then l ++ [y] else l
  add (add adj a b) b a

def buildAdj (n : Nat) (es : List (Nat × Nat)) : Nat → List Nat :=
  let table := es.foldl (fun t e => addEdge t e.1 e.2) (List.replicate n [])
  fun v => table.getD v []

def bits (bs : List Bool) : String := String.ofList (bs.map fun b => if b then '1' else '0')

def field (pre : String) (ts : List String) : Option String :=
  (ts.find? (·.startsWith pre)).map (fun t => (t.drop pre.length).toString)

def answer (line : String) : String :=
  match Cellml.Wire.tokens line with
  | ["K", a, b] =>
    match parseHexWord a, parseHexWord b with
    | some x, some y => let k := pairKey x y; s!"K {showHexWord k.1} {showHexWord k.2}"
    | _, _ => "bad-line"
  | "G" :: n :: rest =>
    match n.toNat?, (field "E:" rest).bind parsePairs, field "A:" rest, (field "Q:" rest).bind parsePairs with
    | some n, some es, some addrs, some qs =>
      match ((addrs.splitOn ",").filter (· ≠ "")).mapM parseHexWord with
      | none => "bad-line"
      | some addrs =>
        let adj := buildAdj n es
        let addr := fun v => addrs.getD v 0
        let h := qs.map fun q => hasEq adj n q.1 q.2
        let c := runQueries (fun a b => pairKey (addr a) (addr b)) (areEq adj n) [] qs
        let keys := (qs.map fun q => pairKey (addr q.1) (addr q.2)).eraseDups
        s!"R H:{bits h} C:{bits c} size={keys.length}"
    | _, _, _, _ => "bad-line"
  | _ => "bad-line"

end Cellml.Engine.Equiv
