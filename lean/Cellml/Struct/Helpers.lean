/-
  C17 — every function the generated expressions call is a math-library function or a helper whose need-flag is set
  (so it is emitted whenever the profile has a body for it).
-/
import Cellml.Struct.Model
namespace Cellml.Struct
open Cellml.Gen

variable {p : Profile}

/-- the function a node of this type may call at its head -/
def headFns (p : Profile) : Ty → List String
  | .EQ => if p.hasEq then [] else [p.eq]
  | .NEQ => if p.hasNeq then [] else [p.neq]
  | .LT => if p.hasLt then [] else [p.lt]
  | .LEQ => if p.hasLeq then [] else [p.leq]
  | .GT => if p.hasGt then [] else [p.gt]
  | .GEQ => if p.hasGeq then [] else [p.geq]
  | .AND => if p.hasAnd then [] else [p.and_]
  | .OR => if p.hasOr then [] else [p.or_]
  | .XOR => if p.hasXor then [] else [p.xor]
  | .NOT => if p.hasNot then [] else [p.not_]
  | .POWER => [p.sqrt, p.square, p.power]
  | .ROOT => [p.sqrt, p.power]
  | .LOG => [p.log10, p.ln]
  | .EQUALITY | .PLUS | .MINUS | .TIMES | .DIVIDE | .DIFF | .PIECEWISE | .PIECE | .OTHERWISE | .DEGREE | .LOGBASE | .BVAR
  | .TRUE | .FALSE | .E | .PI | .INF | .NAN => []
  | ty => [p.fn ty]

theorem calledFns_wrap (b : Bool) (d : Doc) : calledFns (wrap b d) = calledFns d := by
  cases b <;> simp [wrap, calledFns]

theorem calledFns_binop (k : PK) (o : Op) (l r : Ast) (ld rd : Doc) :
    calledFns (binop p k o l r ld rd) = calledFns ld ++ calledFns rd := by
  simp [binop, calledFns, calledFns_wrap]

theorem calledFns_setElse (d e : Doc) : ∀ f ∈ calledFns (setElse d e), f ∈ calledFns d ∨ f ∈ calledFns e := by
  intro f hf
  cases d with
  | cond c a b =>
    simp only [setElse, calledFns, List.mem_append] at hf ⊢
    rcases hf with (h | h) | h
    · exact Or.inl (Or.inl (Or.inl h))
    · exact Or.inl (Or.inl (Or.inr h))
    · exact Or.inr h
  | atom _ _ => exact Or.inl hf
  | bin _ _ _ => exact Or.inl hf
  | pre _ _ => exact Or.inl hf
  | call1 _ _ => exact Or.inl hf
  | call2 _ _ _ => exact Or.inl hf
  | paren _ => exact Or.inl hf

theorem calledFns_elseOf (r : Ast) (rd : Doc) : ∀ f ∈ calledFns (elseOf p r rd), f ∈ calledFns rd := by
  intro f hf
  cases r with
  | nul => simp [elseOf, calledFns] at hf
  | cn _ => exact hf
  | ci _ => exact hf
  | node rty a b =>
    simp only [elseOf] at hf
    split at hf
    · rcases calledFns_setElse _ _ f hf with h | h
      · exact h
      · simp [calledFns] at h
    · exact hf

theorem calledFns_relLogic (has : Bool) (k : PK) (o : Op) (l r : Ast) (ld rd : Doc) :
    ∀ f ∈ calledFns (relLogic p has k o l r ld rd), (has = false ∧ f = p.opStr o) ∨ f ∈ calledFns ld ∨ f ∈ calledFns rd := by
  intro f hf
  cases has
  · simp only [relLogic, Bool.false_eq_true, if_false, calledFns, List.mem_cons, List.mem_append] at hf
    rcases hf with h | h | h
    · exact Or.inl ⟨rfl, h⟩
    · exact Or.inr (Or.inl h)
    · exact Or.inr (Or.inr h)
  · simp only [relLogic, if_true, calledFns_binop, List.mem_append] at hf
    exact Or.inr hf

theorem head_or_child (ty : Ty) (l r : Ast) : ∀ f ∈ calledFns (genDoc p (.node ty l r)),
    f ∈ headFns p ty ∨ f ∈ calledFns (genDoc p l) ∨ f ∈ calledFns (genDoc p r) := by
  intro f hf
  cases ty
  case EQ =>
    rcases calledFns_relLogic _ _ _ _ _ _ _ f hf with ⟨h, e⟩ | h
    · left; simp [headFns, h, e, Profile.opStr]
    · right; exact h
  case NEQ =>
    rcases calledFns_relLogic _ _ _ _ _ _ _ f hf with ⟨h, e⟩ | h
    · left; simp [headFns, h, e, Profile.opStr]
    · right; exact h
  case LT =>
    rcases calledFns_relLogic _ _ _ _ _ _ _ f hf with ⟨h, e⟩ | h
    · left; simp [headFns, h, e, Profile.opStr]
    · right; exact h
  case LEQ =>
    rcases calledFns_relLogic _ _ _ _ _ _ _ f hf with ⟨h, e⟩ | h
    · left; simp [headFns, h, e, Profile.opStr]
    · right; exact h
  case GT =>
    rcases calledFns_relLogic _ _ _ _ _ _ _ f hf with ⟨h, e⟩ | h
    · left; simp [headFns, h, e, Profile.opStr]
    · right; exact h
  case GEQ =>
    rcases calledFns_relLogic _ _ _ _ _ _ _ f hf with ⟨h, e⟩ | h
    · left; simp [headFns, h, e, Profile.opStr]
    · right; exact h
  case AND =>
    rcases calledFns_relLogic _ _ _ _ _ _ _ f hf with ⟨h, e⟩ | h
    · left; simp [headFns, h, e, Profile.opStr]
    · right; exact h
  case OR =>
    rcases calledFns_relLogic _ _ _ _ _ _ _ f hf with ⟨h, e⟩ | h
    · left; simp [headFns, h, e, Profile.opStr]
    · right; exact h
  case XOR =>
    rcases calledFns_relLogic _ _ _ _ _ _ _ f hf with ⟨h, e⟩ | h
    · left; simp [headFns, h, e, Profile.opStr]
    · right; exact h
  case NOT =>
    simp only [genDoc] at hf
    split at hf
    · simp only [calledFns, calledFns_wrap] at hf; exact Or.inr (Or.inl hf)
    · rename_i hn
      simp only [calledFns, List.mem_cons] at hf
      rcases hf with h | h
      · left; simp [headFns, hn, h]
      · exact Or.inr (Or.inl h)
  case PLUS =>
    simp only [genDoc] at hf
    split at hf
    · rw [calledFns_wrap] at hf; exact Or.inr (Or.inl hf)
    · rw [calledFns_binop, List.mem_append] at hf; exact Or.inr hf
  case MINUS =>
    simp only [genDoc] at hf
    split at hf
    · simp only [minusUnary, calledFns, calledFns_wrap] at hf; exact Or.inr (Or.inl hf)
    · rw [calledFns_binop, List.mem_append] at hf; exact Or.inr hf
  case TIMES => simp only [genDoc] at hf; rw [calledFns_binop, List.mem_append] at hf; exact Or.inr hf
  case DIVIDE => simp only [genDoc] at hf; rw [calledFns_binop, List.mem_append] at hf; exact Or.inr hf
  case EQUALITY => simp only [genDoc] at hf; rw [calledFns_binop, List.mem_append] at hf; exact Or.inr hf
  case POWER =>
    simp only [genDoc] at hf
    split at hf
    · simp only [calledFns, List.mem_cons] at hf
      rcases hf with h | h
      · left; simp [headFns, h]
      · exact Or.inr (Or.inl h)
    · split at hf
      · simp only [calledFns, List.mem_cons] at hf
        rcases hf with h | h
        · left; simp [headFns, h]
        · exact Or.inr (Or.inl h)
      · simp only [calledFns, List.mem_cons, List.mem_append] at hf
        rcases hf with h | h
        · left; simp [headFns, h]
        · exact Or.inr h
  case ROOT =>
    simp only [genDoc] at hf
    split at hf
    · simp only [calledFns, List.mem_cons] at hf
      rcases hf with h | h
      · left; simp [headFns, h]
      · exact Or.inr (Or.inl h)
    · split at hf
      · simp only [calledFns, List.mem_cons] at hf
        rcases hf with h | h
        · left; simp [headFns, h]
        · exact Or.inr (Or.inr h)
      · simp only [calledFns, calledFns_binop, List.mem_cons, List.mem_append, List.not_mem_nil, false_or] at hf
        rcases hf with h | h | h
        · left; simp [headFns, h]
        · exact Or.inr (Or.inr h)
        · exact Or.inr (Or.inl h)
  case LOG =>
    simp only [genDoc] at hf
    split at hf
    · simp only [calledFns, List.mem_cons] at hf
      rcases hf with h | h
      · left; simp [headFns, h]
      · exact Or.inr (Or.inl h)
    · split at hf
      · simp only [calledFns, List.mem_cons] at hf
        rcases hf with h | h
        · left; simp [headFns, h]
        · exact Or.inr (Or.inr h)
      · simp only [calledFns, List.mem_cons, List.mem_append] at hf
        rcases hf with (h | h) | (h | h)
        · left; simp [headFns, h]
        · exact Or.inr (Or.inr h)
        · left; simp [headFns, h]
        · exact Or.inr (Or.inl h)
  case PIECEWISE =>
    simp only [genDoc] at hf
    rcases calledFns_setElse _ _ f hf with h | h
    · exact Or.inr (Or.inl h)
    · exact Or.inr (Or.inr (calledFns_elseOf _ _ f h))
  case PIECE =>
    simp only [genDoc, pieceDoc, calledFns, calledFns_wrap, List.mem_append, List.not_mem_nil, or_false] at hf
    rcases hf with h | h
    · exact Or.inr (Or.inr h)
    · exact Or.inr (Or.inl h)
  case MIN =>
    simp only [genDoc, calledFns, List.mem_cons, List.mem_append] at hf
    rcases hf with h | h
    · left; simp [headFns, h]
    · exact Or.inr h
  case MAX =>
    simp only [genDoc, calledFns, List.mem_cons, List.mem_append] at hf
    rcases hf with h | h
    · left; simp [headFns, h]
    · exact Or.inr h
  case REM =>
    simp only [genDoc, calledFns, List.mem_cons, List.mem_append] at hf
    rcases hf with h | h
    · left; simp [headFns, h]
    · exact Or.inr h
  case DEGREE => exact Or.inr (Or.inl (by simpa [genDoc] using hf))
  case LOGBASE => exact Or.inr (Or.inl (by simpa [genDoc] using hf))
  case BVAR => exact Or.inr (Or.inl (by simpa [genDoc] using hf))
  case OTHERWISE => exact Or.inr (Or.inl (by simpa [genDoc] using hf))
  case TRUE => simp [genDoc, calledFns] at hf
  case FALSE => simp [genDoc, calledFns] at hf
  case E => simp [genDoc, calledFns] at hf
  case PI => simp [genDoc, calledFns] at hf
  case INF => simp [genDoc, calledFns] at hf
  case NAN => simp [genDoc, calledFns] at hf
  case DIFF => simp [genDoc, calledFns] at hf
  all_goals
    simp only [genDoc, calledFns, List.mem_cons] at hf
    rcases hf with h | h
    · left; simp [headFns, h]
    · exact Or.inr (Or.inl h)

/-- where a called function comes from -/
def Src (p : Profile) (t : Ast) (f : String) : Prop :=
  f ∈ builtins p ∨ ∃ h ∈ needsOf t, hasOp p h = false ∧ fname p h = f

theorem head_src (ty : Ty) (l r : Ast) : ∀ f ∈ headFns p ty, Src p (.node ty l r) f := by
  intro f hf
  cases ty <;> simp only [headFns] at hf <;> (try split at hf) <;>
    simp only [List.mem_cons, List.not_mem_nil, or_false] at hf <;>
    first
      | (rcases hf with h | h | h <;> (left; simp [builtins, h]; done))
      | (rcases hf with h | h <;> (left; simp [builtins, h]; done))
      | (left; simp [builtins, hf]; done)
      | (right; simp_all [needsOf, helperOf, hasOp, fname]; done)

theorem src_left {ty : Ty} {l r : Ast} {f : String} (h : Src p l f) : Src p (.node ty l r) f := by
  rcases h with h | ⟨x, hx, h⟩
  · exact Or.inl h
  · exact Or.inr ⟨x, by simp [needsOf, hx], h⟩

theorem src_right {ty : Ty} {l r : Ast} {f : String} (h : Src p r f) : Src p (.node ty l r) f := by
  rcases h with h | ⟨x, hx, h⟩
  · exact Or.inl h
  · exact Or.inr ⟨x, by simp [needsOf, hx], h⟩

/-- every function called in generated expression code is a math-library function or a helper whose need-flag is
    set by the tree and which the profile does not write as an operator -/
theorem called_src (t : Ast) : ∀ f ∈ calledFns (genDoc p t), Src p t f := by
  induction t with
  | nul => intro f hf; simp [genDoc, calledFns] at hf
  | cn v => intro f hf; simp [genDoc, calledFns] at hf
  | ci v => intro f hf; simp [genDoc, calledFns] at hf
  | node ty l r ihl ihr =>
    intro f hf
    rcases head_or_child ty l r f hf with h | h | h
    · exact head_src ty l r f h
    · exact src_left (ihl f h)
    · exact src_right (ihr f h)

end Cellml.Struct
