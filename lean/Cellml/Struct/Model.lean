/-
  C17 — model of the declared structure of generated code: counts, info tables and their buffer sizes
  (`generateVariableInfoObjectCode`, `updateVariableInfoSizes`, `addImplementation*InfoCode`), and which helper
  functions are emitted (`addArithmeticFunctionsCode`, `addTrigonometricFunctionsCode` driven by the need-flags that
  `analyseNode` sets for every element it meets).
-/
import Cellml.Gen.Sound
namespace Cellml.Struct
open Cellml.Gen

/-- an `AnalyserVariable` as the info tables see it; `ty`: 0 voi, 1 state, 2 constant, 3 computed constant, 4 algebraic, 5 external -/
structure Var where
  name : String
  units : String
  comp : String
  ty : Nat
  deriving Repr, DecidableEq

structure AModel where
  hasOdes : Bool
  voi : List Var        -- empty or one entry
  states : List Var
  vars : List Var
  deriving Repr

/-- the variables `generateVariableInfoObjectCode` walks over, in its order -/
def infoVars (m : AModel) : List Var := (if m.hasOdes then m.voi ++ m.states else []) ++ m.vars

structure Sizes where
  comp : Nat
  name : Nat
  units : Nat
  deriving Repr, DecidableEq

/-- `updateVariableInfoSizes`: byte length plus one for the terminator, maximum so far -/
def upd (s : Sizes) (v : Var) : Sizes :=
  ⟨max s.comp (v.comp.utf8ByteSize + 1), max s.name (v.name.utf8ByteSize + 1), max s.units (v.units.utf8ByteSize + 1)⟩

def sizes (m : AModel) : Sizes := (infoVars m).foldl upd ⟨0, 0, 0⟩

def stateCount (m : AModel) : Nat := m.states.length
def variableCount (m : AModel) : Nat := m.vars.length

/-- one info entry: (name, units, component, type) -/
def entry (v : Var) : String × String × String × Nat := (v.name, v.units, v.comp, v.ty)
def stateEntries (m : AModel) : List (String × String × String × Nat) := m.states.map entry
def variableEntries (m : AModel) : List (String × String × String × Nat) := m.vars.map entry

/-! ### helper functions -/

inductive Helper
  | eq | neq | lt | leq | gt | geq | and | or | xor | not | min | max
  | sec | csc | cot | sech | csch | coth | asec | acsc | acot | asech | acsch | acoth
  deriving DecidableEq, Repr

def Helper.all : List Helper :=
  [.eq, .neq, .lt, .leq, .gt, .geq, .and, .or, .xor, .not, .min, .max, .sec, .csc, .cot, .sech, .csch, .coth, .asec, .acsc, .acot,
   .asech, .acsch, .acoth]

/-- the need-flag `analyseNode` sets for an element of this type -/
def helperOf : Ty → Option Helper
  | .EQ => some .eq | .NEQ => some .neq | .LT => some .lt | .LEQ => some .leq | .GT => some .gt | .GEQ => some .geq
  | .AND => some .and | .OR => some .or | .XOR => some .xor | .NOT => some .not | .MIN => some .min | .MAX => some .max
  | .SEC => some .sec | .CSC => some .csc | .COT => some .cot | .SECH => some .sech | .CSCH => some .csch | .COTH => some .coth
  | .ASEC => some .asec | .ACSC => some .acsc | .ACOT => some .acot | .ASECH => some .asech | .ACSCH => some .acsch
  | .ACOTH => some .acoth
  | _ => none

def needsOf : Ast → List Helper
  | .node ty l r => (helperOf ty).toList ++ needsOf l ++ needsOf r
  | _ => []

/-- does the profile write this operation as an operator (then no function is needed)? -/
def hasOp (p : Profile) : Helper → Bool
  | .eq => p.hasEq | .neq => p.hasNeq | .lt => p.hasLt | .leq => p.hasLeq | .gt => p.hasGt | .geq => p.hasGeq
  | .and => p.hasAnd | .or => p.hasOr | .xor => p.hasXor | .not => p.hasNot
  | _ => false

/-- the name under which the generated expressions call the helper -/
def fname (p : Profile) : Helper → String
  | .eq => p.eq | .neq => p.neq | .lt => p.lt | .leq => p.leq | .gt => p.gt | .geq => p.geq
  | .and => p.and_ | .or => p.or_ | .xor => p.xor | .not => p.not_
  | .min => p.fn .MIN | .max => p.fn .MAX | .sec => p.fn .SEC | .csc => p.fn .CSC | .cot => p.fn .COT | .sech => p.fn .SECH
  | .csch => p.fn .CSCH | .coth => p.fn .COTH | .asec => p.fn .ASEC | .acsc => p.fn .ACSC | .acot => p.fn .ACOT
  | .asech => p.fn .ASECH | .acsch => p.fn .ACSCH | .acoth => p.fn .ACOTH

/-- the helpers emitted for a set of equations: needed, not an operator, and the profile has a body for it -/
def emitted (p : Profile) (hasBody : Helper → Bool) (asts : List Ast) : List Helper :=
  Helper.all.filter fun h => decide (h ∈ asts.flatMap needsOf) && !hasOp p h && hasBody h

/-- functions that need no definition in the generated file (math library) -/
def builtins (p : Profile) : List String :=
  [p.sqrt, p.square, p.power, p.ln, p.log10] ++
    [Ty.ABS, .EXP, .LN, .CEILING, .FLOOR, .REM, .SIN, .COS, .TAN, .SINH, .COSH, .TANH, .ASIN, .ACOS, .ATAN, .ASINH, .ACOSH, .ATANH].map p.fn

/-- function names called in a document -/
def calledFns : Doc → List String
  | .atom _ _ => []
  | .bin _ l r => calledFns l ++ calledFns r
  | .pre _ x => calledFns x
  | .call1 f a => f :: calledFns a
  | .call2 f a b => f :: (calledFns a ++ calledFns b)
  | .cond c a b => calledFns c ++ calledFns a ++ calledFns b
  | .paren d => calledFns d

end Cellml.Struct
