/-
  C17 — generated code's declared structure matches the analysed model: property theorems.

  Model: `Cellml/Struct/Model.lean` (counts, info entries, buffer sizes, helper emission) over the expression model
  of C03; tied to the real generator by engine `struct` (predicted counts / sizes / entries / helpers against the
  parsed generated text and the AnalyserModel accessors) and by the regenerated method-string table
  (`Cellml/Generated/Methods.lean`).
-/
import Cellml.Struct.Helpers
import Cellml.Generated.NeedFlags
import Cellml.Generated.Profiles
import Cellml.Generated.Methods
namespace Cellml.Props.C17
open Cellml.Gen Cellml.Struct

/-! ### info tables -/

theorem upd_ge (s : Sizes) (v : Var) : s.comp ≤ (upd s v).comp ∧ s.name ≤ (upd s v).name ∧ s.units ≤ (upd s v).units := by
  simp only [upd]; omega

theorem foldl_upd_ge (vs : List Var) (s : Sizes) :
    s.comp ≤ (vs.foldl upd s).comp ∧ s.name ≤ (vs.foldl upd s).name ∧ s.units ≤ (vs.foldl upd s).units := by
  induction vs generalizing s with
  | nil => simp
  | cons v vs ih =>
    have h1 := upd_ge s v
    have h2 := ih (upd s v)
    simp only [List.foldl_cons]; omega

theorem foldl_upd_fits (vs : List Var) (s : Sizes) : ∀ v ∈ vs,
    v.comp.utf8ByteSize + 1 ≤ (vs.foldl upd s).comp ∧ v.name.utf8ByteSize + 1 ≤ (vs.foldl upd s).name
      ∧ v.units.utf8ByteSize + 1 ≤ (vs.foldl upd s).units := by
  induction vs generalizing s with
  | nil => intro v hv; cases hv
  | cons w ws ih =>
    intro v hv
    simp only [List.foldl_cons]
    rcases List.mem_cons.mp hv with h | h
    · subst h
      have := foldl_upd_ge ws (upd s v)
      simp only [upd] at this ⊢
      omega
    · exact ih (upd s w) v h

/-- every entry of the info tables (voi, states, variables) fits the declared buffers, terminator included -/
theorem entries_fit (m : AModel) : ∀ v ∈ infoVars m,
    v.comp.utf8ByteSize < (sizes m).comp ∧ v.name.utf8ByteSize < (sizes m).name ∧ v.units.utf8ByteSize < (sizes m).units := by
  intro v hv
  have := foldl_upd_fits (infoVars m) ⟨0, 0, 0⟩ v hv
  simp only [sizes]; omega

/-- the declared sizes are not larger than needed: each is zero or attained by some entry -/
def Attained (s : Sizes) (l : List Var) : Prop := s.name = 0 ∨ ∃ v ∈ l, s.name = v.name.utf8ByteSize + 1

theorem foldl_upd_attained (vs : List Var) : ∀ (s : Sizes) (pre : List Var), Attained s pre →
    Attained (vs.foldl upd s) (pre ++ vs) := by
  induction vs with
  | nil => intro s pre h; simpa using h
  | cons w ws ih =>
    intro s pre h
    have step : Attained (upd s w) (pre ++ [w]) := by
      have key : (upd s w).name = s.name ∨ (upd s w).name = w.name.utf8ByteSize + 1 := by simp only [upd]; omega
      rcases key with k | k
      · rcases h with h | ⟨v, hv, h⟩
        · left; omega
        · right; exact ⟨v, List.mem_append_left _ hv, by omega⟩
      · right; exact ⟨w, by simp, k⟩
    have := ih (upd s w) (pre ++ [w]) step
    simpa [List.append_assoc] using this

theorem name_size_tight (m : AModel) : (sizes m).name = 0 ∨ ∃ v ∈ infoVars m, (sizes m).name = v.name.utf8ByteSize + 1 := by
  have := foldl_upd_attained (infoVars m) ⟨0, 0, 0⟩ [] (Or.inl rfl)
  simpa [Attained, sizes] using this

/-- counts and the i-th entries -/
theorem state_entry (m : AModel) (i : Nat) : (stateEntries m)[i]? = (m.states[i]?).map entry := by
  simp [stateEntries]
theorem variable_entry (m : AModel) (i : Nat) : (variableEntries m)[i]? = (m.vars[i]?).map entry := by
  simp [variableEntries]
theorem counts (m : AModel) : (stateEntries m).length = stateCount m ∧ (variableEntries m).length = variableCount m := by
  simp [stateEntries, variableEntries, stateCount, variableCount]

/-! ### interface / implementation pairing (table regenerated from the profile getters) -/

/-- every method declared in the interface is the header of its implementation followed by `;`, for each of the
    (differential model, external variables) cases -/
theorem methods_paired :
    Cellml.Generated.Methods.methods.all (fun m => m.2.2.2.1 == m.2.2.2.2.2.1 ++ ";\n") = true := by decide +kernel

/-- ... and the implementation string is that header, an opening brace line, and the body -/
theorem methods_split :
    Cellml.Generated.Methods.methods.all (fun m => m.2.2.2.2.1 == m.2.2.2.2.2.1 ++ "\n{\n" ++ m.2.2.2.2.2.2) = true := by decide +kernel

/-! ### helper functions -/

/-- no call of an undefined function: whatever the generated expressions of a set of equations call is a
    math-library function or one of the emitted helpers (when the profile has a body for every helper it may need) -/
theorem helpers_defined (p : Profile) (hasBody : Helper → Bool) (hb : ∀ h, hasBody h = true) (asts : List Ast) :
    ∀ t ∈ asts, ∀ f ∈ calledFns (genDoc p t), f ∈ builtins p ∨ ∃ h ∈ emitted p hasBody asts, fname p h = f := by
  intro t ht f hf
  rcases called_src t f hf with h | ⟨h, hn, ho, hf'⟩
  · exact Or.inl h
  · refine Or.inr ⟨h, ?_, hf'⟩
    simp only [emitted, List.mem_filter, Bool.and_eq_true, decide_eq_true_eq, Bool.not_eq_true', hb, and_true]
    refine ⟨by cases h <;> simp [Helper.all], List.mem_flatMap.mpr ⟨t, ht, hn⟩, ho⟩

/-- both built-in profiles have a body for every helper -/
theorem bodies_C : ∀ h, Cellml.Generated.Methods.hasBodyC h = true ∨ hasOp Cellml.Generated.Profiles.profC h = true := by
  intro h; cases h <;> decide
theorem bodies_Py : ∀ h, Cellml.Generated.Methods.hasBodyPy h = true := by
  intro h; cases h <;> decide

/-- emitted only if needed: an emitted helper has its need-flag set by some equation and is not an operator -/
theorem emitted_needed (p : Profile) (hasBody : Helper → Bool) (asts : List Ast) :
    ∀ h ∈ emitted p hasBody asts, (∃ t ∈ asts, h ∈ needsOf t) ∧ hasOp p h = false := by
  intro h hh
  simp only [emitted, List.mem_filter, Bool.and_eq_true, decide_eq_true_eq, Bool.not_eq_true'] at hh
  obtain ⟨_, ⟨hn, ho⟩, _⟩ := hh
  obtain ⟨t, ht, hx⟩ := List.mem_flatMap.mp hn
  exact ⟨⟨t, ht, hx⟩, ho⟩

/-! non-vacuity -/
example : entries_fit ⟨true, [⟨"t", "second", "env", 0⟩], [⟨"x", "mV", "membrane", 1⟩], []⟩ = entries_fit _ := rfl
example : sizes ⟨true, [⟨"t", "second", "env", 0⟩], [⟨"x", "mV", "membrane", 1⟩], []⟩ = ⟨9, 2, 7⟩ := by decide
example : emitted Cellml.Generated.Profiles.profC Cellml.Generated.Methods.hasBodyC
    [.node .AND (.node .MIN (.ci "a") (.ci "b")) (.node .SEC (.ci "a") .nul)] = [.min, .sec] := by decide
example : emitted Cellml.Generated.Profiles.profPy Cellml.Generated.Methods.hasBodyPy
    [.node .AND (.node .MIN (.ci "a") (.ci "b")) (.node .SEC (.ci "a") .nul)] = [.and, .min, .sec] := by decide

/-! ### the wiring of the helper flags through analyser, analysed model and generator (tables regenerated from the source) -/

/-- the flag that belongs to a MathML element: `sec` ↦ `Sec`, `arccoth` ↦ `Acoth` -/
def flagOf (e : String) : String :=
  let b := if e.startsWith "arc" then "a" ++ (e.drop 3).toString else e
  b.capitalize

/-- T-tie: meeting element `e` sets the flag of `e`; the accessor `need<X>Function` returns flag `X`; the generator emits
    the profile string of `X` when it tests accessor `X`; and the three tables speak about the same flags in the same
    order — so a helper is emitted exactly for the elements that need it (no crossed wire such as `needAcothFunction`
    returning the `acot` flag) -/
theorem need_flags_wired :
    (∀ p ∈ Cellml.Generated.NeedFlags.setters, p.2 = flagOf p.1)
      ∧ (∀ p ∈ Cellml.Generated.NeedFlags.accessors, p.1 = p.2)
      ∧ (∀ p ∈ Cellml.Generated.NeedFlags.emitters, p.2 = p.1.decapitalize)
      ∧ Cellml.Generated.NeedFlags.setters.map (·.2) = Cellml.Generated.NeedFlags.accessors.map (·.1)
      ∧ Cellml.Generated.NeedFlags.accessors.map (·.1) = Cellml.Generated.NeedFlags.emitters.map (·.1)
      ∧ (Cellml.Generated.NeedFlags.accessors.map (·.1)).Nodup := by
  decide +kernel

example : flagOf "arccoth" = "Acoth" ∧ flagOf "min" = "Min" := by decide +kernel

end Cellml.Props.C17
