/-
  C06 — flattening yields an import-free model with the same meaning: property theorems about the bookkeeping models
  of `Cellml/Flatten/Model.lean` (tied by engine `flatten`: the real `rebaseIndexStack` / `rebaseEquivalenceMap` on
  generated stacks and maps; the component names of flattened generated worlds).

  * re-basing keeps an equivalence inside the imported component inside the instance, at the same relative place
    (`rebase_under`, `rebase_relative`), is one-to-one (`rebase_injective`) and is undone by re-basing back
    (`rebase_inverse`): internal connections are neither lost, merged nor attached elsewhere; a target outside the
    imported component is dropped (`rebase_outside`);
  * the name given to a clashing component or units is not in use (`fresh_not_used`), is the original name when that
    is free (`fresh_eq_self`) and otherwise the original name with a numeric suffix (`fresh_form`).
  "Valid, import-free, same values, inputs unchanged" is decided on the implementation (checks/C06.py), not proved.
-/
import Cellml.Flatten.Model
import Std.Data.String.ToNat
namespace Cellml.Props.C06
open Cellml.Flatten

theorem isPrefixOf_iff {a b : List Nat} : a.isPrefixOf b = true ↔ ∃ t, b = a ++ t := by
  rw [List.isPrefixOf_iff_prefix]
  constructor
  · rintro ⟨t, rfl⟩; exact ⟨t, rfl⟩
  · rintro ⟨t, rfl⟩; exact ⟨t, rfl⟩

/-- a stack under the origin lands under the destination … -/
theorem rebase_under (origin dest rest : List Nat) : rebaseStack (origin ++ rest) origin dest = dest ++ rest := by
  unfold rebaseStack
  have : origin.isPrefixOf (origin ++ rest) = true := isPrefixOf_iff.mpr ⟨rest, rfl⟩
  simp [this]

/-- … at the same place relative to it -/
theorem rebase_relative (origin dest rest : List Nat) :
    (rebaseStack (origin ++ rest) origin dest).drop dest.length = rest := by
  rw [rebase_under]; simp

/-- a stack that is not under the origin is dropped (the empty stack) -/
theorem rebase_outside (stack origin dest : List Nat) (h : ¬ ∃ t, stack = origin ++ t) : rebaseStack stack origin dest = [] := by
  unfold rebaseStack
  have : origin.isPrefixOf stack = false := by
    cases hp : origin.isPrefixOf stack with
    | false => rfl
    | true => exact absurd (isPrefixOf_iff.mp hp) h
  simp [this]

/-- re-basing is one-to-one on the stacks under the origin: two variables of the imported component never end up in
    the same place -/
theorem rebase_injective (origin dest r1 r2 : List Nat)
    (h : rebaseStack (origin ++ r1) origin dest = rebaseStack (origin ++ r2) origin dest) : r1 = r2 := by
  rw [rebase_under, rebase_under] at h
  exact List.append_cancel_left h

/-- re-basing back gives the original stack -/
theorem rebase_inverse (origin dest rest : List Nat) :
    rebaseStack (rebaseStack (origin ++ rest) origin dest) dest origin = origin ++ rest := by
  rw [rebase_under, rebase_under]

/-- a target of an equivalence inside the imported component keeps its variable index and its relative path -/
theorem target_under (origin dest rest : List Nat) (v : Nat) (hd : dest ≠ [] ∨ rest ≠ []) :
    rebaseTarget (origin ++ rest ++ [v]) origin dest = some (dest ++ rest ++ [v]) := by
  unfold rebaseTarget
  simp only [List.reverse_append, List.reverse_cons, List.reverse_nil, List.nil_append, List.singleton_append, List.reverse_reverse]
  rw [rebase_under]
  have hne : (dest ++ rest).isEmpty = false := by
    rcases hd with h | h
    · cases dest with
      | nil => exact absurd rfl h
      | cons a t => simp
    · cases rest with
      | nil => exact absurd rfl h
      | cons a t => cases dest <;> simp
  simp [hne]

/-! names -/
theorem freshFrom_form (used : List String) (base : String) : ∀ f k, ∃ j, k ≤ j ∧ j ≤ k + f ∧ freshFrom used base f k = candidate base j := by
  intro f
  induction f with
  | zero => intro k; exact ⟨k, Nat.le_refl _, by omega, rfl⟩
  | succ f ih =>
    intro k
    unfold freshFrom
    split
    · obtain ⟨j, h1, h2, h3⟩ := ih (k + 1)
      exact ⟨j, by omega, by omega, h3⟩
    · exact ⟨k, Nat.le_refl _, by omega, rfl⟩

/-- the new name is the original one or the original one with a numeric suffix -/
theorem fresh_form (used : List String) (base : String) : ∃ j, fresh used base = candidate base j := by
  obtain ⟨j, _, _, h⟩ := freshFrom_form used base used.length 0
  exact ⟨j, h⟩

/-- a free name is kept -/
theorem fresh_eq_self (used : List String) (base : String) (h : ¬ base ∈ used) : fresh used base = base := by
  unfold fresh
  cases hn : used.length with
  | zero => simp [freshFrom, candidate]
  | succ n =>
    simp only [freshFrom, candidate, if_true]
    simp only [List.contains_eq_mem, decide_eq_true_eq]
    rw [if_neg h]

theorem candidate_injective (base : String) {i j : Nat} (h : candidate base i = candidate base j) : i = j := by
  unfold candidate at h
  by_cases hi : i = 0 <;> by_cases hj : j = 0
  · omega
  · simp only [hi, hj, if_true, if_false] at h
    have : base.length = (base ++ "_" ++ Nat.repr j).length := by rw [← h]
    have h1 : "_".length = 1 := by decide
    simp only [String.length_append] at this
    omega
  · simp only [hi, hj, if_true, if_false] at h
    have : (base ++ "_" ++ Nat.repr i).length = base.length := by rw [h]
    have h1 : "_".length = 1 := by decide
    simp only [String.length_append] at this
    omega
  · simp only [hi, hj, if_false] at h
    exact (by simpa [String.append_assoc] using h)

/-- if the search stops on a used name, all the candidates it went through are used -/
theorem freshFrom_used (used : List String) (base : String) : ∀ f k, freshFrom used base f k ∈ used →
    ∀ j, k ≤ j → j ≤ k + f → candidate base j ∈ used := by
  intro f
  induction f with
  | zero =>
    intro k h j h1 h2
    have : j = k := by omega
    subst this
    simpa [freshFrom] using h
  | succ f ih =>
    intro k h j h1 h2
    unfold freshFrom at h
    split at h
    · rename_i hc
      by_cases hjk : j = k
      · subst hjk; simpa using hc
      · exact ih (k + 1) h j (by omega) (by omega)
    · rename_i hc
      have : ¬ candidate base k ∈ used := by simpa using hc
      exact absurd h this

/-- a list without repetition that is contained in another is not longer (pigeonhole) -/
theorem nodup_length_le {α : Type} [DecidableEq α] : ∀ (l m : List α), l.Nodup → (∀ x ∈ l, x ∈ m) → l.length ≤ m.length := by
  intro l
  induction l with
  | nil => intro m _ _; simp
  | cons a t ih =>
    intro m hnd hsub
    have ha : a ∈ m := hsub a (by simp)
    have hnd' := List.nodup_cons.mp hnd
    have := ih (m.erase a) hnd'.2 (by
      intro x hx
      have hxm := hsub x (by simp [hx])
      have hne : x ≠ a := fun e => hnd'.1 (e ▸ hx)
      exact (List.mem_erase_of_ne hne).mpr hxm)
    have hl := List.length_erase_of_mem ha
    simp only [List.length_cons]
    have hpos : 0 < m.length := List.length_pos_of_mem ha
    omega

/-- **the name chosen is not in use** -/
theorem fresh_not_used (used : List String) (base : String) : ¬ fresh used base ∈ used := by
  intro h
  have hall := freshFrom_used used base used.length 0 h
  -- the candidates 0 … used.length are pairwise distinct and all used: one too many
  let cands := (List.range (used.length + 1)).map (candidate base)
  have hnd : cands.Nodup := by
    exact List.Pairwise.map _ (fun a b hab => fun e => hab (candidate_injective base e)) List.nodup_range
  have hsub : ∀ x ∈ cands, x ∈ used := by
    intro x hx
    obtain ⟨j, hj, rfl⟩ := List.mem_map.mp hx
    have := List.mem_range.mp hj
    exact hall j (by omega) (by omega)
  have := nodup_length_le cands used hnd hsub
  simp only [cands, List.length_map, List.length_range] at this
  omega

/-! the names of one instance -/

/-- the pinned loop lets two components of one instance end up with the same name (replayed on the implementation by
    checks/C06.py; repaired in /repo, see known_findings.json) -/
theorem declashPinned_collides : ¬ (declashPinned ["a"] ["a", "a_1"]).Nodup := by decide

theorem declashGo_spec (used : List String) : ∀ (names taken : List String),
    (∀ x ∈ used, x ∈ taken) → (∀ x ∈ names, x ∈ taken) → names.Nodup →
    (declashGo used taken names).Nodup ∧ (∀ r ∈ declashGo used taken names, ¬ r ∈ used) ∧
    (∀ r ∈ declashGo used taken names, r ∈ names ∨ ¬ r ∈ taken) := by
  intro names
  induction names with
  | nil => intro taken _ _ _; simp [declashGo]
  | cons n rest ih =>
    intro taken hu hn hnd
    have hnd' := List.nodup_cons.mp hnd
    unfold declashGo
    by_cases hc : used.contains n = true
    · simp only [hc, if_true]
      have hf : ¬ fresh taken n ∈ taken := fresh_not_used taken n
      obtain ⟨h1, h2, h3⟩ := ih (fresh taken n :: taken)
        (fun x hx => List.mem_cons_of_mem _ (hu x hx))
        (fun x hx => List.mem_cons_of_mem _ (hn x (List.mem_cons_of_mem _ hx))) hnd'.2
      refine ⟨?_, ?_, ?_⟩
      · refine List.nodup_cons.mpr ⟨?_, h1⟩
        intro hmem
        rcases h3 _ hmem with hr | hr
        · exact hf (hn _ (List.mem_cons_of_mem _ hr))
        · exact hr (by simp)
      · intro r hr
        rcases List.mem_cons.mp hr with rfl | hr
        · exact fun hru => hf (hu _ hru)
        · exact h2 r hr
      · intro r hr
        rcases List.mem_cons.mp hr with rfl | hr
        · exact Or.inr hf
        · rcases h3 r hr with h | h
          · exact Or.inl (List.mem_cons_of_mem _ h)
          · exact Or.inr (fun hrt => h (List.mem_cons_of_mem _ hrt))
    · have hc' : ¬ n ∈ used := by simpa using hc
      simp only [hc, Bool.false_eq_true, if_false]
      obtain ⟨h1, h2, h3⟩ := ih taken hu (fun x hx => hn x (List.mem_cons_of_mem _ hx)) hnd'.2
      refine ⟨?_, ?_, ?_⟩
      · refine List.nodup_cons.mpr ⟨?_, h1⟩
        intro hmem
        rcases h3 _ hmem with hr | hr
        · exact hnd'.1 hr
        · exact hr (hn n (by simp))
      · intro r hr
        rcases List.mem_cons.mp hr with rfl | hr
        · exact hc'
        · exact h2 r hr
      · intro r hr
        rcases List.mem_cons.mp hr with rfl | hr
        · exact Or.inl (by simp)
        · rcases h3 r hr with h | h
          · exact Or.inl (List.mem_cons_of_mem _ h)
          · exact Or.inr h

/-- **the components of one instance get pairwise distinct names, none of which is in use in the importing model** -/
theorem declash_nodup (used names : List String) (hn : names.Nodup) :
    (declash used names).Nodup ∧ ∀ r ∈ declash used names, ¬ r ∈ used := by
  have := declashGo_spec used names (used ++ names) (fun x hx => by simp [hx]) (fun x hx => by simp [hx]) hn
  exact ⟨this.1, this.2.1⟩

/-! non-vacuity -/
example : rebaseStack [2, 0, 1, 4] [2, 0] [5] = [5, 1, 4] := by decide
example : rebaseTarget [2, 0, 1, 4] [2, 0] [5] = some [5, 1, 4] := by decide
example : rebaseTarget [3, 1, 4] [2, 0] [5] = none := by decide
example : fresh ["a", "a_1", "b"] "a" = "a_2" := by decide
example : declash ["a"] ["a", "a_1"] = ["a_2", "a_1"] := by decide
example : instantiate ["main", "m1", "m2", "leafA"] ["mid", "leafA"] 2 = ["main", "m1", "m2", "leafA", "mid", "leafA_1", "mid_1", "leafA_2"] := by decide

end Cellml.Props.C06
