/-
  C05 — analysis classifies every model and variable consistently: property theorems.

  Model: `Cellml/Analyser/Model.lean` (`check`, the three-pass loop, constants, requalification, NLA over-determination,
  model type, final indices), tied to `Analyser::analyseModel` by engine `analyse` on abstract systems extracted
  from CellML text (`pygen/absys.py`), for generated systems and their under- or over-constrained variants.
  The order / renaming independence of the classification is checked on the implementation (all generated systems
  under permutations of components, variables, equations, connections and consistent renaming); the full statement
  (`OrderIndependent`) is refuted for the model by a concrete witness (`not_orderIndependent`), a known finding.
-/
import Cellml.Analyser.Proofs
import Cellml.Analyser.Deps
import Cellml.Analyser.Requalify
namespace Cellml.Props.C05
open Cellml.Analyser

/-- **termination**: the loop of `analyse` is never cut short by its fuel — it is the loop run to its natural end -/
theorem loop_complete (s : St) : ∃ r, loopO (fuelFor s) s 1 false = some r ∧ loop (fuelFor s) s 1 false = r := by
  have h := fuel_enough s
  cases hr : loopO (fuelFor s) s 1 false with
  | none => rw [hr] at h; cases h
  | some r => exact ⟨r, rfl, loop_eq_loopO _ _ _ _ _ hr⟩

/-- a check never un-types an equation; a relevant check types exactly one more -/
theorem check_monotone (s : St) (i : Nat) (nla : Bool) :
    unknownCount (check s i nla).1 + (if (check s i nla).2 then 1 else 0) = unknownCount s := by
  have h := check_count s i nla
  cases hf : (check s i nla).2
  · simpa using h.2 hf
  · simpa using h.1 hf

/-- **dense, unique indices**: the state indices are 0, 1, 2, … in creation order, and so are the variable indices -/
theorem indices_dense (vs : List V) (si vi : Nat) :
    ((vs.zip (idxFrom si vi vs)).filterMap fun p => if slot p.1 = .state then p.2 else none)
        = List.range' si (vs.countP fun v => slot v = .state)
      ∧ ((vs.zip (idxFrom si vi vs)).filterMap fun p => if slot p.1 = .variable then p.2 else none)
        = List.range' vi (vs.countP fun v => slot v = .variable) := by
  induction vs generalizing si vi with
  | nil => simp [idxFrom]
  | cons v r ih =>
    cases hs : slot v
    · have := ih (si + 1) vi
      simp only [idxFrom, hs, List.zip_cons_cons, List.filterMap_cons, List.countP_cons]
      simp [this.1, this.2, List.range'_succ]
    · have := ih si (vi + 1)
      simp only [idxFrom, hs, List.zip_cons_cons, List.filterMap_cons, List.countP_cons]
      simp [this.1, this.2, List.range'_succ]
    · have := ih si vi
      simp only [idxFrom, hs, List.zip_cons_cons, List.filterMap_cons, List.countP_cons]
      simp [this.1, this.2]

/-- every class gets an index exactly when it is a state or a variable of the analysed model -/
theorem index_iff_slot (vs : List V) : ∀ (si vi : Nat),
    (idxFrom si vi vs).length = vs.length
      ∧ ∀ k (h : k < vs.length), ((idxFrom si vi vs)[k]?.bind id).isSome = (slot vs[k] ≠ .none) := by
  induction vs with
  | nil => intro si vi; simp [idxFrom]
  | cons v r ih =>
    intro si vi
    cases hs : slot v <;> simp only [idxFrom, hs, List.length_cons]
    · refine ⟨by simp [(ih (si + 1) vi).1], fun k hk => ?_⟩
      cases k with
      | zero => simp [hs]
      | succ j => have := (ih (si + 1) vi).2 j (by simpa using hk); simpa using this
    · refine ⟨by simp [(ih si (vi + 1)).1], fun k hk => ?_⟩
      cases k with
      | zero => simp [hs]
      | succ j => have := (ih si (vi + 1)).2 j (by simpa using hk); simpa using this
    · refine ⟨by simp [(ih si vi).1], fun k hk => ?_⟩
      cases k with
      | zero => simp [hs]
      | succ j => have := (ih si vi).2 j (by simpa using hk); simpa using this

/-- the model type is one of the four valid ones exactly when no class is left unknown, an uninitialised state or
    overconstrained -/
theorem modelType_valid_iff (s : St) :
    (modelType s = .ode ∨ modelType s = .algebraic ∨ modelType s = .nla ∨ modelType s = .dae) ↔ valid s = true := by
  unfold modelType valid
  simp only []
  cases hu : (s.vars.any fun v => decide (v.ty = .unknown) || decide (v.ty = .shouldBeState)) <;>
    cases ho : (s.vars.any fun v => decide (v.ty = .overconstrained))
  · have hv : (s.vars.any fun v => decide (v.ty = .unknown) || decide (v.ty = .shouldBeState) || decide (v.ty = .overconstrained)) = false := by
      simp only [List.any_eq_false, Bool.or_eq_true, decide_eq_true_eq, not_or] at hu ho ⊢
      intro v hv; exact ⟨hu v hv, ho v hv⟩
    simp only [Bool.false_and, Bool.false_eq_true, if_false, hv, Bool.not_false, iff_true]
    split <;> split <;> simp
  · have hv : (s.vars.any fun v => decide (v.ty = .unknown) || decide (v.ty = .shouldBeState) || decide (v.ty = .overconstrained)) = true := by
      simp only [List.any_eq_true, Bool.or_eq_true, decide_eq_true_eq] at ho ⊢
      obtain ⟨v, hv, h⟩ := ho; exact ⟨v, hv, Or.inr h⟩
    simp [hv]
  · have hv : (s.vars.any fun v => decide (v.ty = .unknown) || decide (v.ty = .shouldBeState) || decide (v.ty = .overconstrained)) = true := by
      simp only [List.any_eq_true, Bool.or_eq_true, decide_eq_true_eq] at hu ⊢
      obtain ⟨v, hv, h⟩ := hu; exact ⟨v, hv, Or.inl h⟩
    simp [hv]
  · have hv : (s.vars.any fun v => decide (v.ty = .unknown) || decide (v.ty = .shouldBeState) || decide (v.ty = .overconstrained)) = true := by
      simp only [List.any_eq_true, Bool.or_eq_true, decide_eq_true_eq] at hu ⊢
      obtain ⟨v, hv, h⟩ := hu; exact ⟨v, hv, Or.inl h⟩
    simp [hv]

/-- the three error types: a class left unknown **or a state that is never initialised** makes the model underconstrained,
    a class computed more than once makes it overconstrained, both at once unsuitably constrained -/
theorem modelType_errors (s : St) :
    let under := ∃ v ∈ s.vars, v.ty = .unknown ∨ v.ty = .shouldBeState
    let over := ∃ v ∈ s.vars, v.ty = .overconstrained
    (modelType s = .unsuitably ↔ under ∧ over) ∧ (modelType s = .underconstrained ↔ under ∧ ¬ over) ∧
    (modelType s = .overconstrained ↔ ¬ under ∧ over) := by
  have hu : (s.vars.any fun v => decide (v.ty = .unknown) || decide (v.ty = .shouldBeState)) = true ↔
      ∃ v ∈ s.vars, v.ty = .unknown ∨ v.ty = .shouldBeState := by
    simp only [List.any_eq_true, Bool.or_eq_true, decide_eq_true_eq]
  have ho : (s.vars.any fun v => decide (v.ty = .overconstrained)) = true ↔ ∃ v ∈ s.vars, v.ty = .overconstrained := by
    simp only [List.any_eq_true, decide_eq_true_eq]
  unfold modelType
  simp only []
  rw [← hu, ← ho]
  cases (s.vars.any fun v => decide (v.ty = .unknown) || decide (v.ty = .shouldBeState)) <;>
    cases (s.vars.any fun v => decide (v.ty = .overconstrained)) <;> simp <;> (split <;> split <;> simp)

/-- **nothing an equation reads is forgotten**: once an equation is typed, every class it mentions outside `diff` is
    either one of its recorded dependencies or one of the unknowns it computes -/
theorem reads_recorded (s : St) (hp : ∀ e ∈ s.eqs, e.ty = .unknown) (i : Nat) (e0 e : E)
    (h0 : s.eqs[i]? = some e0) (h : (analyse s).eqs[i]? = some e) (ht : e.ty ≠ .unknown) :
    ∀ v ∈ e0.vars, v ∈ e.deps.map (·.1) ∨ v ∈ e.unknowns := by
  intro v hv
  have hc := analyse_cov s hp i e0 e h0 h
  rcases hc.1 v hv with h1 | h1 | h1
  · exact Or.inr (hc.2 ht v h1)
  · exact Or.inl h1
  · exact Or.inr h1

/-- **each equation depends on the equations computing what it reads**: if typed equation `i` reads class `v`, does not
    compute `v` itself, and equation `j` computes `v`, then `j` is among the dependencies wired for `i` (the lookup goes
    through the class, so it does not matter which member of the class was its representative when the dependency
    was recorded) -/
theorem reads_imply_depends (s : St) (hp : ∀ e ∈ s.eqs, e.ty = .unknown) (i j v : Nat) (e0 e : E)
    (h0 : s.eqs[i]? = some e0) (h : (analyse s).eqs[i]? = some e) (ht : e.ty ≠ .unknown)
    (hv : v ∈ e0.vars) (hown : v ∉ e.unknowns) (hj : computes (analyse s) j v = true) :
    j ∈ eqDeps (analyse s) i := by
  have hd : v ∈ e.deps.map (·.1) := by
    rcases reads_recorded s hp i e0 e h0 h ht v hv with h1 | h1
    · exact h1
    · exact absurd h1 hown
  obtain ⟨d, hd1, hd2⟩ := List.mem_map.mp hd
  have hlt : j < (analyse s).eqs.length := by
    unfold computes at hj
    split at hj
    · rename_i x hx; exact (List.getElem?_eq_some_iff.mp hx).1
    · cases hj
  unfold eqDeps
  rw [h]
  simp only [List.mem_filter, List.mem_range, List.any_eq_true]
  exact ⟨hlt, d, hd1, by rw [hd2]; exact hj⟩

/-! The removal of an equation's own unknowns from its record compares *variables*, not classes: a dependency recorded
    while another member of the class was its representative survives, and the equation then depends on itself.  This
    is what the implementation does (the correspondence compares the dependency sets); it only happens to ODEs and NLA
    equations (an unknown must be known before its equation is typed), whose dependencies the generator does not follow.
    Witness: `x` initialised in component 0, `dx/dt = x` in component 1. -/
def selfDep : St :=
  { vars := [⟨.voi, none, false, 0⟩, ⟨.state, none, false, 0⟩],
    eqs := [{ comp := 1, vars := [1], odes := [1], all := [1, 1], lhs := some (1, true), rhs := none }] }

theorem ode_self_dependency_witness : eqDeps (analyse selfDep) 0 = [0] := by decide

/-- … and with the initial value in the component of the ODE the self-dependency is removed -/
theorem ode_self_dependency_removed :
    eqDeps (analyse { selfDep with eqs := selfDep.eqs.map fun e => { e with comp := 0 } }) 0 = [] := by decide

/-- **requalification runs to its fixpoint**: after it, no equation typed "variable-based constant" reads (apart from
    its own unknown) a class that is not a constant, a computed true constant or a computed variable-based constant —
    however long the chain of equations hanging off a non-constant variable is, in whatever order they are listed -/
theorem requalified (s : St) (i u : Nat) (e : E) (h : (requalify s).eqs[i]? = some e) (hv : e.ty = .varConstant)
    (hu : e.unknowns.head? = some u) :
    ∀ v ∈ e.all, v ≠ u → ((requalify s).v v).ty = .constant ∨ ((requalify s).v v).ty = .ctc ∨ ((requalify s).v v).ty = .cvc := by
  have hs := requalify_stable s i
  unfold needs at hs
  rw [h] at hs
  simp only [hv, if_true, hu] at hs
  intro v hvm hne
  unfold trig at hs
  have := (List.any_eq_false.mp hs) v hvm
  simp only [Bool.and_eq_true, decide_eq_true_eq, not_and, ne_eq] at this
  by_cases h1 : ((requalify s).v v).ty = .constant
  · exact Or.inl h1
  · by_cases h2 : ((requalify s).v v).ty = .ctc
    · exact Or.inr (Or.inl h2)
    · exact Or.inr (Or.inr (Classical.not_not.mp (this ⟨⟨hne, h1⟩, h2⟩)))

/-! non-vacuity: a is solved by an NLA equation (a a = 4, a initialised); X = 2 a, Y = X + 1, Z = Y + 1 listed in reverse -/
def chainNla : St :=
  { vars := [⟨.initialised, none, false, 0⟩, ⟨.unknown, none, false, 0⟩, ⟨.unknown, none, false, 0⟩, ⟨.unknown, none, false, 0⟩],
    eqs := [{ comp := 0, vars := [3, 2], odes := [], all := [3, 2], lhs := some (3, false), rhs := none },
            { comp := 0, vars := [2, 1], odes := [], all := [2, 1], lhs := some (2, false), rhs := none },
            { comp := 0, vars := [1, 0], odes := [], all := [1, 0], lhs := some (1, false), rhs := none },
            { comp := 0, vars := [0], odes := [], all := [0, 0], lhs := none, rhs := none }] }
example : (analyse chainNla).vars.map (·.ty) = [.initAlg, .algebraic, .algebraic, .algebraic] := by decide
example : (analyse chainNla).eqs.map (·.ty) = [.algebraic, .algebraic, .algebraic, .nla] := by decide

/-- full statement of order independence (not proved for the model; checked on the implementation): permuting the
    equations of a system does not change the type of any class nor the model type -/
def OrderIndependent : Prop :=
  ∀ (vs : List V) (es es' : List E), es.Perm es' →
    (analyse { vars := vs, eqs := es }).vars.map (·.ty) = (analyse { vars := vs, eqs := es' }).vars.map (·.ty)
      ∧ modelType (analyse { vars := vs, eqs := es }) = modelType (analyse { vars := vs, eqs := es' })

/-! The full statement is FALSE of the model (and of the implementation, which the model is tied to): with `x` initialised,
    `h = x + sin x` listed before `h = 5` claims `h` (and `h = 5` then over-constrains it), listed after it becomes an NLA
    equation for `x`.  The witness is replayed on the real analyser by `checks/C05.py` (known finding
    C05-order-initialised-unknown). -/
def wV : List V := [⟨.unknown, none, false, 0⟩, ⟨.initialised, none, false, 0⟩]
def wE1 : E := { comp := 0, vars := [0, 1], odes := [], all := [0, 1], lhs := some (0, false), rhs := none }
def wE2 : E := { comp := 0, vars := [0], odes := [], all := [0], lhs := some (0, false), rhs := none }

theorem witness_types : modelType (analyse { vars := wV, eqs := [wE1, wE2] }) = .overconstrained
    ∧ modelType (analyse { vars := wV, eqs := [wE2, wE1] }) = .nla := by decide

theorem not_orderIndependent : ¬ OrderIndependent := by
  intro h
  have h2 := (h wV [wE1, wE2] [wE2, wE1] (List.Perm.swap _ _ _)).2
  rw [witness_types.1, witness_types.2] at h2
  cases h2

/-! non-vacuity: x' = -x with x(0) = 1 (classes: 0 = t, 1 = x) and y = 2 x -/
def sample : St :=
  { vars := [⟨.voi, none, false, 0⟩, ⟨.state, none, false, 0⟩, ⟨.unknown, none, false, 0⟩],
    eqs := [{ comp := 0, vars := [1], odes := [1], all := [1], lhs := some (1, true), rhs := none },
            { comp := 0, vars := [2, 1], odes := [], all := [2, 1], lhs := some (2, false), rhs := none }] }

example : modelType (analyse sample) = .ode := by decide
example : (analyse sample).vars.map (·.ty) = [.voi, .state, .algebraic] := by decide
example : finalIndices (analyse sample).vars = [none, some 0, some 0] := by decide
example : (analyse sample).eqs.map (·.ty) = [.ode, .algebraic] := by decide
example : eqDeps (analyse sample) 1 = [0] ∧ eqDeps (analyse sample) 0 = [] := by decide
example : ∀ e ∈ sample.eqs, e.ty = .unknown := by decide

end Cellml.Props.C05
