/-
  C13 — identifier assignment is complete, unique and non-destructive: property theorems.
  Model: `Cellml/Annot/Model.lean` (= the identifier bookkeeping of src/annotator.cpp after the three fixes
  14f446f, e6afb92, c649333), tied by engine `annot` on exact identifiers.
-/
import Cellml.Annot.Proofs
namespace Cellml.Props.C13
open Cellml.Annot

/-- C13-1: `makeUniqueId` terminates (within `|list| + 1` increments) with an identifier not in the list -/
theorem C13_makeUniqueId (cache : List String) (c : Nat) :
    (makeUnique cache (cache.length + 1) c).1 = hexStr (makeUnique cache (cache.length + 1) c).2 ∧
    c ≤ (makeUnique cache (cache.length + 1) c).2 ∧ (makeUnique cache (cache.length + 1) c).1 ∉ cache :=
  makeUnique_fresh cache c

/-- C13-6 (printer): the identifiers `printModel(model, true)` hands out to the `k` elements that lack one are `k`
    pairwise different identifiers, none of which is present in the model -/
theorem C13_printer_fresh (existing : List String) (k : Nat) :
    (freshIds existing k).length = k ∧ (freshIds existing k).Nodup ∧ ∀ x ∈ freshIds existing k, x ∉ existing := by
  induction k generalizing existing with
  | zero => simp [freshIds]
  | succ k ih =>
    have hf := (makeUnique_fresh existing 0xb4da55).2.2
    obtain ⟨h1, h2, h3⟩ := ih ((makeUnique existing (existing.length + 1) 0xb4da55).1 :: existing)
    simp only [freshIds]
    refine ⟨by simp [h1], ?_, ?_⟩
    · refine List.nodup_cons.mpr ⟨fun hm => ?_, h2⟩
      exact h3 _ hm (List.mem_cons_self ..)
    · intro x hx
      rcases List.mem_cons.mp hx with rfl | hx
      · exact hf
      · exact fun hm => h3 x hx (List.mem_cons_of_mem _ hm)

/-- the rendering of the counter is injective (two counter values never give the same identifier) -/
theorem C13_rendering_injective (m n : Nat) (h : hexStr m = hexStr n) : m = n := hexStr_inj m n h

/-- C13-2: in **every** history of setModel / model edits / assignments / clearAllIds / lookups the
    annotator's list is synchronised with the model state it was computed from … -/
theorem C13_history_sync (sh : Shape) (ops : List Op) : Sync (run true sh init ops) :=
  run_sync sh ops init init_sync

/-- … therefore `assignAllIds()` at any point of any history: every slot reached by the traversal ends up with
    an identifier; identifiers that existed at the time of the call are unchanged; every identifier assigned
    by the call occurs exactly once in the model afterwards, i.e. differs from every identifier present at the
    time of the call (wherever it came from, including edits made after `setModel`) and from the other new ones -/
theorem C13_assignAll (sh : Shape) (ops : List Op) :
    let s := run true sh init ops
    let s' := (assignAll true sh s).1
    s.hasModel = true →
      (∀ i, i ∈ sh.visits → i < s.ids.length → s'.ids.getD i "" ≠ "") ∧
      (∀ j, s.ids.getD j "" ≠ "" → s'.ids.getD j "" = s.ids.getD j "") ∧
      (∀ j, s.ids.getD j "" = "" → s'.ids.getD j "" ≠ "" → s'.ids.count (s'.ids.getD j "") = 1) ∧
      s'.ids.length = s.ids.length := by
  intro s s' hm
  have hs : Sync s := C13_history_sync sh ops
  have hu := update_fresh s hs hm
  have hv := visitAll_inv sh.visits (update s) (update s) (visitInv_refl _ hu.1)
  have hs' : s'.ids = (visitAll (update s) sh.visits).ids := by
    simp only [s', assignAll, hm, Bool.not_true, Bool.false_eq_true, if_false, if_true]
  rw [hs']
  refine ⟨?_, ?_, ?_, ?_⟩
  · intro i hi hlt
    exact visitAll_fills sh.visits (update s) i hi (by rw [hu.2.2.1]; exact hlt)
  · intro j hj
    have := hv.old j (by rw [hu.2.2.1]; exact hj)
    rw [hu.2.2.1] at this; exact this
  · intro j hj0 hj
    exact hv.uniq j (by rw [hu.2.2.1]; exact hj0) hj
  · rw [hv.len, hu.2.2.1]

/-- `assignId(item)`: the item gets an identifier that no item of the model carried at the time of the call,
    every other identifier is unchanged -/
theorem C13_assignId (sh : Shape) (ops : List Op) (i : Nat) :
    let s := run true sh init ops
    s.hasModel = true → i < s.ids.length →
      (assignId s i).2 ≠ "" ∧ (assignId s i).2 ∉ s.ids ∧ (assignId s i).1.ids = s.ids.set i (assignId s i).2 := by
  intro s hm hlt
  have hs : Sync s := C13_history_sync sh ops
  have hu := update_fresh s hs hm
  have hf := makeUnique_fresh (update s).cache (update s).counter
  have hc : ¬ ((!s.hasModel) = true ∨ ¬ i < s.ids.length) := by simp [hm, hlt]
  simp only [assignId, hc, if_false]
  generalize makeUnique (update s).cache ((update s).cache.length + 1) (update s).counter = r at hf
  obtain ⟨id, c⟩ := r
  simp only at hf ⊢
  have hid : id ≠ "" := by rw [hf.1]; exact hexStr_ne_empty c
  refine ⟨hid, ?_, by rw [hu.2.2.1]⟩
  intro hin
  have : id ∈ nonEmpty (update s).ids := by rw [hu.2.2.1]; exact mem_nonEmpty.mpr ⟨hin, hid⟩
  exact hf.2.2 (hu.1.mem_iff.mpr this)

/-- lookups after any history: `itemCount(id)` counts the items carrying `id`; `item(id)` returns an item that
    carries `id`, and only when exactly one does -/
theorem C13_lookups (sh : Shape) (ops : List Op) (id : String) (hid : id ≠ "") :
    let s := run true sh init ops
    s.hasModel = true →
      (itemCount s id).2 = s.ids.count id ∧
      (∀ k, (item s id).2 = some k → s.ids.getD k "" = id ∧ s.ids.count id = 1) := by
  intro s hm
  have hs : Sync s := C13_history_sync sh ops
  have hu := update_fresh s hs hm
  have hcount : (update s).cache.count id = s.ids.count id := by
    have h1 : (update s).cache.count id = (nonEmpty (update s).ids).count id := hu.1.count_eq id
    rw [h1, hu.2.2.1]
    unfold nonEmpty
    rw [List.count_filter]
    simpa using hid
  refine ⟨by simpa [itemCount] using hcount, ?_⟩
  intro k hk
  simp only [item] at hk
  by_cases h1 : (update s).cache.count id = 1
  · rw [if_pos h1, hu.2.2.1] at hk
    have hget := List.findIdx?_eq_some_iff_getElem.mp hk
    obtain ⟨hlt, hp, _⟩ := hget
    refine ⟨?_, by rw [← hcount]; exact h1⟩
    rw [List.getD_eq_getElem?_getD, List.getElem?_eq_getElem hlt]
    simpa using hp
  · rw [if_neg h1] at hk; cases hk

/-! ### the superseded behaviour (no refresh before assignment; repaired by 14f446f): kernel-checked witness.
    `setModel` on a model with two empty slots, the user sets slot 1 to `b4da55`, `assignAllIds` hands out
    `b4da55` again for slot 0. -/
def wShape : Shape := ⟨[7, 0], [0, 1]⟩

theorem C13_stale_refuted :
    (run false wShape init [.setModel ["", ""], .edit 1 (hexStr 0xb4da55), .assignAll]).ids = [hexStr 0xb4da55, hexStr 0xb4da55] ∧
    (run true wShape init [.setModel ["", ""], .edit 1 (hexStr 0xb4da55), .assignAll]).ids = [hexStr 0xb4da56, hexStr 0xb4da55] := by
  constructor <;> decide +kernel

example : hexStr 0xb4da55 = "b4da55" := by decide +kernel

end Cellml.Props.C13

namespace Cellml.Props.C13
open Cellml.Annot

/-- C13-3: `assignIds(type)` at any point of any history: every slot of the requested kind reached by the
    traversal ends up with an identifier; identifiers that existed at the time of the call are unchanged; every
    identifier assigned by the call occurs exactly once in the model afterwards; **slots of every other kind are
    left exactly as they were** (also the empty ones). -/
theorem C13_assignIds (sh : Shape) (ops : List Op) (kind : Nat) :
    let s := run true sh init ops
    let s' := (assignIds true sh s kind).1
    s.hasModel = true →
      (∀ i, i ∈ sh.visits → sh.kinds.getD i 0 = kind → i < s.ids.length → s'.ids.getD i "" ≠ "") ∧
      (∀ j, s.ids.getD j "" ≠ "" → s'.ids.getD j "" = s.ids.getD j "") ∧
      (∀ j, s.ids.getD j "" = "" → s'.ids.getD j "" ≠ "" → s'.ids.count (s'.ids.getD j "") = 1) ∧
      (∀ j, sh.kinds.getD j 0 ≠ kind → s'.ids.getD j "" = s.ids.getD j "") ∧
      s'.ids.length = s.ids.length := by
  intro s s' hm
  have hs : Sync s := C13_history_sync sh ops
  have hu := update_fresh s hs hm
  let vs := sh.visits.filter fun i => sh.kinds.getD i 0 = kind
  have hv := visitAll_inv vs (update s) (update s) (visitInv_refl _ hu.1)
  have hs' : s'.ids = (visitAll (update s) vs).ids := by
    simp only [s', assignIds, hm, Bool.not_true, Bool.false_eq_true, if_false, if_true, setModel_ids, vs]
  rw [hs']
  refine ⟨?_, ?_, ?_, ?_, ?_⟩
  · intro i hi hk hlt
    exact visitAll_fills vs (update s) i (List.mem_filter.mpr ⟨hi, by simpa using hk⟩) (by rw [hu.2.2.1]; exact hlt)
  · intro j hj
    have := hv.old j (by rw [hu.2.2.1]; exact hj)
    rw [hu.2.2.1] at this; exact this
  · intro j hj0 hj
    exact hv.uniq j (by rw [hu.2.2.1]; exact hj0) hj
  · intro j hk
    rw [visitAll_other vs (update s) j (fun hin => hk (by simpa using (List.mem_filter.mp hin).2)), hu.2.2.1]
  · rw [hv.len, hu.2.2.1]

end Cellml.Props.C13
