/-
  C20 — external variables turn unknowns into inputs: property theorems (classification level).

  Model: `Cellml/Analyser/Model.lean` with the external marks (`V.ext`), tied to `Analyser::analyseModel` by engine
  `analyse`.  What the generated code does with the callback is observed on the implementation (`checks/C20.py`:
  the compiled C runs with a recording callback), not modelled.
-/
import Cellml.Analyser.External
import Cellml.Analyser.ExtFlags
namespace Cellml.Props.C20
open Cellml.Analyser

/-- a class marked external is never what makes a model underconstrained: when the loop of `analyse` ends, every
    marked class has a type -/
theorem marked_never_unknown (s : St) (r : St) (h : loopO (fuelFor s) s 1 false = some r) :
    ∀ i, i < r.vars.length → (r.v i).ext = true → (r.v i).ty ≠ .unknown := by
  intro i hi he
  have hany : r.vars.any (·.ext) = true := by
    simp only [List.any_eq_true]
    refine ⟨r.vars[i], List.getElem_mem hi, ?_⟩
    simpa [St.v, List.getD_eq_getElem?_getD, List.getElem?_eq_getElem hi] using he
  exact loop_extKnown _ _ _ _ _ (Nat.le_refl _) h (fun h3 => absurd h3 (by omega)) hany i hi he

/-- the marks are data: no step of the classification sets or clears one, and nothing that was known becomes unknown -/
theorem check_keeps (s : St) (i : Nat) (nla : Bool) : Keeps s (check s i nla).1 := keeps_check s i nla
theorem sweep_keeps (s : St) (nla : Bool) : Keeps s (sweep s nla).1 := keeps_sweep s nla

/-- what is shown for a class: exactly the marked ones are external -/
def shown (v : V) : Option Slot := if v.ext then none else some (slot v)
theorem external_iff_marked (v : V) : shown v = none ↔ v.ext = true := by
  unfold shown; split <;> simp_all

/-- **what reads an external variable is not a constant**: after the analysis, an equation that determines an ordinary
    unknown and mentions (outside `diff`) a class marked external which is not one of its own unknowns is never typed
    as a true constant or variable-based constant equation — its unknown is computed in `computeVariables`, after the
    callback has supplied the external value, whatever the type of the marked class itself (even if an equation of its
    own makes it a computed true constant) and whatever the order of the equations -/
theorem reads_external_not_constant (s : St) (hp : ∀ e ∈ s.eqs, e.ty = .unknown) (i v : Nat) (e0 e : E)
    (h0 : s.eqs[i]? = some e0) (h : (analyse s).eqs[i]? = some e) (ht : e.ty ≠ .unknown) (hne : e.vars ≠ [])
    (hv : v ∈ e0.vars) (hext : (s.v v).ext = true) (hown : v ∉ e.unknowns) :
    e.ty ≠ .trueConstant ∧ e.ty ≠ .varConstant :=
  (analyse_ext s hp i e0 e h0 h).2 ht hne ⟨v, hv, hext, hown⟩

/-! non-vacuity and the role of the order: a = 3 (marked external) listed before / after b = a + 1 -/
def trueConst (aFirst : Bool) : St :=
  let ea : E := { comp := 0, vars := [0], odes := [], all := [0], lhs := some (0, false), rhs := none }
  let eb : E := { comp := 0, vars := [1, 0], odes := [], all := [1, 0], lhs := some (1, false), rhs := none }
  { vars := [⟨.unknown, none, true, 0⟩, ⟨.unknown, none, false, 0⟩], eqs := if aFirst then [ea, eb] else [eb, ea] }

example : (analyse (trueConst true)).eqs.map (·.ty) = [.trueConstant, .algebraic] := by decide
example : (analyse (trueConst false)).eqs.map (·.ty) = [.algebraic, .trueConstant] := by decide
example : ((analyse (trueConst true)).vars.map (·.ty)) = [.ctc, .algebraic] := by decide

/-! non-vacuity: y = x + 1 with x unknown is underconstrained; marking x makes it valid -/
def under (ext : Bool) : St :=
  { vars := [⟨.unknown, none, ext, 0⟩, ⟨.unknown, none, false, 0⟩],
    eqs := [{ comp := 0, vars := [1, 0], odes := [], all := [1, 0], lhs := some (1, false), rhs := none }] }

example : modelType (analyse (under false)) = .underconstrained := by decide
example : modelType (analyse (under true)) = .algebraic := by decide
example : (analyse (under true)).vars.map (·.ty) = [.constant, .algebraic] := by decide

end Cellml.Props.C20
