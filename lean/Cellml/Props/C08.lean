/-
  C08 — unit compatibility and scaling obey the algebra of units: property theorems.
  Model: `Cellml/Units/Model.lean` (= units.cpp), standard tables regenerated from utilities.h.
-/
import Cellml.Units.Proofs2
import Cellml.Generated.StdUnits
namespace Cellml.Props.C08
open Cellml.Units

variable (cx : Ctx) (env : List Def)

/-- C08-1: compatible ⇔ both defined and the same exponents of every base dimension (SI or user-defined),
    `dimensionless` ignored -/
theorem C08_compatible_iff (a b : Operand) :
    compatible cx env a b = true ↔
      ∃ f g, opB cx env a = some f ∧ opB cx env b = some g ∧
        ∀ k, k < nDims cx env → k ≠ cx.dimless → f k = g k := by
  unfold compatible
  cases ha : opB cx env a with
  | none => simp
  | some f =>
    cases hb : opB cx env b with
    | none => simp
    | some g =>
      simp only [sameVec_iff]
      exact ⟨fun h => ⟨f, g, rfl, rfl, h⟩, fun ⟨f', g', hf, hg, h⟩ => by cases hf; cases hg; exact h⟩

/-- … hence an equivalence relation on defined units -/
theorem C08_compatible_refl (a : Operand) (h : (opB cx env a).isSome = true) : compatible cx env a a = true := by
  rw [C08_compatible_iff]
  cases ha : opB cx env a with
  | none => simp [ha] at h
  | some f => exact ⟨f, f, rfl, rfl, fun _ _ _ => rfl⟩

theorem C08_compatible_symm (a b : Operand) (h : compatible cx env a b = true) : compatible cx env b a = true := by
  rw [C08_compatible_iff] at *
  obtain ⟨f, g, hf, hg, hk⟩ := h
  exact ⟨g, f, hg, hf, fun k h1 h2 => (hk k h1 h2).symm⟩

theorem C08_compatible_trans (a b c : Operand) (h1 : compatible cx env a b = true) (h2 : compatible cx env b c = true) :
    compatible cx env a c = true := by
  rw [C08_compatible_iff] at *
  obtain ⟨f, g, hf, hg, hk⟩ := h1
  obtain ⟨g', h, hg', hh, hk'⟩ := h2
  rw [hg] at hg'; cases hg'
  exact ⟨f, h, hf, hh, fun k x y => (hk k x y).trans (hk' k x y)⟩

/-- null or undefined units are compatible with nothing -/
theorem C08_compatible_undefined (a b : Operand) (h : opB cx env a = none ∨ opB cx env b = none) :
    compatible cx env a b = false := by
  unfold compatible
  rcases h with h | h
  · rw [h]
  · rw [h]; cases opB cx env a <;> rfl

theorem opB_null : opB cx env Operand.null = none := rfl

/-- C08-2a: the order of unit children is irrelevant (multipliers and exponents of every entry) -/
theorem C08_child_order (n : Nat) (cs cs' : List Child) (hn : env[n]? = some (.compound cs)) (h : cs.Perm cs') (i : Nat) :
    mUnits cx env i = mUnits cx (env.set n (.compound cs')) i ∧
    bUnits cx env i = bUnits cx (env.set n (.compound cs')) i :=
  ⟨mUnits_perm cx env n cs cs' hn h i, bUnits_perm cx env n cs cs' hn h i⟩

/-- C08-2b: indirection through an intermediate units changes nothing -/
theorem C08_indirection (i j : Nat) (hj : j < i) (hi : env[i]? = some (.compound [⟨.user j, 0, 1, 0⟩])) :
    mUnits cx env i = mUnits cx env j ∧ bUnits cx env i = bUnits cx env j :=
  ⟨mUnits_indirect cx env i j hj hi, bUnits_indirect cx env i j hj hi⟩

theorem op_defined_together (a : Operand) : (opM cx env a).isSome = (opB cx env a).isSome := by
  cases a with
  | std i => simp [opM, opB, stdMult, stdVec]
  | user i => exact defined_together cx env i
  | null => rfl

/-- C08-3a: compatible units have a (positive) factor `10^x` -/
theorem C08_factor_of_compatible (a b : Operand) (h : compatible cx env a b = true) :
    ∃ x y, opM cx env a = some x ∧ opM cx env b = some y ∧ factorLog cx env a b = some (y - x) := by
  obtain ⟨f, g, hf, hg, _⟩ := (C08_compatible_iff cx env a b).mp h
  have ha := op_defined_together cx env a
  have hb := op_defined_together cx env b
  rw [hf] at ha; rw [hg] at hb
  cases hx : opM cx env a with
  | none => simp [hx] at ha
  | some x =>
    cases hy : opM cx env b with
    | none => simp [hy] at hb
    | some y => exact ⟨x, y, rfl, rfl, by simp [factorLog, h, hx, hy]⟩

/-- C08-3b: incompatible, undefined or null units: `scalingFactor` is 0 -/
theorem C08_factor_zero (a b : Operand) (h : compatible cx env a b = false) : factorLog cx env a b = none := by
  simp [factorLog, h]

/-- C08-3c: factor(a,b) · factor(b,a) = 1 -/
theorem C08_factor_inverse (a b : Operand) (x : Q) (h : factorLog cx env a b = some x) :
    factorLog cx env b a = some (-x) := by
  have hc : compatible cx env a b = true := by
    cases hc : compatible cx env a b with
    | true => rfl
    | false => simp [factorLog, hc] at h
  obtain ⟨p, q, hp, hq, hf⟩ := C08_factor_of_compatible cx env a b hc
  rw [hf] at h; cases h
  have hc' := C08_compatible_symm cx env a b hc
  simp only [factorLog, hc', if_true, hp, hq]
  congr 1; grind

/-- C08-3d: factor(a,c) = factor(a,b) · factor(b,c) -/
theorem C08_factor_chain (a b c : Operand) (x y : Q) (h1 : factorLog cx env a b = some x)
    (h2 : factorLog cx env b c = some y) : factorLog cx env a c = some (x + y) := by
  have hc1 : compatible cx env a b = true := by
    cases hc : compatible cx env a b with
    | true => rfl
    | false => simp [factorLog, hc] at h1
  have hc2 : compatible cx env b c = true := by
    cases hc : compatible cx env b c with
    | true => rfl
    | false => simp [factorLog, hc] at h2
  obtain ⟨p, q, hp, hq, hf⟩ := C08_factor_of_compatible cx env a b hc1
  obtain ⟨q', r, hq', hr, hf'⟩ := C08_factor_of_compatible cx env b c hc2
  rw [hq] at hq'; cases hq'
  rw [hf] at h1; rw [hf'] at h2; cases h1; cases h2
  have hc3 := C08_compatible_trans cx env a b c hc1 hc2
  simp only [factorLog, hc3, if_true, hp, hr]
  congr 1; grind

/-- C08-3e: equivalent ⇔ compatible with factor 1 -/
theorem C08_equivalent_iff (a b : Operand) :
    equivalent cx env a b = true ↔ compatible cx env a b = true ∧ factorLog cx env a b = some 0 := by
  unfold equivalent
  simp only [beq_iff_eq]
  constructor
  · intro h
    refine ⟨?_, h⟩
    cases hc : compatible cx env a b with
    | true => rfl
    | false => simp [factorLog, hc] at h
  · exact fun h => h.2

/-- C08-4: when prefixes and multipliers sit on children of exponent 1 (everywhere in the environment), the
    code's multiplier is the specification's scale `Σ exponent·(log multiplier + prefix + scale(ref))`, so the
    factor is the ratio of the two SI scales -/
theorem C08_si_ratio (h : ExpOneCarriers env) (i : Nat) : mUnits cx env i = sSpec cx env i :=
  mUnits_eq_sSpec cx env h i

/-- … and the hypothesis is needed: `(milli metre)^2` has code scale 10⁻³ but specification scale 10⁻⁶ -/
theorem C08_si_ratio_needs_hypothesis :
    let cx := Cellml.Generated.StdUnits.ctx
    let metre := (Cellml.Generated.StdUnits.stdNames.findIdx? (· = "metre")).getD 0
    let env := [Def.compound [⟨.std metre, -3, 2, 0⟩]]
    mUnits cx env 0 = some (-3) ∧ sSpec cx env 0 = some (-6) := by
  decide +kernel

/-- C08-6 (tables regenerated from utilities.h): every standard unit reduces to the eight SI base
    dimensions, the names line up, and the prefixes are the SI ones -/
theorem C08_std_tables :
    (∀ s ∈ Cellml.Generated.StdUnits.stds, ∀ p ∈ s.base, p.1 < Cellml.Generated.StdUnits.baseNames.length) ∧
    Cellml.Generated.StdUnits.stds.length = Cellml.Generated.StdUnits.stdNames.length ∧
    (∀ b ∈ Cellml.Generated.StdUnits.baseNames, b ∈ Cellml.Generated.StdUnits.stdNames) ∧
    Cellml.Generated.StdUnits.prefixes =
      [("yotta", 24, true), ("zetta", 21, true), ("exa", 18, true), ("peta", 15, true), ("tera", 12, true),
       ("giga", 9, true), ("mega", 6, true), ("kilo", 3, true), ("hecto", 2, true), ("deca", 1, true),
       ("deci", -1, true), ("centi", -2, true), ("milli", -3, true), ("micro", -6, true), ("nano", -9, true),
       ("pico", -12, true), ("femto", -15, true), ("atto", -18, true), ("zepto", -21, true), ("yocto", -24, true),
       ("", 0, true), ("7", 7, true), ("-12", -12, true)] := by
  decide +kernel

/-! non-vacuity: `km` via an intermediate units vs. `metre`: compatible, factor 10^-3, not equivalent -/
example :
    let cx := Cellml.Generated.StdUnits.ctx
    let metre := (Cellml.Generated.StdUnits.stdNames.findIdx? (· = "metre")).getD 0
    let env := [Def.compound [⟨.std metre, 3, 1, 0⟩], Def.compound [⟨.user 0, 0, 1, 0⟩]]
    compatible cx env (.user 1) (.std metre) = true ∧ factorLog cx env (.user 1) (.std metre) = some (-3) ∧
    equivalent cx env (.user 1) (.std metre) = false ∧ ExpOneCarriers env := by
  refine ⟨by decide +kernel, by decide +kernel, by decide +kernel, ?_⟩
  intro i cs hi c hc
  match i with
  | 0 => simp at hi; subst hi; simp at hc; subst hc; exact Or.inl rfl
  | 1 => simp at hi; subst hi; simp at hc; subst hc; exact Or.inl rfl
  | (k+2) => simp at hi

end Cellml.Props.C08

namespace Cellml.Props.C08
open Cellml.Units

variable (cx : Ctx) (env : List Def)

/-! ### `Units::equivalent` is itself an equivalence relation (corollaries of C08-1 … C08-3e) -/

/-- C08-3f: factor(a,a) = 1 for every defined units -/
theorem C08_factor_self (a : Operand) (h : (opB cx env a).isSome = true) : factorLog cx env a a = some 0 := by
  obtain ⟨x, y, hx, hy, hf⟩ := C08_factor_of_compatible cx env a a (C08_compatible_refl cx env a h)
  rw [hx] at hy; cases hy
  rw [hf]; congr 1; grind

/-- C08-3g: `Units::equivalent` is reflexive on defined units, symmetric and transitive -/
theorem C08_equivalent_refl (a : Operand) (h : (opB cx env a).isSome = true) : equivalent cx env a a = true :=
  (C08_equivalent_iff cx env a a).mpr ⟨C08_compatible_refl cx env a h, C08_factor_self cx env a h⟩

theorem C08_equivalent_symm (a b : Operand) (h : equivalent cx env a b = true) : equivalent cx env b a = true := by
  obtain ⟨hc, hf⟩ := (C08_equivalent_iff cx env a b).mp h
  refine (C08_equivalent_iff cx env b a).mpr ⟨C08_compatible_symm cx env a b hc, ?_⟩
  have := C08_factor_inverse cx env a b 0 hf
  simpa using this

theorem C08_equivalent_trans (a b c : Operand) (h1 : equivalent cx env a b = true) (h2 : equivalent cx env b c = true) :
    equivalent cx env a c = true := by
  obtain ⟨hc1, hf1⟩ := (C08_equivalent_iff cx env a b).mp h1
  obtain ⟨hc2, hf2⟩ := (C08_equivalent_iff cx env b c).mp h2
  refine (C08_equivalent_iff cx env a c).mpr ⟨C08_compatible_trans cx env a b c hc1 hc2, ?_⟩
  have := C08_factor_chain cx env a b c 0 0 hf1 hf2
  rw [this]; congr 1; grind

/-- C08-1': the verdict does not depend on which units is asked about which -/
theorem C08_compatible_comm (a b : Operand) : compatible cx env a b = compatible cx env b a := by
  rw [Bool.eq_iff_iff]
  exact ⟨C08_compatible_symm cx env a b, C08_compatible_symm cx env b a⟩

/-- C08-3h: `scalingFactor` is non-zero exactly for compatible units -/
theorem C08_factor_defined_iff (a b : Operand) : (factorLog cx env a b).isSome = compatible cx env a b := by
  cases hc : compatible cx env a b with
  | false => simp [C08_factor_zero cx env a b hc]
  | true =>
    obtain ⟨x, y, _, _, hf⟩ := C08_factor_of_compatible cx env a b hc
    simp [hf]

end Cellml.Props.C08
