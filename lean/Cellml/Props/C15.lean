/-
  C15 — issue reporting is coherent: property theorems.

  Model: `Cellml/Logger/Model.lean` (= `LoggerImpl` of src/logger.cpp, tied by engine `logger`
  through hook H1 on every logger operation of every traced service call).
-/
import Cellml.Logger.Proofs2
import Cellml.Generated.Rules
import Cellml.Generated.ElementTypes
namespace Cellml.Props.C15
open Cellml.Logger

/-- C15-1a: a fresh logger is coherent -/
theorem C15_init : Coherent init := coherent_init

/-- C15-1b: `addIssue` preserves coherence -/
theorem C15_add (s : LState) (l : Level) (h : Coherent s) : Coherent (add s l) := coherent_add s l h

/-- C15-1c: `removeAllIssues` establishes coherence -/
theorem C15_removeAll (s : LState) : Coherent (removeAll s) := coherent_removeAll s

/-- C15-2: `removeError` keeps coherence **iff** it erases the last issue (nothing is re-based) -/
theorem C15_removeError_iff (s : LState) (k p : Nat) (h : Coherent s) (hk : s.errs[k]? = some p) :
    Coherent { s with issues := s.issues.eraseIdx p, errs := s.errs.eraseIdx k } ↔ p + 1 = s.issues.length :=
  removeError_coherent_iff s k p h hk

/-- C15-2': every history of logger operations whose removals are tail removals (what the importer
    does; asserted on every real trace by the engine) never throws and ends in a coherent logger -/
theorem C15_histories (ops : List Op) (h : tailRemovalsOnly init ops = true) :
    ∃ s, run init ops = some s ∧ Coherent s := by
  have hs := run_isSome ops init h
  cases hr : run init ops with
  | none => simp [hr] at hs
  | some s => exact ⟨s, rfl, coherent_run ops init s coherent_init h hr⟩

/-- C15-3a: issueCount = errorCount + warningCount + messageCount -/
theorem C15_counts (s : LState) (h : Coherent s) :
    issueCount s = errorCount s + warningCount s + messageCount s := counts s h

/-- C15-3b: `error(i)` / `warning(i)` / `message(i)` enumerate exactly the issues of that level, in
    order; an index past the end gives null (`none` on both sides) -/
theorem C15_error_enumerates (s : LState) (h : Coherent s) (i : Nat) :
    (errorAt s i).bind (s.issues[·]?) = (s.issues.filter (· = Level.error))[i]? := errorAt_enumerates s h i
theorem C15_warning_enumerates (s : LState) (h : Coherent s) (i : Nat) :
    (warningAt s i).bind (s.issues[·]?) = (s.issues.filter (· = Level.warning))[i]? := warningAt_enumerates s h i
theorem C15_message_enumerates (s : LState) (h : Coherent s) (i : Nat) :
    (messageAt s i).bind (s.issues[·]?) = (s.issues.filter (· = Level.message))[i]? := messageAt_enumerates s h i

theorem C15_out_of_range (s : LState) (i : Nat) (h : errorCount s ≤ i) : errorAt s i = none := by
  unfold errorAt errorCount at *; simp; omega

/-- C15-4a (table regenerated from issue.h / issue.cpp): every `ReferenceRule` enumerator has a row
    of four strings in `ruleToInformation`, so `referenceHeading()` and `url()` cannot throw -/
theorem C15_rules_total :
    ∀ r ∈ Cellml.Generated.Rules.allRules, (Cellml.Generated.Rules.rowKeys.lookup r) = some 4 := by
  decide +kernel

/-- C15-4b: every `CellmlElementType` enumerator has a string -/
theorem C15_element_types_total :
    ∀ t ∈ Cellml.Generated.ElementTypes.allElementTypes,
      (Cellml.Generated.ElementTypes.stringRows.lookup t).isSome = true := by
  decide +kernel

/-- the three levels of the header are the three levels of the model -/
theorem C15_levels : Cellml.Generated.Rules.allLevels = ["ERROR", "WARNING", "MESSAGE"] := by decide

/-! non-vacuity: a history with a tail removal (the importer's pruning loop) and one without -/
example : tailRemovalsOnly init [.add .message, .add .error, .add .error, .removeError 1, .removeError 0, .add .warning] = true := by decide
example : tailRemovalsOnly init [.add .error, .add .warning, .removeError 0] = false := by decide
/-- the non-tail removal really breaks the observers: `warning(0)` then points past the end -/
example : (run init [.add .error, .add .warning, .removeError 0]).map (fun s => (warningAt s 0).bind (s.issues[·]?)) = some none := by decide

end Cellml.Props.C15

namespace Cellml.Props.C15
open Cellml.Logger

/-! ### indices within and past the range, for all three levels -/

/-- C15-3c: an index within range returns a real issue (not null) and that issue has the level asked for -/
theorem C15_error_in_range (s : LState) (h : Coherent s) (i : Nat) (hi : i < errorCount s) :
    ∃ p, errorAt s i = some p ∧ s.issues[p]? = some Level.error := by
  unfold errorCount at hi
  refine ⟨s.errs[i], by simp [errorAt, hi], ?_⟩
  have hm : s.errs[i] ∈ idx .error s.issues := by rw [← h.1]; exact List.getElem_mem hi
  exact (mem_idx _ _ _).mp hm

theorem C15_warning_in_range (s : LState) (h : Coherent s) (i : Nat) (hi : i < warningCount s) :
    ∃ p, warningAt s i = some p ∧ s.issues[p]? = some Level.warning := by
  unfold warningCount at hi
  refine ⟨s.warns[i], by simp [warningAt, hi], ?_⟩
  have hm : s.warns[i] ∈ idx .warning s.issues := by rw [← h.2.1]; exact List.getElem_mem hi
  exact (mem_idx _ _ _).mp hm

theorem C15_message_in_range (s : LState) (h : Coherent s) (i : Nat) (hi : i < messageCount s) :
    ∃ p, messageAt s i = some p ∧ s.issues[p]? = some Level.message := by
  unfold messageCount at hi
  refine ⟨s.msgs[i], by simp [messageAt, hi], ?_⟩
  have hm : s.msgs[i] ∈ idx .message s.issues := by rw [← h.2.2]; exact List.getElem_mem hi
  exact (mem_idx _ _ _).mp hm

theorem C15_warning_out_of_range (s : LState) (i : Nat) (h : warningCount s ≤ i) : warningAt s i = none := by
  unfold warningAt warningCount at *; simp; omega

theorem C15_message_out_of_range (s : LState) (i : Nat) (h : messageCount s ≤ i) : messageAt s i = none := by
  unfold messageAt messageCount at *; simp; omega

/-- C15-3d: no issue is reported at two indices of one level (the per-level lists have no duplicates) -/
theorem C15_no_issue_twice (s : LState) (h : Coherent s) : s.errs.Nodup ∧ s.warns.Nodup ∧ s.msgs.Nodup := by
  obtain ⟨h1, h2, h3⟩ := h
  rw [h1, h2, h3]
  exact ⟨idx_nodup _ _, idx_nodup _ _, idx_nodup _ _⟩

/-- C15-1d: after `removeAllIssues` every count is 0 and every accessor returns null, whatever was logged before -/
theorem C15_removeAll_empty (s : LState) (i : Nat) :
    issueCount (removeAll s) = 0 ∧ errorCount (removeAll s) = 0 ∧ warningCount (removeAll s) = 0 ∧
    messageCount (removeAll s) = 0 ∧ errorAt (removeAll s) i = none ∧ warningAt (removeAll s) i = none ∧
    messageAt (removeAll s) i = none := by
  simp [removeAll, init, issueCount, errorCount, warningCount, messageCount, errorAt, warningAt, messageAt]

end Cellml.Props.C15
