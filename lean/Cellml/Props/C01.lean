/-
  C01 — no input can crash, hang or corrupt the processing pipeline.

  No executable model expresses "no undefined behaviour in C++"; what a theorem can carry is the logic that the crashes of
  this code base came from, and that is what is collected here:

  * **recursion over units terminates** (`walk_terminates`): the guarded walk of `Cellml/Crash/Model.lean` — the scheme
    now used by every recursion over unit references — never exhausts the fuel `units.length + 1`, for every model:
    self-references, longer cycles and dangling references included; the unguarded recursion of the pinned tree
    does run out on the smallest cycle whatever the fuel (`unguarded_diverges`);
  * **numeric text never reaches std::stod / std::stoi unguarded**: C16 (`C16_convertToDouble_never_throws`,
    `C16_convertToInt_never_throws`), restated here as `numbers_never_throw`;
  * **the other loops and recursions terminate**: import resolution (C07 `resolve_terminates`), the analyser's
    classification loop (C05 `loop_complete`), the fresh-name search (C06 `fresh_not_used`), restated as
    `pipeline_loops_terminate`.
  Memory safety and the absence of other uncaught exceptions are observed, not proved: `checks/C01.py` runs every public
  stage on hostile inputs (structured mutations and byte damage of generated documents, strict and permissive) in a
  child process, under the address and undefined-behaviour sanitizers at the thorough tier.
-/
import Cellml.Crash.Model
import Cellml.Import.Proofs
import Cellml.Props.C16
import Cellml.Props.C07
import Cellml.Props.C05
import Cellml.Props.C06
namespace Cellml.Props.C01
open Cellml.Crash

theorem addR_ne_fuel {a b : R} (ha : a ≠ .fuel) (hb : b ≠ .fuel) : addR a b ≠ .fuel := by
  cases a <;> cases b <;> simp_all [addR]

theorem foldl_ne_fuel (l : List R) (acc : R) (hacc : acc ≠ .fuel) (hl : ∀ r ∈ l, r ≠ .fuel) : l.foldl addR acc ≠ .fuel := by
  induction l generalizing acc with
  | nil => simpa
  | cons x xs ih =>
    simp only [List.foldl_cons]
    exact ih _ (addR_ne_fuel hacc (hl x (by simp))) (fun r hr => hl r (by simp [hr]))

theorem lookup_mem_keys {us : Units} {k : String} {v : List String} (h : us.lookup k = some v) : k ∈ us.map (·.1) := by
  induction us with
  | nil => simp [List.lookup] at h
  | cons x xs ih =>
    obtain ⟨a, b⟩ := x
    simp only [List.lookup] at h
    by_cases hk : k == a
    · have : k = a := by simpa using hk
      subst this; simp
    · simp only [hk] at h
      exact List.mem_cons_of_mem _ (ih h)

/-- the number of units that are not on the path bounds the depth of the walk -/
theorem walk_ne_fuel (us : Units) : ∀ (n : Nat) (onPath : List String) (name : String),
    ((us.map (·.1)).filter fun u => !onPath.contains u).length < n → walk us n onPath name ≠ .fuel := by
  intro n
  induction n with
  | zero => intro onPath name h; omega
  | succ n ih =>
    intro onPath name h
    unfold walk
    split
    · simp
    · rename_i hon
      cases hlk : us.lookup name with
      | none => simp
      | some refs =>
        simp only []
        apply foldl_ne_fuel
        · simp
        · intro r hr
          obtain ⟨ref, _, rfl⟩ := List.mem_map.mp hr
          apply ih
          have hdec := Cellml.Import.length_filter_lt (us.map (·.1)) (fun u => !onPath.contains u) (fun u => !(name :: onPath).contains u) name
            (by intro x hx; simp only [List.contains_cons, Bool.not_eq_true', Bool.or_eq_false_iff] at hx
                have : ¬ x ∈ onPath := by simpa using hx.2
                simpa using this)
            (lookup_mem_keys hlk)
            (by have : ¬ name ∈ onPath := by simpa using hon
                simpa using this)
            (by simp)
          omega

/-- **the guarded recursion over unit references terminates** on every model -/
theorem walk_terminates (us : Units) (name : String) : walk us (us.length + 1) [] name ≠ .fuel := by
  apply walk_ne_fuel
  have := List.length_filter_le (fun u => !([] : List String).contains u) (us.map (·.1))
  simp only [List.length_map] at this
  omega

/-- the unguarded recursion runs out of any fuel on units that refer to themselves -/
theorem unguarded_diverges (n : Nat) : walkUnguarded [("a", ["a"])] n "a" = .fuel := by
  induction n with
  | zero => rfl
  | succ n ih =>
    unfold walkUnguarded
    simp [List.lookup, ih, addR]

/-- numeric attribute text and cn content: the guarded conversions never let std::stod / std::stoi throw -/
theorem numbers_never_throw (s : List Char) :
    Cellml.Num.convertToDoubleClass s ≠ .throws ∧ Cellml.Num.convertToIntClass s ≠ .throws :=
  ⟨Cellml.Props.C16.C16_convertToDouble_never_throws s, Cellml.Props.C16.C16_convertToInt_never_throws s⟩

/-- the loops of the later stages: import resolution, the analyser's classification, the fresh-name search -/
theorem pipeline_loops_terminate :
    (∀ (w : Cellml.Import.World) (origin : String) (h : String × String → Nat), Cellml.Import.Ranked w h (Cellml.Import.compBound w) →
      ∀ r ∈ Cellml.Import.resolve w origin, r ≠ .fuel)
    ∧ (∀ s : Cellml.Analyser.St, ∃ r, Cellml.Analyser.loopO (Cellml.Analyser.fuelFor s) s 1 false = some r)
    ∧ (∀ (used : List String) (base : String), ¬ Cellml.Flatten.fresh used base ∈ used) :=
  ⟨Cellml.Props.C07.resolve_terminates,
   fun s => let ⟨r, h, _⟩ := Cellml.Props.C05.loop_complete s; ⟨r, h⟩,
   Cellml.Props.C06.fresh_not_used⟩

/-! non-vacuity: a model with a self-reference, a three-cycle and a dangling reference -/
example : walk [("a", ["a"]), ("b", ["c", "x"]), ("c", ["d"]), ("d", ["b", "a"])] 5 [] "b" = .done 4 := by decide

end Cellml.Props.C01
