/-
  C02 — printing then parsing preserves content: property theorems (attribute text level).

  Model: `Cellml/Xml/Escape.lean`, tied to `escapeAttributeValue` of src/printer.cpp by engine `xml` (random and
  adversarial strings).  The structural round trip (every element and attribute, connections, encapsulation, resets,
  imports, MathML) is checked on the implementation: generated documents over the whole feature space are parsed,
  printed, parsed again and printed again (`checks/C02.py`).
-/
import Cellml.Xml.Escape
import Cellml.Xml.Attrs
import Cellml.Generated.Attributes
namespace Cellml.Props.C02
open Cellml.Xml

theorem unescape_plain (c : Char) (r : List Char) (h : c ≠ '&') : unescape (c :: r) = c :: unescape r := by
  conv => lhs; unfold unescape
  split <;> simp_all

theorem wellFormed_plain (c : Char) (r : List Char) (h : c ≠ '&') :
    wellFormed (c :: r) = (c ≠ '<' && c ≠ '"' && wellFormed r) := by
  conv => lhs; unfold wellFormed
  split <;> simp_all

theorem escape_cons (c : Char) (r : List Char) : escape (c :: r) = escapeChar c ++ escape r := by
  simp [escape]

/-- **round trip of attribute text**: what the printer's escaping writes is decoded back to the original text -/
theorem unescape_escape (s : List Char) : unescape (escape s) = s := by
  induction s with
  | nil => rfl
  | cons c r ih =>
    rw [escape_cons]
    by_cases h1 : c = '&'
    · subst h1; simp [escapeChar, unescape, ih]
    · by_cases h2 : c = '<'
      · subst h2; simp [escapeChar, unescape, ih]
      · by_cases h3 : c = '>'
        · subst h3; simp [escapeChar, unescape, ih]
        · by_cases h4 : c = '"'
          · subst h4; simp [escapeChar, unescape, ih]
          · have : escapeChar c = [c] := by simp [escapeChar, h1, h2, h3, h4]
            rw [this, List.singleton_append, unescape_plain c _ h1, ih]

/-- the escaped text is always a well-formed attribute value -/
theorem wellFormed_escape (s : List Char) : wellFormed (escape s) = true := by
  induction s with
  | nil => rfl
  | cons c r ih =>
    rw [escape_cons]
    by_cases h1 : c = '&'
    · subst h1; simp [escapeChar, wellFormed, ih]
    · by_cases h2 : c = '<'
      · subst h2; simp [escapeChar, wellFormed, ih]
      · by_cases h3 : c = '>'
        · subst h3; simp [escapeChar, wellFormed, ih]
        · by_cases h4 : c = '"'
          · subst h4; simp [escapeChar, wellFormed, ih]
          · have : escapeChar c = [c] := by simp [escapeChar, h1, h2, h3, h4]
            rw [this, List.singleton_append, wellFormed_plain c _ h1, ih]
            simp [h2, h4]

theorem length_escape_ge (s : List Char) : s.length ≤ (escape s).length := by
  induction s with
  | nil => simp [escape]
  | cons c r ih =>
    rw [escape_cons]
    have : 1 ≤ (escapeChar c).length := by unfold escapeChar; split <;> (try split) <;> (try split) <;> (try split) <;> simp
    simp only [List.length_cons, List.length_append]; omega

/-- text is written unchanged exactly when it has none of the four characters -/
theorem escape_eq_self_iff (s : List Char) : escape s = s ↔ safe s = true := by
  induction s with
  | nil => simp [escape, safe]
  | cons c r ih =>
    rw [escape_cons]
    simp only [safe, List.all_cons, Bool.and_eq_true, decide_eq_true_eq, ne_eq, decide_not, Bool.not_eq_true'] at ih ⊢
    by_cases h1 : c = '&'
    · subst h1; simp [escapeChar]
      intro h; have := congrArg List.length h; have := length_escape_ge r; simp at *; omega
    · by_cases h2 : c = '<'
      · subst h2; simp [escapeChar]
      · by_cases h3 : c = '>'
        · subst h3; simp [escapeChar]
        · by_cases h4 : c = '"'
          · subst h4; simp [escapeChar]
          · have : escapeChar c = [c] := by simp [escapeChar, h1, h2, h3, h4]
            rw [this]
            simp only [List.singleton_append, List.cons.injEq, true_and, h1, h2, h3, h4, decide_false, Bool.false_eq_true]
            simpa [safe] using ih

/-- raw concatenation (what the printer does for every other attribute) is well formed for safe text -/
theorem wellFormed_of_safe (s : List Char) (h : safe s = true) : wellFormed s = true := by
  rw [← (escape_eq_self_iff s).mpr h]; exact wellFormed_escape s

/-! non-vacuity -/
example : escape "m.cellml?a=1&b=2".toList = "m.cellml?a=1&amp;b=2".toList := by decide
example : wellFormed "m.cellml?a=1&b=2".toList = false := by decide
example : unescape "a&lt;b&quot;&apos;&amp;amp;".toList = "a<b\"'&amp;".toList := by decide

/-! ### attributes left out when they have their default value (`<unit>`, `<variable>`) -/

theorem storePrefix_zero : storePrefix "0" = "" := by decide

/-- what `addUnit` stores as a prefix is a fixed point: storing it again changes nothing -/
theorem storePrefix_idem (p : String) : storePrefix (storePrefix p) = storePrefix p := by
  unfold storePrefix
  split
  · decide
  · rename_i h; simp [h]

/-- **round trip of a unit child**: printing the stored attributes and loading them again gives the stored unit back,
    provided the two numbers survive their rendering (`rd (shw x) = some x`) and the prefix is one that `addUnit`
    stores (every stored prefix is: `storePrefix_idem`) -/
theorem unit_roundtrip {N : Type} [DecidableEq N] (one : N) (shw : N → String) (rd : String → Option N) (u : UnitRec N)
    (he : rd (shw u.exponent) = some u.exponent) (hm : rd (shw u.multiplier) = some u.multiplier)
    (hp : storePrefix u.pfx = u.pfx) :
    loadUnit one rd (printUnit one shw u) = u := by
  obtain ⟨r, p, e, m, i⟩ := u
  simp only at he hm hp
  unfold loadUnit printUnit
  by_cases h1 : e = one <;> by_cases h2 : m = one <;> by_cases h3 : p = "" <;> by_cases h4 : i = "" <;>
    simp [h1, h2, h3, h4, loadStep, he, hm, hp, storePrefix_zero] <;> simp_all

/-- an attribute the printer leaves out is exactly one whose value is the parser's default -/
theorem unit_omitted_iff {N : Type} [DecidableEq N] (one : N) (shw : N → String) (u : UnitRec N) :
    ((printUnit one shw u).lookup "exponent" = none ↔ u.exponent = one)
      ∧ ((printUnit one shw u).lookup "multiplier" = none ↔ u.multiplier = one)
      ∧ ((printUnit one shw u).lookup "prefix" = none ↔ u.pfx = "")
      ∧ (printUnit one shw u).lookup "units" = some u.reference := by
  unfold printUnit
  by_cases h1 : u.exponent = one <;> by_cases h2 : u.multiplier = one <;> by_cases h3 : u.pfx = "" <;> by_cases h4 : u.id = "" <;>
    simp [h1, h2, h3, h4, List.lookup]

/-- **round trip of a variable's attributes** (all of them are strings, absent = empty) -/
theorem variable_roundtrip (v : VarRec) : loadVariable (printVariable v) = v := by
  obtain ⟨n, u, iv, itf, i⟩ := v
  unfold loadVariable printVariable
  by_cases h1 : n = "" <;> by_cases h2 : u = "" <;> by_cases h3 : iv = "" <;> by_cases h4 : itf = "" <;> by_cases h5 : i = "" <;>
    simp [h1, h2, h3, h4, h5, loadVarStep]

/-! ### the attribute vocabulary of printer and parser (tables regenerated from printer.cpp and parser.cpp) -/

/-- T-tie: every attribute name the printer writes on an element is one the parser looks for on that element, and every
    attribute the parser looks for is written back by the printer — except the CellML 1.x attributes: the two interface
    attributes, which are merged into `interface` (C14), and the `offset` of a unit, which CellML 2.0 cannot represent and
    the permissive parser drops with a message (fix 61e3219) -/
theorem attribute_vocabulary :
    (∀ r ∈ Cellml.Generated.Attributes.rows, ∀ a ∈ r.2.2, a ∈ r.2.1)
      ∧ (∀ r ∈ Cellml.Generated.Attributes.rows, ∀ a ∈ r.2.1, a ∈ r.2.2 ∨ a = "public_interface" ∨ a = "private_interface" ∨ a = "offset")
      ∧ Cellml.Generated.Attributes.rows.map (·.1) = ["model", "component", "units", "variable", "connection", "encapsulation", "import", "reset"]
      ∧ (∀ r ∈ Cellml.Generated.Attributes.rows, r.2.2 ≠ []) := by
  decide +kernel

/-! non-vacuity: numbers 1 and 2 with their renderings -/
def exShow (n : Nat) : String := if n = 2 then "2" else "1"
def exRead (s : String) : Option Nat := if s = "2" then some 2 else if s = "1" then some 1 else none
example : loadUnit 1 exRead (printUnit 1 exShow ⟨"metre", "milli", 2, 1, "id1"⟩) = ⟨"metre", "milli", 2, 1, "id1"⟩ := by decide
example : printUnit 1 exShow ⟨"metre", "", 1, 1, ""⟩ = [("units", "metre")] := by decide
example : (loadUnit 1 exRead [("prefix", "00"), ("units", "second")]).pfx = "" := by decide
example : exRead (exShow 2) = some 2 ∧ storePrefix "milli" = "milli" := by decide

end Cellml.Props.C02
