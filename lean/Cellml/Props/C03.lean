/-
  C03 — generated code computes what the model's equations say: property theorems (expression level).

  Model: `Cellml/Gen/Model.lean` (`genDoc`, `gen`), tied byte for byte to `Generator::equationCode` by engine
  `expr`; profiles regenerated from the getters (`Cellml/Generated/Profiles.lean`).  Target grammar and values:
  `Cellml/Gen/Grammar.lean`; meaning of an expression tree: `Cellml/Gen/Spec.lean`.

  The statement: for every expression tree the analyser can build, the token sequence of the generated text is an
  expression of the target language whose value — whatever the identifiers and functions denote — is the value of
  the tree.  All nesting and associativity patterns, all operators, both profiles; no bound on depth.
-/
import Cellml.Gen.Sound
import Cellml.Generated.Profiles
namespace Cellml.Props.C03
open Cellml.Gen Cellml.Generated.Profiles

/-- sufficiently parenthesised, for every expression tree and every supported profile -/
theorem gen_ok (p : Profile) (hs : Supported p) (I : Interp) (t : Ast) (ht : exprOK .expr t = true) :
    ok p.style (genDoc p t) = true :=
  ((inv_all (I := I) hs t).1 ht).ok

/-- the document's own value is the value of the tree (parentheses, special cases and operand order preserve meaning) -/
theorem gen_value (p : Profile) (hs : Supported p) (I : Interp) (t : Ast) (ht : exprOK .expr t = true) :
    evalDoc I (genDoc p t) = evalAst p I (I.atom p.nan) t :=
  (((inv_all (I := I) hs t).1 ht).ev _).symm

/-- **main theorem**: the generated tokens are an expression of the target grammar with the value of the tree -/
theorem gen_parses (p : Profile) (hs : Supported p) (I : Interp) (t : Ast) (ht : exprOK .expr t = true) :
    Derives p.style I 0 (toks p.style (genDoc p t)) (evalAst p I (I.atom p.nan) t) := by
  have h := printer (st := p.style) (I := I) (genDoc p t) (gen_ok p hs I t ht)
  rw [gen_value p hs I t ht] at h
  exact derives_down h 0 (Nat.zero_le _)

/-- the C and the Python profile of the current tree are supported profiles (flags and conditional templates read
    from the regenerated table) -/
theorem profC_supported : Supported profC := by
  refine ⟨rfl, rfl, rfl, Or.inl ?_⟩
  decide
theorem profPy_supported : Supported profPy := by
  refine ⟨rfl, rfl, rfl, Or.inr ?_⟩
  decide

/-- the operator spellings the grammar's levels stand for (a profile change that respells an operator, say `&&`
    into `&`, keeps every theorem above true and breaks this table) -/
theorem profC_spelling :
    profC.opStr .or = " || " ∧ profC.opStr .and = " && " ∧ profC.opStr .eq = " == " ∧ profC.opStr .neq = " != "
      ∧ profC.opStr .lt = " < " ∧ profC.opStr .leq = " <= " ∧ profC.opStr .gt = " > " ∧ profC.opStr .geq = " >= "
      ∧ profC.opStr .plus = "+" ∧ profC.opStr .minus = "-" ∧ profC.opStr .times = "*" ∧ profC.opStr .divide = "/"
      ∧ profC.opStr .not = "!" ∧ profC.hasXor = false ∧ profC.hasPower = false := by
  decide
theorem profPy_spelling :
    profPy.opStr .plus = "+" ∧ profPy.opStr .minus = "-" ∧ profPy.opStr .times = "*" ∧ profPy.opStr .divide = "/"
      ∧ profPy.hasEq = false ∧ profPy.hasNeq = false ∧ profPy.hasLt = false ∧ profPy.hasLeq = false ∧ profPy.hasGt = false
      ∧ profPy.hasGeq = false ∧ profPy.hasAnd = false ∧ profPy.hasOr = false ∧ profPy.hasXor = false ∧ profPy.hasNot = false
      ∧ profPy.hasPower = false := by
  decide

/-- C profile: the generated text is a C expression with the value of the tree -/
theorem c_profile (I : Interp) (t : Ast) (ht : exprOK .expr t = true) :
    Derives .c I 0 (toks .c (genDoc profC t)) (evalAst profC I (I.atom profC.nan) t) := by
  have := gen_parses profC profC_supported I t ht
  have hst : profC.style = .c := by decide
  rwa [hst] at this

/-- Python profile: the generated text is a Python expression with the value of the tree -/
theorem python_profile (I : Interp) (t : Ast) (ht : exprOK .expr t = true) :
    Derives .py I 0 (toks .py (genDoc profPy t)) (evalAst profPy I (I.atom profPy.nan) t) := by
  have := gen_parses profPy profPy_supported I t ht
  have hst : profPy.style = .py := by decide
  rwa [hst] at this

/-- the grammar facts the proof rests on, restated: `a + (b - c)` may be written `a + b - c`, `-(a*b)` is `-a*b` -/
theorem grammar_assoc {st : CondStyle} {I : Interp} {o : Op} (ho : o.assoc = true) {L R a b}
    (hL : Derives st I o.lvl L a) (hR : Derives st I o.lvl R b) (hh : R.head? ≠ some (.op o)) :
    Derives st I o.lvl (L ++ .op o :: R) (o.sem a b) :=
  derives_assoc ho hL hR rfl hh

/-! non-vacuity: the shapes named in the property statement are expression trees, and the theorems apply to them -/
def x (n : String) : Ast := .ci n
/-- `not(a and b)` -/
def tNotAnd : Ast := .node .NOT (.node .AND (x "a") (x "b")) .nul
/-- `a < (b < d)` -/
def tLtLt : Ast := .node .LT (x "a") (.node .LT (x "b") (x "d"))
/-- `a / -(b*c)` -/
def tDivNeg : Ast := .node .DIVIDE (x "a") (.node .MINUS (.node .TIMES (x "b") (x "c")) .nul)
/-- a piece whose value is a piecewise statement -/
def tNested : Ast :=
  .node .PIECEWISE (.node .PIECE (.node .PIECEWISE (.node .PIECE (x "a") (x "c1")) (.node .OTHERWISE (x "b") .nul)) (x "c"))
    (.node .OTHERWISE (x "d") .nul)

example : exprOK .expr tNotAnd = true ∧ exprOK .expr tLtLt = true ∧ exprOK .expr tDivNeg = true ∧ exprOK .expr tNested = true := by
  decide
example : genDoc profC tNotAnd = .pre .not (.paren (.bin .and (.atom false "a") (.atom false "b"))) := by decide
example : genDoc profC tLtLt = .bin .lt (.atom false "a") (.paren (.bin .lt (.atom false "b") (.atom false "d"))) := by decide
example : genDoc profC tDivNeg
    = .bin .divide (.atom false "a") (.paren (.pre .minus (.bin .times (.atom false "b") (.atom false "c")))) := by decide
example : ∃ a b, genDoc profPy tNested = .cond (.atom false "c") (.paren a) b := ⟨_, _, rfl⟩

end Cellml.Props.C03
