/-
  C11 — `clone()` is a faithful, independent deep copy: property theorems.
  Model: `Cellml/Clone/Model.lean`, tied by engine `clone` (content dumps of original and clone, pointer
  disjointness of the two object graphs, equals, parent, equivalences by position).
-/
import Cellml.Clone.Proofs
import Cellml.Clone.Bridge
import Cellml.Generated.CloneFields
namespace Cellml.Props.C11
open Cellml.Clone

/-- C11-1: content is preserved by the clone of a units, a variable, a reset (including whether its order is set)
    and a component tree (including encapsulation ids and resets re-targeted by index) -/
theorem C11_units (e : Nat) (u : Units) : eUnits (cloneUnits true e u) = eUnits u := eUnits_clone true e u
theorem C11_variable (e : Nat) (v : Variable) : eVariable (cloneVariable true e v) = eVariable v := eVariable_clone true e v
theorem C11_reset (e : Nat) (r : Reset) : eReset (cloneReset true e r) = eReset r := eReset_clone true e r
theorem C11_reset_order (e : Nat) (r : Reset) : (cloneReset true e r).order = r.order := rfl
theorem C11_component (e f : Nat) (c : Component) (h : WithinDepth f c) :
    eComponent f (cloneComponent true e f c) = eComponent f c := eComponent_clone true e f c h

/-- every variable of the tree that names units defined in the model holds units with the content of the model's -/
def Consistent (mu : List Units) : Nat → Component → Prop
  | 0, _ => True
  | f+1, .mk _ _ _ _ _ _ vars _ kids =>
    (∀ v ∈ vars, ∀ u, v.units = some u → ∀ m, mu.find? (·.name = u.name) = some m → eUnits m = eUnits u) ∧
    (∀ k ∈ kids, Consistent mu f k)

def eModel (f : Nat) (m : Model) : Model :=
  { m with ep := 0, units := m.units.map eUnits, comps := m.comps.map (eComponent f) }

theorem find_clone (s : Bool) (e : Nat) (us : List Units) (n : String) :
    (us.map (cloneUnits s e)).find? (·.name = n) = (us.find? (·.name = n)).map (cloneUnits s e) := by
  induction us with
  | nil => rfl
  | cons u us ih =>
    simp only [List.map_cons, List.find?_cons]
    have : (cloneUnits s e u).name = u.name := rfl
    rw [this]
    split <;> simp [ih]

theorem eVariable_relink (s : Bool) (e : Nat) (mu : List Units) (v : Variable)
    (h : ∀ u, v.units = some u → ∀ m, mu.find? (·.name = u.name) = some m → eUnits m = eUnits u) :
    eVariable (relinkVariable (mu.map (cloneUnits s e)) (cloneVariable s e v)) = eVariable v := by
  obtain ⟨ep, id, name, ini, ifc, units⟩ := v
  cases units with
  | none => simp [relinkVariable, cloneVariable, eVariable]
  | some u =>
    simp only [relinkVariable, cloneVariable, Option.map_some]
    have hn : (cloneUnits s e u).name = u.name := rfl
    rw [hn, find_clone]
    cases hf : mu.find? (·.name = u.name) with
    | none => simp [eVariable, eUnits_clone]
    | some m =>
      have := h u rfl m hf
      simp [eVariable, eUnits_clone, this]

theorem eComponent_relink (s : Bool) (e : Nat) (mu : List Units) : ∀ (f : Nat) (c : Component), WithinDepth f c →
    Consistent mu f c →
    eComponent f (relinkComponent (mu.map (cloneUnits s e)) f (cloneComponent s e f c)) = eComponent f c
  | 0, _, h, _ => h.elim
  | f+1, .mk ep id name encId math imp vars resets kids, h, hc => by
    simp only [cloneComponent, relinkComponent, eComponent, eImp_clone, List.map_map]
    congr 1
    · exact map_congr_mem _ _ _ (fun v hv => eVariable_relink s e mu v (hc.1 v hv))
    · exact map_congr_mem _ _ _ (fun r _ => eReset_clone s e r)
    · exact map_congr_mem _ _ _ (fun k hk => eComponent_relink s e mu f k (h k hk) (hc.2 k hk))

/-- C11-2: the clone of a model has the content of the model — names, ids, encapsulation ids, units, the component
    hierarchy with variables and resets, and **all variable equivalences** (by position) — whenever variables that
    name units of the model hold units with that content (what the parser and `linkUnits` establish) -/
theorem C11_model (e f : Nat) (m : Model) (hd : ∀ c ∈ m.comps, WithinDepth f c) (hc : ∀ c ∈ m.comps, Consistent m.units f c) :
    eModel f (cloneModel true e f m) = eModel f m := by
  simp only [eModel, cloneModel, List.map_map]
  congr 1
  · exact map_congr_mem _ _ _ (fun u _ => eUnits_clone true e u)
  · exact map_congr_mem _ _ _ (fun c hcm => eComponent_relink true e m.units f c (hd c hcm) (hc c hcm))

theorem C11_model_equivalences (e f : Nat) (m : Model) : (cloneModel true e f m).equivs = m.equivs := rfl

/-- C11-3: independence — every entity reachable from the clone was created by the `clone()` call … -/
theorem C11_fresh_component (e f : Nat) (c : Component) : ∀ p ∈ epsComponent f (cloneComponent true e f c), p = e :=
  epsComponent_clone true e f c
theorem C11_fresh_units (e : Nat) (u : Units) : ∀ p ∈ epsUnits (cloneUnits true e u), p = e := epsUnits_clone true e u
theorem C11_fresh_variable (e : Nat) (v : Variable) : ∀ p ∈ epsVariable (cloneVariable true e v), p = e := epsVariable_clone true e v
theorem C11_fresh_reset (e : Nat) (r : Reset) : ∀ p ∈ epsReset (cloneReset true e r), p = e := epsReset_clone true e r

/-- … **except** import sources, which the current code shares between original and clone (known finding):
    the clone's import sources are the original's objects; cloning them (`Fixed_cloneImportSource`) makes them fresh -/
theorem C11_import_sources_shared (e : Nat) (i : Imp) : impEps (cloneImp true e i) = impEps i := impEps_shared e i
theorem C11_import_sources_fixed (e : Nat) (i : Imp) : ∀ p ∈ impEps (cloneImp false e i), p = e := impEps_fixed e i

/-- refutation of full independence on the current tree: an imported units created in epoch 3, cloned in epoch 7,
    still holds the import source of epoch 3 -/
theorem C11_independence_refuted :
    impEps (cloneUnits true 7 ⟨3, "", "u", ⟨some ⟨3, "", "lib.cellml"⟩, "r"⟩, []⟩).imp = [3] := by decide

/-! non-vacuity -/
example : WithinDepth 2 (.mk 1 "" "c" "e1" "" ⟨none, ""⟩ [] [] [.mk 1 "" "k" "" "" ⟨none, ""⟩ [] [⟨1, "", none, "", "", "", "", .own 0, .none_⟩] []]) := by
  intro k hk; simp at hk; subst hk; intro k hk; cases hk

/-! ### the attributes and children `clone()` carries over (table regenerated from the `clone()` bodies) -/

/-- T-tie: the setters and adders each `clone()` calls are the ones the clone model (`Cellml/Clone/Model.lean`) copies
    with: identifier, name, import source and reference and the unit children of a units; identifier, name, initial
    value, interface type and units of a variable; the seven fields of a reset plus its two variables; identifier, name,
    math, encapsulation identifier, import, variables, resets (re-linked to the cloned variables) and child components
    of a component; identifier, name, encapsulation identifier, units and components of a model (equivalences are
    re-made from the index-stack map).  A setter added to or dropped from the code re-opens this obligation. -/
theorem clone_fields_as_modelled :
    Cellml.Generated.CloneFields.rows =
      [("Units", ["addUnit", "setId", "setImportReference", "setImportSource", "setName"]),
        ("Variable", ["clone", "setId", "setInitialValue", "setInterfaceType", "setName", "setUnits"]),
        ("Reset", ["clone", "setId", "setOrder", "setResetValue", "setResetValueId", "setTestValue", "setTestValueId", "setTestVariable", "setVariable"]),
        ("Component", ["addComponent", "addReset", "addVariable", "clone", "setEncapsulationId", "setId", "setImportReference", "setImportSource", "setMath", "setName", "setTestVariable", "setVariable", "testVariable", "variable"]),
        ("Model", ["addComponent", "addUnits", "clone", "component", "componentCount", "setEncapsulationId", "setId", "setName", "variable"]),
        ("ImportSource", ["setId", "setModel", "setUrl"])] := by
  decide +kernel

end Cellml.Props.C11

namespace Cellml.Props.C11
open Cellml.Clone

/-! ### "… and which equals the original": the clone read by the model of `equals()` (C10) -/

/-- C11-4: the clone of a units / a variable equals the original (both directions, `equals` being symmetric:
    `Props.C10.C10_units_equivalence`); `toEq*` forgets object identity only (`Clone/Bridge.lean`) -/
theorem C11_units_equals (e : Nat) (u : Units) :
    Equals.eqUnits (toEqUnits (cloneUnits true e u)) (toEqUnits u) = true := by
  rw [← toEqUnits_e (cloneUnits true e u), eUnits_clone true e u, toEqUnits_e]
  exact (Equals.eqUnits_iff _ _).mpr (Equals.IsoUnits.refl _)

theorem C11_variable_equals (e : Nat) (v : Variable) :
    Equals.eqVariable (toEqVariable (cloneVariable true e v)) (toEqVariable v) = true := by
  rw [← toEqVariable_e (cloneVariable true e v), eVariable_clone true e v, toEqVariable_e]
  exact (Equals.eqVariable_iff _ _).mpr (Equals.IsoVariable.refl _)

/-- non-vacuity: the bridge keeps every attribute `equals()` reads (a changed prefix is seen through it) -/
example : Equals.eqUnits (toEqUnits ⟨1, "i", "u", ⟨none, ""⟩, [⟨"metre", "kilo", "", "1", "1"⟩]⟩)
    (toEqUnits ⟨2, "i", "u", ⟨none, ""⟩, [⟨"metre", "milli", "", "1", "1"⟩]⟩) = false := by decide

end Cellml.Props.C11
