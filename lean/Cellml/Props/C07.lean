/-
  C07 — import resolution terminates, succeeds exactly when possible, reports failures: property theorems about the
  model of `Importer::resolveImports` (`Cellml/Import/Model.lean`, tied to the implementation by engine `world`: status
  and the reference rules of the issues on every generated world).

  * termination: the recursion of `resolve` is never cut short by its fuel (`resolve_terminates`), for every world —
    missing files, foreign files, self-imports and import cycles of any length included; the only hypothesis is that the encapsulation hierarchy of each file is a tree (a rank that
    decreases from a component to its children, which C09 establishes for the object graph);
  * success is exact (`units_fetched_iff`, `component_fetched_iff`: an item is fetched iff a finite, fuel-free derivation
    `UOk` / `COk` exists) — in particular along import chains (`units_ok_chain`, `component_ok_chain`): when an item is fetched, the chain of
    imports that starts at it exists link by link and ends in an entity that is not imported — in particular no chain
    of imports that returns to its start is ever accepted (`self_import_refused`); that `UOk` / `COk` coincide with "every
    transitive import can be satisfied" of the independent oracle (a graph formulation, with the known finding about
    units that are not imported) is compared on the implementation (checks/C07.py);
  * failures are reported with their reason (`missing_file_reported`, `not_xml_reported`, `missing_units_reported`,
    `missing_component_reported`, `file_cycle_reported`), and `resolveImports` is true exactly when no item fails
    (`status_iff`).
-/
import Cellml.Import.Proofs
import Cellml.Import.Exact
namespace Cellml.Props.C07
open Cellml.Import

/-- **termination**: no imported item of the origin exhausts the fuel -/
theorem resolve_terminates (w : World) (origin : String) (h : String × String → Nat) (hr : Ranked w h (compBound w)) :
    ∀ r ∈ resolve w origin, r ≠ .fuel := by
  intro r hmem
  unfold resolve at hmem
  cases hlk : w.lookup origin with
  | none => simp [hlk] at hmem
  | some fc =>
    cases fc with
    | missing => simp [hlk] at hmem
    | notXml => simp [hlk] at hmem
    | model us cs =>
      simp only [hlk, List.mem_append, List.mem_map, List.mem_filter] at hmem
      rcases hmem with ⟨u, ⟨hu, _⟩, rfl⟩ | ⟨c, ⟨hc, _⟩, rfl⟩
      · exact fetchUnits_ne_fuel _ w [] origin u (fuel_units w origin)
      · exact fetchComponent_ne_fuel w h (compBound w) hr _ [] origin c (fuel_comp w origin h hr.1 c) ⟨us, cs, hlk, hc⟩

/-- `resolveImports` returns true exactly when every imported item of the origin was fetched -/
theorem status_iff (rs : List R) : status rs = true ↔ ∀ r ∈ rs, r = .ok := by
  simp [status]

/-- the chain of imports that starts at a units exists link by link and ends in units that are not imported -/
inductive UChain (w : World) : UnitsE → Prop
  | stop {u : UnitsE} : u.imp = none → UChain w u
  | step {u su : UnitsE} {url ref : String} {us : List UnitsE} {cs : List CompE} :
      u.imp = some (url, ref) → w.lookup url = some (.model us cs) → findU us ref = some su → UChain w su → UChain w u

inductive CChain (w : World) : CompE → Prop
  | stop {c : CompE} : c.imp = none → CChain w c
  | step {c sc : CompE} {url ref : String} {us : List UnitsE} {cs : List CompE} :
      c.imp = some (url, ref) → w.lookup url = some (.model us cs) → findC cs ref = some sc → CChain w sc → CChain w c

theorem seqR_ok {a : R} {b : Unit → R} (h : seqR a b = .ok) : a = .ok ∧ b () = .ok := by
  unfold seqR at h
  cases a <;> simp_all

theorem units_ok_chain : ∀ (n : Nat) (w : World) (path : List String) (cur : String) (u : UnitsE),
    fetchUnits n w path cur u = .ok → UChain w u := by
  intro n
  induction n with
  | zero => intro w path cur u h; simp [fetchUnits] at h
  | succ n ih =>
    intro w path cur u h
    unfold fetchUnits at h
    cases himp : u.imp with
    | none => exact .stop himp
    | some ur =>
      obtain ⟨url, ref⟩ := ur
      simp only [himp] at h
      cases hlk : w.lookup url with
      | none => simp [hlk] at h
      | some fc =>
        cases fc with
        | missing => simp [hlk] at h
        | notXml => simp [hlk] at h
        | model us cs =>
          simp only [hlk] at h
          split at h
          · cases h
          · cases hf : findU us ref with
            | none => simp [hf] at h
            | some su =>
              simp only [hf] at h
              exact .step himp hlk hf (ih w _ url su (seqR_ok h).1)

theorem component_ok_chain : ∀ (n : Nat) (w : World) (path : List String) (cur : String) (c : CompE),
    (∃ us cs, w.lookup cur = some (.model us cs)) →
    fetchComponent n w path cur c = .ok → CChain w c := by
  intro n
  induction n with
  | zero => intro w path cur c _ h; simp [fetchComponent] at h
  | succ n ih =>
    intro w path cur c hcur h
    obtain ⟨us0, cs0, hlk0⟩ := hcur
    unfold fetchComponent at h
    simp only [hlk0] at h
    cases himp : c.imp with
    | none => exact .stop himp
    | some ur =>
      obtain ⟨url, ref⟩ := ur
      have hreq : reqImp cs0.length cs0 c = true := by
        cases hn : cs0.length <;> simp [reqImp, himp]
      simp only [hreq, himp, Bool.not_true, Bool.false_eq_true, if_false] at h
      cases hlk : w.lookup url with
      | none => simp [hlk] at h
      | some fc =>
        cases fc with
        | missing => simp [hlk] at h
        | notXml => simp [hlk] at h
        | model us cs =>
          simp only [hlk] at h
          split at h
          · cases h
          · cases hf : findC cs ref with
            | none => simp [hf] at h
            | some sc =>
              simp only [hf] at h
              exact .step himp hlk hf (ih w _ url sc ⟨us, cs, hlk⟩ (seqR_ok h).1)

/-- **exactness for units imports**: with the fuel of `resolve`, an imported units of the origin is fetched exactly when
    it has a finite derivation `UOk` — every file on the way is a model and is not a file the descent came through, every
    referenced units exists, and the import of every target and of every imported child of a target is fetched in turn.
    (The fuel never turns a possible success into a failure, nor the reverse.) -/
theorem units_fetched_iff (w : World) (origin : String) (u : UnitsE) :
    fetchUnits (fuelFor w) w [] origin u = .ok ↔ UOk w [] origin u :=
  ⟨fetchUnits_sound _ w [] origin u, fun h => fetchUnits_complete w h _ (fuel_units w origin)⟩

/-- **exactness for component imports**: an imported component of the origin is fetched exactly when it has a finite
    derivation `COk` (the file is a model not yet on the path, the referenced component exists, its own import, its
    encapsulated children and the units used in its subtree are fetched in turn) -/
theorem component_fetched_iff (w : World) (origin : String) (h : String × String → Nat) (hr : Ranked w h (compBound w))
    (c : CompE) (hin : InFileC w origin c) :
    fetchComponent (fuelFor w) w [] origin c = .ok ↔ COk w [] origin c :=
  ⟨fetchComponent_sound _ w [] origin c,
   fun hc => fetchComponent_complete w h (compBound w) hr hc hin _ (fuel_comp w origin h hr.1 c)⟩

/-- a units that imports itself (its own file, its own name) is never fetched, whatever the fuel and the history -/
theorem self_import_refused (w : World) (f : String) (us : List UnitsE) (cs : List CompE) (u : UnitsE)
    (hlk : w.lookup f = some (.model us cs)) (hf : findU us u.name = some u) (himp : u.imp = some (f, u.name)) :
    ∀ n path, fetchUnits n w path f u ≠ .ok := by
  intro n
  induction n with
  | zero => intro path; simp [fetchUnits]
  | succ n ih =>
    intro path h
    unfold fetchUnits at h
    simp only [himp, hlk] at h
    split at h
    · cases h
    · simp only [hf] at h
      exact ih _ (seqR_ok h).1

/-! failures are reported with their reason -/
theorem missing_file_reported (n : Nat) (w : World) (path : List String) (cur : String) (u : UnitsE)
    (url ref : String) (himp : u.imp = some (url, ref)) (hlk : w.lookup url = none ∨ w.lookup url = some .missing) :
    fetchUnits (n + 1) w path cur u = .fail .missingFile := by
  unfold fetchUnits
  rcases hlk with h | h <;> simp [himp, h]

theorem not_xml_reported (n : Nat) (w : World) (path : List String) (cur : String) (u : UnitsE)
    (url ref : String) (himp : u.imp = some (url, ref)) (hlk : w.lookup url = some .notXml) :
    fetchUnits (n + 1) w path cur u = .fail .nullModel := by
  unfold fetchUnits
  simp [himp, hlk]

theorem file_cycle_reported (n : Nat) (w : World) (path : List String) (cur : String) (u : UnitsE)
    (url ref : String) (us : List UnitsE) (cs : List CompE) (himp : u.imp = some (url, ref))
    (hlk : w.lookup url = some (.model us cs)) (hp : url ∈ path) :
    fetchUnits (n + 1) w path cur u = .fail .cycle := by
  unfold fetchUnits
  simp [himp, hlk, hp]

theorem missing_units_reported (n : Nat) (w : World) (path : List String) (cur : String) (u : UnitsE)
    (url ref : String) (us : List UnitsE) (cs : List CompE) (himp : u.imp = some (url, ref))
    (hlk : w.lookup url = some (.model us cs)) (hp : ¬ url ∈ path) (hf : findU us ref = none) :
    fetchUnits (n + 1) w path cur u = .fail .missingUnits := by
  unfold fetchUnits
  simp [himp, hlk, hp, hf]

theorem missing_component_reported (n : Nat) (w : World) (path : List String) (cur : String) (c : CompE)
    (url ref : String) (us0 us : List UnitsE) (cs0 cs : List CompE) (hcur : w.lookup cur = some (.model us0 cs0))
    (himp : c.imp = some (url, ref)) (hlk : w.lookup url = some (.model us cs)) (hp : ¬ url ∈ path) (hf : findC cs ref = none) :
    fetchComponent (n + 1) w path cur c = .fail .missingComponent := by
  have hreq : reqImp cs0.length cs0 c = true := by
    cases hn : cs0.length <;> simp [reqImp, himp]
  unfold fetchComponent
  simp [hcur, hreq, himp, hlk, hp, hf]

/-! non-vacuity: a chain f0 → f1 → f2, a self-import, a missing file; the rank of a concrete world -/
def wOK : World :=
  [("f0", .model [{ name := "a", imp := some ("f1", "b") }] [{ name := "c", imp := some ("f1", "d") }]),
   ("f1", .model [{ name := "b", imp := some ("f2", "u") }] [{ name := "d", kids := ["e"], units := ["b"] }, { name := "e" }]),
   ("f2", .model [{ name := "u" }] [])]

example : resolve wOK "f0" = [.ok, .ok] := by decide
example : resolve [("f0", .model [{ name := "a", imp := some ("f0", "a") }] [])] "f0" = [.fail .cycle] := by decide
example : resolve [("f0", .model [{ name := "a", imp := some ("f1", "a") }] [])] "f0" = [.fail .missingFile] := by decide
example : resolve [("f0", .model [{ name := "a", imp := some ("f1", "a") }] []), ("f1", .model [{ name := "a", kids := ["a"] }] [])] "f0" = [.ok] := by decide

/-- the hypothesis of `resolve_terminates` is met by `wOK`: rank 1 for `d`, 0 for everything else -/
example : Ranked wOK (fun p => if p = ("f1", "d") then 1 else 0) (compBound wOK) := by
  refine ⟨fun p => by simp only [compBound, wOK]; split <;> decide, ?_⟩
  intro f us cs c k kc hlk hc hk hf
  have hm := lookup_mem hlk
  simp only [wOK, List.mem_cons, Prod.mk.injEq, FileC.model.injEq, List.not_mem_nil, or_false] at hm
  rcases hm with ⟨rfl, rfl, rfl⟩ | ⟨rfl, rfl, rfl⟩ | ⟨rfl, rfl, rfl⟩
  · simp only [List.mem_cons, List.not_mem_nil, or_false] at hc
    subst hc
    simp at hk
  · simp only [List.mem_cons, List.not_mem_nil, or_false] at hc
    rcases hc with rfl | rfl
    · simp only [List.mem_cons, List.not_mem_nil, or_false] at hk
      subst hk
      simp [findC] at hf
      subst hf
      simp
    · simp at hk
  · simp at hc

end Cellml.Props.C07
