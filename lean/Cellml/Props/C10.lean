/-
  C10 — `equals()` is an equivalence relation that sees every attribute: property theorems.

  `eqComponent true` / `eqModel true` = the `doEquals` chain with a size test on every kind of child
  (counterfactual `Fixed_sizeTest`); `… false` = the current tree, where variables are matched without a
  size test — a genuine defect that the existing test `Equality.parseMath` pins (known finding).
-/
import Cellml.Equals.Partial
import Cellml.Generated.EqualsFields
namespace Cellml.Props.C10
open Cellml.Equals

/-- C10-1: `equals` on units, variables and resets is exactly equality of every covered attribute, with unit
    children compared up to order (hence an equivalence relation that is false on any differing attribute) -/
theorem C10_units_iff (a b : Units) : eqUnits a b = true ↔ IsoUnits a b := eqUnits_iff a b
theorem C10_variable_iff (a b : Variable) : eqVariable a b = true ↔ IsoVariable a b := eqVariable_iff a b
theorem C10_reset_iff (a b : Reset) : eqReset a b = true ↔ IsoReset a b := eqReset_iff a b

theorem C10_units_equivalence :
    (∀ a, eqUnits a a = true) ∧ (∀ a b, eqUnits a b = true → eqUnits b a = true) ∧
    (∀ a b c, eqUnits a b = true → eqUnits b c = true → eqUnits a c = true) :=
  ⟨fun a => (eqUnits_iff a a).mpr (IsoUnits.refl a), eqUnits_symm, eqUnits_trans⟩

theorem C10_variable_equivalence :
    (∀ a, eqVariable a a = true) ∧ (∀ a b, eqVariable a b = true → eqVariable b a = true) ∧
    (∀ a b c, eqVariable a b = true → eqVariable b c = true → eqVariable a c = true) :=
  ⟨fun a => (eqVariable_iff a a).mpr (IsoVariable.refl a), eqVariable_symm, eqVariable_trans⟩

theorem C10_reset_equivalence :
    (∀ a, eqReset a a = true) ∧ (∀ a b, eqReset a b = true → eqReset b a = true) ∧
    (∀ a b c, eqReset a b = true → eqReset b c = true → eqReset a c = true) :=
  ⟨fun a => (eqReset_iff a a).mpr (IsoReset.refl a), eqReset_symm, eqReset_trans⟩

/-- C10-2 (Fixed_sizeTest): component and model equality = isomorphism up to the order of children at every level -/
theorem C10_component_iff (n : Nat) (a b : Component) : eqComponent true n a b = true ↔ IsoComponent n a b :=
  eqComponent_iff n a b
theorem C10_model_iff (n : Nat) (a b : Model) : eqModel true n a b = true ↔ IsoModel n a b := eqModel_iff n a b

/-- … hence reflexive, symmetric, transitive -/
theorem C10_component_equivalence (n : Nat) :
    (∀ a, WithinDepth n a → eqComponent true n a a = true) ∧
    (∀ a b, eqComponent true n a b = true → eqComponent true n b a = true) ∧
    (∀ a b c, eqComponent true n a b = true → eqComponent true n b c = true → eqComponent true n a c = true) :=
  ⟨fun a h => (eqComponent_iff n a a).mpr (IsoComponent.refl n a h),
   fun a b h => (eqComponent_iff n b a).mpr (IsoComponent.symm n a b ((eqComponent_iff n a b).mp h)),
   fun a b c h1 h2 => (eqComponent_iff n a c).mpr
     (IsoComponent.trans n a b c ((eqComponent_iff n a b).mp h1) ((eqComponent_iff n b c).mp h2))⟩

/-- … false when the numbers of children of any kind differ -/
theorem C10_component_counts (n : Nat) (i₁ n₁ e₁ m₁ : String) (p₁ : Imp) (v₁ : List Variable) (r₁ : List Reset) (k₁ : List Component)
    (i₂ n₂ e₂ m₂ : String) (p₂ : Imp) (v₂ : List Variable) (r₂ : List Reset) (k₂ : List Component)
    (h : v₁.length ≠ v₂.length ∨ r₁.length ≠ r₂.length ∨ k₁.length ≠ k₂.length) :
    eqComponent true (n+1) (.mk i₁ n₁ e₁ m₁ p₁ v₁ r₁ k₁) (.mk i₂ n₂ e₂ m₂ p₂ v₂ r₂ k₂) = false := by
  cases hc : eqComponent true (n+1) (.mk i₁ n₁ e₁ m₁ p₁ v₁ r₁ k₁) (.mk i₂ n₂ e₂ m₂ p₂ v₂ r₂ k₂) with
  | false => rfl
  | true =>
    obtain ⟨_, _, _, _, _, g1, g2, g3⟩ := (eqComponent_iff _ _ _).mp hc
    rcases h with h | h | h
    · exact absurd g1.length_eq h
    · exact absurd g2.length_eq h
    · exact absurd g3.length_eq h

/-- … insensitive to the order of variables, resets and child components -/
theorem C10_component_order (n : Nat) (i nm e m : String) (p : Imp) (v v' : List Variable) (r r' : List Reset)
    (k k' : List Component) (hv : v'.Perm v) (hr : r'.Perm r) (hk : k'.Perm k) (hd : ∀ c ∈ k, WithinDepth n c) :
    eqComponent true (n+1) (.mk i nm e m p v r k) (.mk i nm e m p v' r' k') = true := by
  apply (eqComponent_iff _ _ _).mpr
  refine ⟨rfl, rfl, rfl, rfl, rfl, ?_, ?_, ?_⟩
  · exact ⟨v, hv.symm, All₂.refl v (fun x _ => IsoVariable.refl x)⟩
  · exact ⟨r, hr.symm, All₂.refl r (fun x _ => IsoReset.refl x)⟩
  · exact ⟨k, hk.symm, All₂.refl k (fun c hc => IsoComponent.refl n c (hd c hc))⟩

/-- C10-3 sensitivity: altering one variable of a component (anything that `Variable::equals` sees: id, name,
    initial value, interface, units and unit children) makes the components unequal, in both directions -/
theorem C10_variable_sensitivity (n : Nat) (i nm e m : String) (p : Imp) (x y : Variable) (rest : List Variable)
    (r : List Reset) (k : List Component) (hxy : eqVariable x y = false) :
    eqComponent true (n+1) (.mk i nm e m p (x :: rest) r k) (.mk i nm e m p (y :: rest) r k) = false ∧
    eqComponent true (n+1) (.mk i nm e m p (y :: rest) r k) (.mk i nm e m p (x :: rest) r k) = false := by
  have key : ∀ a b : Variable, eqVariable a b = false →
      eqComponent true (n+1) (.mk i nm e m p (a :: rest) r k) (.mk i nm e m p (b :: rest) r k) = false := by
    intro a b hab
    cases hc : eqComponent true (n+1) (.mk i nm e m p (a :: rest) r k) (.mk i nm e m p (b :: rest) r k) with
    | false => rfl
    | true =>
      obtain ⟨_, _, _, _, _, g1, _, _⟩ := (eqComponent_iff _ _ _).mp hc
      have := permMatch_cancel eqVariable (fun a => (eqVariable_iff a a).mpr (IsoVariable.refl a)) eqVariable_symm
        eqVariable_trans a b rest (g1.imp (fun u _ w _ h => (eqVariable_iff u w).mpr h))
      rw [hab] at this; cases this
  refine ⟨key x y hxy, key y x ?_⟩
  cases h : eqVariable y x with
  | false => rfl
  | true => rw [eqVariable_symm y x h] at hxy; cases hxy

/-- the own attributes of a component: any difference makes `equals` false -/
theorem C10_component_fields (n : Nat) (i₁ n₁ e₁ m₁ : String) (p₁ : Imp) (v₁ : List Variable) (r₁ : List Reset) (k₁ : List Component)
    (i₂ n₂ e₂ m₂ : String) (p₂ : Imp) (v₂ : List Variable) (r₂ : List Reset) (k₂ : List Component)
    (h : i₁ ≠ i₂ ∨ n₁ ≠ n₂ ∨ e₁ ≠ e₂ ∨ m₁ ≠ m₂ ∨ p₁ ≠ p₂) :
    eqComponent true (n+1) (.mk i₁ n₁ e₁ m₁ p₁ v₁ r₁ k₁) (.mk i₂ n₂ e₂ m₂ p₂ v₂ r₂ k₂) = false := by
  cases hc : eqComponent true (n+1) (.mk i₁ n₁ e₁ m₁ p₁ v₁ r₁ k₁) (.mk i₂ n₂ e₂ m₂ p₂ v₂ r₂ k₂) with
  | false => rfl
  | true =>
    obtain ⟨g1, g2, g3, g4, g5, _, _, _⟩ := (eqComponent_iff _ _ _).mp hc
    rcases h with h | h | h | h | h
    · exact absurd g1 h
    · exact absurd g2 h
    · exact absurd g3 h
    · exact absurd g4 h
    · exact absurd g5 h

/-! ### the current tree (`sizeTest = false`): what holds, and the kernel-checked refutations -/

/-- C10_partial: on component trees with the same number of variables in every component the current code
    coincides with `Fixed_sizeTest`, so all of the above holds there -/
theorem C10_partial_uniform (k n : Nat) (a b : Component) (ha : UniformVars k n a) (hb : UniformVars k n b) :
    eqComponent false n a b = eqComponent true n a b := eqComponent_agree k n a b ha hb

def noImp : Imp := ⟨none, ""⟩
def wv : Variable := ⟨"", "v", "", "", none⟩
def cEmpty : Component := .mk "" "c" "" "" noImp [] [] []
def cOneVar : Component := .mk "" "c" "" "" noImp [wv] [] []
def pAB : Component := .mk "" "p" "" "" noImp [] [] [cOneVar, cEmpty]
def pBA : Component := .mk "" "p" "" "" noImp [] [] [cEmpty, cOneVar]

/-- refuted on the current tree: symmetry (`c{}` equals `c{v}`, not conversely) … -/
theorem C10_refuted_symmetry : eqComponent false 2 cEmpty cOneVar = true ∧ eqComponent false 2 cOneVar cEmpty = false := by
  decide
/-- … and insensitivity to child order (a parent does not equal itself with its two children swapped) -/
theorem C10_refuted_order : eqComponent false 3 pAB pBA = false ∧ eqComponent true 3 pAB pBA = true := by decide

/-! non-vacuity -/
example : WithinDepth 3 pAB ∧ eqComponent true 3 pAB pAB = true := by
  refine ⟨?_, by decide⟩
  intro c hc
  simp [pAB] at hc
  rcases hc with rfl | rfl <;> (intro c hc; simp [cOneVar, cEmpty] at hc)
example : UniformVars 0 2 cEmpty := ⟨rfl, fun _ h => by cases h⟩

/-! ### the attributes `equals()` looks at (table regenerated from the `doEquals()` bodies) -/

/-- T-tie: the data members each `doEquals()` mentions and the base-class comparisons it chains to are the ones the
    equality model (`Cellml/Equals/Model.lean`) compares: identifier; name; import source and reference; URL; child
    components and encapsulation identifier; initial value, interface type and units; the seven reset fields; the
    unit definitions with their five fields; math and resets (variables through `equalEntities`); the units of a model.
    A comparison added to or dropped from the code re-opens this obligation (and the model has to follow). -/
theorem equals_fields_as_modelled :
    Cellml.Generated.EqualsFields.rows =
      [("Entity", ["mId"], []),
       ("NamedEntity", ["mName"], ["Entity"]),
       ("ImportedEntity", ["mImportReference", "mImportSource", "mPimpl"], []),
       ("ImportSource", ["mUrl"], ["Entity"]),
       ("ComponentEntity", ["mComponents", "mEncapsulationId"], ["NamedEntity"]),
       ("Variable", ["mInitialValue", "mInterfaceType", "mUnits"], ["NamedEntity"]),
       ("Reset", ["mOrder", "mResetValue", "mResetValueId", "mTestValue", "mTestValueId", "mTestVariable", "mVariable"], ["Entity"]),
       ("Units", ["mExponent", "mId", "mMultiplier", "mPrefix", "mReference", "mUnitDefinitions"], ["ImportedEntity", "NamedEntity"]),
       ("Component", ["mMath", "mResets"], ["ComponentEntity", "ImportedEntity"]),
       ("Model", ["mUnits"], ["ComponentEntity"])] := by
  decide +kernel

end Cellml.Props.C10
