/-
  C16 — property theorems (only statements that decide the property live here).

  "A string is accepted as a CellML real exactly when …, and as a CellML integer exactly when …;
   conversion never throws."
-/
import Cellml.Num.Proofs3
import Cellml.Num.Positions
namespace Cellml.Props.C16
open Cellml.Num

/-- C16-1: the real recogniser of the current tree accepts exactly the grammar of the statement. -/
theorem C16_real_iff (s : List Char) : cellmlReal s = true ↔ SpecReal s := cellmlReal_iff s

/-- C16-2: the integer recogniser accepts exactly optional sign + one or more digits. -/
theorem C16_int_iff (s : List Char) : cellmlInt s = true ↔ SpecInt s := cellmlInt_iff s

/-- C16-3a (independent of the code): every CellML real satisfies `std::stod`'s precondition. -/
theorem C16_spec_no_throw (s : List Char) (h : SpecReal s) : stodAccepts s = true :=
  stodAccepts_of_specReal h

/-- C16-3b: every CellML integer satisfies `std::stoi`'s precondition. -/
theorem C16_spec_int_no_throw (s : List Char) (h : SpecInt s) : stoiAccepts s = true :=
  stoiAccepts_of_specInt h

/-- C16-3: `convertToDouble` never throws `std::invalid_argument`, whatever the text. -/
theorem C16_convertToDouble_never_throws (s : List Char) : convertToDoubleClass s ≠ .throws := by
  unfold convertToDoubleClass
  by_cases h : cellmlReal s = true
  · have := stodAccepts_of_specReal ((cellmlReal_iff s).mp h)
    simp [h, this]
  · simp [h]

/-- C16-3: `convertToInt` never throws. -/
theorem C16_convertToInt_never_throws (s : List Char) : convertToIntClass s ≠ .throws := by
  unfold convertToIntClass
  by_cases h : cellmlInt s = true
  · have := stoiAccepts_of_specInt ((cellmlInt_iff s).mp h)
    simp [h, this]
  · simp [h]

/-- accepted ⇔ converted-or-range-checked; rejected ⇔ the caller reports an issue -/
theorem C16_convert_class (s : List Char) :
    (SpecReal s → convertToDoubleClass s = .converts) ∧ (¬ SpecReal s → convertToDoubleClass s = .rejected) := by
  constructor
  · intro h
    simp [convertToDoubleClass, (cellmlReal_iff s).mpr h, stodAccepts_of_specReal h]
  · intro h
    have : cellmlReal s = false := by
      cases hc : cellmlReal s with
      | false => rfl
      | true => exact absurd ((cellmlReal_iff s).mp hc) h
    simp [convertToDoubleClass, this]

/-! #### non-vacuity: concrete members and non-members of both grammars -/
example : SpecReal "-12.5E+3".toList := (cellmlReal_iff _).mp (by decide)
example : SpecReal ".5".toList ∧ SpecReal "5.".toList := ⟨(cellmlReal_iff _).mp (by decide), (cellmlReal_iff _).mp (by decide)⟩
example : ¬ SpecReal "+1".toList := fun h => absurd ((cellmlReal_iff _).mpr h) (by decide)
example : ¬ SpecReal "1e".toList := fun h => absurd ((cellmlReal_iff _).mpr h) (by decide)
example : SpecInt "+007".toList := (cellmlInt_iff _).mp (by decide)
example : ¬ SpecInt "-".toList := fun h => absurd ((cellmlInt_iff _).mpr h) (by decide)

/-! #### the superseded (pinned) recogniser: kernel-checked witnesses of the defect repaired by
    `fix: require a digit in isCellMLBasicReal`.  Kept so that a revert of the fix is recognised. -/

theorem C16_pinned_real_refuted :
    cellmlRealWith false ['-'] = true ∧ cellmlRealWith false ['.'] = true ∧
    cellmlRealWith false ['-', '.'] = true ∧ cellmlRealWith false "-.e1".toList = true := by decide

theorem C16_pinned_throws : convertToDoubleClassWith false ['-'] = .throws ∧
    convertToDoubleClassWith false "-.e1".toList = .throws := by decide

theorem C16_pinned_not_spec : ¬ SpecReal ['-'] ∧ ¬ SpecReal ['.'] ∧ ¬ SpecReal ['-', '.'] := by
  refine ⟨?_, ?_, ?_⟩ <;> exact fun h => absurd ((cellmlReal_iff _).mpr h) (by decide)

end Cellml.Props.C16

namespace Cellml.Props.C16
open Cellml.Num

/-! ### every position where a number is read (C16: "in every attribute/element position") -/

/-- exponent / multiplier of a unit: no issue ⇔ CellML real within the range of `double` -/
theorem C16_pos_real (sp : List (List Char)) (s : List Char) :
    (issueAt sp .exponent s = false ↔ SpecReal s ∧ doubleInRange s = true) ∧
    (issueAt sp .multiplier s = false ↔ SpecReal s ∧ doubleInRange s = true) := by
  simp only [issueAt, realOK, Bool.not_eq_false', Bool.and_eq_true, cellmlReal_iff, and_self]

/-- reset order and the exponent part of an e-notation `cn`: no issue ⇔ CellML integer within `int` -/
theorem C16_pos_int (sp : List (List Char)) (s : List Char) :
    (issueAt sp .order s = false ↔ SpecInt s ∧ intInRange s = true) ∧
    (issueAt sp .cnExponent s = false ↔ SpecInt (trim s) ∧ intInRange (trim s) = true) := by
  simp only [issueAt, intOK, Bool.not_eq_false', Bool.and_eq_true, cellmlInt_iff, and_self]

/-- `cn` content (plain and the mantissa of e-notation): no issue ⇔ basic real within range, white space trimmed -/
theorem C16_pos_cn (sp : List (List Char)) (s : List Char) :
    (issueAt sp .cnReal s = false ↔ SpecBasicReal (trim s) ∧ doubleInRange (trim s) = true) ∧
    (issueAt sp .cnMantissa s = false ↔ SpecBasicReal (trim s) ∧ doubleInRange (trim s) = true) := by
  simp only [issueAt, basicRealOK, Bool.not_eq_false', Bool.and_eq_true, basicReal_iff, and_self]

/-- prefix: no issue ⇔ empty, an SI prefix name, or a CellML integer within `int` -/
theorem C16_pos_prefix (sp : List (List Char)) (s : List Char) :
    issueAt sp .pfx s = false ↔ s = [] ∨ s ∈ sp ∨ (SpecInt s ∧ intInRange s = true) := by
  simp only [issueAt, intOK, Bool.and_eq_false_iff, Bool.not_eq_false', List.isEmpty_iff, List.contains_iff_mem,
    Bool.and_eq_true, cellmlInt_iff, or_assoc]

/-- initial value: no issue ⇔ empty or a CellML real (a reference to a variable is decided before the number test) -/
theorem C16_pos_initial (sp : List (List Char)) (s : List Char) :
    issueAt sp .initialValue s = false ↔ s = [] ∨ SpecReal s := by
  simp only [issueAt, Bool.and_eq_false_iff, Bool.not_eq_false', List.isEmpty_iff, cellmlReal_iff]

example : issueAt [] .cnExponent " 2147483648 ".toList = true ∧ issueAt [] .cnExponent " -2147483648".toList = false := by decide
example : issueAt ["kilo".toList] .pfx "kilo".toList = false ∧ issueAt ["kilo".toList] .pfx "kil".toList = true := by decide

end Cellml.Props.C16

namespace Cellml.Props.C16
open Cellml.Num

/-! ### the two grammars against each other ("an optional minus sign" vs "an optional sign") -/

/-- C16: "an optional *minus* sign" — no text that starts with `+` is a CellML real, although it may
    be a CellML integer (`+007`). -/
theorem C16_real_no_plus (s : List Char) : ¬ SpecReal ('+' :: s) := by
  rintro (h | ⟨sig, e, ex, _, hs, hsig, _⟩)
  · exact (basicReal_head _ h).2 rfl
  · obtain ⟨hne, hp⟩ := basicReal_head _ hsig
    cases sig with
    | nil => exact hne rfl
    | cons x xs =>
      simp at hs
      exact hp (by simp [← hs.1])

theorem C16_real_no_plus_code (s : List Char) : cellmlReal ('+' :: s) = false := by
  cases h : cellmlReal ('+' :: s) with
  | false => rfl
  | true => exact absurd ((cellmlReal_iff _).mp h) (C16_real_no_plus s)

/-- every CellML integer without a `+` sign is also a CellML real (reset orders, prefixes and
    exponents written as integers are read the same way where a real is expected). -/
theorem C16_int_is_real (s : List Char) (h : SpecInt s) (hp : s.head? ≠ some '+') : SpecReal s := by
  obtain ⟨sign, ds, hs, rfl, hne, hall⟩ := h
  have hm : SpecMantissa ds := by
    refine ⟨fun c hc => Or.inl (hall c hc), ?_, ?_⟩
    · have : ds.count '.' = 0 := by
        rw [List.count_eq_zero]
        intro hc
        exact absurd (hall '.' hc) (by decide)
      omega
    · cases ds with
      | nil => exact absurd rfl hne
      | cons x xs => exact ⟨x, by simp, hall x (by simp)⟩
  rcases hs with rfl | rfl | rfl
  · exact Or.inl ⟨[], ds, Or.inl rfl, rfl, hm⟩
  · exact Or.inl ⟨['-'], ds, Or.inr rfl, rfl, hm⟩
  · exact absurd (by simp) hp

theorem C16_int_is_real_code (s : List Char) (h : cellmlInt s = true) (hp : s.head? ≠ some '+') :
    cellmlReal s = true :=
  (cellmlReal_iff s).mpr (C16_int_is_real s ((cellmlInt_iff s).mp h) hp)

example : SpecInt "+007".toList ∧ ¬ SpecReal "+007".toList :=
  ⟨(cellmlInt_iff _).mp (by decide), C16_real_no_plus _⟩

end Cellml.Props.C16
