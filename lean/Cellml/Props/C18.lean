/-
  C18 — variable-equivalence queries agree with the connection graph: property theorems.
-/
import Cellml.Equiv.Cache
namespace Cellml.Props.C18
open Cellml.Equiv

/-- well-formed graph: `n` variables, equivalence lists stay inside and are symmetric
    (what `Variable::addEquivalence` maintains; C09 owns that invariant) -/
structure Graph (adj : Nat → List Nat) (n : Nat) : Prop where
  closed : ∀ v, v < n → ∀ w ∈ adj v, w < n
  symm : ∀ a b, b ∈ adj a → a ∈ adj b

/-- C18-1a: `v->hasEquivalentVariable(w, true)` ⇔ `v ≠ w` and a chain of equivalences links them -/
theorem C18_hasEquivalentVariable (adj : Nat → List Nat) (n : Nat) (g : Graph adj n) (v w : Nat) (hw : w < n) :
    hasEq adj n v w = true ↔ v ≠ w ∧ Reach adj v w := by
  rw [hasEq_iff adj n g.closed v w hw]
  exact ⟨fun ⟨h1, h2⟩ => ⟨h1, Reach.symm g.symm h2⟩, fun ⟨h1, h2⟩ => ⟨h1, Reach.symm g.symm h2⟩⟩

/-- C18-1b: the uncached `areEquivalentVariables(v1, v2)` ⇔ linked by a chain (the same variable included) -/
theorem C18_areEquivalentVariables (adj : Nat → List Nat) (n : Nat) (g : Graph adj n) (v1 v2 : Nat) (h2 : v2 < n) :
    areEq adj n v1 v2 = true ↔ Reach adj v1 v2 := by
  rw [areEq_iff adj n g.closed v1 v2 h2]
  exact ⟨Reach.symm g.symm, Reach.symm g.symm⟩

/-- C18-2: `AnalyserModel::areEquivalentVariables` with the current key.  Whatever the addresses of the
    variables (distinct objects have distinct addresses), whatever the order of the queries and however
    often they are repeated, starting from the empty cache every answer is the connectivity of the pair. -/
theorem C18_cached_queries (adj : Nat → List Nat) (n : Nat) (g : Graph adj n) (addr : Nat → BitVec 64)
    (hinj : ∀ a b, a < n → b < n → addr a = addr b → a = b)
    (qs : List (Nat × Nat)) (hq : ∀ q ∈ qs, q.1 < n ∧ q.2 < n) :
    runQueries (fun a b => pairKey (addr a) (addr b)) (areEq adj n) [] qs = qs.map (fun q => areEq adj n q.1 q.2) := by
  apply runQueries_correct (dom := fun v => v < n)
  · exact pairKey_ok _ addr hinj _ (fun a b ha hb => areEq_symm adj n g.closed g.symm a b ha hb)
  · exact cacheInv_nil _ _ _
  · exact hq

/-- … and therefore true exactly for linked pairs -/
theorem C18_cached_iff (adj : Nat → List Nat) (n : Nat) (g : Graph adj n) (addr : Nat → BitVec 64)
    (hinj : ∀ a b, a < n → b < n → addr a = addr b → a = b)
    (qs : List (Nat × Nat)) (hq : ∀ q ∈ qs, q.1 < n ∧ q.2 < n) (i : Nat) (hi : i < qs.length) :
    (runQueries (fun a b => pairKey (addr a) (addr b)) (areEq adj n) [] qs)[i]? = some true ↔
      Reach adj qs[i].1 qs[i].2 := by
  rw [C18_cached_queries adj n g addr hinj qs hq]
  have hm := hq qs[i] (List.getElem_mem hi)
  simp only [List.getElem?_map, List.getElem?_eq_getElem hi, Option.map_some, Option.some.injEq]
  exact C18_areEquivalentVariables adj n g _ _ hm.2

/-! ### the superseded Cantor key (repaired by `fix: key the equivalent-variables cache by the pair of
    addresses`): kernel-checked collision on four 16-byte aligned user-space addresses within 48 KiB,
    and the wrong answer it produces.  Kept so that a revert of the fix is recognised. -/

def wa : BitVec 64 := 0x7a62007a0200#64
def wb : BitVec 64 := 0x7a62007a7f10#64
def wc : BitVec 64 := 0x7a62007a4ad0#64
def wd : BitVec 64 := 0x7a62007abc20#64

theorem C18_cantor64_collision :
    cantor64 wa wb = cantor64 wc wd ∧ (wa, wb) ≠ (wc, wd) ∧ (wa, wb) ≠ (wd, wc)
    ∧ wa % 16 = 0 ∧ wb % 16 = 0 ∧ wc % 16 = 0 ∧ wd % 16 = 0
    ∧ wa < 0x800000000000#64 ∧ wd < 0x800000000000#64 ∧ wd - wa < 0x10000#64 := by
  decide

/-- four variables, 0 ~ 1 equivalent, 2 and 3 unrelated -/
def wAdj : Nat → List Nat
  | 0 => [1] | 1 => [0] | _ => []
def wAddr : Nat → BitVec 64
  | 0 => wa | 1 => wb | 2 => wc | _ => wd

/-- with the Cantor key the query history [(0,1), (2,3)] answers `true` for the unrelated pair -/
theorem C18_cantor64_wrong_answer :
    runQueries (fun a b => cantor64 (wAddr a) (wAddr b)) (areEq wAdj 4) [] [(0, 1), (2, 3)] = [true, true] ∧
    [(0, 1), (2, 3)].map (fun q => areEq wAdj 4 q.1 q.2) = [true, false] := by decide

/-- the same history with the current key is right (instance of C18-2, evaluated) -/
theorem C18_pair_right_answer :
    runQueries (fun a b => pairKey (wAddr a) (wAddr b)) (areEq wAdj 4) [] [(0, 1), (2, 3), (1, 0), (2, 3)] =
      [true, false, true, false] := by decide

/-! non-vacuity: a concrete graph meeting the hypotheses (chain 0–1–2 and an isolated 3) -/
def exAdj : Nat → List Nat
  | 0 => [1] | 1 => [0, 2] | 2 => [1] | _ => []
example : Graph exAdj 4 := by
  constructor
  · intro v hv w hw
    match v, hv with
    | 0, _ => simp [exAdj] at hw; omega
    | 1, _ => simp [exAdj] at hw; omega
    | 2, _ => simp [exAdj] at hw; omega
    | 3, _ => simp [exAdj] at hw
  · intro a b h
    match a with
    | 0 => simp [exAdj] at h; subst h; simp [exAdj]
    | 1 => simp [exAdj] at h; rcases h with h | h <;> subst h <;> simp [exAdj]
    | 2 => simp [exAdj] at h; subst h; simp [exAdj]
    | (k+3) => simp [exAdj] at h
example : hasEq exAdj 4 0 2 = true ∧ hasEq exAdj 4 0 3 = false ∧ hasEq exAdj 4 1 1 = false ∧ areEq exAdj 4 1 1 = true := by decide

end Cellml.Props.C18

namespace Cellml.Props.C18
open Cellml.Equiv

/-! ### the queries as relations (corollaries of C18-1a / C18-1b) -/

/-- C18-1c: the query itself behaves as an equivalence relation on the model's variables: the answer does
    not depend on which variable is asked about which, and answers compose along chains -/
theorem C18_areEq_refl (adj : Nat → List Nat) (n : Nat) (g : Graph adj n) (v : Nat) (hv : v < n) :
    areEq adj n v v = true := (C18_areEquivalentVariables adj n g v v hv).mpr (Reach.refl v)

theorem C18_areEq_symm (adj : Nat → List Nat) (n : Nat) (g : Graph adj n) (v w : Nat) (hv : v < n) (hw : w < n) :
    areEq adj n v w = areEq adj n w v := by
  rw [Bool.eq_iff_iff, C18_areEquivalentVariables adj n g v w hw, C18_areEquivalentVariables adj n g w v hv]
  exact ⟨Reach.symm g.symm, Reach.symm g.symm⟩

theorem C18_areEq_trans (adj : Nat → List Nat) (n : Nat) (g : Graph adj n) (u v w : Nat) (hv : v < n) (hw : w < n)
    (h1 : areEq adj n u v = true) (h2 : areEq adj n v w = true) : areEq adj n u w = true :=
  (C18_areEquivalentVariables adj n g u w hw).mpr
    (Reach.trans ((C18_areEquivalentVariables adj n g u v hv).mp h1) ((C18_areEquivalentVariables adj n g v w hw).mp h2))

theorem C18_hasEq_symm (adj : Nat → List Nat) (n : Nat) (g : Graph adj n) (v w : Nat) (hv : v < n) (hw : w < n) :
    hasEq adj n v w = hasEq adj n w v := by
  rw [Bool.eq_iff_iff, C18_hasEquivalentVariable adj n g v w hw, C18_hasEquivalentVariable adj n g w v hv]
  exact ⟨fun ⟨a, b⟩ => ⟨fun e => a e.symm, Reach.symm g.symm b⟩, fun ⟨a, b⟩ => ⟨fun e => a e.symm, Reach.symm g.symm b⟩⟩

/-- the two queries agree away from the diagonal -/
theorem C18_hasEq_eq_areEq (adj : Nat → List Nat) (n : Nat) (g : Graph adj n) (v w : Nat) (hw : w < n) (hne : v ≠ w) :
    hasEq adj n v w = areEq adj n v w := by
  rw [Bool.eq_iff_iff, C18_hasEquivalentVariable adj n g v w hw, C18_areEquivalentVariables adj n g v w hw]
  exact ⟨fun h => h.2, fun h => ⟨hne, h⟩⟩

end Cellml.Props.C18
