/-
  C14 — CellML 1.0 / 1.1 documents are faithfully transformed: property theorems for the decision logic.
  The transformation itself (namespace surgery, group / relationship_ref, map_components, hoisting of units, cmeta:id)
  is checked on the implementation: generated 2.0 documents are mechanically rewritten to 1.0 / 1.1 syntax and the
  permissive parse of the rewriting is compared with the strict parse of the original (`checks/C14.py`).
-/
import Cellml.Legacy.Model
import Cellml.Legacy.Groups
namespace Cellml.Props.C14
open Cellml.Legacy

theorem step_hasPub (cur : Iface) (a : Bool × String) :
    (step cur a).hasPub = (cur.hasPub || (a.1 && a.2 ≠ "none")) := by
  unfold step
  by_cases h : a.2 = "none"
  · simp [h]
  · cases cur <;> cases h1 : a.1 <;> simp [h, Iface.hasPub, Iface.hasPriv]

theorem step_hasPriv (cur : Iface) (a : Bool × String) :
    (step cur a).hasPriv = (cur.hasPriv || (!a.1 && a.2 ≠ "none")) := by
  unfold step
  by_cases h : a.2 = "none"
  · simp [h]
  · cases cur <;> cases h1 : a.1 <;> simp [h, Iface.hasPub, Iface.hasPriv]

/-- the merged interface is public exactly when some `public_interface` attribute has a value other than "none",
    private exactly when some `private_interface` has — whatever the order of the attributes -/
theorem merge_spec (attrs : List (Bool × String)) :
    (merge attrs).hasPub = attrs.any (fun a => a.1 && a.2 ≠ "none")
      ∧ (merge attrs).hasPriv = attrs.any (fun a => !a.1 && a.2 ≠ "none") := by
  suffices h : ∀ cur, ((attrs.foldl step cur).hasPub = (cur.hasPub || attrs.any (fun a => a.1 && a.2 ≠ "none")))
      ∧ ((attrs.foldl step cur).hasPriv = (cur.hasPriv || attrs.any (fun a => !a.1 && a.2 ≠ "none"))) by
    simpa [merge, Iface.hasPub, Iface.hasPriv] using h .none
  induction attrs with
  | nil => intro cur; simp
  | cons a r ih =>
    intro cur
    simp only [List.foldl_cons, List.any_cons]
    rw [(ih _).1, (ih _).2, step_hasPub, step_hasPriv]
    simp [Bool.or_assoc]

/-- an interface is determined by its two flags -/
theorem iface_ext (a b : Iface) (h1 : a.hasPub = b.hasPub) (h2 : a.hasPriv = b.hasPriv) : a = b := by
  cases a <;> cases b <;> simp_all [Iface.hasPub, Iface.hasPriv]

/-- **order independence** of the merge -/
theorem merge_perm (l l' : List (Bool × String)) (h : l.Perm l') : merge l = merge l' := by
  apply iface_ext
  · rw [(merge_spec l).1, (merge_spec l').1]; exact h.any_eq
  · rw [(merge_spec l).2, (merge_spec l').2]; exact h.any_eq

/-- the rewriting of a 2.0 interface into 1.x attributes is inverted by the merge (for every direction value) -/
theorem merge_of_rewrite (d1 d2 : String) (h1 : d1 ≠ "none") (h2 : d2 ≠ "none") :
    merge [] = .none ∧ merge [(true, "none"), (false, "none")] = .none
      ∧ merge [(true, d1)] = .pub ∧ merge [(true, d1), (false, "none")] = .pub
      ∧ merge [(false, d2)] = .priv ∧ merge [(true, "none"), (false, d2)] = .priv
      ∧ merge [(true, d1), (false, d2)] = .both ∧ merge [(false, d2), (true, d1)] = .both := by
  simp [merge, step, h1, h2, Iface.hasPub, Iface.hasPriv]

/-- a group is an encapsulation group exactly when some `relationship_ref` says so … -/
theorem encapsulation_iff (refs : List (Option String)) :
    isEncapsulation refs = true ↔ some "encapsulation" ∈ refs := by
  simp [isEncapsulation]

/-- … wherever that `relationship_ref` stands among the others -/
theorem encapsulation_perm (l l' : List (Option String)) (h : l.Perm l') : isEncapsulation l = isEncapsulation l' :=
  h.any_eq

theorem encapsulation_append (l l' : List (Option String)) :
    isEncapsulation (l ++ l') = (isEncapsulation l || isEncapsulation l') := by
  simp [isEncapsulation]

theorem respell_idem (u : String) : respell (respell u) = respell u := by
  unfold respell
  by_cases h1 : u = "liter"
  · subst h1; decide
  · by_cases h2 : u = "meter"
    · subst h2; decide
    · simp [h1, h2]

theorem respell_fixes : respell "liter" = "litre" ∧ respell "meter" = "metre" ∧ respell "litre" = "litre" ∧ respell "metre" = "metre" := by
  decide

/-- the strict parser refuses every 1.x document; the permissive one loads 1.0, 1.1 and 2.0 -/
theorem gate : loads true .v10 = false ∧ loads true .v11 = false ∧ loads true .v20 = true
    ∧ loads false .v10 = true ∧ loads false .v11 = true ∧ loads false .v20 = true ∧ ∀ s, loads s .other = false := by
  refine ⟨rfl, rfl, rfl, rfl, rfl, rfl, fun s => rfl⟩

example : isEncapsulation [some "containment", some "encapsulation", none] = true := by decide
example : isEncapsulation [some "containment", some "Encapsulation"] = false := by decide
example : merge [(true, "none"), (false, "in")] = .priv := by decide
example : merge [(false, "out"), (true, "in")] = .both := by decide

/-! ### several encapsulation groups (fix 24b05bd) -/

/-- the hierarchy loaded from all the groups of a 1.x document is exactly the set of (child, parent) pairs they state —
    provided no component is given a parent twice -/
theorem groups_spec (ops : List GOp) (hnd : (children ops).Nodup) (c p : String) :
    grun true ops c = some p ↔ GOp.set c p ∈ ops := grun_spec ops hnd c p

/-- … so it does not matter how the pairs are dealt out to groups, nor in which order the groups stand -/
theorem groups_dealing_irrelevant (ops ops' : List GOp) (hnd : (children ops).Nodup) (hnd' : (children ops').Nodup)
    (h : ∀ c p, GOp.set c p ∈ ops ↔ GOp.set c p ∈ ops') : grun true ops = grun true ops' := grun_perm ops ops' hnd hnd' h

/-- the hierarchy `a ⊃ {d, b ⊃ c}` written as one group or as two gives the same parents … -/
theorem groups_example : ∀ x ∈ ["a", "b", "c", "d"], grun true exOne x = grun true exTwo x := by decide

/-- … whereas before the repair (the component of a top-level component_ref went back to the model) the second group
    took `b` away from `a` -/
theorem groups_before_repair : grun false exTwo "b" = none ∧ grun true exTwo "b" = some "a" := by decide

end Cellml.Props.C14
