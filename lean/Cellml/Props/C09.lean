/-
  C09 — ownership invariants survive any API history: property theorems.
  Model: `Cellml/Heap/Model.lean` (the mutators of componententity / component / model / variable .cpp after the
  repairs), tied by engine `heap` on full graph dumps after every operation of generated histories.
  Partial: memory safety on bad arguments is runtime behaviour the model cannot exhibit — the model says "refused,
  unchanged", the harness observes crashes.  `replaceComponent` / `replaceUnits` are operations of the step theorem.
-/
import Cellml.Heap.Equiv
namespace Cellml.Props.C09
open Cellml.Heap

variable {kindOf : Nat → CK}

/-- C09-1: every valid operation preserves: listed ⇒ parent, no entity listed twice, lists well-typed, equivalence
    symmetric (for *any* notion of structural look-alike used by the pointer lookups) -/
theorem C09_step (look : Look) (nameOf : Nat → String) (fuel : Nat) (h : Heap) (op : Op)
    (hi : Inv kindOf h) (hnd : EqNodup h) (hv : Valid kindOf h op) :
    Inv kindOf (step look nameOf fuel h op).1 ∧ EqNodup (step look nameOf fuel h op).1 :=
  step_inv look nameOf fuel h op hi hnd hv

/-- C09-2: … hence after every history (induction over the operations), from the empty object graph -/
theorem C09_histories (look : Look) (nameOf : Nat → String) (fuel : Nat) (ops : List Op)
    (hv : AllValid kindOf look nameOf fuel empty ops) :
    Inv kindOf (run look nameOf fuel empty ops) ∧ EqNodup (run look nameOf fuel empty ops) :=
  run_inv look nameOf fuel ops empty (empty_inv (kindOf := kindOf)).1 (empty_inv (kindOf := kindOf)).2 hv

/-- … in particular no entity is listed by two containers or in two lists -/
theorem C09_one_container (h : Heap) (hi : Inv kindOf h) (c c' : Nat) (k k' : CK) (x : Nat)
    (h1 : x ∈ h.kids c k) (h2 : x ∈ h.kids c' k') : c = c' ∧ k = k' := hi.one_container h1 h2

/-- C09-3: the component hierarchy stays acyclic under `addComponent` (self and ancestor insertion are refused),
    under every removal, and when leaves are added or something is added under a root -/
theorem C09_addComponent_acyclic (look : Look) (fuel : Nat) (h : Heap) (c x : Nat) (ha : Acyclic h) :
    Acyclic (addComponent look fuel h c x).1 := addComponent_acyclic look fuel h c x ha
theorem C09_detach_acyclic (h : Heap) (c : Nat) (k : CK) (y : Nat) (ha : Acyclic h) : Acyclic (detach h c k y) :=
  detach_acyclic h c k y ha
theorem C09_addChild_acyclic (look : Look) (h : Heap) (c : Nat) (k : CK) (x : Nat) (ha : Acyclic h) (hne : c ≠ x)
    (hx : (∀ z, h.parent z ≠ some x) ∨ h.parent c = none) : Acyclic (addChild look h c k x).1 :=
  addChild_acyclic look h c k x ha hne hx

theorem C09_replaceComponent_acyclic (look : Look) (fuel : Nat) (h : Heap) (c i x : Nat) (ha : Acyclic h) :
    Acyclic (replaceComponent look fuel h c i x).1 := replaceComponent_acyclic look fuel h c i x ha

/-- C09-1' : the two replacements keep the invariant whatever the replacement's previous owner was (the same
    container included: the child to replace is located again after the replacement has left the list) -/
theorem C09_replace (look : Look) (fuel : Nat) (h : Heap) (c i x : Nat) (hi : Inv kindOf h) :
    (kindOf x = .comp → Inv kindOf (replaceComponent look fuel h c i x).1) ∧
    (kindOf x = .units → Inv kindOf (replaceUnits look h c i x).1) :=
  ⟨replaceComponent_inv look fuel h c i x hi, replaceUnits_inv look h c i x hi⟩

/-- C09-4' (frame): replacing the units at an index by units that nothing owns touches those two objects and that list only -/
theorem C09_replaceUnits_exact (look : Look) (h : Heap) (m i x old : Nat) (hg : (h.kids m .units)[i]? = some old)
    (hxo : x ≠ old) (hp : h.parent x = none) :
    (replaceUnits look h m i x).2 = true ∧
    (replaceUnits look h m i x).1.kids m .units = (h.kids m .units).set i x ∧
    (replaceUnits look h m i x).1.parent x = some m ∧ (replaceUnits look h m i x).1.parent old = none ∧
    (∀ z, z ≠ x → z ≠ old → (replaceUnits look h m i x).1.parent z = h.parent z) ∧
    (∀ c' k', ¬ (c' = m ∧ k' = .units) → (replaceUnits look h m i x).1.kids c' k' = h.kids c' k') :=
  replaceUnits_exact look h m i x old hg hxo hp

/-- C09-4 (frame): removing an object that *is* a child affects exactly that object — it is found as itself, only
    its parent pointer and the one list change -/
theorem C09_remove_child_exact (look : Look) (h : Heap) (c : Nat) (k : CK) (x : Nat) (hx : x ∈ h.kids c k) :
    removePtr look h c k x = (detach h c k x, true) ∧
    (∀ z, z ≠ x → (detach h c k x).parent z = h.parent z) ∧
    (∀ c' k', ¬ (c' = c ∧ k' = k) → (detach h c k x).kids c' k' = h.kids c' k') ∧
    (detach h c k x).kids c k = (h.kids c k).erase x := by
  refine ⟨by simp [removePtr, findPtr_self look h c k x hx], fun z hz => detach_frame h c k x z hz, ?_, ?_⟩
  · intro c' k' hck; simp [detach, updK_other _ _ _ _ _ _ hck]
  · simp [detach, updK_same]

/-- … an object that is not a child is either refused or matched to a structurally equal child, whose own links are updated -/
theorem C09_remove_nonchild (look : Look) (h : Heap) (c : Nat) (k : CK) (x : Nat) (hx : x ∉ h.kids c k) :
    (removePtr look h c k x = (h, false)) ∨
    (∃ y, y ∈ h.kids c k ∧ look h x y = true ∧ removePtr look h c k x = (detach h c k y, true) ∧ (detach h c k y).parent y = none) := by
  unfold removePtr findPtr
  simp only [hx, if_false]
  cases hf : (h.kids c k).find? (look h x) with
  | none => exact Or.inl rfl
  | some y =>
    exact Or.inr ⟨y, List.mem_of_find?_eq_some hf, List.find?_some hf, rfl, detach_parent h c k y⟩

/-- C09-5 (expiry): when the last reference to a parentless variable is dropped, no equivalence list mentions it any
    more and the invariants (symmetry included) still hold -/
theorem C09_release (h : Heap) (v : Nat) (hi : Inv kindOf h) (hnd : EqNodup h) (hp : h.parent v = none) :
    (release h v).2 = true ∧ (∀ x, v ∉ (release h v).1.equiv x) ∧ Inv kindOf (release h v).1 ∧ EqNodup (release h v).1 := by
  have hf := release_forgets h v hp
  refine ⟨hf.1, fun x => ?_, release_inv h v hi hnd, eqNodup_release h v hnd⟩
  exact hf.2.2 x (hnd x)

/-! non-vacuity: a concrete valid history (two models, a component moved between them, a variable, an equivalence) -/
def exKind (x : Nat) : CK := if x < 5 then .comp else if x < 8 then .var else if x < 10 then .units else .reset
def exLook : Look := fun _ _ _ => false
def exOps : List Op := [.addToModel 0 2, .addComponent 2 3, .addVariable 3 5, .addToModel 1 3, .addVariable 2 6, .addEquivalence 5 6, .addEquivalence 5 7, .release 7, .removeAllEquivalences 5, .addToModel 0 4,
  .replaceComponent 0 0 4, .addUnits 0 8, .addUnits 1 9, .replaceUnits 0 0 9, .removePtr 1 .comp 3]
example : AllValid exKind exLook (fun _ => "") 16 empty exOps := by
  simp only [exOps, AllValid, Valid, step, exKind]
  decide

end Cellml.Props.C09
