/-
  C04 — the validator accepts valid models and rejects every rule violation: property theorems for the two
  uniqueness checks that are modelled (`Cellml/Valid/Model.lean`, tied by engine `valid`).  Acceptance of
  valid-by-construction documents and rejection of every injected single-rule violation, at every applicable
  location, with an error citing the rule, is checked on the implementation (`checks/C04.py`).
-/
import Cellml.Valid.Model
import Cellml.Valid.Walk
import Cellml.Generated.MathWalk
namespace Cellml.Props.C04
open Cellml.Valid

theorem dupReports_nil_iff (names seen : List String) (i : Nat) :
    dupReports names seen i = [] ↔ (∀ n ∈ names, n ≠ "" → n ∉ seen) ∧ (names.filter (· ≠ "")).Nodup := by
  induction names generalizing seen i with
  | nil => simp [dupReports]
  | cons n rest ih =>
    simp only [dupReports]
    by_cases h0 : n = ""
    · subst h0
      simp only [if_true]
      rw [ih]
      simp
    · simp only [h0, if_false]
      by_cases hs : seen.contains n = true
      · simp only [hs, if_true]
        constructor
        · intro h; cases h
        · rintro ⟨h, _⟩
          have := h n (by simp) h0
          simp only [List.contains_eq_mem, decide_eq_true_eq] at hs
          exact absurd hs this
      · simp only [hs, Bool.false_eq_true, if_false]
        rw [ih]
        simp only [List.contains_eq_mem, decide_eq_true_eq] at hs
        simp only [List.mem_cons, not_or, ne_eq, decide_not, List.filter_cons, h0, not_false_eq_true, decide_true,
          Bool.not_false, if_true, List.nodup_cons, List.mem_filter, Bool.not_eq_true', decide_eq_false_iff_not]
        constructor
        · rintro ⟨h1, h2⟩
          refine ⟨fun m hm hm0 => ?_, ?_, h2⟩
          · rcases hm with rfl | hm
            · exact hs
            · exact (h1 m hm hm0).2
          · intro hn
            exact (h1 n hn.1 h0).1 rfl
        · rintro ⟨h1, h2, h3⟩
          refine ⟨fun m hm hm0 => ⟨?_, h1 m (Or.inr hm) hm0⟩, h3⟩
          intro hmn; subst hmn
          exact h2 ⟨hm, trivial⟩

/-- **unique names**: no issue is raised exactly when the non-empty names are pairwise distinct -/
theorem names_accepted_iff (names : List String) : nameIssues names = [] ↔ (names.filter (· ≠ "")).Nodup := by
  simp [nameIssues, dupReports_nil_iff]

/-- every reported position holds a name that occurred earlier -/
theorem dupReports_sound (names seen : List String) (i : Nat) :
    ∀ k ∈ dupReports names seen i, i ≤ k ∧ ∃ n, names[k - i]? = some n ∧ (n ∈ seen ∨ n ∈ names.take (k - i)) := by
  induction names generalizing seen i with
  | nil => simp [dupReports]
  | cons n rest ih =>
    intro k hk
    simp only [dupReports] at hk
    split at hk
    · obtain ⟨h1, m, h2, h3⟩ := ih seen (i + 1) k hk
      refine ⟨by omega, m, ?_, ?_⟩
      · have : k - i = (k - (i + 1)) + 1 := by omega
        rw [this]; simpa using h2
      · rcases h3 with h3 | h3
        · exact Or.inl h3
        · right; have : k - i = (k - (i + 1)) + 1 := by omega
          rw [this, List.take_succ_cons]; exact List.mem_cons_of_mem _ h3
    · split at hk
      · rename_i hs
        rcases List.mem_cons.mp hk with rfl | hk
        · refine ⟨Nat.le_refl _, n, by simp, Or.inl ?_⟩
          simpa using hs
        · obtain ⟨h1, m, h2, h3⟩ := ih seen (i + 1) k hk
          refine ⟨by omega, m, ?_, ?_⟩
          · have : k - i = (k - (i + 1)) + 1 := by omega
            rw [this]; simpa using h2
          · rcases h3 with h3 | h3
            · exact Or.inl h3
            · right; have : k - i = (k - (i + 1)) + 1 := by omega
              rw [this, List.take_succ_cons]; exact List.mem_cons_of_mem _ h3
      · obtain ⟨h1, m, h2, h3⟩ := ih (n :: seen) (i + 1) k hk
        refine ⟨by omega, m, ?_, ?_⟩
        · have : k - i = (k - (i + 1)) + 1 := by omega
          rw [this]; simpa using h2
        · have hki : k - i = (k - (i + 1)) + 1 := by omega
          rcases h3 with h3 | h3
          · rcases List.mem_cons.mp h3 with rfl | h3
            · right; rw [hki, List.take_succ_cons]; exact List.mem_cons_self
            · exact Or.inl h3
          · right; rw [hki, List.take_succ_cons]; exact List.mem_cons_of_mem _ h3

theorem count_le_one_iff_nodup (l : List String) : (∀ a ∈ l, l.count a ≤ 1) ↔ l.Nodup := by
  induction l with
  | nil => simp
  | cons x r ih =>
    rw [List.nodup_cons]
    constructor
    · intro h
      refine ⟨fun hx => ?_, ih.mp fun a ha => ?_⟩
      · have h1 := h x List.mem_cons_self
        have h2 : 0 < r.count x := List.count_pos_iff.mpr hx
        simp only [List.count_cons_self] at h1
        omega
      · have := h a (List.mem_cons_of_mem _ ha)
        have hle : r.count a ≤ (x :: r).count a := by rw [List.count_cons]; omega
        omega
    · rintro ⟨hx, hn⟩ a ha
      rw [List.count_cons]
      rcases List.mem_cons.mp ha with rfl | ha
      · have : r.count a = 0 := List.count_eq_zero.mpr hx
        simp [this]
      · have h1 := ih.mpr hn a ha
        have : (x == a) = false := by
          simp only [beq_eq_false_iff_ne, ne_eq]
          intro hxa; subst hxa; exact hx ha
        simp [this]; exact h1

/-- **unique ids**: no id is reported exactly when the collected ids are pairwise distinct -/
theorem ids_accepted_iff (ids : List String) : idIssues ids = [] ↔ ids.Nodup := by
  unfold idIssues
  have hd : ∀ l : List String, dedup l = [] ↔ l = [] := by intro l; cases l <;> simp [dedup]
  rw [hd]
  simp only [List.filter_eq_nil_iff, decide_eq_true_eq, Nat.not_lt]
  exact count_le_one_iff_nodup ids

example : nameIssues ["a", "b", "a", "", "", "b", "c"] = [2, 5] := by decide
example : idIssues ["x", "y", "x", "z", "x"] = ["x"] := by decide

/-- the CellML 2.0 identifier: a non-empty sequence of basic Latin letters, digits and underscores that does not begin
    with a digit -/
def SpecIdentifier (s : List Char) : Prop :=
  ∃ c rest, s = c :: rest ∧ isDigit c = false ∧ ∀ x ∈ s, isIdChar x = true

/-- **identifier syntax**: a name is accepted exactly when it is an identifier of the specification -/
theorem identifier_ok_iff (s : List Char) : identifier s = .ok ↔ SpecIdentifier s := by
  cases s with
  | nil => simp [identifier, SpecIdentifier]
  | cons c rest =>
    unfold identifier SpecIdentifier
    by_cases hd : isDigit c = true
    · simp [hd]
    · have hd' : isDigit c = false := by simpa using hd
      simp only [hd', Bool.false_eq_true, if_false]
      constructor
      · intro h
        split at h
        · rename_i hall
          exact ⟨c, rest, rfl, hd', by simpa [List.all_eq_true] using hall⟩
        · cases h
      · rintro ⟨c', rest', heq, _, hall⟩
        have : ((c :: rest).all isIdChar) = true := by simpa [List.all_eq_true] using hall
        simp [this]

/-- a rejected name is rejected under the rule that says why -/
theorem identifier_empty : identifier [] = .empty := rfl

theorem identifier_digit (c : Char) (rest : List Char) (h : isDigit c = true) : identifier (c :: rest) = .beginsWithDigit := by
  simp [identifier, h]

theorem identifier_other (c : Char) (rest : List Char) (h : isDigit c = false) (hx : ∃ x ∈ c :: rest, isIdChar x = false) :
    identifier (c :: rest) = .notLatinAlphanumeric := by
  obtain ⟨x, hmem, hxf⟩ := hx
  have hall : ((c :: rest).all isIdChar) = false := by
    cases hq : (c :: rest).all isIdChar with
    | false => rfl
    | true =>
      have := (List.all_eq_true.mp hq) x hmem
      rw [hxf] at this; cases this
  unfold identifier
  simp only [h, Bool.false_eq_true, if_false, hall]

example : identifier "a_1".toList = .ok ∧ identifier "1a".toList = .beginsWithDigit ∧ identifier "a-b".toList = .notLatinAlphanumeric ∧ identifier [] = .empty := by decide

/-! ### the arity / `cn` format pass over MathML reaches every element (table regenerated from validator.cpp) -/

/-- T-tie: in the table of branches extracted from `validateMathMLElementsChildrenAndSiblings`, every element that can
    have MathML children (apply, piecewise, piece, otherwise, bvar, degree, logbase) has a branch that descends into all
    the children it insists on -/
theorem math_walk_table_covers : tableCovers Cellml.Generated.MathWalk.rows = true := by decide

/-- with such a table a tree in which every reached element with children is a container and raises no
    number-of-children issue is `Accepted` … -/
theorem accepted_of_table (rows : List Row) (ht : tableCovers rows = true) (t : Tree)
    (h : ∀ name kids, Reached rows t (.node name kids) → kids ≠ [] →
      name ∈ containers ∧ ∀ r ∈ rows, r.1 = name → r.2.1.holds kids.length = true) : Accepted rows t := by
  intro name kids hr hne
  obtain ⟨hc, hall⟩ := h name kids hr hne
  simp only [tableCovers, List.all_eq_true, List.any_eq_true, Bool.and_eq_true, beq_iff_eq] at ht
  obtain ⟨r, hrm, hn, hcov⟩ := ht name hc
  exact ⟨r, hrm, hn, hcov, hall r hrm hn⟩

/-- … and then **no element escapes the pass**: every element of the tree, at any depth and in any position (operand,
    value or condition of a piece, otherwise, degree, logbase, bound variable), is reached and so has its local rule
    (number of siblings, `cn` format, non-empty `ci`) applied -/
theorem math_walk_complete (t : Tree)
    (h : ∀ name kids, Reached Cellml.Generated.MathWalk.rows t (.node name kids) → kids ≠ [] →
      name ∈ containers ∧ ∀ r ∈ Cellml.Generated.MathWalk.rows, r.1 = name → r.2.1.holds kids.length = true) :
    ∀ s, Sub t s → Reached Cellml.Generated.MathWalk.rows t s :=
  all_reached _ t (accepted_of_table _ math_walk_table_covers t h)

/-- a table in which the condition of a piece is not descended into does not cover -/
example : tableCovers [("apply", .atLeast 1, .all), ("piecewise", .any, .all), ("piece", .exactly 2, .idx [0]), ("otherwise", .exactly 1, .idx [0]),
    ("bvar", .any, .all), ("degree", .any, .all), ("logbase", .any, .all)] = false := by decide

end Cellml.Props.C04
