/-
  C19 — model repair helpers establish what they promise: property theorems.
  Model: `Cellml/Repair/Model.lean`, tied by engine `repair`.
-/
import Cellml.Repair.Model
namespace Cellml.Props.C19
open Cellml.Repair

def Bad (r : Rel) : Prop := r = .unreachable ∨ r = .parentless

theorem required_none_iff : ∀ (rels : List Rel) (acc : Bool × Bool),
    required false acc rels = none ↔ ∃ r ∈ rels, Bad r := by
  intro rels
  induction rels with
  | nil => intro acc; simp [required]
  | cons r rs ih =>
    intro acc
    cases r <;> simp [required, ih, Bad]

theorem required_or : ∀ (rels : List Rel) (acc res : Bool × Bool), required false acc rels = some res →
    (acc.1 || acc.2) = true → (res.1 || res.2) = true := by
  intro rels
  induction rels with
  | nil => intro acc res h; simp [required] at h; subst h; exact id
  | cons r rs ih =>
    intro acc res h hacc
    cases r <;> simp only [required, Bool.false_and, Bool.false_eq_true, if_false] at h
    · exact ih _ _ h (by simp)
    · exact ih _ _ h (by simp)
    · exact ih _ _ h (by simp)
    · cases h
    · cases h

/-- the required type is the error value exactly when an equivalent variable cannot be reached or has no parent -/
theorem determine_none_iff (rels : List Rel) (hne : rels ≠ []) :
    determine false rels = .none_ ↔ ∃ r ∈ rels, Bad r := by
  unfold determine
  cases h : required false (false, false) rels with
  | none => simp [(required_none_iff rels _).mp h]
  | some res =>
    have hno : ¬ ∃ r ∈ rels, Bad r := fun hb => by
      have := (required_none_iff rels (false, false)).mpr hb; rw [h] at this; cases this
    obtain ⟨a, b⟩ := res
    cases a <;> cases b <;> simp [hno]
    -- (false, false) with a non-empty list of good relations is impossible
    cases rels with
    | nil => exact hne rfl
    | cons r rs =>
      cases r <;> simp only [required, Bool.false_and, Bool.false_eq_true, if_false] at h
      · have := required_or rs _ _ h (by simp); simp at this
      · have := required_or rs _ _ h (by simp); simp at this
      · have := required_or rs _ _ h (by simp); simp at this
      · cases h
      · cases h

theorem isPrefixOf_self : ∀ l : List Char, l.isPrefixOf l = true
  | [] => rfl
  | c :: cs => by simp [List.isPrefixOf, isPrefixOf_self cs]

theorem isInfix_self (l : List Char) : isInfix l l = true := by
  cases l with
  | nil => rfl
  | cons c cs => simp [isInfix, isPrefixOf_self]

theorem compatible_of_permits (iface : String) (t : IType) (ht : t ≠ .none_) (hp : permits iface t = true) :
    isInfix t.str.toList iface.toList = true := by
  unfold permits at hp
  simp only [Bool.or_eq_true, decide_eq_true_eq] at hp
  rcases hp with (h | h) | h
  · exact absurd h ht
  · subst h; cases t <;> first | exact absurd rfl ht | decide
  · subst h; exact isInfix_self _

/-- C19-1: after `fixVariableInterfaces`, a variable whose equivalences are all reachable raises no interface issue
    in the validator (whatever string its interface attribute held before), whether or not the call returns true -/
theorem C19_fixed_variable_validates (v : Var) (h : determine false v.rels ≠ .none_) :
    validatorIssue false (fixVar false v).1 = false := by
  unfold fixVar validatorIssue
  simp only [h, if_false]
  by_cases hp : permits v.iface (determine false v.rels) = true
  · simp only [hp, Bool.not_true, Bool.false_eq_true, if_false, h]
    simp [compatible_of_permits _ _ h hp]
  · simp only [hp, Bool.not_false, if_true, h, if_false]
    simp [isInfix_self]

/-- C19-1': when it returns true, no variable with equivalences raises an interface issue -/
theorem C19_fix_true_validates (vs : List Var) (hne : ∀ v ∈ vs, v.rels ≠ []) (h : (fixAll false vs).2 = true) :
    ∀ v' ∈ (fixAll false vs).1, validatorIssue false v' = false := by
  intro v' hv'
  simp only [fixAll, List.map_map, List.mem_map, Function.comp] at hv' h
  obtain ⟨v, hv, rfl⟩ := hv'
  have hok : (fixVar false v).2 = true := by
    simp only [List.all_map, List.all_eq_true, Function.comp] at h
    exact h v hv
  have hd : determine false v.rels ≠ .none_ := by
    intro hn
    unfold fixVar at hok
    simp [hn] at hok
  exact C19_fixed_variable_validates v hd

/-- C19-2: a variable whose interface already sufficed is left unchanged -/
theorem C19_sufficient_unchanged (v : Var) (hp : permits v.iface (determine false v.rels) = true) :
    (fixVar false v).1 = v := by
  unfold fixVar
  by_cases h : determine false v.rels = .none_
  · simp [h]
  · simp [h, hp]

/-- C19-3: it returns false **exactly** when some equivalence joins components that are neither siblings nor
    parent and child, or involves a parentless variable -/
theorem C19_fix_false_iff (vs : List Var) (hne : ∀ v ∈ vs, v.rels ≠ []) :
    (fixAll false vs).2 = false ↔ ∃ v ∈ vs, ∃ r ∈ v.rels, Bad r := by
  simp only [fixAll, List.all_map, List.all_eq_false, Function.comp]
  constructor
  · rintro ⟨v, hv, hf⟩
    refine ⟨v, hv, (determine_none_iff v.rels (hne v hv)).mp ?_⟩
    unfold fixVar at hf
    by_cases hd : determine false v.rels = .none_
    · exact hd
    · exfalso; apply hf; simp only [hd, if_false]; split <;> rfl
  · rintro ⟨v, hv, hb⟩
    refine ⟨v, hv, ?_⟩
    have := (determine_none_iff v.rels (hne v hv)).mpr hb
    unfold fixVar; simp [this]

/-- … and the rels (the model structure) are never touched, only interface strings -/
theorem C19_fix_keeps_structure (v : Var) : (fixVar false v).1.rels = v.rels := by
  unfold fixVar
  by_cases h : determine false v.rels = .none_
  · simp [h]
  · by_cases hp : permits v.iface (determine false v.rels) = true <;> simp [h, hp]

/-! ### the superseded early exit (repaired by 9bfe6a9): kernel-checked witness -/
theorem C19_early_exit_refuted :
    let v : Var := ⟨"", [.sibling, .vParentOfE, .unreachable]⟩
    (fixVar true v).2 = true ∧ validatorIssue true (fixVar true v).1 = false ∧
    (fixVar false v).2 = false ∧ validatorIssue false (fixVar false v).1 = true := by decide

/-! ### linkUnits -/

/-- C19-4: when `linkUnits()` returns true no variable is left unlinked, and every variable that named
    non-standard units holds the model's own units of that name -/
theorem C19_linkUnits (mu : List String) (vs : List URef) (h : (linkAll mu vs).2 = true) :
    hasUnlinked (linkAll mu vs).1 = false ∧
    (∀ r ∈ vs, ∀ n, r = .loose n → (linkVar mu r).1 = .linked n ∧ n ∈ mu) := by
  simp only [linkAll, List.all_map, List.all_eq_true, Function.comp] at h
  constructor
  · simp only [linkAll, hasUnlinked, List.map_map, List.any_map, Function.comp]
    rw [Bool.eq_false_iff]
    simp only [ne_eq, List.any_eq_true, not_exists, not_and]
    intro r hr
    have := h r hr
    cases r <;> simp [linkVar] at this ⊢
    rename_i n
    by_cases hn : n ∈ mu <;> simp [hn] at this ⊢
  · intro r hr n hrn
    subst hrn
    have := h _ hr
    simp only [linkVar] at this ⊢
    by_cases hn : n ∈ mu
    · simp [hn]
    · simp [hn] at this

/-- … and it returns false exactly when some variable names units the model lacks or units of another model -/
theorem C19_linkUnits_false_iff (mu : List String) (vs : List URef) :
    (linkAll mu vs).2 = false ↔ ∃ r ∈ vs, (∃ n, r = .foreign n) ∨ (∃ n, r = .foreignStd n) ∨ (∃ n, r = .loose n ∧ n ∉ mu) := by
  simp only [linkAll, List.all_map, List.all_eq_false, Function.comp]
  constructor
  · rintro ⟨r, hr, hf⟩
    refine ⟨r, hr, ?_⟩
    cases r <;> simp [linkVar] at hf ⊢
    rename_i n
    by_cases hn : n ∈ mu <;> simp [hn] at hf ⊢
  · rintro ⟨r, hr, h | h | ⟨n, rfl, hn⟩⟩
    · obtain ⟨n, rfl⟩ := h; exact ⟨_, hr, by simp [linkVar]⟩
    · obtain ⟨n, rfl⟩ := h; exact ⟨_, hr, by simp [linkVar]⟩
    · exact ⟨_, hr, by simp [linkVar, hn]⟩

/-! ### clean -/

theorem filterMap_id_of {α : Type} (f : α → Option α) : ∀ l : List α, (∀ x ∈ l, f x = some x) → l.filterMap f = l
  | [], _ => rfl
  | x :: xs, h => by
    simp only [List.filterMap_cons, h x List.mem_cons_self]
    rw [filterMap_id_of f xs (fun y hy => h y (List.mem_cons_of_mem _ hy))]

/-- C19-5a: `clean` is idempotent on components: what it keeps it would keep again, unchanged -/
theorem cleanTree_idem : ∀ (f : Nat) (t t' : CTree), cleanTree f t = some t' → cleanTree f t' = some t'
  | 0, t, t', h => by simp [cleanTree] at h ⊢
  | f+1, .mk name id math imp nv nr kids, t', h => by
    simp only [cleanTree] at h
    split at h
    · cases h
    · rename_i hc
      cases h
      have hk : (kids.filterMap (cleanTree f)).filterMap (cleanTree f) = kids.filterMap (cleanTree f) := by
        apply filterMap_id_of
        intro x hx
        obtain ⟨k, _, hk⟩ := List.mem_filterMap.mp hx
        exact cleanTree_idem f k x hk
      simp only [cleanTree, hk]
      rw [if_neg hc]

/-- C19-5b: a component is removed exactly when, after its own children have been cleaned, it has no variables,
    resets or children, no math, is not an import and has neither name nor id -/
theorem cleanTree_none_iff (f : Nat) (name id math : String) (imp : Bool) (nv nr : Nat) (kids : List CTree) :
    cleanTree (f+1) (.mk name id math imp nv nr kids) = none ↔
      (nv = 0 ∧ nr = 0 ∧ (∀ k ∈ kids, cleanTree f k = none) ∧ math = "" ∧ imp = false ∧ name = "" ∧ id = "") := by
  simp only [cleanTree]
  constructor
  · intro h
    split at h
    · rename_i hc
      obtain ⟨h1, h2, h3, h4, h5⟩ := hc
      refine ⟨by omega, by omega, ?_, h2, h3, h4, h5⟩
      have hl : (kids.filterMap (cleanTree f)).length = 0 := by omega
      have hnil := List.eq_nil_of_length_eq_zero hl
      intro k hk
      cases hck : cleanTree f k with
      | none => rfl
      | some k' =>
        have : k' ∈ kids.filterMap (cleanTree f) := List.mem_filterMap.mpr ⟨k, hk, hck⟩
        rw [hnil] at this; cases this
    · cases h
  · rintro ⟨h1, h2, h3, h4, h5, h6, h7⟩
    have hnil : kids.filterMap (cleanTree f) = [] := by
      apply List.filterMap_eq_nil_iff.mpr
      exact h3
    simp [hnil, h1, h2, h4, h5, h6, h7]

/-- C19-5c: units are removed exactly when empty by the documented definition; the rest keeps its order -/
theorem C19_clean_units (fuel : Nat) (comps : List CTree) (units : List UInfo) :
    (clean fuel comps units).2 = units.filter (fun u => !emptyUnits u) ∧
    (∀ u ∈ (clean fuel comps units).2, emptyUnits u = false) := by
  refine ⟨rfl, ?_⟩
  intro u hu
  simp only [clean, List.mem_filter, Bool.not_eq_true'] at hu
  exact hu.2

theorem C19_clean_idempotent (fuel : Nat) (comps : List CTree) (units : List UInfo) :
    clean fuel (clean fuel comps units).1 (clean fuel comps units).2 = clean fuel comps units := by
  simp only [clean, List.filter_filter, Bool.and_self]
  congr 1
  apply filterMap_id_of
  intro x hx
  obtain ⟨k, _, hk⟩ := List.mem_filterMap.mp hx
  exact cleanTree_idem fuel k x hk

/-! non-vacuity -/
example : (fixAll false [⟨"private", [.sibling]⟩, ⟨"bogus", [.vParentOfE, .vChildOfE]⟩]) =
    ([⟨"public", [.sibling]⟩, ⟨"public_and_private", [.vParentOfE, .vChildOfE]⟩], true) := by decide
example : (linkAll ["mV"] [.loose "mV", .standard "second", .none_]).2 = true := by decide

end Cellml.Props.C19
