/-
  C12 — operations are pure: property theorems.

  * `writers_known`, `statics_known` (T-tie, regenerated from /repo/src on every run): the only calls that write
    process-wide state are the libxml2 calls of printer.cpp, xmlnode.cpp and xmldoc.cpp, and the only static variables
    that are not const are the decompressed MathML DTD (written once, same value) and a debugging aid.  Any new one
    re-opens the obligation.
  * The full statement — what a call returns does not depend on the calls made before it — is FALSE of the model and of
    the implementation (`history_dependent`: a parse after a print drops the white space of MathML, a parse after a parse
    keeps it); the repair is blocked by an existing test, so this is a known finding, and the model keeps predicting
    the observation exactly (`after_print`, `after_parse_math`, `after_depends_on_last_writer`), which the check compares
    with the implementation on random histories.
  * For the library with the flag restored, the statement holds (`fixed_history_independent`).
  That repeated calls, fresh instances and unrelated earlier calls give the same content, issues and text, and that the
  services leave their argument unchanged, is decided on the implementation (checks/C12.py).
-/
import Cellml.Purity.Model
import Cellml.Generated.Globals
namespace Cellml.Props.C12
open Cellml.Purity Cellml.Generated.Globals

def allowedWriters : List (String × String) :=
  [("printer.cpp", "xmlKeepBlanksDefault"), ("xmlnode.cpp", "xmlKeepBlanksDefault"),
   ("xmldoc.cpp", "xmlInitParser"), ("xmldoc.cpp", "xmlCleanupParser"), ("xmldoc.cpp", "xmlSetStructuredErrorFunc")]

def allowedStatics : List (String × String) := [("xmldoc.cpp", "mathMLDTD"), ("debug.cpp", "generatorProfile")]

theorem writers_known : writers.all (fun w => allowedWriters.contains w) = true := by decide
theorem statics_known : statics.all (fun s => allowedStatics.contains s) = true := by decide

/-- a parse right after a print (any number of other calls in between) drops the white space -/
theorem after_print (h : List Op) (others : List Op) (ho : ∀ o ∈ others, o = .other) (m : Bool) :
    after (h ++ [.print] ++ others) (.parse m) = some false := by
  unfold after
  have hf : ∀ (g : G) (l : List Op), (∀ o ∈ l, o = .other) → final g l = g := by
    intro g l
    induction l generalizing g with
    | nil => intro _; rfl
    | cons a t ih =>
      intro hl
      have : a = .other := hl a (by simp)
      subst this
      simp only [final, step]
      exact ih g (fun o ho' => hl o (by simp [ho']))
  have happ : ∀ (g : G) (a b : List Op), final g (a ++ b) = final (final g a) b := by
    intro g a
    induction a generalizing g with
    | nil => intro b; rfl
    | cons x t ih => intro b; simp only [List.cons_append, final]; exact ih _ b
  rw [happ, happ, hf _ others ho]
  simp [final, step]

/-- a parse right after a parse of a document with MathML keeps it -/
theorem after_parse_math (h : List Op) (others : List Op) (ho : ∀ o ∈ others, o = .other) (m : Bool) :
    after (h ++ [.parse true] ++ others) (.parse m) = some true := by
  unfold after
  have hf : ∀ (g : G) (l : List Op), (∀ o ∈ l, o = .other) → final g l = g := by
    intro g l
    induction l generalizing g with
    | nil => intro _; rfl
    | cons a t ih =>
      intro hl
      have : a = .other := hl a (by simp)
      subst this
      simp only [final, step]
      exact ih g (fun o ho' => hl o (by simp [ho']))
  have happ : ∀ (g : G) (a b : List Op), final g (a ++ b) = final (final g a) b := by
    intro g a
    induction a generalizing g with
    | nil => intro b; rfl
    | cons x t ih => intro b; simp only [List.cons_append, final]; exact ih _ b
  rw [happ, happ, hf _ others ho]
  simp [final, step]

/-- what a call observes depends on the history only through the flag -/
theorem after_depends_on_last_writer (h1 h2 : List Op) (op : Op) (hg : final init h1 = final init h2) :
    after h1 op = after h2 op := by
  unfold after; rw [hg]

/-- **the full statement is false** (known finding C12-keep-blanks): two histories, one call, two answers -/
theorem history_dependent : ∃ h1 h2 op, after h1 op ≠ after h2 op :=
  ⟨[.print], [.parse true], .parse true, by decide⟩

/-- with the flag restored by the printer, no history changes what a call observes -/
theorem fixed_history_independent (h1 h2 : List Op) (op : Op) : afterFixed h1 op = afterFixed h2 op := by
  have hf : ∀ (g : G) (l : List Op), finalFixed g l = g := by
    intro g l
    induction l generalizing g with
    | nil => rfl
    | cons a t ih => cases a <;> simp only [finalFixed, stepFixed] <;> exact ih g
  unfold afterFixed
  rw [hf, hf]

/-! non-vacuity -/
example : run init [.parse true, .print, .parse true, .parse true, .other, .print, .parse false, .parse true, .print, .analyse true, .parse true] =
    [some true, none, some false, some true, none, none, some false, some false, none, none, some true] := by decide

end Cellml.Props.C12
