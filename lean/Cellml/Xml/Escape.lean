/-
  C02 — attribute text: the escaping the printer applies to an import URL (`escapeAttributeValue` in src/printer.cpp),
  the decoding an XML parser applies to attribute values (the five predefined entities; libxml2, modelled), and what
  "well formed as a double-quoted attribute value" means.  Strings are `List Char`.
-/
namespace Cellml.Xml

/-- `escapeAttributeValue`, one character -/
def escapeChar (c : Char) : List Char :=
  if c = '&' then "&amp;".toList
  else if c = '<' then "&lt;".toList
  else if c = '>' then "&gt;".toList
  else if c = '"' then "&quot;".toList
  else [c]

def escape (s : List Char) : List Char := s.flatMap escapeChar

/-- decoding of the predefined entities in an attribute value -/
def unescape : List Char → List Char
  | '&' :: 'a' :: 'm' :: 'p' :: ';' :: r => '&' :: unescape r
  | '&' :: 'l' :: 't' :: ';' :: r => '<' :: unescape r
  | '&' :: 'g' :: 't' :: ';' :: r => '>' :: unescape r
  | '&' :: 'q' :: 'u' :: 'o' :: 't' :: ';' :: r => '"' :: unescape r
  | '&' :: 'a' :: 'p' :: 'o' :: 's' :: ';' :: r => '\'' :: unescape r
  | c :: r => c :: unescape r
  | [] => []

/-- a double-quoted attribute value is well formed: no raw `<` or `"`, and every `&` starts a predefined entity -/
def wellFormed : List Char → Bool
  | '&' :: 'a' :: 'm' :: 'p' :: ';' :: r => wellFormed r
  | '&' :: 'l' :: 't' :: ';' :: r => wellFormed r
  | '&' :: 'g' :: 't' :: ';' :: r => wellFormed r
  | '&' :: 'q' :: 'u' :: 'o' :: 't' :: ';' :: r => wellFormed r
  | '&' :: 'a' :: 'p' :: 'o' :: 's' :: ';' :: r => wellFormed r
  | c :: r => c ≠ '&' && c ≠ '<' && c ≠ '"' && wellFormed r
  | [] => true

/-- text that may be written as it is -/
def safe (s : List Char) : Bool := s.all fun c => c ≠ '&' && c ≠ '<' && c ≠ '>' && c ≠ '"'

end Cellml.Xml
