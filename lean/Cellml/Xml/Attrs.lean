/-
  C02 — attributes that the printer leaves out when they have their default value and the parser fills in again:
  `<unit>` (src/printer.cpp: printUnits; src/parser.cpp: loadUnit; src/units.cpp: addUnit with a string prefix) and
  `<variable>` (printVariable / loadVariable).  Numbers are abstract (`N` with a distinguished `one`, a rendering `shw`
  and a reader `rd`): whether a particular double survives `convertToString` / `convertToDouble` is a separate
  question (known finding C02-fifteen-digits), here a hypothesis.
-/
import Cellml.Num.Model
namespace Cellml.Xml
open Cellml.Num

abbrev Attrs := List (String × String)

/-- a unit child as `Units` stores it -/
structure UnitRec (N : Type) where
  reference : String
  pfx : String
  exponent : N
  multiplier : N
  id : String
  deriving Repr, DecidableEq

/-- `Units::addUnit(reference, prefix : string, …)`: a prefix that is an integer equal to zero is stored as no prefix -/
def storePrefix (p : String) : String :=
  if cellmlInt p.toList && intInRange p.toList && intOfText p.toList == 0 then "" else p

/-- `printUnits`, one `<unit>`: the attributes written, in order -/
def printUnit {N : Type} [DecidableEq N] (one : N) (shw : N → String) (u : UnitRec N) : Attrs :=
  (if u.exponent = one then [] else [("exponent", shw u.exponent)]) ++
  (if u.multiplier = one then [] else [("multiplier", shw u.multiplier)]) ++
  (if u.pfx = "" then [] else [("prefix", u.pfx)]) ++ [("units", u.reference)] ++
  (if u.id = "" then [] else [("id", u.id)])

/-- `loadUnit`, one attribute: unknown attributes and numbers that are not CellML reals leave the value alone -/
def loadStep {N : Type} (rd : String → Option N) (acc : UnitRec N) (a : String × String) : UnitRec N :=
  if a.1 = "units" then { acc with reference := a.2 }
  else if a.1 = "prefix" then { acc with pfx := a.2 }
  else if a.1 = "exponent" then (match rd a.2 with | some x => { acc with exponent := x } | none => acc)
  else if a.1 = "multiplier" then (match rd a.2 with | some x => { acc with multiplier := x } | none => acc)
  else if a.1 = "id" then { acc with id := a.2 }
  else acc

/-- `loadUnit` followed by `addUnit`: defaults prefix "0", exponent 1, multiplier 1 -/
def loadUnit {N : Type} (one : N) (rd : String → Option N) (as : Attrs) : UnitRec N :=
  let r := as.foldl (loadStep rd) ⟨"", "0", one, one, ""⟩
  { r with pfx := storePrefix r.pfx }

/-- a variable as stored: every attribute is a string, absent = empty -/
structure VarRec where
  name : String
  units : String
  initialValue : String
  interface : String
  id : String
  deriving Repr, DecidableEq

def printVariable (v : VarRec) : Attrs :=
  (if v.name = "" then [] else [("name", v.name)]) ++ (if v.units = "" then [] else [("units", v.units)]) ++
  (if v.initialValue = "" then [] else [("initial_value", v.initialValue)]) ++
  (if v.interface = "" then [] else [("interface", v.interface)]) ++ (if v.id = "" then [] else [("id", v.id)])

def loadVarStep (acc : VarRec) (a : String × String) : VarRec :=
  if a.1 = "name" then { acc with name := a.2 }
  else if a.1 = "units" then { acc with units := a.2 }
  else if a.1 = "initial_value" then { acc with initialValue := a.2 }
  else if a.1 = "interface" then { acc with interface := a.2 }
  else if a.1 = "id" then { acc with id := a.2 }
  else acc

def loadVariable (as : Attrs) : VarRec := as.foldl loadVarStep ⟨"", "", "", "", ""⟩

end Cellml.Xml
