/-
  C15 — histories, observers.
-/
import Cellml.Logger.Proofs
namespace Cellml.Logger

theorem coherent_removeAll (s : LState) : Coherent (removeAll s) := coherent_init

/-- one step keeps coherence when the removal (if any) erases the last issue -/
theorem coherent_step (s s' : LState) (op : Op) (h : Coherent s) (hs : step s op = some s')
    (ht : removalOK s op = true) : Coherent s' := by
  cases op with
  | add l => simp [step] at hs; subst hs; exact coherent_add s l h
  | removeAll => simp [step] at hs; subst hs; exact coherent_removeAll s
  | removeError k =>
    simp only [step, removeError] at hs
    simp only [removalOK, tailRemoval] at ht
    cases hk : s.errs[k]? with
    | none => simp [hk] at hs
    | some p =>
      simp only [hk, Option.some.injEq] at hs
      simp only [hk, beq_iff_eq] at ht
      subst hs
      exact removeError_keeps s k p h hk ht

/-- every history whose removals are tail removals ends coherent (induction over the history) -/
theorem coherent_run (ops : List Op) : ∀ (s s' : LState), Coherent s → tailRemovalsOnly s ops = true →
    run s ops = some s' → Coherent s' := by
  induction ops with
  | nil => intro s s' h _ hr; simp [run] at hr; subst hr; exact h
  | cons op ops ih =>
    intro s s' h ht hr
    simp only [tailRemovalsOnly, Bool.and_eq_true] at ht
    simp only [run] at hr
    cases hs : step s op with
    | none => simp [hs] at hr
    | some s1 =>
      simp only [hs, Option.bind_some] at hr
      have h1 : Coherent s1 := coherent_step s s1 op h hs ht.1
      have ht2 := ht.2
      simp only [hs] at ht2
      exact ih s1 s' h1 ht2 hr

/-- a tail-removal history never throws -/
theorem run_isSome (ops : List Op) : ∀ (s : LState), tailRemovalsOnly s ops = true → (run s ops).isSome = true := by
  induction ops with
  | nil => intro s _; simp [run]
  | cons op ops ih =>
    intro s ht
    simp only [tailRemovalsOnly, Bool.and_eq_true] at ht
    cases hs : step s op with
    | none => have := ht.2; simp [hs] at this
    | some s1 =>
      have ht2 := ht.2
      simp only [hs] at ht2
      simp only [run, hs, Option.bind_some]
      exact ih s1 ht2

/-- reading the issue vector at the recorded positions gives exactly the issues of that level, in order -/
theorem idxFrom_map_get (l : Level) : ∀ (is pre : List Level),
    (idxFrom l pre.length is).map (fun p => (pre ++ is)[p]?) = (is.filter (· = l)).map some := by
  intro is
  induction is with
  | nil => intro pre; simp [idxFrom]
  | cons x xs ih =>
    intro pre
    have hih := ih (pre ++ [x])
    simp only [List.length_append, List.length_cons, List.length_nil, Nat.zero_add, List.append_assoc,
      List.cons_append, List.nil_append] at hih
    unfold idxFrom
    by_cases hx : x = l
    · simp only [hx, if_true, List.map_cons, List.filter_cons, decide_true]
      rw [← hx] at hih ⊢
      rw [hih]
      simp
    · simp only [hx, if_false, List.filter_cons, decide_false]
      rw [hih]
      simp

theorem idx_map_get (l : Level) (is : List Level) :
    (idx l is).map (fun p => is[p]?) = (is.filter (· = l)).map some := by
  simpa [idx] using idxFrom_map_get l is []

/-- `error(i)` of a coherent logger is the `i`-th issue of level error (same for the other levels) -/
theorem errorAt_enumerates (s : LState) (h : Coherent s) (i : Nat) :
    (errorAt s i).bind (s.issues[·]?) = (s.issues.filter (· = Level.error))[i]? := by
  have hm := idx_map_get Level.error s.issues
  rw [← h.1] at hm
  have : ((s.errs.map (fun p => s.issues[p]?))[i]?) = ((s.issues.filter (· = Level.error)).map some)[i]? := by rw [hm]
  simp only [List.getElem?_map] at this
  unfold errorAt
  by_cases hi : i < s.errs.length
  · simp only [hi, if_true]
    cases he : s.errs[i]? with
    | none => simp [he] at this ⊢; cases hf : (s.issues.filter (· = Level.error))[i]? <;> simp_all
    | some p =>
      simp only [he, Option.map_some, Option.bind_some] at this ⊢
      cases hf : (List.filter (fun x => decide (x = Level.error)) s.issues)[i]? with
      | none => simp [hf] at this
      | some v => simp [hf] at this; rw [this]
  · simp only [hi, if_false, Option.bind_none]
    have hnone : s.errs[i]? = none := List.getElem?_eq_none (by omega)
    simp only [hnone, Option.map_none] at this
    cases hf : (List.filter (fun x => decide (x = Level.error)) s.issues)[i]? with
    | none => rfl
    | some v => simp [hf] at this

theorem warningAt_enumerates (s : LState) (h : Coherent s) (i : Nat) :
    (warningAt s i).bind (s.issues[·]?) = (s.issues.filter (· = Level.warning))[i]? := by
  have hm := idx_map_get Level.warning s.issues
  rw [← h.2.1] at hm
  have : ((s.warns.map (fun p => s.issues[p]?))[i]?) = ((s.issues.filter (· = Level.warning)).map some)[i]? := by rw [hm]
  simp only [List.getElem?_map] at this
  unfold warningAt
  by_cases hi : i < s.warns.length
  · simp only [hi, if_true]
    cases he : s.warns[i]? with
    | none => simp [he] at this ⊢; cases hf : (s.issues.filter (· = Level.warning))[i]? <;> simp_all
    | some p =>
      simp only [he, Option.map_some, Option.bind_some] at this ⊢
      cases hf : (List.filter (fun x => decide (x = Level.warning)) s.issues)[i]? with
      | none => simp [hf] at this
      | some v => simp [hf] at this; rw [this]
  · simp only [hi, if_false, Option.bind_none]
    have hnone : s.warns[i]? = none := List.getElem?_eq_none (by omega)
    simp only [hnone, Option.map_none] at this
    cases hf : (List.filter (fun x => decide (x = Level.warning)) s.issues)[i]? with
    | none => rfl
    | some v => simp [hf] at this

theorem messageAt_enumerates (s : LState) (h : Coherent s) (i : Nat) :
    (messageAt s i).bind (s.issues[·]?) = (s.issues.filter (· = Level.message))[i]? := by
  have hm := idx_map_get Level.message s.issues
  rw [← h.2.2] at hm
  have : ((s.msgs.map (fun p => s.issues[p]?))[i]?) = ((s.issues.filter (· = Level.message)).map some)[i]? := by rw [hm]
  simp only [List.getElem?_map] at this
  unfold messageAt
  by_cases hi : i < s.msgs.length
  · simp only [hi, if_true]
    cases he : s.msgs[i]? with
    | none => simp [he] at this ⊢; cases hf : (s.issues.filter (· = Level.message))[i]? <;> simp_all
    | some p =>
      simp only [he, Option.map_some, Option.bind_some] at this ⊢
      cases hf : (List.filter (fun x => decide (x = Level.message)) s.issues)[i]? with
      | none => simp [hf] at this
      | some v => simp [hf] at this; rw [this]
  · simp only [hi, if_false, Option.bind_none]
    have hnone : s.msgs[i]? = none := List.getElem?_eq_none (by omega)
    simp only [hnone, Option.map_none] at this
    cases hf : (List.filter (fun x => decide (x = Level.message)) s.issues)[i]? with
    | none => rfl
    | some v => simp [hf] at this

end Cellml.Logger
