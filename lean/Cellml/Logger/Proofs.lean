/-
  C15 — invariant of the logger model and what follows from it.
-/
import Cellml.Logger.Model
namespace Cellml.Logger

theorem idxFrom_append (l : Level) (xs ys : List Level) (off : Nat) :
    idxFrom l off (xs ++ ys) = idxFrom l off xs ++ idxFrom l (off + xs.length) ys := by
  induction xs generalizing off with
  | nil => simp [idxFrom]
  | cons x xs ih =>
    simp only [List.cons_append, idxFrom, List.length_cons]
    split
    · simp [ih (off+1)]; congr 1; omega
    · rw [ih (off+1)]; congr 2; omega

theorem coherent_init : Coherent init := by simp [Coherent, init, idx, idxFrom]

theorem coherent_add (s : LState) (l : Level) (h : Coherent s) : Coherent (add s l) := by
  obtain ⟨he, hw, hm⟩ := h
  cases l <;> simp [add, Coherent, idx, idxFrom_append, idxFrom, he, hw, hm] <;> simp_all [idx]

theorem count_identity (is : List Level) (off : Nat) :
    is.length = (idxFrom .error off is).length + (idxFrom .warning off is).length + (idxFrom .message off is).length := by
  induction is generalizing off with
  | nil => simp [idxFrom]
  | cons x xs ih =>
    cases x <;> simp [idxFrom, ih (off+1)] <;> omega

theorem counts (s : LState) (h : Coherent s) :
    s.issues.length = s.errs.length + s.warns.length + s.msgs.length := by
  obtain ⟨he, hw, hm⟩ := h
  rw [he, hw, hm]; exact count_identity _ 0



theorem mem_idxFrom (l : Level) : ∀ (is : List Level) (off i : Nat),
    i ∈ idxFrom l off is ↔ off ≤ i ∧ is[i - off]? = some l := by
  intro is
  induction is with
  | nil => intro off i; simp [idxFrom]
  | cons x xs ih =>
    intro off i
    unfold idxFrom
    by_cases hx : x = l
    · simp only [hx, if_true, List.mem_cons, ih]
      constructor
      · rintro (h | ⟨h1, h2⟩)
        · subst h; simp
        · refine ⟨by omega, ?_⟩
          have : i - off = (i - (off+1)) + 1 := by omega
          rw [this]; simpa using h2
      · rintro ⟨h1, h2⟩
        by_cases hio : i = off
        · exact Or.inl hio
        · right
          refine ⟨by omega, ?_⟩
          have : i - off = (i - (off+1)) + 1 := by omega
          rw [this] at h2; simpa using h2
    · simp only [hx, if_false, ih]
      constructor
      · rintro ⟨h1, h2⟩
        refine ⟨by omega, ?_⟩
        have : i - off = (i - (off+1)) + 1 := by omega
        rw [this]; simpa using h2
      · rintro ⟨h1, h2⟩
        have hio : i ≠ off := by
          intro h; subst h; simp at h2; exact hx h2
        refine ⟨by omega, ?_⟩
        have : i - off = (i - (off+1)) + 1 := by omega
        rw [this] at h2; simpa using h2

theorem mem_idx (l : Level) (is : List Level) (i : Nat) : i ∈ idx l is ↔ is[i]? = some l := by
  simp [idx, mem_idxFrom]

theorem idxFrom_pairwise (l : Level) : ∀ (is : List Level) (off : Nat), (idxFrom l off is).Pairwise (· < ·) := by
  intro is
  induction is with
  | nil => intro off; simp [idxFrom]
  | cons x xs ih =>
    intro off
    unfold idxFrom
    split
    · refine List.Pairwise.cons ?_ (ih (off+1))
      intro a ha
      have := (mem_idxFrom l xs (off+1) a).mp ha
      omega
    · exact ih (off+1)

theorem idx_nodup (l : Level) (is : List Level) : (idx l is).Nodup := by
  have := idxFrom_pairwise l is 0
  exact this.imp (fun h => Nat.ne_of_lt h)

/-- necessity: if the erased issue is not the last one, coherence is lost -/
theorem removeError_breaks (s : LState) (k p : Nat) (h : Coherent s) (hk : s.errs[k]? = some p)
    (hp : p + 1 < s.issues.length) :
    ¬ Coherent { s with issues := s.issues.eraseIdx p, errs := s.errs.eraseIdx k } := by
  obtain ⟨he, hw, hm⟩ := h
  intro hc
  obtain ⟨he', hw', hm'⟩ := hc
  simp only at he' hw' hm'
  -- p is an error position
  have hpe : s.issues[p]? = some Level.error := by
    have : p ∈ s.errs := List.mem_of_getElem? hk
    rw [he] at this; exact (mem_idx _ _ _).mp this
  -- the issue that slides into position p
  have hlt : p < (s.issues.eraseIdx p).length := by
    rw [List.length_eraseIdx]; split <;> omega
  have hslide : (s.issues.eraseIdx p)[p]? = s.issues[p+1]? := by
    rw [List.getElem?_eraseIdx]; simp
  obtain ⟨l, hl⟩ : ∃ l, s.issues[p+1]? = some l := by
    have : p + 1 < s.issues.length := hp
    exact ⟨s.issues[p+1], by simp [this]⟩
  have hpin : p ∈ idx l (s.issues.eraseIdx p) := (mem_idx _ _ _).mpr (by rw [hslide, hl])
  cases l with
  | error =>
    -- p would have to be in errs.eraseIdx k, but errs is duplicate-free and errs[k] = p
    rw [← he'] at hpin
    have hnd : s.errs.Nodup := by rw [he]; exact idx_nodup _ _
    have hklt : k < s.errs.length := by
      rcases Nat.lt_or_ge k s.errs.length with h | h
      · exact h
      · simp [List.getElem?_eq_none h] at hk
    have hkp : s.errs[k] = p := by
      have := List.getElem?_eq_getElem hklt; rw [this] at hk; exact Option.some.inj hk
    obtain ⟨j, hne, hj⟩ := List.mem_eraseIdx_iff_getElem?.mp hpin
    have hjlt : j < s.errs.length := by
      rcases Nat.lt_or_ge j s.errs.length with h | h
      · exact h
      · simp [List.getElem?_eq_none h] at hj
    have hkk : s.errs[k]? = s.errs[j]? := by rw [hk, hj]
    exact hne (((List.getElem?_inj hklt hnd).mp hkk).symm)
  | warning =>
    rw [← hw', hw] at hpin
    have := (mem_idx _ _ _).mp hpin
    rw [hpe] at this; cases this
  | message =>
    rw [← hm', hm] at hpin
    have := (mem_idx _ _ _).mp hpin
    rw [hpe] at this; cases this


theorem idx_lt (l : Level) (is : List Level) (i : Nat) (h : i ∈ idx l is) : i < is.length := by
  have := (mem_idx l is i).mp h
  rcases Nat.lt_or_ge i is.length with hlt | hge
  · exact hlt
  · simp [List.getElem?_eq_none hge] at this

/-- sufficiency: erasing the *last* issue (necessarily an error) keeps the logger coherent -/
theorem removeError_keeps (s : LState) (k p : Nat) (h : Coherent s) (hk : s.errs[k]? = some p)
    (hp : p + 1 = s.issues.length) :
    Coherent { s with issues := s.issues.eraseIdx p, errs := s.errs.eraseIdx k } := by
  obtain ⟨he, hw, hm⟩ := h
  have hpe : s.issues[p]? = some Level.error := by
    have : p ∈ s.errs := List.mem_of_getElem? hk
    rw [he] at this; exact (mem_idx _ _ _).mp this
  -- split the issue list as pre ++ [error]
  obtain ⟨pre, hsplit, hlen⟩ : ∃ pre, s.issues = pre ++ [Level.error] ∧ pre.length = p := by
    refine ⟨s.issues.take p, ?_, by simp; omega⟩
    have hplt : p < s.issues.length := by omega
    have h1 : s.issues = s.issues.take p ++ s.issues.drop p := (List.take_append_drop p _).symm
    have h2 : s.issues.drop p = [Level.error] := by
      rw [List.drop_eq_getElem_cons hplt]
      have : s.issues[p] = Level.error := by
        have := List.getElem?_eq_getElem hplt; rw [this] at hpe; exact Option.some.inj hpe
      rw [this]
      have : s.issues.drop (p+1) = [] := List.drop_eq_nil_of_le (by omega)
      rw [this]
    rw [h2] at h1; exact h1
  have hidx : ∀ l, idx l (pre ++ [Level.error]) = idx l pre ++ (if Level.error = l then [p] else []) := by
    intro l
    unfold idx
    rw [idxFrom_append]
    simp [idxFrom, hlen]
  have hers : s.issues.eraseIdx p = pre := by
    rw [hsplit, ← hlen]
    simp [List.eraseIdx_append_of_length_le]
  refine ⟨?_, ?_, ?_⟩
  · -- errors
    show s.errs.eraseIdx k = idx Level.error (s.issues.eraseIdx p)
    rw [hers]
    have herrs : s.errs = idx Level.error pre ++ [p] := by
      rw [he, hsplit, hidx]; simp
    -- k must be the last index
    have hkk : k = (idx Level.error pre).length := by
      rw [herrs] at hk
      rcases Nat.lt_or_ge k (idx Level.error pre).length with hlt | hge
      · rw [List.getElem?_append_left hlt] at hk
        have hm' : p ∈ idx Level.error pre := List.mem_of_getElem? hk
        have := idx_lt _ _ _ hm'
        omega
      · rcases Nat.lt_or_ge (idx Level.error pre).length k with hgt | hle
        · rw [List.getElem?_append_right (by omega)] at hk
          have : k - (idx Level.error pre).length ≠ 0 := by omega
          cases hkm : k - (idx Level.error pre).length with
          | zero => omega
          | succ m => rw [hkm] at hk; simp at hk
        · omega
    rw [herrs, hkk]
    simp [List.eraseIdx_append_of_length_le]
  · show s.warns = idx Level.warning (s.issues.eraseIdx p)
    rw [hers, hw, hsplit, hidx]; simp
  · show s.msgs = idx Level.message (s.issues.eraseIdx p)
    rw [hers, hm, hsplit, hidx]; simp

/-- C15-2: removal is sound exactly when the erased issue is the last one -/
theorem removeError_coherent_iff (s : LState) (k p : Nat) (h : Coherent s) (hk : s.errs[k]? = some p) :
    Coherent { s with issues := s.issues.eraseIdx p, errs := s.errs.eraseIdx k } ↔ p + 1 = s.issues.length := by
  have hplt : p < s.issues.length := by
    have : p ∈ s.errs := List.mem_of_getElem? hk
    rw [h.1] at this; exact idx_lt _ _ _ this
  constructor
  · intro hc
    rcases Nat.lt_or_ge (p+1) s.issues.length with hlt | hge
    · exact absurd hc (removeError_breaks s k p h hk hlt)
    · omega
  · exact removeError_keeps s k p h hk



end Cellml.Logger
