/-
  C15 — executable model of `LoggerImpl` (src/logger.cpp): the issue vector and the three index
  vectors, with the operations exactly as the code performs them (no re-basing in `removeError`).
-/
namespace Cellml.Logger

inductive Level | error | warning | message
  deriving DecidableEq, Repr

structure LState where
  issues : List Level
  errs : List Nat
  warns : List Nat
  msgs : List Nat
  deriving Repr

/-- positions of level `l` in `is`, offset by `off` -/
def idxFrom (l : Level) : Nat → List Level → List Nat
  | _, [] => []
  | off, x :: xs => if x = l then off :: idxFrom l (off+1) xs else idxFrom l (off+1) xs

def idx (l : Level) (is : List Level) : List Nat := idxFrom l 0 is

def Coherent (s : LState) : Prop :=
  s.errs = idx .error s.issues ∧ s.warns = idx .warning s.issues ∧ s.msgs = idx .message s.issues

def init : LState := ⟨[], [], [], []⟩

/-- LoggerImpl::addIssue -/
def add (s : LState) (l : Level) : LState :=
  let i := s.issues.length
  match l with
  | .error   => { s with issues := s.issues ++ [l], errs := s.errs ++ [i] }
  | .warning => { s with issues := s.issues ++ [l], warns := s.warns ++ [i] }
  | .message => { s with issues := s.issues ++ [l], msgs := s.msgs ++ [i] }

/-- LoggerImpl::removeError(index): erase mIssues[mErrors.at(index)], erase mErrors[index]; nothing re-based -/
def removeError (s : LState) (k : Nat) : Option LState :=
  match s.errs[k]? with
  | none => none      -- std::vector::at throws
  | some p => some { s with issues := s.issues.eraseIdx p, errs := s.errs.eraseIdx k }


/-- LoggerImpl::removeAllIssues -/
def removeAll (_ : LState) : LState := init

/-- one traced logger operation (hook H1: 0 add level, 1 removeError index, 2 removeAll) -/
inductive Op
  | add (l : Level)
  | removeError (k : Nat)
  | removeAll
  deriving DecidableEq, Repr

/-- `none` = the C++ throws (`std::vector::at`) -/
def step (s : LState) : Op → Option LState
  | .add l => some (add s l)
  | .removeError k => removeError s k
  | .removeAll => some (removeAll s)

def run (s : LState) : List Op → Option LState
  | [] => some s
  | op :: ops => (step s op).bind (run · ops)

/-- does this removal erase the *last* issue? (the only case in which the code stays coherent) -/
def tailRemoval (s : LState) (k : Nat) : Bool :=
  match s.errs[k]? with
  | some p => p + 1 == s.issues.length
  | none => false

def removalOK (s : LState) : Op → Bool
  | .removeError k => tailRemoval s k
  | _ => true

/-- every `removeError` along the trace erases the last issue -/
def tailRemovalsOnly (s : LState) : List Op → Bool
  | [] => true
  | op :: ops =>
    removalOK s op &&
    (match step s op with
     | some s' => tailRemovalsOnly s' ops
     | none => false)

/-! observers of `Logger` -/
def issueCount (s : LState) : Nat := s.issues.length
def errorCount (s : LState) : Nat := s.errs.length
def warningCount (s : LState) : Nat := s.warns.length
def messageCount (s : LState) : Nat := s.msgs.length
/-- `Logger::error(i)`: `none` = nullptr; the result is a *position* in the issue vector -/
def errorAt (s : LState) (i : Nat) : Option Nat := if i < s.errs.length then s.errs[i]? else none
def warningAt (s : LState) (i : Nat) : Option Nat := if i < s.warns.length then s.warns[i]? else none
def messageAt (s : LState) (i : Nat) : Option Nat := if i < s.msgs.length then s.msgs[i]? else none

end Cellml.Logger
