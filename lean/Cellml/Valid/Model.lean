/-
  C04 — models of two uniqueness checks of the validator (src/validator.cpp):
  `validateUniqueName` over the component names in traversal order (a name already seen is reported, an unseen
  non-empty one is remembered), and the identifier map of `checkUniqueIds` (an id used `n > 1` times is reported once).
-/
namespace Cellml.Valid

/-- indices (in traversal order) at which `validateUniqueName` adds an issue -/
def dupReports : List String → List String → Nat → List Nat
  | [], _, _ => []
  | n :: rest, seen, i =>
    if n = "" then dupReports rest seen (i + 1)
    else if seen.contains n then i :: dupReports rest seen (i + 1)
    else dupReports rest (n :: seen) (i + 1)

def nameIssues (names : List String) : List Nat := dupReports names [] 0

/-- ids reported by `checkUniqueIds`: those that occur more than once among the collected ids -/
def dedup : List String → List String
  | [] => []
  | a :: r => a :: (dedup r).filter (· ≠ a)

def idIssues (ids : List String) : List String := dedup (ids.filter fun i => 1 < ids.count i)

/-! identifier syntax (`validateCellmlIdentifier`): the rule an identifier breaks, if any -/
inductive IdRule | ok | empty | beginsWithDigit | notLatinAlphanumeric
  deriving DecidableEq, Repr

def isDigit (c : Char) : Bool := '0' ≤ c && c ≤ '9'
def isIdChar (c : Char) : Bool := ('a' ≤ c && c ≤ 'z') || ('A' ≤ c && c ≤ 'Z') || isDigit c || c = '_'

def identifier : List Char → IdRule
  | [] => .empty
  | c :: rest => if isDigit c then .beginsWithDigit else if (c :: rest).all isIdChar then .ok else .notLatinAlphanumeric

end Cellml.Valid
