/-
  C04 — the traversal of `Validator::validateMathMLElementsChildrenAndSiblings` (arity, sibling and `cn` format rules):
  which children of an element the pass descends into.  The table of branches is regenerated from the source
  (`Cellml/Generated/MathWalk.lean`); here: what a table must satisfy so that no element of an accepted MathML tree
  escapes the pass, and the proof that this is enough.
-/
namespace Cellml.Valid

/-- number of MathML children a branch insists on before it descends (otherwise it reports an issue and stops) -/
inductive Req | any | atLeast (n : Nat) | exactly (n : Nat)
  deriving DecidableEq, Repr

/-- the children a branch descends into -/
inductive Desc | all | idx (l : List Nat)
  deriving DecidableEq, Repr

def Req.holds : Req → Nat → Bool
  | .any, _ => true
  | .atLeast k, n => decide (k ≤ n)
  | .exactly k, n => decide (n = k)

def visited : Desc → Nat → List Nat
  | .all, n => List.range n
  | .idx l, _ => l

/-- a branch descends into every child whenever its requirement holds -/
def covers : Req → Desc → Bool
  | _, .all => true
  | .exactly k, .idx l => l == List.range k
  | _, .idx _ => false

theorem covers_spec (r : Req) (d : Desc) (n : Nat) (hc : covers r d = true) (hr : r.holds n = true) :
    visited d n = List.range n := by
  cases d with
  | all => rfl
  | idx l =>
    cases r with
    | any => simp [covers] at hc
    | atLeast k => simp [covers] at hc
    | exactly k =>
      simp only [covers, beq_iff_eq] at hc
      simp only [Req.holds, decide_eq_true_eq] at hr
      simp [visited, hc, hr]

abbrev Row := String × Req × Desc

/-- the elements that may have MathML element children -/
def containers : List String := ["apply", "piecewise", "piece", "otherwise", "bvar", "degree", "logbase"]

/-- every container has a branch that descends into all of its children -/
def tableCovers (rows : List Row) : Bool :=
  containers.all fun c => rows.any fun r => r.1 == c && covers r.2.1 r.2.2

/-- a MathML tree: element name and element children -/
inductive Tree
  | node (name : String) (kids : List Tree)

def Tree.name : Tree → String | .node n _ => n
def Tree.kids : Tree → List Tree | .node _ k => k

/-- indices of the children of an element `name` with `n` children that the pass descends into: every branch for that
    name whose requirement holds contributes -/
def descended (rows : List Row) (name : String) (n : Nat) : List Nat :=
  (rows.filter fun r => r.1 == name).flatMap fun r => if r.2.1.holds n then visited r.2.2 n else []

/-- the elements the pass reaches -/
inductive Reached (rows : List Row) : Tree → Tree → Prop
  | root (t : Tree) : Reached rows t t
  | step {t : Tree} {name : String} {kids : List Tree} {i : Nat} {k : Tree} :
      Reached rows t (.node name kids) → i ∈ descended rows name kids.length → kids[i]? = some k → Reached rows t k

/-- the subtree relation -/
inductive Sub : Tree → Tree → Prop
  | root (t : Tree) : Sub t t
  | step {t : Tree} {name : String} {kids : List Tree} {k : Tree} : Sub t (.node name kids) → k ∈ kids → Sub t k

/-- no issue about the number of children: every container that is reached meets the requirement of a branch that
    covers it (elements with children that are not containers are rejected by the first pass: MATH_CHILD) -/
def Accepted (rows : List Row) (t : Tree) : Prop :=
  ∀ name kids, Reached rows t (.node name kids) → kids ≠ [] →
    ∃ r ∈ rows, r.1 = name ∧ covers r.2.1 r.2.2 = true ∧ r.2.1.holds kids.length = true

/-- **nothing escapes the pass**: in an accepted tree every element is reached -/
theorem all_reached (rows : List Row) (t : Tree) (ha : Accepted rows t) : ∀ s, Sub t s → Reached rows t s := by
  intro s hs
  induction hs with
  | root => exact .root t
  | @step name kids k _ hk ih =>
    have hne : kids ≠ [] := by intro he; rw [he] at hk; cases hk
    obtain ⟨r, hr, hn, hc, hh⟩ := ha name kids ih hne
    obtain ⟨i, hi, hget⟩ := List.getElem_of_mem hk
    have hv := covers_spec r.2.1 r.2.2 kids.length hc hh
    have hk2 : kids[i]? = some k := by rw [List.getElem?_eq_getElem hi, hget]
    refine .step ih ?_ hk2
    unfold descended
    simp only [List.mem_flatMap, List.mem_filter]
    exact ⟨r, ⟨hr, by simp [hn]⟩, by simp [hh, hv, hi]⟩

end Cellml.Valid
