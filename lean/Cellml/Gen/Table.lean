/-
  C03 — the decision table: what the parenthesisation tests of `generateOperatorCode` & co. guarantee about the
  level at which an un-parenthesised operand is printed.  `floor p a` is a lower bound of that level computed from
  the head of the operand only (the same information the C++ tests read).
-/
import Cellml.Gen.Spec
namespace Cellml.Gen

def mult (a : Ast) : Bool := isTimes a || isDivide a || isLogB a

def floor (p : Profile) (a : Ast) : Nat :=
  if isPiecewise p a then 0
  else if isOr p a then 1
  else if isAnd p a then 2
  else if isRel p a then (if isTy .EQ a || isTy .NEQ a then 3 else 4)
  else if sum2 a then 5
  else if mult a then 6
  else if isMinus a then (if mult (leftOf a) then 6 else 7)
  else 7

variable {p : Profile}

theorem floor_low {a : Ast} (h : low p a = false) : 5 ≤ floor p a := by
  simp only [low, isLogical, Bool.or_eq_false_iff] at h
  obtain ⟨⟨h1, ⟨⟨h2, h3⟩, _⟩⟩, h5⟩ := h
  simp only [floor, h1, h2, h3, h5, Bool.false_eq_true, if_false]
  repeat' split
  all_goals omega

theorem floor_low_sum {a : Ast} (h : low p a = false) (hs : sum2 a = false) : 6 ≤ floor p a := by
  simp only [low, isLogical, Bool.or_eq_false_iff] at h
  obtain ⟨⟨h1, ⟨⟨h2, h3⟩, _⟩⟩, h5⟩ := h
  simp only [floor, h1, h2, h3, h5, hs, Bool.false_eq_true, if_false]
  repeat' split
  all_goals omega

theorem minus_not_sum {a : Ast} (hm : isMinus a = true) (hs : sum2 a = false) : hasRight a = false := by
  simp [sum2, hm] at hs; exact hs

theorem floor_divisor {a : Ast} (h : low p a = false) (hs : sum2 a = false) (hm : mult a = false)
    (hu : (isMinus a && !hasRight a && mult (leftOf a)) = false) : 7 ≤ floor p a := by
  simp only [low, isLogical, Bool.or_eq_false_iff] at h
  obtain ⟨⟨h1, ⟨⟨h2, h3⟩, _⟩⟩, h5⟩ := h
  simp only [floor, h1, h2, h3, h5, hs, hm, Bool.false_eq_true, if_false]
  by_cases hmi : isMinus a = true
  · have hr := minus_not_sum hmi hs
    simp [hmi, hr] at hu
    simp [hmi, hu]
  · simp [hmi]

theorem floor_and {a : Ast} (ho : isOr p a = false) (hp : isPiecewise p a = false) : 2 ≤ floor p a := by
  simp only [floor, ho, hp, Bool.false_eq_true, if_false]
  repeat' split
  all_goals omega

theorem floor_or {a : Ast} (hp : isPiecewise p a = false) : 1 ≤ floor p a := by
  simp only [floor, hp, Bool.false_eq_true, if_false]
  repeat' split
  all_goals omega

/-- the head tests are mutually exclusive: a unary plus is none of the other classes -/
theorem floor_opexpr {a : Ast} (h : isOpExpr p a = false) : 7 ≤ floor p a := by
  cases a with
  | nul => simp [floor, isPiecewise, isOr, isAnd, isRel, sum2, mult, isMinus, isTy, isPlus, isTimes, isDivide, isLogB]
  | cn v => simp [floor, isPiecewise, isOr, isAnd, isRel, sum2, mult, isMinus, isTy, isPlus, isTimes, isDivide, isLogB]
  | ci v => simp [floor, isPiecewise, isOr, isAnd, isRel, sum2, mult, isMinus, isTy, isPlus, isTimes, isDivide, isLogB]
  | node ty l r =>
    cases ty <;>
      simp [isOpExpr, isPlus, isMinus, isTimes, isDivide, isLogB, isTy, isRel, isLogical, isAnd, isOr, isXor, isPower, isRoot,
        isPiecewise, isNeg] at h <;>
      simp [floor, isPiecewise, isOr, isAnd, isRel, sum2, mult, isMinus, isTy, isPlus, isTimes, isDivide, isLogB, h]
