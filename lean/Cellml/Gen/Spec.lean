/-
  C03 — what an expression tree means (independent of how it is printed), and which trees are expressions.

  `exprOK`: the shapes `Analyser::analyseNode` builds for MathML expressions (qualifiers only under `root` / `log`,
  pieces only under `piecewise`, `otherwise` only as the last child).  `evalAst`: the value, over the rationals,
  with identifiers, numbers and named functions interpreted by `I`; relational / logical operators that the
  profile writes as functions are calls of those functions.  Conventions of the normal form: `root` of degree `n`
  is `pow(x, 1.0/n)`, degree 2 (or none) and exponent 0.5 are `sqrt`, `log` with base `b` is `ln x / ln b`, base 10
  (or none) is `log10`; a piecewise statement without `otherwise` ends in NaN.
-/
import Cellml.Gen.Grammar
namespace Cellml.Gen

/-- where a node stands: an expression, or one of the qualifier / piece positions -/
inductive Ctx | expr | degree | logbase | piece | last
  deriving DecidableEq, Repr

def exprOK (ctx : Ctx) : Ast → Bool
  | .nul => false
  | .cn _ => ctx = .expr
  | .ci _ => ctx = .expr
  | .node ty l r =>
    match ctx with
    | .degree => ty = .DEGREE && exprOK .expr l && isNul r
    | .logbase => ty = .LOGBASE && exprOK .expr l && isNul r
    | .piece => ty = .PIECE && exprOK .expr l && exprOK .expr r
    | .last =>
      (ty = .PIECE && exprOK .expr l && exprOK .expr r) || (ty = .OTHERWISE && exprOK .expr l && isNul r)
        || (ty = .PIECEWISE && exprOK .piece l && (isNul r || exprOK .last r))
    | .expr =>
      match ty with
      | .EQ | .NEQ | .LT | .LEQ | .GT | .GEQ | .AND | .OR | .XOR | .TIMES | .DIVIDE | .POWER | .MIN | .MAX | .REM =>
        exprOK .expr l && exprOK .expr r
      | .PLUS | .MINUS => exprOK .expr l && (isNul r || exprOK .expr r)
      | .ROOT => if isNul r then exprOK .expr l else exprOK .degree l && exprOK .expr r
      | .LOG => if isNul r then exprOK .expr l else exprOK .logbase l && exprOK .expr r
      | .PIECEWISE => exprOK .piece l && (isNul r || exprOK .last r)
      | .TRUE | .FALSE | .E | .PI | .INF | .NAN => isNul l && isNul r
      | .EQUALITY | .DIFF | .BVAR | .DEGREE | .LOGBASE | .PIECE | .OTHERWISE => false
      | _ => exprOK .expr l && isNul r       -- NOT and the one-parameter functions

/-- value of a relational / logical node: the operator, or the profile's function of that name -/
def relLogicSem (p : Profile) (I : Interp) (has : Bool) (o : Op) (a b : Rat) : Rat :=
  if has then o.sem a b else I.fn2 (p.opStr o) a b

/-- value of a leaf text: a leading minus sign negates the rest -/
def atomSem (I : Interp) (lead : Bool) (s : String) : Rat :=
  if lead then -(I.atom (s.drop 1).toString) else I.atom s

/-- meaning of a tree.  For a PIECE and for a PIECEWISE chain the second argument `els` is the value used when no
    condition holds (NaN at the end of the chain). -/
def evalAst (p : Profile) (I : Interp) (els : Rat) : Ast → Rat
  | .nul => I.atom ""
  | .cn v => atomSem I (v.toList.head? = some '-') (doubleCode v)
  | .ci n => I.atom n
  | .node ty l r =>
    let nan := I.atom p.nan
    let vl := evalAst p I nan l
    let vr := evalAst p I nan r
    match ty with
    | .EQ => relLogicSem p I p.hasEq .eq vl vr
    | .NEQ => relLogicSem p I p.hasNeq .neq vl vr
    | .LT => relLogicSem p I p.hasLt .lt vl vr
    | .LEQ => relLogicSem p I p.hasLeq .leq vl vr
    | .GT => relLogicSem p I p.hasGt .gt vl vr
    | .GEQ => relLogicSem p I p.hasGeq .geq vl vr
    | .AND => relLogicSem p I p.hasAnd .and vl vr
    | .OR => relLogicSem p I p.hasOr .or vl vr
    | .XOR => I.fn2 p.xor vl vr
    | .NOT => if p.hasNot then preSem .not vl else I.fn1 p.not_ vl
    | .PLUS => if isNul r then vl else vl + vr
    | .MINUS => if isNul r then -vl else vl - vr
    | .TIMES => vl * vr
    | .DIVIDE => vl / vr
    | .POWER =>
      if isNumber (gen p r) 1 2 then I.fn1 p.sqrt vl
      else if isNumber (gen p r) 2 1 && p.square ≠ "" then I.fn1 p.square vl
      else I.fn2 p.power vl vr
    | .ROOT =>
      if isNul r then I.fn1 p.sqrt vl
      else if isNumber (gen p l) 2 1 then I.fn1 p.sqrt vr
      else I.fn2 p.power vr (I.atom "1.0" / vl)       -- `l` is the DEGREE node, whose value is its child's
    | .LOG =>
      if isNul r then I.fn1 p.log10 vl
      else if isNumber (gen p l) 10 1 then I.fn1 p.log10 vr
      else I.fn1 p.ln vr / I.fn1 p.ln vl
    | .DEGREE | .LOGBASE | .BVAR | .OTHERWISE => vl
    | .PIECEWISE =>
      -- the first piece, else the rest of the chain (which ends in NaN)
      if isNul r then evalAst p I nan l else evalAst p I vr l
    | .PIECE => condSem vr vl els
    | .TRUE => I.atom p.true_ | .FALSE => I.atom p.false_
    | .E => I.atom p.e | .PI => I.atom p.pi
    | .INF => I.atom p.inf | .NAN => I.atom p.nan
    | .MIN | .MAX | .REM => I.fn2 (p.fn ty) vl vr
    | .EQUALITY | .DIFF => I.atom ""
    | _ => I.fn1 (p.fn ty) vl

/-- profiles covered by the theorems: no power and no xor operator, a conditional operator written the C or the
    Python way (the C and Python profiles, and any profile that only renames things) -/
def Supported (p : Profile) : Prop :=
  p.hasXor = false ∧ p.hasPower = false ∧ p.hasCond = true ∧ (p.style = .c ∨ p.style = .py)

end Cellml.Gen
