/-
  C03 — the printer lemma: a sufficiently parenthesised document parses, at its printed level, to its own value.
-/
import Cellml.Gen.Grammar
namespace Cellml.Gen

variable {st : CondStyle} {I : Interp}

theorem derives_le_top {n ts v} (h : Derives st I n ts v) : n ≤ topLvl := by
  induction h with
  | atom => exact Nat.le_refl _
  | paren => exact Nat.le_refl _
  | up _ hn => exact Nat.le_of_lt hn
  | @bin o _ _ _ _ ho _ _ _ => cases o <;> simp [Op.isBin] at ho <;> simp [Op.lvl, topLvl]
  | un => simp [unLvl, topLvl]
  | call1 => exact Nat.le_refl _
  | call2 => exact Nat.le_refl _
  | condC => simp [topLvl]
  | condPy => simp [topLvl]

theorem derives_ne_nil {n ts v} (h : Derives st I n ts v) : ts ≠ [] := by
  induction h <;> simp_all

theorem derives_down {m ts v} (h : Derives st I m ts v) : ∀ n, n ≤ m → Derives st I n ts v := by
  have hm := derives_le_top h
  intro n hn
  induction hk : m - n generalizing n with
  | zero =>
    have : n = m := by omega
    subst this; exact h
  | succ k ih =>
    have h1 : Derives st I (n + 1) ts v := ih (n + 1) (by omega) (by omega)
    exact Derives.up h1 (by omega)

theorem head_append_of_ne_nil {α} {l r : List α} (h : l ≠ []) : (l ++ r).head? = l.head? := by
  cases l with
  | nil => exact absurd rfl h
  | cons a t => rfl

theorem b2r_ne_zero (b : Bool) : (b2r b ≠ 0) ↔ b = true := by
  cases b <;> simp [b2r]

theorem sem_assoc {o o' : Op} (ho : o.assoc = true) (hb : o'.isBin = true) (hl : o'.lvl = o.lvl) (a a' b' : Rat) :
    o'.sem (o.sem a a') b' = o.sem a (o'.sem a' b') := by
  cases o <;> simp [Op.assoc] at ho <;> cases o' <;> simp [Op.isBin] at hb <;> simp [Op.lvl] at hl <;>
    simp only [Op.sem]
  · -- and, and
    by_cases h1 : a = 0 <;> by_cases h2 : a' = 0 <;> by_cases h3 : b' = 0 <;> simp [h1, h2, h3, b2r]
  · -- or, or
    by_cases h1 : a = 0 <;> by_cases h2 : a' = 0 <;> by_cases h3 : b' = 0 <;> simp [h1, h2, h3, b2r]
  · grind
  · grind
  · grind
  · rw [Rat.div_def, Rat.div_def]; grind
  · rw [Rat.div_def, Rat.div_def]; grind

/-- in the grammar, `L o R` with `R` of the same level as an associative `o` has the value `a o b` -/
theorem derives_assoc {o : Op} (ho : o.assoc = true) {L a} (hL : Derives st I o.lvl L a) :
    ∀ {n R b}, Derives st I n R b → n = o.lvl → R.head? ≠ some (.op o) →
      Derives st I o.lvl (L ++ .op o :: R) (o.sem a b) := by
  have hbin : o.isBin = true := by cases o <;> simp [Op.assoc] at ho <;> rfl
  have hlv : 1 ≤ o.lvl ∧ o.lvl ≤ 6 := by cases o <;> simp [Op.assoc] at ho <;> simp [Op.lvl]
  intro n R b hR
  induction hR with
  | atom s => intro hn; simp [topLvl] at hn; omega
  | paren _ _ => intro hn; simp [topLvl] at hn; omega
  | call1 _ _ => intro hn; simp [topLvl] at hn; omega
  | call2 _ _ _ _ => intro hn; simp [topLvl] at hn; omega
  | un _ _ _ _ => intro hn; simp [unLvl] at hn; omega
  | condC _ _ _ _ _ _ _ => intro hn; omega
  | condPy _ _ _ _ _ _ _ => intro hn; omega
  | @up n ts v h1 _ _ =>
    intro hn hh
    subst hn
    exact Derives.bin hbin hL h1 hh
  | @bin o' l r a' b' hb' hl' hr' hh' ihl _ =>
    intro hn hh
    have hne := derives_ne_nil hl'
    have hhl : l.head? ≠ some (.op o) := by
      rw [head_append_of_ne_nil hne] at hh; exact hh
    have h1 := ihl hn hhl
    have h2 : Derives st I o'.lvl ((L ++ .op o :: l) ++ .op o' :: r) (o'.sem (o.sem a a') b') := by
      apply Derives.bin hb' (hn ▸ h1) hr' hh'
    rw [sem_assoc ho hb' hn] at h2
    rw [hn] at h2
    simpa [List.append_assoc] using h2

theorem sem_neg {o' : Op} (hb : o'.isBin = true) (hl : o'.lvl = 6) (a b : Rat) : o'.sem (-a) b = -(o'.sem a b) := by
  cases o' <;> simp [Op.isBin] at hb <;> simp [Op.lvl] at hl <;> simp only [Op.sem]
  · grind
  · rw [Rat.div_def, Rat.div_def]; grind
  · rw [Rat.div_def, Rat.div_def]; grind

/-- in the grammar, `-R` with `R` a product or quotient has the value `-(b)` (`-a*b` is `(-a)*b`) -/
theorem derives_neg : ∀ {n R b}, Derives st I n R b → n = 6 → R.head? ≠ some (.op .minus) →
    Derives st I 6 (.op .minus :: R) (-b) := by
  intro n R b hR
  induction hR with
  | atom s => intro hn; simp [topLvl] at hn
  | paren _ _ => intro hn; simp [topLvl] at hn
  | call1 _ _ => intro hn; simp [topLvl] at hn
  | call2 _ _ _ _ => intro hn; simp [topLvl] at hn
  | un _ _ _ _ => intro hn; simp [unLvl] at hn
  | condC _ _ _ _ _ _ _ => intro hn; omega
  | condPy _ _ _ _ _ _ _ => intro hn; omega
  | @up n ts v h1 _ _ =>
    intro hn hh
    subst hn
    have : Derives st I unLvl (.op .minus :: ts) (preSem .minus v) := Derives.un (Or.inl rfl) h1 hh
    exact Derives.up this (by simp [topLvl])
  | @bin o' l r a' b' hb' hl' hr' hh' ihl _ =>
    intro hn hh
    have hne := derives_ne_nil hl'
    have hhl : l.head? ≠ some (.op .minus) := by
      rw [head_append_of_ne_nil hne] at hh; exact hh
    have h1 := ihl hn hhl
    have h2 : Derives st I o'.lvl ((.op .minus :: l) ++ .op o' :: r) (o'.sem (-a') b') :=
      Derives.bin hb' (hn ▸ h1) hr' hh'
    rw [sem_neg hb' hn, hn] at h2
    simpa using h2

theorem toks_ne_nil (d : Doc) : toks st d ≠ [] := by
  cases d <;> simp [toks]
  · split <;> simp
  · split <;> simp

theorem head_toks (o : Op) (d : Doc) : ((toks st d).head? = some (.op o)) ↔ heads st o d = true := by
  induction d with
  | atom lead s =>
    cases lead <;> simp [toks, heads]
    exact eq_comm
  | bin o' l r ihl _ => simp only [toks, heads]; rw [head_append_of_ne_nil (toks_ne_nil l)]; exact ihl
  | pre o' x _ => simp [toks, heads]
  | call1 f a _ => simp [toks, heads]
  | call2 f a b _ _ => simp [toks, heads]
  | cond c a b _ iha _ =>
    simp only [toks, heads]
    split
    · rw [List.append_assoc, head_append_of_ne_nil (toks_ne_nil (st := st) a)]; exact iha
    · simp
  | paren d _ => simp [toks, heads]

theorem head_toks_ne {o : Op} {d : Doc} (h : heads st o d = false) : (toks st d).head? ≠ some (.op o) := by
  intro hh
  rw [head_toks] at hh
  rw [h] at hh; cases hh

theorem lvl_le_top (d : Doc) : lvl d ≤ topLvl := by
  cases d with
  | atom lead s => simp only [lvl]; split <;> simp [unLvl, topLvl]
  | bin o l r => cases o <;> simp [lvl, Op.lvl, topLvl]
  | pre o x =>
    cases o <;> simp only [lvl] <;> try (simp [unLvl, topLvl])
    by_cases h : 7 ≤ lvl x <;> simp [h]
  | call1 => simp [lvl]
  | call2 => simp [lvl]
  | cond => simp [lvl]
  | paren => simp [lvl]

/-- **printer lemma** -/
theorem printer (d : Doc) : ok st d = true → Derives st I (lvl d) (toks st d) (evalDoc I d) := by
  induction d with
  | atom lead s =>
    intro _
    cases lead
    · simp only [toks, lvl, evalDoc, Bool.false_eq_true, if_false]; exact Derives.atom s
    · simp only [toks, lvl, evalDoc, if_true]
      have h0 : Derives st I unLvl [.atom (s.drop 1).toString] (I.atom (s.drop 1).toString) :=
        derives_down (Derives.atom _) _ (by simp [unLvl, topLvl])
      exact Derives.un (Or.inl rfl) h0 (by simp)
  | bin o l r ihl ihr =>
    intro h
    simp only [ok, Bool.and_eq_true, decide_eq_true_eq, Bool.not_eq_true'] at h
    obtain ⟨⟨⟨⟨⟨hb, hl⟩, hr⟩, hll⟩, hrl⟩, hh⟩ := h
    have dl := derives_down (ihl hl) _ hll
    have hhd := head_toks_ne (st := st) hh
    simp only [toks, lvl, evalDoc]
    by_cases ha : o.assoc = true
    · have dr := derives_down (ihr hr) o.lvl (by simpa [reqR, ha] using hrl)
      exact derives_assoc ha dl dr rfl hhd
    · have dr := derives_down (ihr hr) (o.lvl + 1) (by simpa [reqR, ha] using hrl)
      exact Derives.bin hb dl dr hhd
  | pre o x ih =>
    intro h
    simp only [ok, Bool.or_eq_true, Bool.and_eq_true, decide_eq_true_eq, Bool.not_eq_true'] at h
    rcases h with ⟨⟨⟨ho, hx⟩, hl⟩, hh⟩ | ⟨⟨⟨ho, hx⟩, hl⟩, hh⟩
    · subst ho
      simp only [toks, lvl, evalDoc]
      have hhd := head_toks_ne (st := st) hh
      split
      · rename_i h7
        exact Derives.un (Or.inl rfl) (derives_down (ih hx) _ h7) hhd
      · rename_i h7
        have h6 : lvl x = 6 := by simp [unLvl] at h7; omega
        have := derives_neg (h6 ▸ ih hx) rfl hhd
        simpa [preSem] using this
    · subst ho
      simp only [toks, lvl, evalDoc]
      exact Derives.un (Or.inr rfl) (derives_down (ih hx) _ hl) (head_toks_ne hh)
  | call1 f a ih =>
    intro h
    simp only [ok] at h
    simp only [toks, lvl, evalDoc]
    exact Derives.call1 (derives_down (ih h) 0 (Nat.zero_le _))
  | call2 f a b iha ihb =>
    intro h
    simp only [ok, Bool.and_eq_true] at h
    simp only [toks, lvl, evalDoc]
    exact Derives.call2 (derives_down (iha h.1) 0 (Nat.zero_le _)) (derives_down (ihb h.2) 0 (Nat.zero_le _))
  | cond c a b ihc iha ihb =>
    intro h
    simp only [ok, Bool.and_eq_true, Bool.or_eq_true, decide_eq_true_eq] at h
    obtain ⟨⟨⟨hc, ha⟩, hb⟩, hs⟩ := h
    simp only [toks, lvl, evalDoc]
    rcases hs with hs | ⟨⟨hs, hla⟩, hlc⟩
    · have : ¬ st = CondStyle.py := by rw [hs]; decide
      simp only [this, if_false]
      exact Derives.condC hs (derives_down (ihc hc) 0 (Nat.zero_le _)) (derives_down (iha ha) 0 (Nat.zero_le _))
        (derives_down (ihb hb) 0 (Nat.zero_le _))
    · subst hs
      simp only [if_true]
      exact Derives.condPy rfl (derives_down (iha ha) 1 hla) (derives_down (ihc hc) 1 hlc)
        (derives_down (ihb hb) 0 (Nat.zero_le _))
  | paren d ih =>
    intro h
    simp only [ok] at h
    simp only [toks, lvl, evalDoc]
    exact Derives.paren (derives_down (ih h) 0 (Nat.zero_le _))

end Cellml.Gen
