/-
  C03 — the target grammar and its meaning.

  One stratified expression grammar covers what the C and the Python profile emit (levels, low to high:
  conditional 0, `||` 1, `&&` 2, `== !=` 3, `< <= > >=` 4, `+ -` 5, `* /` 6, prefix `-` `!` 7, primary 8 — the C
  levels; the Python profile only uses conditional, additive, multiplicative, prefix minus and primary, whose
  relative order in Python is the same).  `Derives st I n ts v`: the token list `ts` is an expression of level `n`
  whose value under the interpretation `I` of identifiers and functions is `v`.  Values are rationals: the
  theorems are about which operation is applied to which operands, not about floating point.

  Lexical side conditions: a binary or prefix operator is never followed by the same operator character
  (`a--b`, `--a` are different tokens in C).
-/
import Cellml.Gen.Model
namespace Cellml.Gen

inductive Tok
  | atom (s : String) | op (o : Op) | lp | rp | comma | q | colon | kwIf | kwElse
  deriving DecidableEq, Repr

def Op.lvl : Op → Nat
  | .or => 1 | .and => 2 | .eq => 3 | .neq => 3 | .lt => 4 | .leq => 4 | .gt => 4 | .geq => 4
  | .plus => 5 | .minus => 5 | .times => 6 | .divide => 6 | .quot => 6
  | _ => 0

def Op.isBin : Op → Bool
  | .or | .and | .eq | .neq | .lt | .leq | .gt | .geq | .plus | .minus | .times | .divide | .quot => true
  | _ => false

/-- operators `o` for which `a o (b o' c)` may be written `a o b o' c` for every `o'` of the same level -/
def Op.assoc : Op → Bool
  | .plus | .times | .and | .or => true
  | _ => false

def unLvl : Nat := 7
def topLvl : Nat := 8

structure Interp where
  atom : String → Rat
  fn1 : String → Rat → Rat
  fn2 : String → Rat → Rat → Rat

def b2r (b : Bool) : Rat := if b then 1 else 0

def Op.sem : Op → Rat → Rat → Rat
  | .plus, a, b => a + b
  | .minus, a, b => a - b
  | .times, a, b => a * b
  | .divide, a, b => a / b
  | .quot, a, b => a / b
  | .eq, a, b => b2r (decide (a = b))
  | .neq, a, b => b2r (decide (a ≠ b))
  | .lt, a, b => b2r (decide (a < b))
  | .leq, a, b => b2r (decide (a ≤ b))
  | .gt, a, b => b2r (decide (b < a))
  | .geq, a, b => b2r (decide (b ≤ a))
  | .and, a, b => b2r (decide (a ≠ 0) && decide (b ≠ 0))
  | .or, a, b => b2r (decide (a ≠ 0) || decide (b ≠ 0))
  | _, _, _ => 0

def preSem : Op → Rat → Rat
  | .minus, a => -a
  | .not, a => b2r (decide (a = 0))
  | _, a => a

def condSem (c a b : Rat) : Rat := if c ≠ 0 then a else b

inductive Derives (st : CondStyle) (I : Interp) : Nat → List Tok → Rat → Prop
  | atom (s : String) : Derives st I topLvl [.atom s] (I.atom s)
  | paren {ts v} : Derives st I 0 ts v → Derives st I topLvl (.lp :: ts ++ [.rp]) v
  | up {n ts v} : Derives st I (n + 1) ts v → n < topLvl → Derives st I n ts v
  | bin {o l r a b} : o.isBin = true → Derives st I o.lvl l a → Derives st I (o.lvl + 1) r b →
      r.head? ≠ some (.op o) → Derives st I o.lvl (l ++ .op o :: r) (o.sem a b)
  | un {o x v} : (o = .minus ∨ o = .not) → Derives st I unLvl x v → x.head? ≠ some (.op o) →
      Derives st I unLvl (.op o :: x) (preSem o v)
  | call1 {f a va} : Derives st I 0 a va → Derives st I topLvl (.atom f :: .lp :: a ++ [.rp]) (I.fn1 f va)
  | call2 {f a b va vb} : Derives st I 0 a va → Derives st I 0 b vb →
      Derives st I topLvl (.atom f :: .lp :: a ++ .comma :: b ++ [.rp]) (I.fn2 f va vb)
  | condC {c a b vc va vb} : st = .c → Derives st I 0 c vc → Derives st I 0 a va → Derives st I 0 b vb →
      Derives st I 0 (.lp :: c ++ [.rp, .q] ++ a ++ .colon :: b) (condSem vc va vb)
  | condPy {c a b vc va vb} : st = .py → Derives st I 1 a va → Derives st I 1 c vc → Derives st I 0 b vb →
      Derives st I 0 (a ++ .kwIf :: c ++ .kwElse :: b) (condSem vc va vb)

/-! ### documents: tokens, value, printed level -/

def toks (st : CondStyle) : Doc → List Tok
  | .atom lead s => if lead then [.op .minus, .atom (s.drop 1).toString] else [.atom s]
  | .bin o l r => toks st l ++ .op o :: toks st r
  | .pre o x => .op o :: toks st x
  | .call1 f a => .atom f :: .lp :: toks st a ++ [.rp]
  | .call2 f a b => .atom f :: .lp :: toks st a ++ .comma :: toks st b ++ [.rp]
  | .cond c a b =>
    if st = .py then toks st a ++ .kwIf :: toks st c ++ .kwElse :: toks st b
    else .lp :: toks st c ++ [.rp, .q] ++ toks st a ++ .colon :: toks st b
  | .paren d => .lp :: toks st d ++ [.rp]

def evalDoc (I : Interp) : Doc → Rat
  | .atom lead s => if lead then -(I.atom (s.drop 1).toString) else I.atom s
  | .bin o l r => o.sem (evalDoc I l) (evalDoc I r)
  | .pre o x => preSem o (evalDoc I x)
  | .call1 f a => I.fn1 f (evalDoc I a)
  | .call2 f a b => I.fn2 f (evalDoc I a) (evalDoc I b)
  | .cond c a b => condSem (evalDoc I c) (evalDoc I a) (evalDoc I b)
  | .paren d => evalDoc I d

/-- the level at which the printed document parses -/
def lvl : Doc → Nat
  | .atom lead _ => if lead then unLvl else topLvl
  | .bin o _ _ => o.lvl
  | .pre .minus x => if unLvl ≤ lvl x then unLvl else 6
  | .pre _ _ => unLvl
  | .call1 _ _ => topLvl
  | .call2 _ _ _ => topLvl
  | .cond _ _ _ => 0
  | .paren _ => topLvl

/-- is the first token the operator `o`? -/
def heads (st : CondStyle) (o : Op) : Doc → Bool
  | .atom lead _ => lead && o = .minus
  | .bin _ l _ => heads st o l
  | .pre o' _ => o' = o
  | .call1 _ _ => false
  | .call2 _ _ _ => false
  | .cond _ a _ => if st = .py then heads st o a else false
  | .paren _ => false

def reqR (o : Op) : Nat := if o.assoc then o.lvl else o.lvl + 1

/-- sufficient parenthesisation: every operand parses at the level its position requires -/
def ok (st : CondStyle) : Doc → Bool
  | .atom _ _ => true
  | .bin o l r => o.isBin && ok st l && ok st r && decide (o.lvl ≤ lvl l) && decide (reqR o ≤ lvl r) && !heads st o r
  | .pre o x =>
    (o = .minus && ok st x && decide (6 ≤ lvl x) && !heads st .minus x)
      || (o = .not && ok st x && decide (unLvl ≤ lvl x) && !heads st .not x)
  | .call1 _ a => ok st a
  | .call2 _ a b => ok st a && ok st b
  | .cond c a b => ok st c && ok st a && ok st b && (st = .c || (st = .py && decide (1 ≤ lvl a) && decide (1 ≤ lvl c)))
  | .paren d => ok st d

end Cellml.Gen
