/-
  C03 — soundness of the generator's parenthesisation: for every expression tree the generated document is
  sufficiently parenthesised (`ok`) and its value is the value of the tree.
-/
import Cellml.Gen.Table
import Cellml.Gen.Printer
namespace Cellml.Gen

variable {p : Profile} {I : Interp}

theorem leads_eq_heads (d : Doc) : leads p d = heads p.style .minus d := by
  induction d with
  | atom lead s => simp [leads, heads]
  | bin o l r ihl _ => simpa [leads, heads] using ihl
  | pre o x _ => simp [leads, heads]
  | call1 => simp [leads, heads]
  | call2 => simp [leads, heads]
  | cond c a b _ iha _ => simp only [leads, heads]; split <;> simp [iha]
  | paren => simp [leads, heads]

theorem heads_ok {st : CondStyle} {o : Op} (d : Doc) : ok st d = true → heads st o d = true → o = .minus ∨ o = .not := by
  induction d with
  | atom lead s => intro _ h; simp [heads] at h; exact Or.inl h.2
  | bin o' l r ihl _ =>
    intro h hh
    simp only [ok, Bool.and_eq_true] at h
    exact ihl h.1.1.1.1.2 (by simpa [heads] using hh)
  | pre o' x _ =>
    intro h hh
    simp only [heads, decide_eq_true_eq] at hh
    simp only [ok, Bool.or_eq_true, Bool.and_eq_true, decide_eq_true_eq] at h
    rcases h with h | h
    · left; rw [← hh]; exact h.1.1.1
    · right; rw [← hh]; exact h.1.1.1
  | call1 => intro _ h; simp [heads] at h
  | call2 => intro _ h; simp [heads] at h
  | cond c a b _ iha _ =>
    intro h hh
    simp only [ok, Bool.and_eq_true] at h
    simp only [heads] at hh
    split at hh
    · exact iha h.1.1.2 hh
    · cases hh
  | paren => intro _ h; simp [heads] at h

theorem heads_bin_false {st : CondStyle} {o : Op} (d : Doc) (hok : ok st d = true) (ho : o.isBin = true) (hm : o ≠ .minus) :
    heads st o d = false := by
  cases h : heads st o d with
  | false => rfl
  | true =>
    rcases heads_ok d hok h with h1 | h1
    · exact absurd h1 hm
    · subst h1; cases ho

/-- what the induction carries for every expression tree -/
structure Inv (p : Profile) (I : Interp) (t : Ast) : Prop where
  ok : ok p.style (genDoc p t) = true
  ev : evalDoc I (genDoc p t) = evalAst p I t
  fl : floor p t ≤ lvl (genDoc p t)
  hn : isOpExpr p t = false → heads p.style .not (genDoc p t) = false

@[simp] theorem ok_wrap (st : CondStyle) (b : Bool) (d : Doc) : ok st (wrap b d) = ok st d := by
  cases b <;> simp [wrap, ok]
@[simp] theorem eval_wrap (b : Bool) (d : Doc) : evalDoc I (wrap b d) = evalDoc I d := by
  cases b <;> simp [wrap, evalDoc]
theorem lvl_wrap_true (d : Doc) : lvl (wrap true d) = topLvl := by simp [wrap, lvl]
theorem heads_wrap_true (st : CondStyle) (o : Op) (d : Doc) : heads st o (wrap true d) = false := by simp [wrap, heads]

/-- an operand: parenthesised, or printed at least at level `n` -/
theorem lvl_wrap {b : Bool} {d : Doc} {n : Nat} (hn : n ≤ topLvl) (h : b = false → n ≤ lvl d) : n ≤ lvl (wrap b d) := by
  cases b
  · simpa [wrap] using h rfl
  · rw [lvl_wrap_true]; exact hn

theorem heads_wrap {st : CondStyle} {o : Op} {b : Bool} {d : Doc} (h : b = false → heads st o d = false) :
    heads st o (wrap b d) = false := by
  cases b
  · simpa [wrap] using h rfl
  · exact heads_wrap_true st o d

theorem binop_inv {k : PK} {o : Op} {l r : Ast} (hl : Inv p I l) (hr : Inv p I r) (hb : o.isBin = true)
    (hL : parenLeft p k l = false → o.lvl ≤ floor p l)
    (hR : parenRight p k l r (genDoc p r) = false → reqR o ≤ floor p r ∧ heads p.style o (genDoc p r) = false) :
    ok p.style (binop p k o l r (genDoc p l) (genDoc p r)) = true
      ∧ evalDoc I (binop p k o l r (genDoc p l) (genDoc p r)) = o.sem (evalAst p I l) (evalAst p I r) := by
  have hlt : o.lvl ≤ topLvl ∧ reqR o ≤ topLvl := by
    cases o <;> simp [Op.isBin] at hb <;> simp [Op.lvl, reqR, Op.assoc, topLvl]
  refine ⟨?_, ?_⟩
  · simp only [binop, ok, ok_wrap, hb, hl.ok, hr.ok, Bool.true_and, Bool.and_eq_true, decide_eq_true_eq, Bool.not_eq_true']
    refine ⟨⟨?_, ?_⟩, ?_⟩
    · exact lvl_wrap hlt.1 (fun h => Nat.le_trans (hL h) hl.fl)
    · exact lvl_wrap hlt.2 (fun h => Nat.le_trans (hR h).1 hr.fl)
    · exact heads_wrap (fun h => (hR h).2)
  · simp [binop, evalDoc, hl.ev, hr.ev]

end Cellml.Gen

namespace Cellml.Gen
variable {p : Profile} {I : Interp}

theorem floor_le_7 (a : Ast) : floor p a ≤ 7 := by
  simp only [floor]; repeat' split
  all_goals omega

theorem relLogic_rel {has : Bool} {o : Op} {l r : Ast} (hl : Inv p I l) (hr : Inv p I r)
    (hb : o.isBin = true) (ho : o.lvl = 3 ∨ o.lvl = 4) :
    ok p.style (relLogic p has .relplus o l r (genDoc p l) (genDoc p r)) = true
      ∧ evalDoc I (relLogic p has .relplus o l r (genDoc p l) (genDoc p r)) = relLogicSem p I has o (evalAst p I l) (evalAst p I r) := by
  cases has
  · simp [relLogic, relLogicSem, ok, evalDoc, hl.ok, hr.ok, hl.ev, hr.ev]
  · have hm : o ≠ .minus := by intro h; subst h; simp [Op.lvl] at ho
    have hreq : reqR o ≤ 5 := by
      cases o <;> simp [Op.isBin] at hb <;> simp [Op.lvl] at ho <;> simp [reqR, Op.assoc, Op.lvl]
    have := binop_inv (k := .relplus) (o := o) hl hr hb
      (fun h => by have := floor_low (p := p) (a := l) (by simpa [parenLeft] using h); omega)
      (fun h => ⟨by have := floor_low (p := p) (a := r) (by simpa [parenRight] using h); omega,
        heads_bin_false _ hr.ok hb hm⟩)
    simpa [relLogic, relLogicSem] using this

end Cellml.Gen

namespace Cellml.Gen
variable {p : Profile} {I : Interp}

theorem relLogic_and {has : Bool} {l r : Ast} (hl : Inv p I l) (hr : Inv p I r) :
    ok p.style (relLogic p has .and .and l r (genDoc p l) (genDoc p r)) = true
      ∧ evalDoc I (relLogic p has .and .and l r (genDoc p l) (genDoc p r)) = relLogicSem p I has .and (evalAst p I l) (evalAst p I r) := by
  cases has
  · simp [relLogic, relLogicSem, ok, evalDoc, hl.ok, hr.ok, hl.ev, hr.ev]
  · have := binop_inv (k := .and) (o := .and) hl hr rfl
      (fun h => by
        simp only [parenLeft, Bool.or_eq_false_iff] at h
        exact floor_and h.1.1.1.1.1.2 h.1.1.1.2)
      (fun h => ⟨by
        simp only [parenRight, Bool.or_eq_false_iff] at h
        exact floor_and h.1.1.1.1.1.2 h.1.1.1.2, heads_bin_false _ hr.ok rfl (by decide)⟩)
    simpa [relLogic, relLogicSem] using this

theorem relLogic_or {has : Bool} {l r : Ast} (hl : Inv p I l) (hr : Inv p I r) :
    ok p.style (relLogic p has .or .or l r (genDoc p l) (genDoc p r)) = true
      ∧ evalDoc I (relLogic p has .or .or l r (genDoc p l) (genDoc p r)) = relLogicSem p I has .or (evalAst p I l) (evalAst p I r) := by
  cases has
  · simp [relLogic, relLogicSem, ok, evalDoc, hl.ok, hr.ok, hl.ev, hr.ev]
  · have := binop_inv (k := .or) (o := .or) hl hr rfl
      (fun h => by
        simp only [parenLeft, Bool.or_eq_false_iff] at h
        exact floor_or h.1.1.1.2)
      (fun h => ⟨by
        simp only [parenRight, Bool.or_eq_false_iff] at h
        exact floor_or h.1.1.1.2, heads_bin_false _ hr.ok rfl (by decide)⟩)
    simpa [relLogic, relLogicSem] using this

theorem plus_inv {l r : Ast} (hl : Inv p I l) (hr : Inv p I r) :
    ok p.style (binop p .relplus .plus l r (genDoc p l) (genDoc p r)) = true
      ∧ evalDoc I (binop p .relplus .plus l r (genDoc p l) (genDoc p r)) = evalAst p I l + evalAst p I r :=
  binop_inv (k := .relplus) (o := .plus) hl hr rfl
    (fun h => floor_low (by simpa [parenLeft] using h))
    (fun h => ⟨floor_low (by simpa [parenRight] using h), heads_bin_false _ hr.ok rfl (by decide)⟩)

theorem minus_inv {l r : Ast} (hl : Inv p I l) (hr : Inv p I r) :
    ok p.style (binop p .minus .minus l r (genDoc p l) (genDoc p r)) = true
      ∧ evalDoc I (binop p .minus .minus l r (genDoc p l) (genDoc p r)) = evalAst p I l - evalAst p I r :=
  binop_inv (k := .minus) (o := .minus) hl hr rfl
    (fun h => floor_low (by simpa [parenLeft] using h))
    (fun h => by
      simp only [parenRight, Bool.or_eq_false_iff] at h
      obtain ⟨⟨⟨⟨_, hlow⟩, hmi⟩, hlead⟩, hpl⟩ := h
      refine ⟨floor_low_sum hlow ?_, ?_⟩
      · cases hp : isPlus r <;> simp [sum2, hp, hmi] <;> simpa [hp] using hpl
      · rw [← leads_eq_heads]; exact hlead)

theorem times_inv {l r : Ast} (hl : Inv p I l) (hr : Inv p I r) :
    ok p.style (binop p .times .times l r (genDoc p l) (genDoc p r)) = true
      ∧ evalDoc I (binop p .times .times l r (genDoc p l) (genDoc p r)) = evalAst p I l * evalAst p I r :=
  binop_inv (k := .times) (o := .times) hl hr rfl
    (fun h => by simp only [parenLeft, Bool.or_eq_false_iff] at h; exact floor_low_sum h.1 h.2)
    (fun h => by
      simp only [parenRight, Bool.or_eq_false_iff] at h
      exact ⟨floor_low_sum h.1 h.2, heads_bin_false _ hr.ok rfl (by decide)⟩)

theorem divide_inv {l r : Ast} (hl : Inv p I l) (hr : Inv p I r) :
    ok p.style (binop p .divide .divide l r (genDoc p l) (genDoc p r)) = true
      ∧ evalDoc I (binop p .divide .divide l r (genDoc p l) (genDoc p r)) = evalAst p I l / evalAst p I r :=
  binop_inv (k := .divide) (o := .divide) hl hr rfl
    (fun h => by
      simp only [parenLeft, Bool.or_eq_false_iff] at h
      exact Nat.le_trans (by decide) (floor_low_sum h.1 h.2))
    (fun h => by
      simp only [parenRight, Bool.or_eq_false_iff] at h
      obtain ⟨⟨⟨⟨⟨hlow, ht⟩, hd⟩, hlb⟩, hs⟩, hu⟩ := h
      refine ⟨floor_divisor hlow hs (by simp [mult, ht, hd, hlb]) (by simpa [mult, Bool.and_assoc] using hu),
        heads_bin_false _ hr.ok rfl (by decide)⟩)

end Cellml.Gen

namespace Cellml.Gen
variable {p : Profile} {I : Interp}

theorem minusUnary_inv {l : Ast} (hl : Inv p I l) :
    ok p.style (minusUnary p l (genDoc p l)) = true
      ∧ evalDoc I (minusUnary p l (genDoc p l)) = -(evalAst p I l)
      ∧ 6 ≤ lvl (minusUnary p l (genDoc p l))
      ∧ (mult l = false → 7 ≤ lvl (minusUnary p l (genDoc p l))) := by
  generalize hb : (isNeg l || isRel p l || isLogical p l || isPlus l || isMinus l || isPiecewise p l || leads p (genDoc p l)) = b
  have hx : b = false → 6 ≤ lvl (genDoc p l) ∧ heads p.style .minus (genDoc p l) = false
      ∧ (mult l = false → 7 ≤ lvl (genDoc p l)) := by
    intro h; subst h
    simp only [Bool.or_eq_false_iff] at hb
    obtain ⟨⟨⟨⟨⟨⟨_, hr⟩, hlo⟩, hp⟩, hm⟩, hpw⟩, hlead⟩ := hb
    have hlow : low p l = false := by simp [low, hr, hlo, hpw]
    have hs : sum2 l = false := by simp [sum2, hp, hm]
    refine ⟨Nat.le_trans (floor_low_sum hlow hs) hl.fl, by rw [← leads_eq_heads]; exact hlead, ?_⟩
    intro hmu
    refine Nat.le_trans ?_ hl.fl
    have := floor_divisor (p := p) hlow hs hmu (by simp [hm])
    exact this
  have h6 : 6 ≤ lvl (wrap b (genDoc p l)) := lvl_wrap (by decide) (fun h => (hx h).1)
  have hh : heads p.style .minus (wrap b (genDoc p l)) = false := heads_wrap (fun h => (hx h).2.1)
  refine ⟨?_, ?_, ?_, ?_⟩
  · simp [minusUnary, hb, ok, hl.ok, h6, hh]
  · simp [minusUnary, hb, evalDoc, preSem, hl.ev]
  · simp only [minusUnary, hb, lvl]; split <;> simp [unLvl]
  · intro hmu
    have h7 : 7 ≤ lvl (wrap b (genDoc p l)) := lvl_wrap (by decide) (fun h => (hx h).2.2 hmu)
    simp only [minusUnary, hb, lvl, unLvl, h7, if_true]; exact Nat.le_refl _

theorem opexpr_operand {l : Ast} (hl : Inv p I l) :
    7 ≤ lvl (wrap (isOpExpr p l) (genDoc p l)) ∧ heads p.style .not (wrap (isOpExpr p l) (genDoc p l)) = false :=
  ⟨lvl_wrap (by decide) (fun h => Nat.le_trans (floor_opexpr h) hl.fl), heads_wrap (fun h => hl.hn h)⟩

theorem piece_inv (hs : Supported p) {v c : Ast} {els : Doc} {ve : Rat} (hv : Inv p I v) (hc : Inv p I c)
    (he : ok p.style els = true) (hee : evalDoc I els = ve) :
    ok p.style (pieceDoc p v c (genDoc p v) (genDoc p c) els) = true
      ∧ evalDoc I (pieceDoc p v c (genDoc p v) (genDoc p c) els) = condSem (evalAst p I c) (evalAst p I v) ve := by
  refine ⟨?_, ?_⟩
  · simp only [pieceDoc, ok, ok_wrap, hv.ok, hc.ok, he, Bool.true_and, Bool.or_eq_true, Bool.and_eq_true, decide_eq_true_eq]
    rcases hs.2.2.2 with h | h
    · left; simp [h]
    · right
      refine ⟨⟨by simp [h], ?_⟩, ?_⟩
      · exact lvl_wrap (by decide) (fun hh => Nat.le_trans (floor_or hh) hv.fl)
      · exact lvl_wrap (by decide) (fun hh => Nat.le_trans (floor_or hh) hc.fl)
  · simp [pieceDoc, evalDoc, hv.ev, hc.ev, hee]

end Cellml.Gen

namespace Cellml.Gen
variable {p : Profile} {I : Interp}

theorem inv_atom (lead : Bool) (s : String) (t : Ast) (hd : genDoc p t = .atom lead s) (he : evalAst p I t = atomSem I lead s)
    (hf : floor p t = 7) : Inv p I t := by
  refine ⟨by rw [hd]; rfl, by rw [hd, he]; rfl, ?_, fun _ => by rw [hd]; cases lead <;> rfl⟩
  rw [hd, hf]; cases lead <;> simp [lvl, unLvl, topLvl]

theorem inv_call1 {t : Ast} {f : String} {a : Ast} (ha : Inv p I a) (hd : genDoc p t = .call1 f (genDoc p a))
    (he : evalAst p I t = I.fn1 f (evalAst p I a)) : Inv p I t := by
  refine ⟨by rw [hd]; simpa [ok] using ha.ok, by rw [hd, he]; simp [evalDoc, ha.ev], ?_, fun _ => by rw [hd]; rfl⟩
  rw [hd]; exact Nat.le_trans (floor_le_7 t) (by simp [lvl, topLvl])

theorem inv_call2 {t : Ast} {f : String} {a b : Ast} (ha : Inv p I a) (hb : Inv p I b)
    (hd : genDoc p t = .call2 f (genDoc p a) (genDoc p b))
    (he : evalAst p I t = I.fn2 f (evalAst p I a) (evalAst p I b)) : Inv p I t := by
  refine ⟨by rw [hd]; simp [ok, ha.ok, hb.ok], by rw [hd, he]; simp [evalDoc, ha.ev, hb.ev], ?_, fun _ => by rw [hd]; rfl⟩
  rw [hd]; exact Nat.le_trans (floor_le_7 t) (by simp [lvl, topLvl])

end Cellml.Gen

namespace Cellml.Gen
variable {p : Profile} {I : Interp}

local macro "fsimp" : tactic =>
  `(tactic| simp [floor, isPiecewise, isOr, isAnd, isRel, sum2, mult, isMinus, isTy, isPlus, isTimes, isDivide, isLogB, hasRight, leftOf])

theorem isNul_eq {a : Ast} (h : isNul a = true) : a = .nul := by
  cases a <;> simp [isNul] at h; rfl

/-- relational node: all four invariants from the two parts -/
theorem inv_rel {t l r : Ast} {has : Bool} {o : Op} (hl : Inv p I l) (hr : Inv p I r) (hb : o.isBin = true)
    (ho : o.lvl = 3 ∨ o.lvl = 4)
    (hd : genDoc p t = relLogic p has .relplus o l r (genDoc p l) (genDoc p r))
    (he : evalAst p I t = relLogicSem p I has o (evalAst p I l) (evalAst p I r))
    (hf : has = true → floor p t = o.lvl) (hop : has = true → isOpExpr p t = true) : Inv p I t := by
  obtain ⟨h1, h2⟩ := relLogic_rel (has := has) hl hr hb ho
  refine ⟨by rw [hd]; exact h1, by rw [hd, he]; exact h2, ?_, ?_⟩
  · rw [hd]; cases has
    · exact Nat.le_trans (floor_le_7 t) (by simp [relLogic, lvl, topLvl])
    · rw [hf rfl]; simp [relLogic, binop, lvl]
  · intro hh; cases has
    · rw [hd]; rfl
    · rw [hop rfl] at hh; cases hh

end Cellml.Gen

namespace Cellml.Gen
variable {p : Profile} {I : Interp}

local macro "fsimp" : tactic =>
  `(tactic| simp [floor, isPiecewise, isOr, isAnd, isRel, sum2, mult, isMinus, isTy, isPlus, isTimes, isDivide, isLogB, hasRight, leftOf])
local macro "osimp" : tactic =>
  `(tactic| simp [isOpExpr, isNeg, isLogical, isXor, isPower, isRoot, isPiecewise, isOr, isAnd, isRel, isMinus, isTy, isPlus, isTimes, isDivide, isLogB, hasRight])

theorem inv_all (hs : Supported p) (t : Ast) :
    (exprOK t = true → Inv p I t)
      ∧ (∀ ty a b, t = .node ty a b → (exprOK a = true → Inv p I a) ∧ (exprOK b = true → Inv p I b)) := by
  induction t with
  | nul => exact ⟨fun h => by simp [exprOK] at h, fun _ _ _ h => by cases h⟩
  | cn v => exact ⟨fun _ => inv_atom _ _ _ rfl rfl (by fsimp), fun _ _ _ h => by cases h⟩
  | ci n => exact ⟨fun _ => inv_atom false n _ rfl rfl (by fsimp), fun _ _ _ h => by cases h⟩
  | node ty l r ihl ihr =>
    refine ⟨?_, fun ty' a b h => by cases h; exact ⟨ihl.1, ihr.1⟩⟩
    intro h
    cases ty
    case EQ =>
      simp only [exprOK, Bool.and_eq_true] at h
      exact inv_rel (o := .eq) (ihl.1 h.1) (ihr.1 h.2) rfl (Or.inl rfl) rfl rfl
        (fun hh => by simp only [Op.lvl]; fsimp; simp [hh]) (fun hh => by osimp; simp [hh])
    case NEQ =>
      simp only [exprOK, Bool.and_eq_true] at h
      exact inv_rel (o := .neq) (ihl.1 h.1) (ihr.1 h.2) rfl (Or.inl rfl) rfl rfl
        (fun hh => by simp only [Op.lvl]; fsimp; simp [hh]) (fun hh => by osimp; simp [hh])
    case LT =>
      simp only [exprOK, Bool.and_eq_true] at h
      exact inv_rel (o := .lt) (ihl.1 h.1) (ihr.1 h.2) rfl (Or.inr rfl) rfl rfl
        (fun hh => by simp only [Op.lvl]; fsimp; simp [hh]) (fun hh => by osimp; simp [hh])
    case LEQ =>
      simp only [exprOK, Bool.and_eq_true] at h
      exact inv_rel (o := .leq) (ihl.1 h.1) (ihr.1 h.2) rfl (Or.inr rfl) rfl rfl
        (fun hh => by simp only [Op.lvl]; fsimp; simp [hh]) (fun hh => by osimp; simp [hh])
    case GT =>
      simp only [exprOK, Bool.and_eq_true] at h
      exact inv_rel (o := .gt) (ihl.1 h.1) (ihr.1 h.2) rfl (Or.inr rfl) rfl rfl
        (fun hh => by simp only [Op.lvl]; fsimp; simp [hh]) (fun hh => by osimp; simp [hh])
    case GEQ =>
      simp only [exprOK, Bool.and_eq_true] at h
      exact inv_rel (o := .geq) (ihl.1 h.1) (ihr.1 h.2) rfl (Or.inr rfl) rfl rfl
        (fun hh => by simp only [Op.lvl]; fsimp; simp [hh]) (fun hh => by osimp; simp [hh])
    case AND =>
      simp only [exprOK, Bool.and_eq_true] at h
      have hl := ihl.1 h.1; have hr := ihr.1 h.2
      obtain ⟨h1, h2⟩ := relLogic_and (has := p.hasAnd) hl hr
      refine ⟨h1, h2, ?_, ?_⟩
      · cases hh : p.hasAnd
        · exact Nat.le_trans (floor_le_7 _) (by simp [genDoc, relLogic, hh, lvl, topLvl])
        · simp [genDoc, relLogic, binop, hh, lvl, Op.lvl]; fsimp; simp [hh]
      · intro hop; cases hh : p.hasAnd
        · simp [genDoc, relLogic, hh, heads]
        · revert hop; osimp; simp [hh]
    case OR =>
      simp only [exprOK, Bool.and_eq_true] at h
      have hl := ihl.1 h.1; have hr := ihr.1 h.2
      obtain ⟨h1, h2⟩ := relLogic_or (has := p.hasOr) hl hr
      refine ⟨h1, h2, ?_, ?_⟩
      · cases hh : p.hasOr
        · exact Nat.le_trans (floor_le_7 _) (by simp [genDoc, relLogic, hh, lvl, topLvl])
        · simp [genDoc, relLogic, binop, hh, lvl, Op.lvl]; fsimp; simp [hh]
      · intro hop; cases hh : p.hasOr
        · simp [genDoc, relLogic, hh, heads]
        · revert hop; osimp; simp [hh]
    case XOR =>
      simp only [exprOK, Bool.and_eq_true] at h
      exact inv_call2 (f := p.xor) (ihl.1 h.1) (ihr.1 h.2) (by simp [genDoc, relLogic, hs.1, Profile.opStr]) (by simp [evalAst])
    case NOT =>
      simp only [exprOK, Bool.and_eq_true] at h
      have hl := ihl.1 h.1
      cases hh : p.hasNot
      · exact inv_call1 (f := p.not_) hl (by simp [genDoc, hh]) (by simp [evalAst, hh])
      · obtain ⟨h7, hhd⟩ := opexpr_operand hl
        refine ⟨?_, ?_, ?_, ?_⟩
        · simp [genDoc, hh, ok, hl.ok, hhd]; exact h7
        · simp [genDoc, hh, evalDoc, evalAst, hl.ev]
        · simp [genDoc, hh, lvl]; exact floor_le_7 _
        · osimp; simp [hh]
    case PLUS =>
      simp only [exprOK, Bool.and_eq_true, Bool.or_eq_true] at h
      have hl := ihl.1 h.1
      cases r with
      | nul =>
        obtain ⟨h7, hhd⟩ := opexpr_operand hl
        refine ⟨by simp [genDoc, hl.ok], by simp [genDoc, evalAst, hl.ev], ?_, fun _ => by simpa [genDoc] using hhd⟩
        simp only [genDoc]; exact Nat.le_trans (floor_le_7 _) h7
      | cn v =>
        have hr := ihr.1 (by simpa [isNul] using h.2)
        obtain ⟨h1, h2⟩ := plus_inv hl hr
        exact ⟨by simpa [genDoc] using h1, by simpa [genDoc, evalAst] using h2, by simp [genDoc, binop, lvl, Op.lvl]; fsimp, by osimp⟩
      | ci v =>
        have hr := ihr.1 (by simpa [isNul] using h.2)
        obtain ⟨h1, h2⟩ := plus_inv hl hr
        exact ⟨by simpa [genDoc] using h1, by simpa [genDoc, evalAst] using h2, by simp [genDoc, binop, lvl, Op.lvl]; fsimp, by osimp⟩
      | node ty2 a b =>
        have hr := ihr.1 (by simpa [isNul] using h.2)
        obtain ⟨h1, h2⟩ := plus_inv hl hr
        exact ⟨by simpa [genDoc] using h1, by simpa [genDoc, evalAst] using h2, by simp [genDoc, binop, lvl, Op.lvl]; fsimp, by osimp⟩
    case MINUS =>
      simp only [exprOK, Bool.and_eq_true, Bool.or_eq_true] at h
      have hl := ihl.1 h.1
      cases r with
      | nul =>
        obtain ⟨h1, h2, h6, h7⟩ := minusUnary_inv hl
        refine ⟨by simpa [genDoc] using h1, by simpa [genDoc, evalAst] using h2, ?_, by osimp⟩
        simp only [genDoc]
        cases hm : mult l
        · have := h7 hm; exact Nat.le_trans (floor_le_7 _) this
        · refine Nat.le_trans ?_ h6; fsimp; simp [mult, isTimes, isDivide, isLogB, isTy] at hm; simp [hm]
      | cn v =>
        have hr := ihr.1 (by simpa [isNul] using h.2)
        obtain ⟨h1, h2⟩ := minus_inv hl hr
        exact ⟨by simpa [genDoc] using h1, by simpa [genDoc, evalAst] using h2, by simp [genDoc, binop, lvl, Op.lvl]; fsimp, by osimp⟩
      | ci v =>
        have hr := ihr.1 (by simpa [isNul] using h.2)
        obtain ⟨h1, h2⟩ := minus_inv hl hr
        exact ⟨by simpa [genDoc] using h1, by simpa [genDoc, evalAst] using h2, by simp [genDoc, binop, lvl, Op.lvl]; fsimp, by osimp⟩
      | node ty2 a b =>
        have hr := ihr.1 (by simpa [isNul] using h.2)
        obtain ⟨h1, h2⟩ := minus_inv hl hr
        exact ⟨by simpa [genDoc] using h1, by simpa [genDoc, evalAst] using h2, by simp [genDoc, binop, lvl, Op.lvl]; fsimp, by osimp⟩
    case TIMES =>
      simp only [exprOK, Bool.and_eq_true] at h
      obtain ⟨h1, h2⟩ := times_inv (ihl.1 h.1) (ihr.1 h.2)
      exact ⟨by simpa [genDoc] using h1, by simpa [genDoc, evalAst] using h2, by simp [genDoc, binop, lvl, Op.lvl]; fsimp, by osimp⟩
    case DIVIDE =>
      simp only [exprOK, Bool.and_eq_true] at h
      obtain ⟨h1, h2⟩ := divide_inv (ihl.1 h.1) (ihr.1 h.2)
      exact ⟨by simpa [genDoc] using h1, by simpa [genDoc, evalAst] using h2, by simp [genDoc, binop, lvl, Op.lvl]; fsimp, by osimp⟩
    all_goals sorry

end Cellml.Gen
