/-
  C03 — soundness of the generator's parenthesisation: for every expression tree the generated document is
  sufficiently parenthesised (`ok`) and its value is the value of the tree.
-/
import Cellml.Gen.Table
import Cellml.Gen.Printer
namespace Cellml.Gen

variable {p : Profile} {I : Interp}

theorem leads_eq_heads (d : Doc) : leads p d = heads p.style .minus d := by
  induction d with
  | atom lead s => simp [leads, heads]
  | bin o l r ihl _ => simpa [leads, heads] using ihl
  | pre o x _ => simp [leads, heads]
  | call1 => simp [leads, heads]
  | call2 => simp [leads, heads]
  | cond c a b _ iha _ => simp only [leads, heads]; split <;> simp [iha]
  | paren => simp [leads, heads]

theorem heads_ok {st : CondStyle} {o : Op} (d : Doc) : ok st d = true → heads st o d = true → o = .minus ∨ o = .not := by
  induction d with
  | atom lead s => intro _ h; simp [heads] at h; exact Or.inl h.2
  | bin o' l r ihl _ =>
    intro h hh
    simp only [ok, Bool.and_eq_true] at h
    exact ihl h.1.1.1.1.2 (by simpa [heads] using hh)
  | pre o' x _ =>
    intro h hh
    simp only [heads, decide_eq_true_eq] at hh
    simp only [ok, Bool.or_eq_true, Bool.and_eq_true, decide_eq_true_eq] at h
    rcases h with h | h
    · left; rw [← hh]; exact h.1.1.1
    · right; rw [← hh]; exact h.1.1.1
  | call1 => intro _ h; simp [heads] at h
  | call2 => intro _ h; simp [heads] at h
  | cond c a b _ iha _ =>
    intro h hh
    simp only [ok, Bool.and_eq_true] at h
    simp only [heads] at hh
    split at hh
    · exact iha h.1.1.2 hh
    · cases hh
  | paren => intro _ h; simp [heads] at h

theorem heads_bin_false {st : CondStyle} {o : Op} (d : Doc) (hok : ok st d = true) (ho : o.isBin = true) (hm : o ≠ .minus) :
    heads st o d = false := by
  cases h : heads st o d with
  | false => rfl
  | true =>
    rcases heads_ok d hok h with h1 | h1
    · exact absurd h1 hm
    · subst h1; cases ho

/-- what the induction carries for every expression tree -/
structure Inv (p : Profile) (I : Interp) (t : Ast) : Prop where
  ok : ok p.style (genDoc p t) = true
  ev : ∀ els, evalAst p I els t = evalDoc I (genDoc p t)
  fl : floor p t ≤ lvl (genDoc p t)
  hn : isOpExpr p t = false → heads p.style .not (genDoc p t) = false

@[simp] theorem ok_wrap (st : CondStyle) (b : Bool) (d : Doc) : ok st (wrap b d) = ok st d := by
  cases b <;> simp [wrap, ok]
@[simp] theorem eval_wrap (b : Bool) (d : Doc) : evalDoc I (wrap b d) = evalDoc I d := by
  cases b <;> simp [wrap, evalDoc]
theorem lvl_wrap_true (d : Doc) : lvl (wrap true d) = topLvl := by simp [wrap, lvl]
theorem heads_wrap_true (st : CondStyle) (o : Op) (d : Doc) : heads st o (wrap true d) = false := by simp [wrap, heads]

/-- an operand: parenthesised, or printed at least at level `n` -/
theorem lvl_wrap {b : Bool} {d : Doc} {n : Nat} (hn : n ≤ topLvl) (h : b = false → n ≤ lvl d) : n ≤ lvl (wrap b d) := by
  cases b
  · simpa [wrap] using h rfl
  · rw [lvl_wrap_true]; exact hn

theorem heads_wrap {st : CondStyle} {o : Op} {b : Bool} {d : Doc} (h : b = false → heads st o d = false) :
    heads st o (wrap b d) = false := by
  cases b
  · simpa [wrap] using h rfl
  · exact heads_wrap_true st o d

theorem binop_ok {k : PK} {o : Op} {l r : Ast} {ld rd : Doc} (hokl : ok p.style ld = true) (hokr : ok p.style rd = true)
    (hb : o.isBin = true) (hL : parenLeft p k l = false → o.lvl ≤ lvl ld)
    (hR : parenRight p k l r rd = false → reqR o ≤ lvl rd ∧ heads p.style o rd = false) :
    ok p.style (binop p k o l r ld rd) = true := by
  have hlt : o.lvl ≤ topLvl ∧ reqR o ≤ topLvl := by
    cases o <;> simp [Op.isBin] at hb <;> simp [Op.lvl, reqR, Op.assoc, topLvl]
  simp only [binop, ok, ok_wrap, hb, hokl, hokr, Bool.true_and, Bool.and_eq_true, decide_eq_true_eq, Bool.not_eq_true']
  exact ⟨⟨lvl_wrap hlt.1 hL, lvl_wrap hlt.2 (fun h => (hR h).1)⟩, heads_wrap (fun h => (hR h).2)⟩

theorem binop_inv {k : PK} {o : Op} {l r : Ast} (hl : Inv p I l) (hr : Inv p I r) (hb : o.isBin = true)
    (hL : parenLeft p k l = false → o.lvl ≤ floor p l)
    (hR : parenRight p k l r (genDoc p r) = false → reqR o ≤ floor p r ∧ heads p.style o (genDoc p r) = false) :
    ok p.style (binop p k o l r (genDoc p l) (genDoc p r)) = true :=
  binop_ok hl.ok hr.ok hb (fun h => Nat.le_trans (hL h) hl.fl)
    (fun h => ⟨Nat.le_trans (hR h).1 hr.fl, (hR h).2⟩)

@[simp] theorem eval_binop (k : PK) (o : Op) (l r : Ast) (ld rd : Doc) :
    evalDoc I (binop p k o l r ld rd) = o.sem (evalDoc I ld) (evalDoc I rd) := by
  simp [binop, evalDoc]

end Cellml.Gen

namespace Cellml.Gen
variable {p : Profile} {I : Interp}

theorem floor_le_7 (a : Ast) : floor p a ≤ 7 := by
  simp only [floor]; repeat' split
  all_goals omega

theorem relLogic_rel {has : Bool} {o : Op} {l r : Ast} (hl : Inv p I l) (hr : Inv p I r)
    (hb : o.isBin = true) (ho : o.lvl = 3 ∨ o.lvl = 4) :
    ok p.style (relLogic p has .relplus o l r (genDoc p l) (genDoc p r)) = true := by
  cases has
  · simp [relLogic, ok, hl.ok, hr.ok]
  · have hm : o ≠ .minus := by intro h; subst h; simp [Op.lvl] at ho
    have hreq : reqR o ≤ 5 := by
      cases o <;> simp [Op.isBin] at hb <;> simp [Op.lvl] at ho <;> simp [reqR, Op.assoc, Op.lvl]
    have := binop_inv (k := .relplus) (o := o) hl hr hb
      (fun h => by have := floor_low (p := p) (a := l) (by simpa [parenLeft] using h); omega)
      (fun h => ⟨by have := floor_low (p := p) (a := r) (by simpa [parenRight] using h); omega,
        heads_bin_false _ hr.ok hb hm⟩)
    simpa [relLogic] using this

theorem relLogic_and {has : Bool} {l r : Ast} (hl : Inv p I l) (hr : Inv p I r) :
    ok p.style (relLogic p has .and .and l r (genDoc p l) (genDoc p r)) = true := by
  cases has
  · simp [relLogic, ok, hl.ok, hr.ok]
  · have := binop_inv (k := .and) (o := .and) hl hr rfl
      (fun h => by
        simp only [parenLeft, Bool.or_eq_false_iff] at h
        exact floor_and h.1.1.1.1.1.2 h.1.1.1.2)
      (fun h => ⟨by
        simp only [parenRight, Bool.or_eq_false_iff] at h
        exact floor_and h.1.1.1.1.1.2 h.1.1.1.2, heads_bin_false _ hr.ok rfl (by decide)⟩)
    simpa [relLogic] using this

theorem relLogic_or {has : Bool} {l r : Ast} (hl : Inv p I l) (hr : Inv p I r) :
    ok p.style (relLogic p has .or .or l r (genDoc p l) (genDoc p r)) = true := by
  cases has
  · simp [relLogic, ok, hl.ok, hr.ok]
  · have := binop_inv (k := .or) (o := .or) hl hr rfl
      (fun h => by
        simp only [parenLeft, Bool.or_eq_false_iff] at h
        exact floor_or h.1.1.1.2)
      (fun h => ⟨by
        simp only [parenRight, Bool.or_eq_false_iff] at h
        exact floor_or h.1.1.1.2, heads_bin_false _ hr.ok rfl (by decide)⟩)
    simpa [relLogic] using this

@[simp] theorem eval_relLogic (has : Bool) (k : PK) (o : Op) (l r : Ast) (ld rd : Doc) :
    evalDoc I (relLogic p has k o l r ld rd) = relLogicSem p I has o (evalDoc I ld) (evalDoc I rd) := by
  cases has <;> simp [relLogic, relLogicSem, evalDoc]

theorem plus_inv {l r : Ast} (hl : Inv p I l) (hr : Inv p I r) :
    ok p.style (binop p .relplus .plus l r (genDoc p l) (genDoc p r)) = true :=
  binop_inv (k := .relplus) (o := .plus) hl hr rfl
    (fun h => floor_low (by simpa [parenLeft] using h))
    (fun h => ⟨floor_low (by simpa [parenRight] using h), heads_bin_false _ hr.ok rfl (by decide)⟩)

theorem minus_inv {l r : Ast} (hl : Inv p I l) (hr : Inv p I r) :
    ok p.style (binop p .minus .minus l r (genDoc p l) (genDoc p r)) = true :=
  binop_inv (k := .minus) (o := .minus) hl hr rfl
    (fun h => floor_low (by simpa [parenLeft] using h))
    (fun h => by
      simp only [parenRight, Bool.or_eq_false_iff] at h
      obtain ⟨⟨⟨⟨_, hlow⟩, hmi⟩, hlead⟩, hpl⟩ := h
      refine ⟨floor_low_sum hlow ?_, ?_⟩
      · cases hp : isPlus r <;> simp [sum2, hp, hmi] <;> simpa [hp] using hpl
      · rw [← leads_eq_heads]; exact hlead)

theorem times_inv {l r : Ast} (hl : Inv p I l) (hr : Inv p I r) :
    ok p.style (binop p .times .times l r (genDoc p l) (genDoc p r)) = true :=
  binop_inv (k := .times) (o := .times) hl hr rfl
    (fun h => by simp only [parenLeft, Bool.or_eq_false_iff] at h; exact floor_low_sum h.1 h.2)
    (fun h => by
      simp only [parenRight, Bool.or_eq_false_iff] at h
      exact ⟨floor_low_sum h.1 h.2, heads_bin_false _ hr.ok rfl (by decide)⟩)

theorem divide_right {l r : Ast} (hr : Inv p I r) (h : parenRight p .divide l r (genDoc p r) = false) :
    reqR .divide ≤ lvl (genDoc p r) ∧ heads p.style .divide (genDoc p r) = false := by
  simp only [parenRight, Bool.or_eq_false_iff] at h
  obtain ⟨⟨⟨⟨⟨hlow, ht⟩, hd⟩, hlb⟩, hs⟩, hu⟩ := h
  exact ⟨Nat.le_trans (floor_divisor hlow hs (by simp [mult, ht, hd, hlb]) (by simpa [mult, Bool.and_assoc] using hu)) hr.fl,
    heads_bin_false _ hr.ok rfl (by decide)⟩

theorem divide_inv {l r : Ast} (hl : Inv p I l) (hr : Inv p I r) :
    ok p.style (binop p .divide .divide l r (genDoc p l) (genDoc p r)) = true :=
  binop_ok hl.ok hr.ok rfl
    (fun h => by
      simp only [parenLeft, Bool.or_eq_false_iff] at h
      exact Nat.le_trans (Nat.le_trans (by decide) (floor_low_sum h.1 h.2)) hl.fl)
    (divide_right hr)

/-- the `1.0/degree` of a root -/
theorem root_degree_ok {d : Ast} (hd : Inv p I d) :
    ok p.style (binop p .divide .divide (.cn "1.0") d (.atom false "1.0") (genDoc p d)) = true :=
  binop_ok rfl hd.ok rfl (fun _ => by simp [lvl, Op.lvl, topLvl]) (divide_right hd)

theorem minusUnary_inv {l : Ast} (hl : Inv p I l) :
    ok p.style (minusUnary p l (genDoc p l)) = true
      ∧ 6 ≤ lvl (minusUnary p l (genDoc p l))
      ∧ (mult l = false → 7 ≤ lvl (minusUnary p l (genDoc p l))) := by
  generalize hb : (isNeg l || isRel p l || isLogical p l || isPlus l || isMinus l || isPiecewise p l || leads p (genDoc p l)) = b
  have hx : b = false → 6 ≤ lvl (genDoc p l) ∧ heads p.style .minus (genDoc p l) = false
      ∧ (mult l = false → 7 ≤ lvl (genDoc p l)) := by
    intro h; subst h
    simp only [Bool.or_eq_false_iff] at hb
    obtain ⟨⟨⟨⟨⟨⟨_, hr⟩, hlo⟩, hp⟩, hm⟩, hpw⟩, hlead⟩ := hb
    have hlow : low p l = false := by simp [low, hr, hlo, hpw]
    have hs : sum2 l = false := by simp [sum2, hp, hm]
    refine ⟨Nat.le_trans (floor_low_sum hlow hs) hl.fl, by rw [← leads_eq_heads]; exact hlead, ?_⟩
    intro hmu
    refine Nat.le_trans ?_ hl.fl
    have := floor_divisor (p := p) hlow hs hmu (by simp [hm])
    exact this
  have h6 : 6 ≤ lvl (wrap b (genDoc p l)) := lvl_wrap (by decide) (fun h => (hx h).1)
  have hh : heads p.style .minus (wrap b (genDoc p l)) = false := heads_wrap (fun h => (hx h).2.1)
  refine ⟨?_, ?_, ?_⟩
  · simp [minusUnary, hb, ok, hl.ok, h6, hh]
  · simp only [minusUnary, hb, lvl]; split <;> simp [unLvl]
  · intro hmu
    have h7 : 7 ≤ lvl (wrap b (genDoc p l)) := lvl_wrap (by decide) (fun h => (hx h).2.2 hmu)
    simp only [minusUnary, hb, lvl, unLvl, h7, if_true]; exact Nat.le_refl _

@[simp] theorem eval_minusUnary (l : Ast) (ld : Doc) : evalDoc I (minusUnary p l ld) = -(evalDoc I ld) := by
  simp [minusUnary, evalDoc, preSem]

theorem opexpr_operand {l : Ast} (hl : Inv p I l) :
    7 ≤ lvl (wrap (isOpExpr p l) (genDoc p l)) ∧ heads p.style .not (wrap (isOpExpr p l) (genDoc p l)) = false :=
  ⟨lvl_wrap (by decide) (fun h => Nat.le_trans (floor_opexpr h) hl.fl), heads_wrap (fun h => hl.hn h)⟩

theorem piece_ok (hs : Supported p) {v c : Ast} {els : Doc} (hv : Inv p I v) (hc : Inv p I c)
    (he : ok p.style els = true) : ok p.style (pieceDoc p v c (genDoc p v) (genDoc p c) els) = true := by
  simp only [pieceDoc, ok, ok_wrap, hv.ok, hc.ok, he, Bool.true_and, Bool.or_eq_true, Bool.and_eq_true, decide_eq_true_eq]
  rcases hs.2.2.2 with h | h
  · left; simp [h]
  · right
    refine ⟨⟨by simp [h], ?_⟩, ?_⟩
    · exact lvl_wrap (by decide) (fun hh => Nat.le_trans (floor_or hh) hv.fl)
    · exact lvl_wrap (by decide) (fun hh => Nat.le_trans (floor_or hh) hc.fl)

@[simp] theorem eval_pieceDoc (v c : Ast) (vd cd els : Doc) :
    evalDoc I (pieceDoc p v c vd cd els) = condSem (evalDoc I cd) (evalDoc I vd) (evalDoc I els) := by
  simp [pieceDoc, evalDoc]

theorem inv_atom (lead : Bool) (s : String) (t : Ast) (hd : genDoc p t = .atom lead s)
    (he : ∀ els, evalAst p I els t = atomSem I lead s) (hf : floor p t = 7) : Inv p I t := by
  refine ⟨by rw [hd]; rfl, fun els => by rw [hd, he]; rfl, ?_, fun _ => by rw [hd]; cases lead <;> rfl⟩
  rw [hd, hf]; cases lead <;> simp [lvl, unLvl, topLvl]

theorem inv_call1 {t : Ast} {f : String} {a : Ast} (ha : Inv p I a) (hd : genDoc p t = .call1 f (genDoc p a))
    (he : ∀ els, evalAst p I els t = I.fn1 f (evalDoc I (genDoc p a))) : Inv p I t := by
  refine ⟨by rw [hd]; simpa [ok] using ha.ok, fun els => by rw [hd, he]; simp [evalDoc], ?_, fun _ => by rw [hd]; rfl⟩
  rw [hd]; exact Nat.le_trans (floor_le_7 t) (by simp [lvl, topLvl])

theorem inv_call2 {t : Ast} {f : String} {a b : Ast} (ha : Inv p I a) (hb : Inv p I b)
    (hd : genDoc p t = .call2 f (genDoc p a) (genDoc p b))
    (he : ∀ els, evalAst p I els t = I.fn2 f (evalDoc I (genDoc p a)) (evalDoc I (genDoc p b))) : Inv p I t := by
  refine ⟨by rw [hd]; simp [ok, ha.ok, hb.ok], fun els => by rw [hd, he]; simp [evalDoc], ?_, fun _ => by rw [hd]; rfl⟩
  rw [hd]; exact Nat.le_trans (floor_le_7 t) (by simp [lvl, topLvl])

theorem isNul_eq {a : Ast} (h : isNul a = true) : a = .nul := by
  cases a <;> simp [isNul] at h; rfl

/-- relational node: all four invariants -/
theorem inv_rel {t l r : Ast} {has : Bool} {o : Op} (hl : Inv p I l) (hr : Inv p I r) (hb : o.isBin = true)
    (ho : o.lvl = 3 ∨ o.lvl = 4)
    (hd : genDoc p t = relLogic p has .relplus o l r (genDoc p l) (genDoc p r))
    (he : ∀ els, evalAst p I els t = relLogicSem p I has o (evalDoc I (genDoc p l)) (evalDoc I (genDoc p r)))
    (hf : has = true → floor p t = o.lvl) (hop : has = true → isOpExpr p t = true) : Inv p I t := by
  have h1 := relLogic_rel (has := has) hl hr hb ho
  refine ⟨by rw [hd]; exact h1, fun els => by rw [hd, he]; simp, ?_, ?_⟩
  · rw [hd]; cases has
    · exact Nat.le_trans (floor_le_7 t) (by simp [relLogic, lvl, topLvl])
    · rw [hf rfl]; simp [relLogic, binop, lvl]
  · intro hh; cases has
    · rw [hd]; rfl
    · rw [hop rfl] at hh; cases hh

end Cellml.Gen

namespace Cellml.Gen
variable {p : Profile} {I : Interp}

local macro "fsimp" : tactic =>
  `(tactic| simp [floor, isPiecewise, isOr, isAnd, isRel, sum2, mult, isMinus, isTy, isPlus, isTimes, isDivide, isLogB, hasRight, leftOf])
local macro "osimp" : tactic =>
  `(tactic| simp [isOpExpr, isNeg, isLogical, isXor, isPower, isRoot, isPiecewise, isOr, isAnd, isRel, isMinus, isTy, isPlus, isTimes, isDivide, isLogB, hasRight])

theorem hasRight_node (ty : Ty) (l r : Ast) : hasRight (.node ty l r) = !isNul r := by
  cases r <;> rfl

/-- a PIECE: any (sufficiently parenthesised) else-part may be appended -/
structure PieceInv (p : Profile) (I : Interp) (t : Ast) : Prop where
  ok : ∀ e, ok p.style e = true → ok p.style (setElse (genDoc p t) e) = true
  ev : ∀ e, evalAst p I (evalDoc I e) t = evalDoc I (setElse (genDoc p t) e)

/-- the right child of a PIECEWISE node -/
structure LastInv (p : Profile) (I : Interp) (r : Ast) : Prop where
  ok : ok p.style (elseOf p r (genDoc p r)) = true
  ev : evalAst p I (I.atom p.nan) r = evalDoc I (elseOf p r (genDoc p r))

theorem inv_all (hs : Supported p) (t : Ast) :
    (exprOK .expr t = true → Inv p I t)
      ∧ (exprOK .piece t = true → PieceInv p I t)
      ∧ (exprOK .last t = true → LastInv p I t)
      ∧ (∀ ty a b, t = .node ty a b → (exprOK .expr a = true → Inv p I a) ∧ (exprOK .expr b = true → Inv p I b)) := by
  induction t with
  | nul => exact ⟨fun h => by simp [exprOK] at h, fun h => by simp [exprOK] at h, fun h => by simp [exprOK] at h, fun _ _ _ h => by cases h⟩
  | cn v =>
    exact ⟨fun _ => inv_atom _ _ _ rfl (fun _ => rfl) (by fsimp), fun h => by simp [exprOK] at h, fun h => by simp [exprOK] at h,
      fun _ _ _ h => by cases h⟩
  | ci n =>
    exact ⟨fun _ => inv_atom false n _ rfl (fun _ => rfl) (by fsimp), fun h => by simp [exprOK] at h, fun h => by simp [exprOK] at h,
      fun _ _ _ h => by cases h⟩
  | node ty l r ihl ihr =>
    have hpiece : exprOK .piece (.node ty l r) = true → PieceInv p I (.node ty l r) := by
      intro h
      simp only [exprOK, Bool.and_eq_true, decide_eq_true_eq] at h
      obtain ⟨⟨hty, hl⟩, hr⟩ := h
      subst hty
      have hv := ihl.1 hl; have hc := ihr.1 hr
      refine ⟨fun e he => ?_, fun e => ?_⟩
      · have := piece_ok hs hv hc he
        simpa [genDoc, pieceDoc, setElse] using this
      · simp [genDoc, evalAst, pieceDoc, setElse, evalDoc, hv.ev, hc.ev]
    have hexpr : exprOK .expr (.node ty l r) = true → Inv p I (.node ty l r) := by
      intro h
      cases ty
      case EQ =>
        simp only [exprOK, Bool.and_eq_true] at h
        have hl := ihl.1 h.1; have hr := ihr.1 h.2
        exact inv_rel (o := .eq) hl hr rfl (Or.inl rfl) rfl (fun _ => by simp [evalAst, hl.ev, hr.ev])
          (fun hh => by simp only [Op.lvl]; fsimp; simp [hh]) (fun hh => by osimp; simp [hh])
      case NEQ =>
        simp only [exprOK, Bool.and_eq_true] at h
        have hl := ihl.1 h.1; have hr := ihr.1 h.2
        exact inv_rel (o := .neq) hl hr rfl (Or.inl rfl) rfl (fun _ => by simp [evalAst, hl.ev, hr.ev])
          (fun hh => by simp only [Op.lvl]; fsimp; simp [hh]) (fun hh => by osimp; simp [hh])
      case LT =>
        simp only [exprOK, Bool.and_eq_true] at h
        have hl := ihl.1 h.1; have hr := ihr.1 h.2
        exact inv_rel (o := .lt) hl hr rfl (Or.inr rfl) rfl (fun _ => by simp [evalAst, hl.ev, hr.ev])
          (fun hh => by simp only [Op.lvl]; fsimp; simp [hh]) (fun hh => by osimp; simp [hh])
      case LEQ =>
        simp only [exprOK, Bool.and_eq_true] at h
        have hl := ihl.1 h.1; have hr := ihr.1 h.2
        exact inv_rel (o := .leq) hl hr rfl (Or.inr rfl) rfl (fun _ => by simp [evalAst, hl.ev, hr.ev])
          (fun hh => by simp only [Op.lvl]; fsimp; simp [hh]) (fun hh => by osimp; simp [hh])
      case GT =>
        simp only [exprOK, Bool.and_eq_true] at h
        have hl := ihl.1 h.1; have hr := ihr.1 h.2
        exact inv_rel (o := .gt) hl hr rfl (Or.inr rfl) rfl (fun _ => by simp [evalAst, hl.ev, hr.ev])
          (fun hh => by simp only [Op.lvl]; fsimp; simp [hh]) (fun hh => by osimp; simp [hh])
      case GEQ =>
        simp only [exprOK, Bool.and_eq_true] at h
        have hl := ihl.1 h.1; have hr := ihr.1 h.2
        exact inv_rel (o := .geq) hl hr rfl (Or.inr rfl) rfl (fun _ => by simp [evalAst, hl.ev, hr.ev])
          (fun hh => by simp only [Op.lvl]; fsimp; simp [hh]) (fun hh => by osimp; simp [hh])
      case AND =>
        simp only [exprOK, Bool.and_eq_true] at h
        have hl := ihl.1 h.1; have hr := ihr.1 h.2
        have h1 := relLogic_and (has := p.hasAnd) hl hr
        refine ⟨h1, fun _ => by simp [evalAst, genDoc, hl.ev, hr.ev], ?_, ?_⟩
        · cases hh : p.hasAnd
          · exact Nat.le_trans (floor_le_7 _) (by simp [genDoc, relLogic, hh, lvl, topLvl])
          · simp [genDoc, relLogic, binop, hh, lvl, Op.lvl]; fsimp; simp [hh]
        · intro hop; cases hh : p.hasAnd
          · simp [genDoc, relLogic, hh, heads]
          · revert hop; osimp; simp [hh]
      case OR =>
        simp only [exprOK, Bool.and_eq_true] at h
        have hl := ihl.1 h.1; have hr := ihr.1 h.2
        have h1 := relLogic_or (has := p.hasOr) hl hr
        refine ⟨h1, fun _ => by simp [evalAst, genDoc, hl.ev, hr.ev], ?_, ?_⟩
        · cases hh : p.hasOr
          · exact Nat.le_trans (floor_le_7 _) (by simp [genDoc, relLogic, hh, lvl, topLvl])
          · simp [genDoc, relLogic, binop, hh, lvl, Op.lvl]; fsimp; simp [hh]
        · intro hop; cases hh : p.hasOr
          · simp [genDoc, relLogic, hh, heads]
          · revert hop; osimp; simp [hh]
      case XOR =>
        simp only [exprOK, Bool.and_eq_true] at h
        have hl := ihl.1 h.1; have hr := ihr.1 h.2
        exact inv_call2 (f := p.xor) hl hr (by simp [genDoc, relLogic, hs.1, Profile.opStr]) (fun _ => by simp [evalAst, hl.ev, hr.ev])
      case NOT =>
        simp only [exprOK, Bool.and_eq_true] at h
        have hl := ihl.1 h.1
        cases hh : p.hasNot
        · exact inv_call1 (f := p.not_) hl (by simp [genDoc, hh]) (fun _ => by simp [evalAst, hh, hl.ev])
        · obtain ⟨h7, hhd⟩ := opexpr_operand hl
          refine ⟨?_, fun _ => ?_, ?_, ?_⟩
          · simp [genDoc, hh, ok, hl.ok, hhd]; exact h7
          · simp [genDoc, hh, evalDoc, evalAst, hl.ev]
          · simp [genDoc, hh, lvl]; exact floor_le_7 _
          · osimp; simp [hh]
      case PLUS =>
        simp only [exprOK, Bool.and_eq_true, Bool.or_eq_true] at h
        have hl := ihl.1 h.1
        cases hn : isNul r
        · have hr := ihr.1 (by simpa [hn] using h.2)
          have h1 := plus_inv hl hr
          exact ⟨by simpa [genDoc, hn] using h1, fun _ => by simp [genDoc, evalAst, hn, hl.ev, hr.ev, Op.sem],
            by simp [genDoc, hn, binop, lvl, Op.lvl]; simp [floor, isPiecewise, isOr, isAnd, isRel, sum2, mult, isMinus, isTy, isPlus, isTimes, isDivide, isLogB, hasRight_node, hn, leftOf], by simp [isOpExpr, isNeg, isLogical, isXor, isPower, isRoot, isPiecewise, isOr, isAnd, isRel, isMinus, isTy, isPlus, isTimes, isDivide, isLogB, hasRight_node, hn]⟩
        · obtain ⟨h7, hhd⟩ := opexpr_operand hl
          refine ⟨by simp [genDoc, hn, hl.ok], fun _ => by simp [genDoc, evalAst, hn, hl.ev], ?_, fun _ => by simpa [genDoc, hn] using hhd⟩
          simp only [genDoc, hn, if_true]; exact Nat.le_trans (floor_le_7 _) h7
      case MINUS =>
        simp only [exprOK, Bool.and_eq_true, Bool.or_eq_true] at h
        have hl := ihl.1 h.1
        cases hn : isNul r
        · have hr := ihr.1 (by simpa [hn] using h.2)
          have h1 := minus_inv hl hr
          exact ⟨by simpa [genDoc, hn] using h1, fun _ => by simp [genDoc, evalAst, hn, hl.ev, hr.ev, Op.sem],
            by simp [genDoc, hn, binop, lvl, Op.lvl]; simp [floor, isPiecewise, isOr, isAnd, isRel, sum2, mult, isMinus, isTy, isPlus, isTimes, isDivide, isLogB, hasRight_node, hn, leftOf], by simp [isOpExpr, isNeg, isLogical, isXor, isPower, isRoot, isPiecewise, isOr, isAnd, isRel, isMinus, isTy, isPlus, isTimes, isDivide, isLogB, hasRight_node, hn]⟩
        · obtain ⟨h1, h6, h7⟩ := minusUnary_inv hl
          refine ⟨by simpa [genDoc, hn] using h1, fun _ => by simp [genDoc, evalAst, hn, hl.ev], ?_, by osimp⟩
          simp only [genDoc, hn, if_true]
          cases hm : mult l
          · have := h7 hm; exact Nat.le_trans (floor_le_7 _) this
          · refine Nat.le_trans ?_ h6; simp [mult, isTimes, isDivide, isLogB, isTy] at hm; simp [floor, isPiecewise, isOr, isAnd, isRel, sum2, mult, isMinus, isTy, isPlus, isTimes, isDivide, isLogB, hasRight_node, hn, leftOf, hm]
      case TIMES =>
        simp only [exprOK, Bool.and_eq_true] at h
        have hl := ihl.1 h.1; have hr := ihr.1 h.2
        have h1 := times_inv hl hr
        exact ⟨by simpa [genDoc] using h1, fun _ => by simp [genDoc, evalAst, hl.ev, hr.ev, Op.sem], by simp [genDoc, binop, lvl, Op.lvl]; fsimp, by osimp⟩
      case DIVIDE =>
        simp only [exprOK, Bool.and_eq_true] at h
        have hl := ihl.1 h.1; have hr := ihr.1 h.2
        have h1 := divide_inv hl hr
        exact ⟨by simpa [genDoc] using h1, fun _ => by simp [genDoc, evalAst, hl.ev, hr.ev, Op.sem], by simp [genDoc, binop, lvl, Op.lvl]; fsimp, by osimp⟩
      case POWER =>
        simp only [exprOK, Bool.and_eq_true] at h
        have hl := ihl.1 h.1; have hr := ihr.1 h.2
        by_cases c1 : isNumber (render p (genDoc p r)) 1 2 = true
        · exact inv_call1 (f := p.sqrt) hl (by simp [genDoc, c1]) (fun _ => by simp [evalAst, gen, c1, hl.ev])
        · by_cases c2 : (isNumber (render p (genDoc p r)) 2 1 && p.square ≠ "") = true
          · exact inv_call1 (f := p.square) hl (by simp only [genDoc, c1, c2]; simp) (fun _ => by simp only [evalAst, gen, c1, c2]; simp [hl.ev])
          · exact inv_call2 (f := p.power) hl hr (by simp only [genDoc, c1, c2]; simp) (fun _ => by simp only [evalAst, gen, c1, c2]; simp [hl.ev, hr.ev])
      case ROOT =>
        simp only [exprOK] at h
        cases hn : isNul r
        · simp only [hn, Bool.false_eq_true, if_false, Bool.and_eq_true] at h
          have hr := ihr.1 h.2
          -- `l` is `DEGREE d`
          cases l with
          | nul => simp [exprOK] at h
          | cn v => simp [exprOK] at h
          | ci v => simp [exprOK] at h
          | node ty' d r' =>
            have hd' := h.1
            simp only [exprOK, Bool.and_eq_true, decide_eq_true_eq] at hd'
            obtain ⟨⟨hty, hdok⟩, _⟩ := hd'
            subst hty
            have hd := (ihl.2.2.2 _ _ _ rfl).1 hdok
            have hgl : genDoc p (.node .DEGREE d r') = genDoc p d := by simp [genDoc]
            have hel : ∀ els, evalAst p I els (.node .DEGREE d r') = evalDoc I (genDoc p d) := fun els => by simp [evalAst, hd.ev]
            by_cases c1 : isNumber (render p (genDoc p d)) 2 1 = true
            · exact inv_call1 (f := p.sqrt) hr (by simp only [genDoc, hn, hgl] at *; simp [c1])
                (fun _ => by simp only [evalAst, gen, hn, hgl]; simp [c1, hr.ev])
            · have hk := root_degree_ok (p := p) (I := I) hd
              refine ⟨?_, fun _ => ?_, ?_, fun _ => ?_⟩
              · simp only [genDoc, hn] at *; simp [c1, ok, hr.ok, leftOf, hk]
              · simp only [evalAst, gen, genDoc, hn]; simp [c1, evalDoc, hr.ev, hd.ev, Op.sem]
              · simp only [genDoc, hn]; simp [c1, lvl]; exact Nat.le_trans (floor_le_7 _) (by decide)
              · simp only [genDoc, hn]; simp [c1, heads]
        · simp only [hn, if_true] at h
          have hl := ihl.1 h
          exact inv_call1 (f := p.sqrt) hl (by simp [genDoc, hn]) (fun _ => by simp [evalAst, hn, hl.ev])
      case LOG =>
        simp only [exprOK] at h
        cases hn : isNul r
        · simp only [hn, Bool.false_eq_true, if_false, Bool.and_eq_true] at h
          have hr := ihr.1 h.2
          cases l with
          | nul => simp [exprOK] at h
          | cn v => simp [exprOK] at h
          | ci v => simp [exprOK] at h
          | node ty' d r' =>
            have hd' := h.1
            simp only [exprOK, Bool.and_eq_true, decide_eq_true_eq] at hd'
            obtain ⟨⟨hty, hdok⟩, _⟩ := hd'
            subst hty
            have hd := (ihl.2.2.2 _ _ _ rfl).1 hdok
            by_cases c1 : isNumber (render p (genDoc p d)) 10 1 = true
            · exact inv_call1 (f := p.log10) hr (by simp only [genDoc, hn] at *; simp [c1])
                (fun _ => by simp only [evalAst, gen, genDoc, hn]; simp [c1, hr.ev])
            · refine ⟨?_, fun _ => ?_, ?_, ?_⟩
              · simp only [genDoc, hn] at *; simp [c1, ok, hr.ok, hd.ok, Op.isBin, lvl, Op.lvl, reqR, Op.assoc, topLvl, heads]
              · simp only [evalAst, gen, genDoc, hn]; simp [c1, evalDoc, hr.ev, hd.ev, Op.sem]
              · simp only [genDoc, hn]; simp [c1, lvl, Op.lvl]
                simp [floor, isPiecewise, isOr, isAnd, isRel, sum2, mult, isMinus, isTy, isPlus, isTimes, isDivide, isLogB, hasRight_node, hn]
              · simp [isOpExpr, isNeg, isLogical, isXor, isPower, isRoot, isPiecewise, isOr, isAnd, isRel, isMinus, isTy, isPlus, isTimes, isDivide, isLogB, hasRight_node, hn]
        · simp only [hn, if_true] at h
          have hl := ihl.1 h
          exact inv_call1 (f := p.log10) hl (by simp [genDoc, hn]) (fun _ => by simp [evalAst, hn, hl.ev])
      case PIECEWISE =>
        simp only [exprOK, Bool.and_eq_true, Bool.or_eq_true] at h
        have hp := ihl.2.1 h.1
        have hlast : ok p.style (elseOf p r (genDoc p r)) = true
            ∧ evalAst p I (I.atom p.nan) r = evalDoc I (elseOf p r (genDoc p r)) ∨ isNul r = true := by
          rcases h.2 with hn | hl
          · exact Or.inr hn
          · have := ihr.2.2.1 hl; exact Or.inl ⟨this.ok, this.ev⟩
        refine ⟨?_, fun _ => ?_, ?_, ?_⟩
        · simp only [genDoc]
          rcases hlast with ⟨h1, _⟩ | hn
          · exact hp.ok _ h1
          · rw [isNul_eq hn]; exact hp.ok _ rfl
        · simp only [genDoc, evalAst]
          rcases hlast with ⟨_, h2⟩ | hn
          · cases hn : isNul r
            · simp only [Bool.false_eq_true, if_false]; rw [h2]; exact hp.ev _
            · rw [isNul_eq hn]; simp only [isNul, if_true]
              have := hp.ev (.atom false p.nan); simpa [elseOf, evalDoc] using this
          · rw [isNul_eq hn]; simp only [isNul, if_true]
            have := hp.ev (.atom false p.nan); simpa [elseOf, evalDoc] using this
        · fsimp; simp [hs.2.2.1]
        · osimp; simp [hs.2.2.1]
      case MIN =>
        simp only [exprOK, Bool.and_eq_true] at h
        have hl := ihl.1 h.1; have hr := ihr.1 h.2
        exact inv_call2 hl hr rfl (fun _ => by simp [evalAst, hl.ev, hr.ev])
      case MAX =>
        simp only [exprOK, Bool.and_eq_true] at h
        have hl := ihl.1 h.1; have hr := ihr.1 h.2
        exact inv_call2 hl hr rfl (fun _ => by simp [evalAst, hl.ev, hr.ev])
      case REM =>
        simp only [exprOK, Bool.and_eq_true] at h
        have hl := ihl.1 h.1; have hr := ihr.1 h.2
        exact inv_call2 hl hr rfl (fun _ => by simp [evalAst, hl.ev, hr.ev])
      case TRUE => exact inv_atom false p.true_ _ (by simp [genDoc]) (fun _ => by simp [evalAst, atomSem]) (by fsimp)
      case FALSE => exact inv_atom false p.false_ _ (by simp [genDoc]) (fun _ => by simp [evalAst, atomSem]) (by fsimp)
      case E => exact inv_atom false p.e _ (by simp [genDoc]) (fun _ => by simp [evalAst, atomSem]) (by fsimp)
      case PI => exact inv_atom false p.pi _ (by simp [genDoc]) (fun _ => by simp [evalAst, atomSem]) (by fsimp)
      case INF => exact inv_atom false p.inf _ (by simp [genDoc]) (fun _ => by simp [evalAst, atomSem]) (by fsimp)
      case NAN => exact inv_atom false p.nan _ (by simp [genDoc]) (fun _ => by simp [evalAst, atomSem]) (by fsimp)
      case EQUALITY => simp [exprOK] at h
      case DIFF => simp [exprOK] at h
      case BVAR => simp [exprOK] at h
      case DEGREE => simp [exprOK] at h
      case LOGBASE => simp [exprOK] at h
      case PIECE => simp [exprOK] at h
      case OTHERWISE => simp [exprOK] at h
      all_goals
        simp only [exprOK, Bool.and_eq_true] at h
        have hl := ihl.1 h.1
        exact inv_call1 hl rfl (fun _ => by simp [evalAst, hl.ev])
    refine ⟨hexpr, hpiece, ?_, fun ty' a b h => by cases h; exact ⟨ihl.1, ihr.1⟩⟩
    · -- last position
      intro h
      simp only [exprOK, Bool.or_eq_true, Bool.and_eq_true, decide_eq_true_eq] at h
      rcases h with (⟨⟨hty, hl⟩, hr⟩ | ⟨⟨hty, hl⟩, hr⟩) | ⟨⟨hty, hl⟩, hr⟩
      · have hp := hpiece (by simp [exprOK, hty, hl, hr])
        subst hty
        refine ⟨?_, ?_⟩
        · simpa [elseOf] using hp.ok (.atom false p.nan) rfl
        · have := hp.ev (.atom false p.nan)
          simpa [elseOf, evalDoc] using this
      · subst hty
        have hx := ihl.1 hl
        refine ⟨by simpa [elseOf, genDoc] using hx.ok, ?_⟩
        simp [elseOf, genDoc, evalAst, hx.ev]
      · subst hty
        have := hexpr (by simp [exprOK, hl, hr])
        exact ⟨by simpa [elseOf] using this.ok, by simpa [elseOf] using this.ev (I.atom p.nan)⟩

end Cellml.Gen
