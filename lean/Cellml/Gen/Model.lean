/-
  C03 — executable model of expression code generation (src/generator.cpp: generateCode, generateOperatorCode,
  generateMinusUnaryCode, generateDoubleCode, isOperatorExpression, the NOT / unary PLUS / POWER / ROOT / LOG /
  PIECEWISE / PIECE cases) for profiles without a power operator (the C and Python profiles).

  `genDoc` produces a small printing IR whose structure records *which* operator / call / conditional each piece of
  text comes from and where the code put parentheses; `gen = render ∘ genDoc` is the text, compared byte for byte
  with `Generator::equationCode(ast, profile)`.
-/
import Cellml.Num.Model
namespace Cellml.Gen

/-- `AnalyserEquationAst::Type` without CI and CN (those are constructors of `Ast`) -/
inductive Ty
  | EQUALITY | EQ | NEQ | LT | LEQ | GT | GEQ | AND | OR | XOR | NOT | PLUS | MINUS | TIMES | DIVIDE | POWER | ROOT | ABS | EXP | LN | LOG | CEILING | FLOOR | MIN | MAX | REM | DIFF | SIN | COS | TAN | SEC | CSC | COT | SINH | COSH | TANH | SECH | CSCH | COTH | ASIN | ACOS | ATAN | ASEC | ACSC | ACOT | ASINH | ACOSH | ATANH | ASECH | ACSCH | ACOTH | PIECEWISE | PIECE | OTHERWISE | DEGREE | LOGBASE | BVAR | TRUE | FALSE | E | PI | INF | NAN
  deriving DecidableEq, Repr, Inhabited

def Ty.all : List Ty := [.EQUALITY, .EQ, .NEQ, .LT, .LEQ, .GT, .GEQ, .AND, .OR, .XOR, .NOT, .PLUS, .MINUS, .TIMES, .DIVIDE, .POWER, .ROOT, .ABS, .EXP, .LN, .LOG, .CEILING, .FLOOR, .MIN, .MAX, .REM, .DIFF, .SIN, .COS, .TAN, .SEC, .CSC, .COT, .SINH, .COSH, .TANH, .SECH, .CSCH, .COTH, .ASIN, .ACOS, .ATAN, .ASEC, .ACSC, .ACOT, .ASINH, .ACOSH, .ATANH, .ASECH, .ACSCH, .ACOTH, .PIECEWISE, .PIECE, .OTHERWISE, .DEGREE, .LOGBASE, .BVAR, .TRUE, .FALSE, .E, .PI, .INF, .NAN]

def Ty.name : Ty → String
  | .EQUALITY => "EQUALITY"
  | .EQ => "EQ"
  | .NEQ => "NEQ"
  | .LT => "LT"
  | .LEQ => "LEQ"
  | .GT => "GT"
  | .GEQ => "GEQ"
  | .AND => "AND"
  | .OR => "OR"
  | .XOR => "XOR"
  | .NOT => "NOT"
  | .PLUS => "PLUS"
  | .MINUS => "MINUS"
  | .TIMES => "TIMES"
  | .DIVIDE => "DIVIDE"
  | .POWER => "POWER"
  | .ROOT => "ROOT"
  | .ABS => "ABS"
  | .EXP => "EXP"
  | .LN => "LN"
  | .LOG => "LOG"
  | .CEILING => "CEILING"
  | .FLOOR => "FLOOR"
  | .MIN => "MIN"
  | .MAX => "MAX"
  | .REM => "REM"
  | .DIFF => "DIFF"
  | .SIN => "SIN"
  | .COS => "COS"
  | .TAN => "TAN"
  | .SEC => "SEC"
  | .CSC => "CSC"
  | .COT => "COT"
  | .SINH => "SINH"
  | .COSH => "COSH"
  | .TANH => "TANH"
  | .SECH => "SECH"
  | .CSCH => "CSCH"
  | .COTH => "COTH"
  | .ASIN => "ASIN"
  | .ACOS => "ACOS"
  | .ATAN => "ATAN"
  | .ASEC => "ASEC"
  | .ACSC => "ACSC"
  | .ACOT => "ACOT"
  | .ASINH => "ASINH"
  | .ACOSH => "ACOSH"
  | .ATANH => "ATANH"
  | .ASECH => "ASECH"
  | .ACSCH => "ACSCH"
  | .ACOTH => "ACOTH"
  | .PIECEWISE => "PIECEWISE"
  | .PIECE => "PIECE"
  | .OTHERWISE => "OTHERWISE"
  | .DEGREE => "DEGREE"
  | .LOGBASE => "LOGBASE"
  | .BVAR => "BVAR"
  | .TRUE => "TRUE"
  | .FALSE => "FALSE"
  | .E => "E"
  | .PI => "PI"
  | .INF => "INF"
  | .NAN => "NAN"

def Ty.ofName (s : String) : Option Ty := Ty.all.find? (fun t => t.name = s)

/-- `AnalyserEquationAst`: type, left and right child (`nul` = no child); value / variable name for the leaves -/
inductive Ast
  | nul
  | cn (v : String)
  | ci (name : String)
  | node (ty : Ty) (l r : Ast)
  deriving Repr, Inhabited, DecidableEq

/-- the part of a `GeneratorProfile` that expression printing reads (regenerated from the getters) -/
structure Profile where
  hasEq : Bool
  hasNeq : Bool
  hasLt : Bool
  hasLeq : Bool
  hasGt : Bool
  hasGeq : Bool
  hasAnd : Bool
  hasOr : Bool
  hasXor : Bool
  hasNot : Bool
  hasPower : Bool
  hasCond : Bool
  equality : String
  eq : String
  neq : String
  lt : String
  leq : String
  gt : String
  geq : String
  and_ : String
  or_ : String
  xor : String
  not_ : String
  plus : String
  minus : String
  times : String
  divide : String
  power : String
  sqrt : String
  square : String
  ln : String
  log10 : String
  condIf : String
  condElse : String
  true_ : String
  false_ : String
  e : String
  pi : String
  inf : String
  nan : String
  fn : Ty → String          -- one-/two-parameter functions by AST type

/-- operators of the printing IR -/
inductive Op
  | assign | eq | neq | lt | leq | gt | geq | and | or | xor | plus | minus | times | divide | quot | power | not
  deriving DecidableEq, Repr, Inhabited

def Profile.opStr (p : Profile) : Op → String
  | .assign => p.equality | .eq => p.eq | .neq => p.neq | .lt => p.lt | .leq => p.leq | .gt => p.gt | .geq => p.geq
  | .and => p.and_ | .or => p.or_ | .xor => p.xor | .plus => p.plus | .minus => p.minus | .times => p.times
  | .divide => p.divide | .quot => "/" | .power => p.power | .not => p.not_

/-- how the profile writes a conditional (decides the token form; anything else is printed but not analysed) -/
inductive CondStyle | c | py | other
  deriving DecidableEq, Repr

def Profile.style (p : Profile) : CondStyle :=
  if p.condIf = "([CONDITION])?[IF_STATEMENT]" ∧ p.condElse = ":[ELSE_STATEMENT]" then .c
  else if p.condIf = "[IF_STATEMENT] if [CONDITION]" ∧ p.condElse = " else [ELSE_STATEMENT]" then .py
  else .other

/-- printing IR.  `atom lead s`: `lead` records that the text starts with the minus sign (a negative literal) -/
inductive Doc
  | atom (lead : Bool) (s : String)
  | bin (o : Op) (l r : Doc)                      -- l o r
  | pre (o : Op) (x : Doc)                        -- o x   (minus, not)
  | call1 (f : String) (a : Doc)                  -- f(a)
  | call2 (f : String) (a b : Doc)                -- f(a, b)
  | cond (c a b : Doc)                            -- conditional operator: value `a` if `c`, else `b`
  | paren (d : Doc)
  deriving Repr, Inhabited, DecidableEq

def replace1 (s from_ to : String) : String :=
  match s.splitOn from_ with
  | [] => s
  | [x] => x
  | x :: rest => x ++ to ++ from_.intercalate rest     -- first occurrence only (`utilities.cpp: replace`)

def render (p : Profile) : Doc → String
  | .atom _ s => s
  | .bin o l r => render p l ++ p.opStr o ++ render p r
  | .pre o x => p.opStr o ++ render p x
  | .call1 f a => f ++ "(" ++ render p a ++ ")"
  | .call2 f a b => f ++ "(" ++ render p a ++ ", " ++ render p b ++ ")"
  | .cond c a b =>
    replace1 (replace1 p.condIf "[CONDITION]" (render p c)) "[IF_STATEMENT]" (render p a)
      ++ replace1 p.condElse "[ELSE_STATEMENT]" (render p b)
  | .paren d => "(" ++ render p d ++ ")"

/-- does the text of the document start with the minus sign?  (`code.rfind(minusString, 0) == 0`; structural: the
    first token is a minus — equal to the textual test as long as identifiers do not start with `-`) -/
def leads (p : Profile) : Doc → Bool
  | .atom lead _ => lead
  | .bin _ l _ => leads p l
  | .pre o _ => o = .minus
  | .call1 _ _ => false
  | .call2 _ _ _ => false
  | .cond _ a _ => if p.style = .py then leads p a else false
  | .paren _ => false

/-- `generateDoubleCode`: a mantissa without a decimal point gets `.0`, before the exponent marker if there is one -/
def doubleCode (v : String) : String :=
  if v.contains '.' then v
  else
    let cs := v.toList
    let pre := cs.takeWhile (fun c => c ≠ 'e' ∧ c ≠ 'E')
    String.ofList (pre ++ ['.', '0'] ++ cs.drop pre.length)

/-- is the text a CellML real equal to `n/d`?  (`convertToDouble` + `areEqual`; exact comparison) -/
def isNumber (code : String) (n d : Nat) : Bool :=
  let s := code.toList
  if !Cellml.Num.cellmlReal s then false else
  let (neg, m, e) := Cellml.Num.decompose s
  if neg && m ≠ 0 then false
  else if e ≥ 0 then m * 10 ^ e.toNat * d == n else m * d == n * 10 ^ (-e).toNat

/-- `isNegativeNumber`: a `cn` whose value converts to a double below zero -/
def isNeg : Ast → Bool
  | .cn v =>
    let s := v.toList
    if !Cellml.Num.cellmlReal s then false else
    let (neg, m, _) := Cellml.Num.decompose s
    neg && m ≠ 0
  | _ => false

def isNul : Ast → Bool
  | .nul => true
  | _ => false

def hasRight : Ast → Bool
  | .node _ _ .nul => false
  | .node _ _ _ => true
  | _ => false

def isTy (t : Ty) : Ast → Bool
  | .node ty _ _ => ty = t
  | _ => false

def isRel (p : Profile) : Ast → Bool
  | .node .EQ _ _ => p.hasEq | .node .NEQ _ _ => p.hasNeq | .node .LT _ _ => p.hasLt
  | .node .LEQ _ _ => p.hasLeq | .node .GT _ _ => p.hasGt | .node .GEQ _ _ => p.hasGeq
  | _ => false
def isAnd (p : Profile) (a : Ast) : Bool := isTy .AND a && p.hasAnd
def isOr (p : Profile) (a : Ast) : Bool := isTy .OR a && p.hasOr
def isXor (p : Profile) (a : Ast) : Bool := isTy .XOR a && p.hasXor
def isLogical (p : Profile) (a : Ast) : Bool := isAnd p a || isOr p a || isXor p a
def isPlus (a : Ast) : Bool := isTy .PLUS a
def isMinus (a : Ast) : Bool := isTy .MINUS a
def isTimes (a : Ast) : Bool := isTy .TIMES a
def isDivide (a : Ast) : Bool := isTy .DIVIDE a
def isPower (p : Profile) (a : Ast) : Bool := isTy .POWER a && p.hasPower
def isRoot (p : Profile) (a : Ast) : Bool := isTy .ROOT a && p.hasPower
def isPiecewise (p : Profile) (a : Ast) : Bool := isTy .PIECEWISE a && p.hasCond
/-- `isLogarithmWithBase` -/
def isLogB (a : Ast) : Bool := isTy .LOG a && hasRight a

/-- `isOperatorExpression` -/
def isOpExpr (p : Profile) (a : Ast) : Bool :=
  if isPlus a && !hasRight a then false
  else isNeg a || isRel p a || isLogical p a || (isTy .NOT a && p.hasNot) || isPlus a || isMinus a || isTimes a
    || isDivide a || isPower p a || isRoot p a || isLogB a || isPiecewise p a

def wrap (b : Bool) (d : Doc) : Doc := if b then .paren d else d

def leftOf : Ast → Ast
  | .node _ l _ => l
  | _ => .nul

/-- classes of parent operators in `generateOperatorCode` -/
inductive PK | relplus | minus | times | divide | and | or | xor | power | none
  deriving DecidableEq, Repr

def low (p : Profile) (a : Ast) : Bool := isRel p a || isLogical p a || isPiecewise p a
def sum2 (a : Ast) : Bool := (isPlus a || isMinus a) && hasRight a

def parenLeft (p : Profile) (k : PK) (l : Ast) : Bool :=
  match k with
  | .relplus | .minus => low p l
  | .times | .divide => low p l || sum2 l
  | .and => isRel p l || isOr p l || isXor p l || isPiecewise p l || sum2 l || isPower p l || isRoot p l
  | .or => isRel p l || isAnd p l || isXor p l || isPiecewise p l || sum2 l || isPower p l || isRoot p l
  | .xor => isRel p l || isAnd p l || isOr p l || isPiecewise p l || sum2 l || isPower p l || isRoot p l
  | .power => low p l || isMinus l || isTimes l || isDivide l || (isPlus l && hasRight l)
  | .none => false

def parenRight (p : Profile) (k : PK) (l r : Ast) (rd : Doc) : Bool :=
  match k with
  | .relplus => low p r
  | .minus => isNeg r || low p r || isMinus r || leads p rd || (isPlus r && hasRight r)
  | .times => low p r || sum2 r
  | .divide => low p r || isTimes r || isDivide r || isLogB r || sum2 r
      || (isMinus r && !hasRight r && (isTimes (leftOf r) || isDivide (leftOf r) || isLogB (leftOf r)))
  | .and => isRel p r || isOr p r || isXor p r || isPiecewise p r || sum2 r || isPower p r || isRoot p r
  | .or => isRel p r || isAnd p r || isXor p r || isPiecewise p r || sum2 r || isPower p r || isRoot p r
  | .xor => isRel p r || isAnd p r || isOr p r || isPiecewise p r || sum2 r || isPower p r || isRoot p r
  | .power => low p r || isMinus l || isTimes r || isDivide r || isPower p r || isRoot p r || (isPlus r && hasRight r)
  | .none => false

/-- `generateOperatorCode` -/
def binop (p : Profile) (k : PK) (o : Op) (l r : Ast) (ld rd : Doc) : Doc :=
  .bin o (wrap (parenLeft p k l) ld) (wrap (parenRight p k l r rd) rd)

/-- the operator-or-function alternatives of `generateCode` for relational and logical types -/
def relLogic (p : Profile) (has : Bool) (k : PK) (o : Op) (l r : Ast) (ld rd : Doc) : Doc :=
  if has then binop p k o l r ld rd else .call2 (p.opStr o) ld rd

/-- `generateMinusUnaryCode` -/
def minusUnary (p : Profile) (l : Ast) (ld : Doc) : Doc :=
  .pre .minus (wrap (isNeg l || isRel p l || isLogical p l || isPlus l || isMinus l || isPiecewise p l || leads p ld) ld)

/-- the PIECE case: value `v` (document `vd`) if condition `c` (document `cd`), else `els` -/
def pieceDoc (p : Profile) (v c : Ast) (vd cd els : Doc) : Doc :=
  .cond (wrap (isPiecewise p c) cd) (wrap (isPiecewise p v) vd) els

/-- append the else-part to the if-part generated for a PIECE -/
def setElse : Doc → Doc → Doc
  | .cond c a _, e => .cond c a e
  | d, _ => d

/-- the else-part of a PIECEWISE node whose right child is `r` (with document `rd`) -/
def elseOf (p : Profile) (r : Ast) (rd : Doc) : Doc :=
  match r with
  | .nul => .atom false p.nan
  | .node rty _ _ => if rty = .PIECE then setElse rd (.atom false p.nan) else rd
  | _ => rd

/-- `generateCode` as a document -/
def genDoc (p : Profile) : Ast → Doc
  | .nul => .atom false ""
  | .cn v => .atom (v.toList.head? = some '-') (doubleCode v)
  | .ci n => .atom false n
  | .node ty l r =>
    let ld := genDoc p l
    let rd := genDoc p r
    match ty with
    | .EQUALITY => binop p .none .assign l r ld rd
    | .EQ => relLogic p p.hasEq .relplus .eq l r ld rd
    | .NEQ => relLogic p p.hasNeq .relplus .neq l r ld rd
    | .LT => relLogic p p.hasLt .relplus .lt l r ld rd
    | .LEQ => relLogic p p.hasLeq .relplus .leq l r ld rd
    | .GT => relLogic p p.hasGt .relplus .gt l r ld rd
    | .GEQ => relLogic p p.hasGeq .relplus .geq l r ld rd
    | .AND => relLogic p p.hasAnd .and .and l r ld rd
    | .OR => relLogic p p.hasOr .or .or l r ld rd
    | .XOR => relLogic p p.hasXor .xor .xor l r ld rd
    | .NOT => if p.hasNot then .pre .not (wrap (isOpExpr p l) ld) else .call1 p.not_ ld
    | .PLUS => if isNul r then wrap (isOpExpr p l) ld else binop p .relplus .plus l r ld rd
    | .MINUS => if isNul r then minusUnary p l ld else binop p .minus .minus l r ld rd
    | .TIMES => binop p .times .times l r ld rd
    | .DIVIDE => binop p .divide .divide l r ld rd
    | .POWER =>
      let rc := render p rd
      if isNumber rc 1 2 then .call1 p.sqrt ld
      else if isNumber rc 2 1 && p.square ≠ "" then .call1 p.square ld
      else .call2 p.power ld rd                       -- profiles without a power operator
    | .ROOT =>
      if isNul r then .call1 p.sqrt ld
      -- `l` is the DEGREE node, whose code is the code of its child
      else if isNumber (render p ld) 2 1 then .call1 p.sqrt rd
      else .call2 p.power rd (binop p .divide .divide (.cn "1.0") (leftOf l) (.atom false "1.0") ld)
    | .LOG =>
      if isNul r then .call1 p.log10 ld
      else if isNumber (render p ld) 10 1 then .call1 p.log10 rd
      else .bin .quot (.call1 p.ln rd) (.call1 p.ln ld)
    | .DEGREE | .LOGBASE | .BVAR | .OTHERWISE => ld
    | .PIECEWISE => setElse ld (elseOf p r rd)   -- `l` is a PIECE: its code is the if-part, to which the else-part is appended
    | .PIECE => pieceDoc p l r ld rd (.atom false "")
    | .TRUE => .atom false p.true_ | .FALSE => .atom false p.false_
    | .E => .atom false p.e | .PI => .atom false p.pi
    | .INF => .atom false p.inf | .NAN => .atom false p.nan
    | .MIN | .MAX | .REM => .call2 (p.fn ty) ld rd
    | .DIFF => .atom false ""
    | _ => .call1 (p.fn ty) ld

def gen (p : Profile) (a : Ast) : String := render p (genDoc p a)

end Cellml.Gen
