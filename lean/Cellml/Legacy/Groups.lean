/-
  C14 — the encapsulation hierarchy of a CellML 1.x model may be described by any number of groups (src/parser.cpp:
  loadModel() → loadEncapsulation() per group → loadComponentRef()).

  What the loading of a group does to the hierarchy, seen as a map child ↦ parent: every nested `component_ref` takes its
  component out of wherever it is and attaches it to the component of the enclosing `component_ref` (`set c p`); the
  component of a top-level `component_ref` is taken out as well and, once its children are attached, goes back to the
  parent an earlier group gave it (fix 24b05bd; before, `Model::addComponent` made it a top-level component again: `top r`
  cleared its parent).
-/
namespace Cellml.Legacy

inductive GOp
  | set (child parent : String)     -- a nested component_ref: child attached to parent
  | top (root : String)             -- a top-level component_ref has been loaded
  deriving DecidableEq, Repr

abbrev PMap := String → Option String

def gstep (fixed : Bool) (m : PMap) : GOp → PMap
  | .set c p => fun x => if x = c then some p else m x
  | .top r => if fixed then m else fun x => if x = r then none else m x

/-- all groups of the document, in document order, flattened to the sequence of operations -/
def grun (fixed : Bool) (ops : List GOp) : PMap := ops.foldl (gstep fixed) (fun _ => none)

/-- the children given a parent by the operations, in order -/
def children : List GOp → List String
  | [] => []
  | .set c _ :: t => c :: children t
  | .top _ :: t => children t

theorem foldl_gstep_not_child (ops : List GOp) : ∀ (m : PMap) (x : String), x ∉ children ops →
    ops.foldl (gstep true) m x = m x := by
  induction ops with
  | nil => intro m x _; rfl
  | cons op t ih =>
    intro m x hx
    cases op with
    | set c p =>
      simp only [children, List.mem_cons, not_or] at hx
      simp only [List.foldl_cons]
      rw [ih _ x hx.2]
      simp [gstep, hx.1]
    | top r =>
      simp only [children] at hx
      simp only [List.foldl_cons]
      rw [ih _ x hx]
      simp [gstep]

/-- with the repair, the hierarchy is exactly the set of (child, parent) pairs of all groups — provided no component is
    given a parent twice (a component has one parent) -/
theorem grun_spec (ops : List GOp) (hnd : (children ops).Nodup) (c p : String) :
    grun true ops c = some p ↔ GOp.set c p ∈ ops := by
  unfold grun
  suffices h : ∀ (m : PMap), (∀ x ∈ children ops, m x = none) →
      (ops.foldl (gstep true) m c = some p ↔ (GOp.set c p ∈ ops ∨ m c = some p)) by
    have := h (fun _ => none) (fun _ _ => rfl)
    simpa using this
  induction ops with
  | nil => intro m _; simp
  | cons op t ih =>
    intro m hm
    cases op with
    | top r =>
      simp only [children] at hnd hm
      simp only [List.foldl_cons, List.mem_cons, reduceCtorEq, false_or]
      have : gstep true m (.top r) = m := by simp [gstep]
      rw [this]
      exact ih hnd m hm
    | set c' p' =>
      simp only [children, List.nodup_cons] at hnd
      simp only [children, List.mem_cons, forall_eq_or_imp] at hm
      simp only [List.foldl_cons, List.mem_cons, GOp.set.injEq]
      have hm' : ∀ x ∈ children t, gstep true m (.set c' p') x = none := by
        intro x hx
        have hne : x ≠ c' := fun he => hnd.1 (he ▸ hx)
        simp [gstep, hne, hm.2 x hx]
      rw [ih hnd.2 _ hm']
      by_cases hc : c = c'
      · subst hc
        have hnot : ∀ q, GOp.set c q ∉ t := by
          intro q hq
          apply hnd.1
          clear ih hm hm' hnd
          induction t with
          | nil => cases hq
          | cons a t' ih' =>
            cases a with
            | set c2 p2 =>
              simp only [children, List.mem_cons]
              rcases List.mem_cons.mp hq with h | h
              · cases h; exact Or.inl rfl
              · exact Or.inr (ih' h)
            | top r2 =>
              simp only [children]
              rcases List.mem_cons.mp hq with h | h
              · cases h
              · exact ih' h
        simp only [gstep, if_true, Option.some.injEq, hm.1, reduceCtorEq, or_false, true_and]
        constructor
        · rintro (h | h)
          · exact absurd h (hnot p)
          · exact Or.inl h.symm
        · rintro (h | h)
          · exact Or.inr h.symm
          · exact absurd h (hnot p)
      · simp only [gstep, hc, if_false, false_and, false_or]

/-- … hence the hierarchy does not depend on how the pairs are dealt out to groups, nor on the order of the groups -/
theorem grun_perm (ops ops' : List GOp) (hnd : (children ops).Nodup) (hnd' : (children ops').Nodup)
    (h : ∀ c p, GOp.set c p ∈ ops ↔ GOp.set c p ∈ ops') : grun true ops = grun true ops' := by
  funext c
  cases h1 : grun true ops c with
  | some p =>
    have := (grun_spec ops hnd c p).mp h1
    exact ((grun_spec ops' hnd' c p).mpr ((h c p).mp this)).symm
  | none =>
    cases h2 : grun true ops' c with
    | none => rfl
    | some p =>
      have := (grun_spec ops' hnd' c p).mp h2
      have := (grun_spec ops hnd c p).mpr ((h c p).mpr this)
      rw [h1] at this; cases this

/-! ### from the nested `component_ref` elements of the groups to the operations -/

inductive Ref
  | mk (name : String) (kids : List Ref)
  deriving Repr

def Ref.name : Ref → String
  | .mk n _ => n

mutual
/-- `loadComponentRef`: for every child in turn, the child's own subtree, then the child attached to this component -/
def Ref.ops : Ref → List GOp
  | .mk n kids => Ref.opsKids n kids
def Ref.opsKids (n : String) : List Ref → List GOp
  | [] => []
  | k :: ks => k.ops ++ [GOp.set k.name n] ++ Ref.opsKids n ks
end

/-- `loadEncapsulation` for one group: its top-level component_refs in order -/
def groupOps (g : List Ref) : List GOp := g.flatMap fun r => r.ops ++ [GOp.top r.name]

/-- every group of the document, in document order -/
def docOps (gs : List (List Ref)) : List GOp := gs.flatMap groupOps

/-- one group `a ⊃ {d, b ⊃ c}` -/
def exOne : List GOp := [.set "d" "a", .set "c" "b", .set "b" "a", .top "a"]
/-- the same hierarchy in two groups: `a ⊃ {d, b}` then `b ⊃ c` -/
def exTwo : List GOp := [.set "d" "a", .set "b" "a", .top "a", .set "c" "b", .top "b"]


def exTreeOne : List (List Ref) := [[.mk "a" [.mk "d" [], .mk "b" [.mk "c" []]]]]
def exTreeTwo : List (List Ref) := [[.mk "a" [.mk "d" [], .mk "b" []]], [.mk "b" [.mk "c" []]]]
example : docOps exTreeOne = exOne ∧ docOps exTreeTwo = exTwo := by decide

end Cellml.Legacy
