/-
  C14 — the parts of the CellML 1.x transformation that are decisions rather than XML surgery (src/parser.cpp:
  loadVariable() public_interface / private_interface merge, convertNonSiUnits(), the version gate of loadModel()).
-/
namespace Cellml.Legacy

inductive Iface | none | pub | priv | both
  deriving DecidableEq, Repr

def Iface.hasPub : Iface → Bool
  | .pub | .both => true
  | _ => false
def Iface.hasPriv : Iface → Bool
  | .priv | .both => true
  | _ => false

/-- one `public_interface` (`isPub`) or `private_interface` attribute with its value, applied to the interface so far -/
def step (cur : Iface) (a : Bool × String) : Iface :=
  if a.2 = "none" then cur
  else if a.1 then (if cur.hasPriv then .both else .pub)
  else (if cur.hasPub then .both else .priv)

/-- the attributes of a 1.x variable in document order -/
def merge (attrs : List (Bool × String)) : Iface := attrs.foldl step .none

/-- `convertNonSiUnits` -/
def respell (u : String) : String := if u = "liter" then "litre" else if u = "meter" then "metre" else u

/-- `isEncapsulationRelationship`: a 1.x group describes the encapsulation hierarchy when one of its `relationship_ref`
    children has `relationship="encapsulation"` (a group may carry several, e.g. a named containment hierarchy as well);
    the argument is the value of the `relationship` attribute of every `relationship_ref`, `none` where it has none -/
def isEncapsulation (refs : List (Option String)) : Bool := refs.any (· = some "encapsulation")

inductive Version | v10 | v11 | v20 | other
  deriving DecidableEq, Repr

/-- does `parseModel` load the document (strict mode refuses anything but 2.0)? -/
def loads (strict : Bool) (v : Version) : Bool :=
  match v with
  | .v20 => true
  | .v10 | .v11 => !strict
  | .other => false

end Cellml.Legacy
