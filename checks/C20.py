"""C20 — external variables turn unknowns into inputs without disturbing the rest."""
import random, sys, tempfile, shutil, subprocess
from vlib.common import *
sys.path.insert(0, os.path.join(ROOT, 'pygen'))
import exprs as X
import models as M
import absys as A
import nlasys as N
sys.path.insert(0, os.path.join(ROOT, 'checks'))
import C05 as C5

VALID = ('algebraic', 'ode', 'nla', 'dae')


def run_real(hx, fn, ext):
    r = subprocess.run([hx, fn, 'C'] + list(ext), capture_output=True, text=True, timeout=120)
    if '=====IMPL' not in r.stdout:
        return None
    out = r.stdout
    info = out[out.index('=====INFO') + 10:out.index('=====IFACE')]
    iface = out[out.index('=====IFACE') + 11:out.index('=====IMPL')]
    impl = out[out.index('=====IMPL') + 10:]
    d = {'type': None, 'vars': {}, 'messages': [], 'externals': '0', 'iface': iface, 'impl': impl, 'eqtypes': {}}
    for l in info.split('\n'):
        t = l.split()
        if not t:
            continue
        if t[0] == 'type': d['type'] = t[1]
        elif t[0] == 'voi': d['vars'][(t[1], t[2])] = ('voi', None)
        elif t[0] == 'state': d['vars'][(t[2], t[3])] = ('state', int(t[1]))
        elif t[0] == 'variable': d['vars'][(t[2], t[3])] = (t[4], int(t[1]))
        elif t[0] == 'message': d['messages'].append(l[8:])
        elif t[0] == 'externals': d['externals'] = t[1]
        elif t[0] == 'xequation':
            k = t.index('deps')
            for v in t[3:k]:
                d['eqtypes'].setdefault(v, []).append(t[1])
    return d


CALLBACK_MAIN = r'''
#include <stdio.h>
#include <math.h>
#include "model.h"
static double truth[%(nv)d] = {%(truth)s};
static int isext[%(nv)d] = {%(isext)s};
static double *gv;
%(sig)s
{
    printf("CALL %%zu", index);
    for (size_t i = 0; i < VARIABLE_COUNT; ++i) printf(" %%.17g", variables[i]);
    printf("\n");
    if (index >= VARIABLE_COUNT || !isext[index]) printf("BADCALL %%zu\n", index);
    return truth[index];
}
int main(void)
{
%(body)s
    return 0;
}
'''


def execute(real, sysd, marked, wd, t0=0.0):
    """compile the generated C with a recording callback; returns the output lines or an error text"""
    ode = real['type'] in ('ode', 'dae')
    nv = max([i for (t, i) in real['vars'].values() if i is not None and t != 'state'] + [-1]) + 1
    truth = ['0.0'] * nv; isext = ['0'] * nv
    for (c, n), (t, i) in real['vars'].items():
        if t != 'state' and i is not None:
            e = M.expected_value(sysd, c, n)
            if e is not None:
                truth[i] = repr(e[0])
            if t == 'external':
                isext[i] = '1'
    if ode:
        sig = 'static double ext(double voi, double *states, double *rates, double *variables, size_t index)'
        body = ('    double *states = createStatesArray(), *rates = createStatesArray(), *variables = createVariablesArray();\n'
                '    for (size_t i = 0; i < STATE_COUNT; ++i) rates[i] = 0.0;\n'
                '    printf("PHASE init\\n"); initialiseVariables(%r, states, rates, variables, ext);\n'
                '    printf("PHASE constants\\n"); computeComputedConstants(variables);\n'
                '    printf("PHASE rates\\n"); computeRates(%r, states, rates, variables, ext);\n'
                '    printf("PHASE variables\\n"); computeVariables(%r, states, rates, variables, ext);\n'
                '    printf("VOI %%s %%s\\n", VOI_INFO.component, VOI_INFO.name);\n'
                '    for (size_t i = 0; i < STATE_COUNT; ++i) printf("S %%s %%s %%.17g %%.17g\\n", STATE_INFO[i].component, STATE_INFO[i].name, states[i], rates[i]);\n'
                '    for (size_t i = 0; i < VARIABLE_COUNT; ++i) printf("V %%s %%s %%.17g %%d\\n", VARIABLE_INFO[i].component, VARIABLE_INFO[i].name, variables[i], (int)VARIABLE_INFO[i].type);') % (t0, t0, t0)
    else:
        sig = 'static double ext(double *variables, size_t index)'
        body = ('    double *variables = createVariablesArray();\n'
                '    printf("PHASE init\\n"); initialiseVariables(variables, ext);\n'
                '    printf("PHASE constants\\n"); computeComputedConstants(variables);\n'
                '    printf("PHASE variables\\n"); computeVariables(variables, ext);\n'
                '    for (size_t i = 0; i < VARIABLE_COUNT; ++i) printf("V %s %s %.17g %d\\n", VARIABLE_INFO[i].component, VARIABLE_INFO[i].name, variables[i], (int)VARIABLE_INFO[i].type);')
    open(os.path.join(wd, 'model.h'), 'w').write(real['iface']); open(os.path.join(wd, 'model.c'), 'w').write(real['impl'])
    open(os.path.join(wd, 'main.c'), 'w').write(CALLBACK_MAIN % dict(nv=max(nv, 1), truth=', '.join(truth) or '0.0', isext=', '.join(isext) or '0', sig=sig, body=body))
    ex = os.path.join(wd, 'a.out')
    r = subprocess.run(['gcc', '-std=c99', '-O0', '-w', os.path.join(wd, 'model.c'), os.path.join(wd, 'main.c'), '-I', wd, '-o', ex, '-lm'], capture_output=True, text=True)
    if r.returncode != 0:
        return None, 'compile: ' + r.stderr[:400]
    r = subprocess.run([ex], capture_output=True, text=True, timeout=20)
    if r.returncode != 0:
        return None, 'crash rc=%d' % r.returncode
    return r.stdout.split('\n'), None


NLA_MAIN = r"""
#include <stdio.h>
#include <math.h>
#include "model.h"
extern int nla_calls, nla_failed;
static double ea[%(nv)d] = {%(ea)s};
static double eb[%(nv)d] = {%(eb)s};
static int isext[%(nv)d] = {%(isext)s};
%(sig)s
{
    printf("CALL %%zu %%.17g\n", index, %(voi)s);
    if (index >= VARIABLE_COUNT || !isext[index]) { printf("BADCALL %%zu\n", index); return 0.0; }
    return ea[index] + eb[index] * %(voi)s;
}
int main(void)
{
%(body)s
    printf("NLA %%d %%d\n", nla_calls, nla_failed);
    return 0;
}
"""


def nla_stage(chk, hx, rng, n, wd, oracle, stats):
    """NLA blocks some of whose unknowns are marked external: k equations linear in k + m initialised variables, m of them
    marked; the generated C is linked with a Newton solver and run with a callback that depends on the variable of integration"""
    T0, T1, S1 = 0.0, 0.5, 1.5
    attempts = 0
    while stats['nla_systems'] < n and attempts < 20 * n:
        attempts += 1
        d = N.gen(rng)
        if d is None:
            continue
        fn = os.path.join(wd, 'n.cellml'); open(fn, 'w').write(d['text'])
        ext = sum([['c', nm] for nm in d['ext']], [])
        real = run_real(hx, fn, ext)
        if real is None:
            oracle.append(('the library crashed on an NLA block with externals %s' % d['ext'], d['text'], ext)); continue
        want = 'dae' if d['ode'] else 'nla'
        if real['type'] != want:
            stats['nla_not_' + str(real['type'])] = stats.get('nla_not_' + str(real['type']), 0) + 1
            oracle.append(('an NLA block of %d equations in %d initialised variables with %s marked as external (a square system in which every equation involves every unknown is left) is reported as %s' % (d['k'], d['k'] + d['m'], d['ext'], real['type']), d['text'], ext))
            continue
        stats['nla_systems'] += 1
        stats['nla_marked'] += d['m']
        bad = False
        for nm in d['names'] + (d['block2'][1] if d.get('block2') else []):
            t = real['vars'].get(('c', nm), (None,))[0]
            exp_t = 'external' if nm in d['ext'] else 'algebraic'
            if t != exp_t:
                oracle.append(('NLA unknown %s (%s) is reported as %s' % (nm, 'marked' if nm in d['ext'] else 'not marked', t), d['text'], ext)); bad = True
        for nm in d['ext']:
            if real['eqtypes'].get('c.' + nm) != ['external']:
                oracle.append(('the marked NLA unknown %s has the equations %s instead of one placeholder equation of type external' % (nm, real['eqtypes'].get('c.' + nm)), d['text'], ext)); bad = True
        if bad:
            continue
        nv = max([i for (t, i) in real['vars'].values() if i is not None and t != 'state'] + [-1]) + 1
        ea = ['0.0'] * max(nv, 1); eb = ['0.0'] * max(nv, 1); isext = ['0'] * max(nv, 1)
        idx = {}
        for (c, nm), (t, i) in real['vars'].items():
            if t != 'state' and i is not None:
                idx[i] = nm
                if t == 'external':
                    isext[i] = '1'; ea[i] = repr(float(d['extf'][nm][0])); eb[i] = repr(float(d['extf'][nm][1]))
        if d['ode']:
            sig = 'static double ext(double voi, double *states, double *rates, double *variables, size_t index)'
            body = ('    double *states = createStatesArray(), *rates = createStatesArray(), *variables = createVariablesArray();\n'
                    '    printf("PHASE init\\n"); initialiseVariables(%r, states, rates, variables, ext);\n'
                    '    printf("PHASE constants\\n"); computeComputedConstants(variables);\n'
                    '    for (size_t i = 0; i < STATE_COUNT; ++i) states[i] = %r;\n'
                    '    printf("PHASE rates\\n"); computeRates(%r, states, rates, variables, ext);\n'
                    '    printf("PHASE variables\\n"); computeVariables(%r, states, rates, variables, ext);\n'
                    '    for (size_t i = 0; i < STATE_COUNT; ++i) printf("S %%s %%.17g %%.17g\\n", STATE_INFO[i].name, states[i], rates[i]);\n'
                    '    for (size_t i = 0; i < VARIABLE_COUNT; ++i) printf("V %%s %%.17g\\n", VARIABLE_INFO[i].name, variables[i]);') % (T0, S1, T1, T1)
            voi = 'voi'
        else:
            sig = 'static double ext(double *variables, size_t index)'
            body = ('    double *variables = createVariablesArray();\n'
                    '    printf("PHASE init\\n"); initialiseVariables(variables, ext);\n'
                    '    printf("PHASE constants\\n"); computeComputedConstants(variables);\n'
                    '    printf("PHASE variables\\n"); computeVariables(variables, ext);\n'
                    '    for (size_t i = 0; i < VARIABLE_COUNT; ++i) printf("V %s %.17g\\n", VARIABLE_INFO[i].name, variables[i]);')
            voi = '0.0'
        if d['m'] == 0:
            sig = sig.replace('static double ext(', 'double ext_unused(')
            body = body.replace(', ext)', ')').replace('(variables, ext)', '(variables)').replace('initialiseVariables(%r, ' % T0, 'initialiseVariables(')
        open(os.path.join(wd, 'model.h'), 'w').write(real['iface']); open(os.path.join(wd, 'model.c'), 'w').write(real['impl'])
        open(os.path.join(wd, 'solver.c'), 'w').write(N.NEWTON_C)
        open(os.path.join(wd, 'main.c'), 'w').write(NLA_MAIN % dict(nv=max(nv, 1), ea=', '.join(ea), eb=', '.join(eb), isext=', '.join(isext), sig=sig, body=body, voi=voi))
        ex = os.path.join(wd, 'n.out')
        r = subprocess.run(['gcc', '-std=c99', '-O0', '-w', os.path.join(wd, 'model.c'), os.path.join(wd, 'main.c'), os.path.join(wd, 'solver.c'), '-I', wd, '-o', ex, '-lm'], capture_output=True, text=True)
        if r.returncode != 0:
            oracle.append(('generated code of an NLA block with externals does not compile: ' + r.stderr[:400], d['text'], ext)); continue
        r = subprocess.run([ex], capture_output=True, text=True, timeout=20)
        if r.returncode != 0:
            oracle.append(('generated code of an NLA block with externals crashes (rc=%d)' % r.returncode, d['text'], ext)); continue
        stats['nla_executed'] += 1
        exp = N.expected(d, S1, T1) if d['ode'] else N.expected(d, 0, 0)
        phase = None; called = {}
        lines = r.stdout.split('\n')
        failed = any(l.startswith('NLA ') and l.split()[2] != '0' for l in lines)
        if failed:
            stats['nla_solver_gave_up'] += 1
        for l in lines:
            t = l.split()
            if not t:
                continue
            if t[0] == 'PHASE':
                phase = t[1]
            elif t[0] == 'BADCALL':
                oracle.append(('the callback is invoked for index %s, which is not an external variable' % t[1], d['text'], ext))
            elif t[0] == 'CALL':
                stats['callback_calls'] += 1
                called.setdefault(idx.get(int(t[1])), set()).add(phase)
            elif t[0] == 'V' or t[0] == 'S':
                if t[0] == 'S':
                    name, got = "s'", float(t[3])
                else:
                    name, got = t[1], float(t[2])
                if name not in exp:
                    continue
                stats['values_compared'] += 1
                if not (abs(got - exp[name]) <= 1e-5 * max(1.0, abs(exp[name]))):
                    if failed and name not in d['ext']:
                        continue
                    what = 'supplied by the callback' if name in d['ext'] else 'which the equations determine'
                    oracle.append(('NLA block with %s marked as external (callback a + b*voi, voi = %r, state = %r): %s = %r, %s, should be %r' % (d['ext'], T1 if d['ode'] else 0.0, S1, name, got, what, exp[name]), d['text'], ext))
                    break
        for nm in d['ext']:
            ph = called.get(nm, set())
            if 'init' not in ph or not (ph & {'rates', 'variables'}):
                oracle.append(('the marked NLA unknown %s is obtained through the callback in %s only' % (nm, sorted(ph)), d['text'], ext))


def run(chk, replay=None):
    lib = build_lib()
    hx = build_hx('hx_gencode', lib)
    leandir, ok, out, changed = standard_lean(chk, 'C20')
    chk.assumptions += [
        'the Lean part covers the marking logic of the classification model (Cellml/Analyser/Model.lean: the external flag, the third pass that treats unknown externals as initialised, the type shown for a marked class); placeholder equations, NLA unknown pruning and the generated callback code are observed on the implementation (execution with a recording callback), not modelled',
        'NLA blocks are linear in their unknowns (exact ground truth) and are solved by a Newton iteration linked to the generated C (pygen/nlasys.py); a run in which the solver gives up is not compared',
        'declared dependencies are drawn from quantities the marked one does not feed (no dependency cycles)']
    chk.cov['trusted_base'] += ['harness/hx_gencode.cpp', 'pygen/models.py (ground truth), pygen/absys.py', 'checks/C20.py: recording callback harness, gcc']
    if not ok:
        chk.violation('Lean obligations of C20 no longer check: ' + out[-1500:], {'kind': 'proof', 'theorem_or_build_log': out[-3000:]}, False)
    rng = random.Random(chk.seed)
    n = 50 if chk.tier == 'quick' else 500
    stats = {'systems': 0, 'marked': 0, 'executed': 0, 'callback_calls': 0, 'frame_classes': 0, 'rescued_underconstrained': 0, 'odd_markings': 0, 'values_compared': 0, 'fragile_regenerated': 0, 'nla_systems': 0, 'nla_marked': 0, 'nla_executed': 0, 'nla_solver_gave_up': 0}
    oracle = []
    wd = tempfile.mkdtemp(prefix='c20-')
    try:
        attempts = 0
        while stats['systems'] < n and attempts < 30 * n:
            attempts += 1
            sysd = M.gen_system(rng, ncomp=rng.randint(1, 3), nq=rng.randint(3, 9), depth=rng.randint(1, 3), ode=rng.random() < 0.7, typed=True)
            try:
                M.ground_truth(sysd)
            except M.Fragile:
                stats['fragile_regenerated'] += 1; continue
            except Exception:
                stats['fragile_regenerated'] += 1; continue
            text = M.to_cellml(sysd, rng)
            fn = os.path.join(wd, 'm.cellml'); open(fn, 'w').write(text)
            base = run_real(hx, fn, [])
            if base is None:
                oracle.append(('the library crashed without externals', text, [])); continue
            if base['type'] not in VALID:
                continue
            stats['systems'] += 1
            qs = sysd['qs']
            cand = [q for q in qs if q.kind != 'voi']
            marked = rng.sample(cand, min(len(cand), rng.randint(1, 3)))
            # every other time one of the marks is a quantity that others read (a computed constant first: its consumers must stop being constants)
            read = set(k for p in qs for k in M.leaves(p.rhs, set()))
            hubs = [q for q in cand if q.idx in read and q.kind == 'cconst'] or [q for q in cand if q.idx in read]
            if hubs and rng.random() < 0.5:
                h = rng.choice(hubs)
                if h not in marked:
                    marked[0] = h
            # who depends (transitively) on whom
            deps = {q.idx: set(M.leaves(q.rhs, set())) | ({q.init_from} if q.init_from is not None else set()) for q in qs}
            def closure(k, seen=None):
                seen = seen if seen is not None else set()
                for j in deps[k]:
                    if j not in seen:
                        seen.add(j); closure(j, seen)
                return seen
            feeds = {q.idx: {p.idx for p in qs if q.idx in closure(p.idx)} for q in qs}
            ext = []
            declared = {q.idx: set() for q in qs}
            for q in marked:
                others = [c for c in q.members if c != q.home]
                if others and rng.random() < 0.5:
                    # another member of the class is marked as well, first and without dependencies: the dependencies declared on
                    # the second external variable of the class still count (fix 20aee58)
                    c2 = rng.choice(others)
                    ext += ['c%d' % c2, q.members[c2][0]]
                    stats['class_marked_twice'] = stats.get('class_marked_twice', 0) + 1
                ext += ['c%d' % q.home, q.members[q.home][0]]
                ok_deps = [p for p in qs if p.kind != 'voi' and p.idx != q.idx and q.idx not in closure(p.idx) and (p not in marked or rng.random() < 0.7)]
                for p in rng.sample(ok_deps, min(len(ok_deps), rng.randint(0, 2))):
                    ext += ['+c%d' % p.home, p.members[p.home][0]]
                    declared[q.idx].add(p.idx); deps[q.idx].add(p.idx)
            stats['marked'] += len(marked)
            real = run_real(hx, fn, ext)
            if real is None:
                oracle.append(('the library crashed with externals %s' % ext, text, ext)); continue
            if real['type'] not in VALID:
                oracle.append(('marking %s as external makes a valid model %s' % (ext, real['type']), text, ext)); continue
            # 1. exactly the marked classes are external
            a = A.parse(text)
            for q in qs:
                got = [real['vars'][('c%d' % c, nm)][0] for c, (nm, u) in q.members.items() if ('c%d' % c, nm) in real['vars']]
                if q in marked:
                    if got != ['external']:
                        oracle.append(('quantity v%d is marked as external but is reported as %s' % (q.idx, got), text, ext))
                else:
                    if 'external' in got or len(got) != 1:
                        oracle.append(('quantity v%d is not marked but is reported as %s' % (q.idx, got), text, ext))
                    # 2. frame: unaffected quantities keep their type
                    touched = any(m.idx in closure(q.idx) for m in marked)
                    b = [base['vars'][('c%d' % c, nm)][0] for c, (nm, u) in q.members.items() if ('c%d' % c, nm) in base['vars']]
                    if not touched:
                        stats['frame_classes'] += 1
                        if got != b:
                            oracle.append(('quantity v%d does not depend on an external variable but its type changes from %s to %s' % (q.idx, b, got), text, ext))
                    elif q.rhs is not None and q.kind in ('cconst', 'alg') and any(m.idx in M.leaves(q.rhs, set()) for m in marked):
                        # what reads an external variable can only be computed once the callback has supplied it
                        stats['readers_of_externals'] = stats.get('readers_of_externals', 0) + 1
                        if got != ['algebraic']:
                            oracle.append(('quantity v%d reads the external variable(s) %s but is reported as %s (was %s), expected algebraic' % (q.idx, ['v%d' % m.idx for m in marked if m.idx in M.leaves(q.rhs, set())], got, b), text, ext))
            # a state or constant initialised by the name of a marked variable: see known_findings.json (C20-initialised-from-external)
            init_from_marked = [q for q in qs if q.init_from is not None and qs[q.init_from] in marked and q not in marked]
            # 3. execution with a recording callback
            lines, err = execute(real, sysd, marked, wd)
            if err:
                oracle.append(('generated code with externals does not run: ' + err, text, ext)); continue
            stats['executed'] += 1
            idx2q = {}
            for (c, nm), (t, i) in real['vars'].items():
                if t != 'state' and i is not None:
                    idx2q[i] = M.expected_value(sysd, c, nm)
            phase = None
            for l in lines:
                t = l.split()
                if not t:
                    continue
                if t[0] == 'PHASE':
                    phase = t[1]; called_in_phase = set()
                elif t[0] == 'BADCALL':
                    oracle.append(('the callback is invoked for index %s, which is not an external variable' % t[1], text, ext))
                elif t[0] == 'CALL':
                    stats['callback_calls'] += 1
                    k = int(t[1]); vals = [float(x) for x in t[2:]]
                    q = idx2q.get(k)
                    called_in_phase.add(k)
                    if q is None:
                        continue
                    if phase in ('rates', 'variables'):
                        # a declared dependency that is itself external must have been obtained through the callback first
                        for j in declared[q[2].idx]:
                            if qs[j] in marked:
                                dj = [i for i, e in idx2q.items() if e is not None and e[2].idx == j]
                                if dj and dj[0] not in called_in_phase:
                                    oracle.append(('the callback for v%d is called in %s before the callback for v%d, an external variable it is declared to depend on' % (q[2].idx, phase, j), text, ext)); break
                    if phase in ('rates', 'variables'):
                        for j in declared[q[2].idx]:
                            dj = [i for i, e in idx2q.items() if e is not None and e[2].idx == j]
                            if dj and qs[j].kind != 'state' and not X.same(vals[dj[0]], idx2q[dj[0]][0]):
                                kf = [f for f in known_findings()['findings'] if f.get('id') == 'C20-initialised-from-external']
                                down = any(im.idx == j or im.idx in closure(j) for im in init_from_marked)
                                if init_from_marked and kf and (vals[dj[0]] != vals[dj[0]] or down):
                                    chk.known_finding(kf[0]['what']); continue
                                oracle.append(('the callback for v%d is called in %s before its dependency v%d is computed (it reads %r, the model gives %r)' % (q[2].idx, phase, j, vals[dj[0]], idx2q[dj[0]][0]), text, ext))
                elif t[0] in ('S', 'V'):
                    exp = M.expected_value(sysd, t[1], t[2])
                    if exp is None:
                        continue
                    stats['values_compared'] += 1
                    if not X.same(exp[0], float(t[3])):
                        kf = [f for f in known_findings()['findings'] if f.get('id') == 'C20-initialised-from-external']
                        # the finding: a constant initialised by the name of a marked variable reads it before the callback has supplied
                        # it (NaN in the harness); everything computed from such a constant is off as well (a comparison with NaN
                        # takes the other branch), nothing else is covered by the finding
                        downstream = exp[2] is not None and any(im.idx == exp[2].idx or im.idx in closure(exp[2].idx) for im in init_from_marked)
                        if init_from_marked and kf and (float(t[3]) != float(t[3]) or downstream):
                            chk.known_finding(kf[0]['what']); stats['known_finding_hits'] = stats.get('known_finding_hits', 0) + 1
                            continue
                        oracle.append(('with externals supplied from the ground truth, %s.%s = %r but the equations give %r' % (t[1], t[2], float(t[3]), exp[0]), text, ext))
            # 4. an underconstrained model whose only unknowns are marked becomes valid
            victims = [q for q in qs if q.kind in ('alg', 'cconst')]
            if victims and rng.random() < 0.5:
                v = rng.choice(victims)
                t2 = text.replace(sysd['eqtext'][v.idx], '', 1)
                if rng.random() < 0.5:
                    # ... and an equation that can only be solved as an NLA equation once the marked unknown is known (nq^2 + nq = v)
                    vn = v.members[v.home][0]
                    comp = '<component name="c%d">' % v.home
                    extra = '<apply><eq/><apply><plus/><apply><times/><ci>nq</ci><ci>nq</ci></apply><ci>nq</ci></apply><ci>%s</ci></apply>' % vn
                    blk = t2[t2.index(comp):]
                    blk_end = blk.index('</component>')
                    body = blk[:blk_end]
                    if '<math' in body:
                        body = body.replace('</math>', extra + '</math>', 1)
                    else:
                        body += '  <math xmlns="http://www.w3.org/1998/Math/MathML">' + extra + '</math>\n  '
                    body = body.replace(comp, comp + '\n    <variable name="nq" units="dimensionless"/>', 1)
                    t2 = t2[:t2.index(comp)] + body + blk[blk_end:]
                    stats['rescued_with_nla'] = stats.get('rescued_with_nla', 0) + 1
                open(fn, 'w').write(t2)
                r0 = run_real(hx, fn, [])
                r1 = run_real(hx, fn, ['c%d' % v.home, v.members[v.home][0]])
                if r0 is not None and r1 is not None and r0['type'] == 'underconstrained':
                    stats['rescued_underconstrained'] += 1
                    if r1['type'] not in VALID:
                        oracle.append(('the only unknown v%d is marked as external but the model is still %s' % (v.idx, r1['type']), t2, ['c%d' % v.home, v.members[v.home][0]]))
                open(fn, 'w').write(text)
            # 5. odd markings: the VOI, a non-primary member, a foreign variable
            odd = []
            if sysd['ode']:
                odd.append(['c%d' % qs[0].home, qs[0].members[qs[0].home][0]])
            nonprim = [(q, c) for q in qs for c in q.members if c != q.home and q.kind not in ('voi',)]
            odd.append(['@foreign'])
            for o in odd:
                r2 = run_real(hx, fn, o)
                stats['odd_markings'] += 1
                if r2 is None:
                    oracle.append(('the library crashed with the marking %s' % o, text, o)); continue
                if r2['type'] != base['type'] or {k: v[0] for k, v in r2['vars'].items()} != {k: v[0] for k, v in base['vars'].items()}:
                    oracle.append(('marking %s changes the analysis (%s -> %s)' % (o, base['type'], r2['type']), text, o))
                if not r2['messages']:
                    oracle.append(('marking %s is not reported with a message' % o, text, o))
            if nonprim:
                q, c = rng.choice(nonprim)
                o = ['c%d' % c, q.members[c][0]]
                r2 = run_real(hx, fn, o)
                stats['odd_markings'] += 1
                if r2 is None:
                    oracle.append(('the library crashed with the marking %s' % o, text, o))
                elif r2['type'] not in VALID:
                    oracle.append(('marking the non-primary variable %s breaks the analysis: %s' % (o, r2['type']), text, o))
        nla_stage(chk, hx, rng, 60 if chk.tier == 'quick' else 600, wd, oracle, stats)
    finally:
        shutil.rmtree(wd, ignore_errors=True)
    chk.cov.update(evaluations=stats['nla_systems'] + stats['systems'] + stats['odd_markings'] + stats['rescued_underconstrained'], distinct_nontrivial=stats['systems'],
                   rule='generated ground-truth systems with 1-3 quantities marked external (states, constants, computed constants, algebraic) and 0-2 declared dependencies each: '
                        'types with / without marking, generated C executed with a recording callback that returns the ground-truth values; missing-equation variants rescued by marking; VOI, non-primary and foreign markings; NLA blocks (1-3 equations linear in up to 6 initialised variables, 0-3 of them marked, right-hand sides that depend on a state and the variable of integration) executed with a Newton solver and a callback that depends on the variable of integration',
                   samples=[], traces_validated_against_impl=stats['executed'], exhaustive=False, outcome_histogram=stats)
    for what, text, ext in oracle[:3]:
        chk.violation('external variables disturb the analysis or the generated code: ' + what, {'kind': 'oracle', 'engine': 'externals', 'cellml': text, 'externals': ext, 'why': what}, True)
