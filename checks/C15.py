"""C15 — issue reporting is coherent across all services."""
import sys
from vlib.common import *
sys.path.insert(0, os.path.join(ROOT, 'gen'))
import tables

KNOWN_KEY = 'Annotator::assignAllIds(ModelPtr&) with a null model'


def run(chk, replay=None):
    lib = build_lib()
    hx = build_hx('hx_logger', lib)
    gen = {'Cellml/Generated/Rules.lean': tables.rules_table(REPO),
           'Cellml/Generated/ElementTypes.lean': tables.element_types_table(REPO)}
    leandir, ok, out, changed = standard_lean(chk, 'C15', gen)
    chk.assumptions += [
        'hook H1 (logger.cpp, guarded) reports every addIssue/removeError/removeAllIssues; the engine replays exactly those operations',
        'workload: the CellML documents under /repo/tests/resources plus truncated and byte-mutated copies, through Parser (strict/permissive), Validator, Importer, Printer, Analyser, Annotator',
        'the logger model abstracts an issue to its level; descriptions, rules and items are audited on the implementation only']
    chk.cov['trusted_base'] += ['hook H1 + harness/hx_logger.cpp', 'gen/tables.py (regex extraction of enumerators and table rows from issue.h, issue.cpp, enums.h, enums.cpp)']
    nrules = len(re.findall(r'"', gen['Cellml/Generated/Rules.lean'].split('def allRules')[1].split('\n')[0])) // 2
    ntypes = len(re.findall(r'"', gen['Cellml/Generated/ElementTypes.lean'].split('def allElementTypes')[1].split('\n')[0])) // 2
    rc, enums, _ = run_lines(hx, ['enums', str(nrules), str(ntypes)], [])
    enum_fail = [l for l in enums if l.startswith('R ') and not l.endswith(' ok')]
    if not ok:
        # search for a concrete failing input: an enumerator whose heading/url/string cannot be retrieved
        if enum_fail:
            chk.violation('Lean obligations of C15 no longer check and the implementation fails on: ' + '; '.join(enum_fail[:3]),
                          {'kind': 'proof+oracle', 'engine': 'logger enums', 'failing': enum_fail, 'log': out[-2000:]}, True)
        else:
            chk.violation('Lean obligations of C15 no longer check: ' + out[-1200:], {'kind': 'proof', 'theorem_or_build_log': out[-3000:]}, False)
    elif enum_fail:
        chk.violation('enumeration value without retrievable heading/url/string: ' + '; '.join(enum_fail[:3]),
                      {'kind': 'oracle', 'engine': 'logger enums', 'failing': enum_fail}, True)
    drv = drv_path(leandir)
    if not os.path.exists(drv):
        return
    nfiles = 60 if chk.tier == 'quick' else 100000
    res = os.path.join(REPO, 'tests', 'resources')
    if replay:
        r = json.load(open(replay))
        log('replay: re-running the whole workload with the recorded seed', r.get('seed'))
        chk.seed = r.get('seed', chk.seed); nfiles = r.get('nfiles', nfiles)
    rc, lines, err = run_lines(hx, [res, str(chk.seed), str(nfiles)], [], timeout=3000)
    # generated import worlds with fault scenarios, in a scratch directory outside /repo and /verif
    wdir = tempfile.mkdtemp(prefix='verif-worlds-')
    chk.scratch.append(wdir)
    rcw, wlines, werr = run_lines(hx, ['worlds', wdir], [], timeout=3000)
    lines += wlines
    L = [l for l in lines if l.startswith('L ')]
    O = [l for l in lines if l.startswith('O ')]
    A = [l for l in lines if l.startswith('A ')]
    X = [l for l in lines if l.startswith('X ')]
    S = [l for l in lines if l.startswith('S ')]
    rc2, model, err2 = run_lines(drv, ['logger'], L)
    hist = {}
    for s_ in S:
        hist[s_[2:]] = hist.get(s_[2:], 0) + 1
    ops_hist = {}
    nontriv = set()
    for l in L:
        t = l.split()[2:]
        for o in t:
            k = o[0]
            ops_hist[k] = ops_hist.get(k, 0) + 1
        if t:
            nontriv.add(' '.join(t))
    disagree = []
    for i, o in enumerate(O):
        m = model[i] if i < len(model) else '<missing>'
        mm = re.sub(r' tail=[01]$', '', m)
        if mm != o:
            disagree.append((L[i] if i < len(L) else '?', o, m))
        elif not m.endswith('tail=1'):
            disagree.append((L[i], o, m + ' (a removeError erased an issue that was not the last one)'))
    chk.cov.update(evaluations=len(O) + len(enums), distinct_nontrivial=len(nontriv),
                   rule='one evaluation = one traced service call replayed in the model and compared on all observers, plus one per enumeration value; '
                        'non-trivial = distinct non-empty operation sequences between two observations',
                   samples=[dict(trace=L[i], impl=O[i], model=model[i]) for i in range(0, min(len(O), len(model)), max(1, len(O) // 5))][:6],
                   traces_validated_against_impl=len(O) - len(disagree), exhaustive=False,
                   service_call_histogram=hist, logger_op_histogram=ops_hist,
                   issues_audited=sum(int(re.search(r'issues_audited=(\d+)', l).group(1)) for l in lines if l.startswith('Z ')),
                   enumeration_values_checked=len(enums), crashed_scenarios=X)
    if X:
        log('note: %d scenario(s) crashed inside the library (memory safety belongs to C01/C07, not to C15): %s' % (len(X), X[:2]))
    kf = [f for f in known_findings()['findings'] if f['property'] == 'C15']
    seen = set()
    for a in A:
        key = re.sub(r'\(/.*\)$', '', a[2:]).strip()
        if key in seen:
            continue
        seen.add(key)
        known = [f for f in kf if f['match'] in a]
        if known:
            chk.known_finding(known[0]['what'])
        elif len([v for v in chk.violations if v[2]]) < 3:
            chk.violation('implementation fails the coherence/audit oracle: ' + a[2:], {'kind': 'oracle', 'engine': 'logger', 'seed': chk.seed, 'nfiles': nfiles, 'failure': a}, True)
    if not any(v[2] for v in chk.violations):
        for l, o, m in disagree[:3]:
            chk.violation('logger model and implementation disagree (correspondence `logger` broken): trace %s impl %s model %s' % (l, o, m),
                          {'kind': 'correspondence', 'engine': 'logger', 'seed': chk.seed, 'nfiles': nfiles, 'trace': l, 'impl': o, 'model': m}, False)
