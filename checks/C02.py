"""C02 — printing then parsing a model preserves its content."""
import random, sys, tempfile, shutil, subprocess, difflib
import xml.dom.minidom
from vlib.common import *
sys.path.insert(0, os.path.join(ROOT, 'gen'))
import tables
sys.path.insert(0, os.path.join(ROOT, 'pygen'))
import docs as D


def sec(o, a, b):
    return o[o.index('=====' + a) + len(a) + 6:o.index('=====' + b)]


def round15(dump):
    """the dump with every double rounded to 15 significant digits (known finding C02-fifteen-digits)"""
    def f(m):
        try:
            return ' %s' % float('%.15g' % float(m.group(1)))
        except ValueError:
            return m.group(0)
    return re.sub(r' (-?\d[\d.]*(?:e[-+]?\d+)?)(?=[ )])', f, dump)


def run(chk, replay=None):
    lib = build_lib()
    hx = build_hx('hx_roundtrip', lib)
    leandir, ok, out, changed = standard_lean(chk, 'C02', {'Cellml/Generated/Attributes.lean': tables.attributes_table(REPO)})
    chk.assumptions += [
        'the Lean part covers attribute text (the escaping applied to import URLs, the decoding of the predefined entities by an XML parser - libxml2, modelled - and well-formedness of a double-quoted attribute value) and the attributes of <unit> and <variable> that are left out when they have their default value (numbers abstract: whether a double survives its rendering is a hypothesis, see known finding C02-fifteen-digits); '
        'the structural round trip of every element and attribute is checked on the implementation (generated documents parsed, printed, parsed, printed), not modelled',
        'content is compared through a canonical dump in which child order and whitespace between MathML tags are insignificant',
        'libxml2 parsing and pretty-printing are trusted to preserve well-formed content']
    chk.cov['trusted_base'] += ['harness/hx_roundtrip.cpp + lean/Cellml/Engine/Xml.lean', 'harness/hx_attrs.cpp + lean/Cellml/Engine/Attrs.lean', 'pygen/docs.py (document generator)', 'python xml.dom.minidom as well-formedness judge']
    if not ok:
        chk.violation('Lean obligations of C02 no longer check: ' + out[-1500:], {'kind': 'proof', 'theorem_or_build_log': out[-3000:]}, False)
    drv = drv_path(leandir)
    rng = random.Random(chk.seed)
    kf = {f['id']: f for f in known_findings()['findings'] if f['property'] == 'C02'}
    # 1. correspondence: escapeAttributeValue and the printed / reparsed URL
    alphabet = ['&', '<', '>', '"', "'", 'a', 'b', ';', 'amp', '&amp;', '&lt;', 'é', ' ', '?x=1', '#', '/', '\t']
    strs = ['', '&', '&&', 'a&b', '&amp;', '&lt;x&gt;', '"', '\'', '<>', 'm.cellml?a=1&b=2']
    strs += [''.join(rng.choice(alphabet) for _ in range(rng.randint(1, 8))) for _ in range(300 if chk.tier == 'quick' else 3000)]
    lines = ['#' + s.encode('utf-8').hex() for s in strs]
    impl = run_lines(hx, ['escape'], lines)[1]
    model = run_lines(drv, ['xml'], lines)[1] if os.path.exists(drv) else [''] * len(lines)
    corr, oracle = [], []
    for s, i, m in zip(strs, impl, model):
        it, mt = i.split(), m.split()
        if not mt or it[0] != mt[0]:
            corr.append(('escapeAttributeValue(%r): implementation %s, model %s' % (s, i, m), s))
        if 'printed=1' not in it or 'back=1' not in it:
            if '\t' in s or '\n' in s:
                continue    # attribute value normalisation of white space by XML parsers: not a printer matter
            oracle.append(('a model importing from the URL %r does not survive print + parse (%s)' % (s, i), None, s))
    # 2. structural round trip on the implementation
    n = 150 if chk.tier == 'quick' else 1500
    # 1b. correspondence: attributes left out when default (unit, variable) through parser, object model and printer
    hxa = build_hx('hx_attrs', lib)
    Hh = lambda t: '#' + t.encode().hex()
    upool = {'units': ['second', 'metre', 'u2', ''], 'prefix': ['', '0', '-0', '00', '3', '-3', '03', 'milli', 'kilo', '99999999999', 'abc', ' 1', '1.5'],
             'exponent': ['1', '2', '-1', '0', '01', '10', '0.5', '2.5', 'x', '', '1e', '1e2x'], 'multiplier': ['1', '2', '-1', '0', '01', '1000', '0.5', 'x', ''],
             'id': ['', 'i1', 'b4da55'], 'foo': ['bar']}
    vpool = {'name': ['', 'v', 'x1'], 'units': ['', 'second', 'uu'], 'initial_value': ['', '1', 'w', '1.5', '-'], 'interface': ['', 'none', 'public', 'private', 'public_and_private', 'bogus'],
             'id': ['', 'i1'], 'foo': ['bar']}
    alines = []
    for _ in range(400 if chk.tier == 'quick' else 4000):
        kind, pool = ('unit', upool) if rng.random() < 0.6 else ('variable', vpool)
        names = [n for n in pool if rng.random() < 0.6]
        rng.shuffle(names)
        alines.append('(%s %s)' % (kind, ' '.join('(a %s %s)' % (Hh(n), Hh(rng.choice(pool[n]))) for n in names)))
    aimpl = run_lines(hxa, [], alines)[1]
    amodel = run_lines(drv, ['attrs'], alines)[1] if os.path.exists(drv) else [''] * len(alines)
    acorr = [(l, i, m) for l, i, m in zip(alines, aimpl, amodel) if i != m]
    if len(aimpl) != len(alines):
        acorr.append((alines[len(aimpl)] if len(aimpl) < len(alines) else '', 'the harness stopped', ''))
    # ... and the property on the implementation alone: what is printed, parsed again, is stored as before
    again, first = [], []
    for l, i in zip(alines, aimpl):
        m2 = re.match(r'\((stored [^)]*)\) \(printed(.*)\)$', i)
        if m2:
            again.append('(%s%s)' % (l[1:].split(' ', 1)[0].rstrip(')'), m2.group(2))); first.append((l, m2.group(1)))
    aimpl2 = run_lines(hxa, [], again)[1]
    aoracle = []
    for (l, st), l2, i2 in zip(first, again, aimpl2):
        if not i2.startswith('(' + st + ')'):
            aoracle.append(('the attributes %s are stored as (%s); printed and parsed again they are stored as %s' % (l, st, i2.split(') (printed')[0]), l))
    stats = {'documents': 0, 'valid': 0, 'roundtrip_ok': 0, 'with_specials': 0, 'known_fifteen_digits': 0, 'known_unescaped': 0}
    wd = tempfile.mkdtemp(prefix='c02-')
    try:
        docs = []
        if replay:
            r = json.load(open(replay))
            if r.get('cellml'):
                docs = [(r['cellml'], False)]
        else:
            for k in range(n):
                sp = rng.random() < 0.25
                docs.append((D.gen_doc(rng, specials=sp), sp))
            for f in sorted(os.listdir('/repo/tests/resources'))[:0]:
                pass
        for text, sp in docs:
            fn = os.path.join(wd, 'd.cellml'); open(fn, 'w').write(text)
            r = subprocess.run([hx, fn], capture_output=True, text=True, timeout=120)
            o = r.stdout
            stats['documents'] += 1
            stats['with_specials'] += sp
            if '=====T2' not in o:
                oracle.append(('the library crashed (rc=%d)' % r.returncode, text, None)); continue
            d0, i0, v0, t1, d1, i1 = sec(o, 'D0', 'I0'), sec(o, 'I0', 'V0'), sec(o, 'V0', 'T1'), sec(o, 'T1', 'PI'), sec(o, 'D1', 'I1'), sec(o, 'I1', 'T2')
            t2 = o[o.index('=====T2') + 8:]
            valid = v0.split('\n')[0] == '0' and not i0.strip()
            stats['valid'] += valid
            if not t1.strip():
                if not valid and sp and 'C02-unescaped-attribute-text' in kf:
                    chk.known_finding(kf['C02-unescaped-attribute-text']['what']); stats['known_unescaped'] += 1; continue
                oracle.append(('printModel returns an empty string for a %s model' % ('validator-accepted' if valid else 'parsed'), text, None)); continue
            try:
                xml.dom.minidom.parseString(t1.encode('utf-8'))
            except Exception as e:
                oracle.append(('the printed document is not well-formed XML: %s' % e, text, None)); continue
            dupv = None
            for which, dd in (('parsed', d0), ('printed and parsed again', d1)):
                for cl in dd.split('\n'):
                    if cl.lstrip().startswith('(component '):
                        names = re.findall(r'\(var (#[0-9a-f]*) ', cl)
                        if len(names) != len(set(names)):
                            dupv = 'the %s model has a component with two variables of the same name (%s): a placeholder variable of an imported component is created once per map_variables instead of once' % (
                                which, bytes.fromhex([x for x in names if names.count(x) > 1][0][1:]).decode('utf-8', 'replace'))
            if dupv and valid:
                oracle.append((dupv, text, None)); continue
            if d0 != d1:
                if round15(d0) == round15(d1) and 'C02-fifteen-digits' in kf:
                    chk.known_finding(kf['C02-fifteen-digits']['what']); stats['known_fifteen_digits'] += 1
                elif not valid and sp and 'C02-unescaped-attribute-text' in kf:
                    chk.known_finding(kf['C02-unescaped-attribute-text']['what']); stats['known_unescaped'] += 1; continue
                else:
                    df = '\n'.join(list(difflib.unified_diff(d0.split('\n'), d1.split('\n'), lineterm='', n=0))[:8])
                    oracle.append(('the content changes through print + parse: ' + df[:600], text, None)); continue
            if valid and i1.strip():
                oracle.append(('the strict parser raises issues on the printed form of a validator-accepted model: ' + i1[:300], text, None)); continue
            if not t2.startswith('same'):
                oracle.append(('printing the re-parsed model gives a different document', text, None)); continue
            stats['roundtrip_ok'] += 1
    finally:
        shutil.rmtree(wd, ignore_errors=True)
    chk.cov.update(evaluations=len(lines) + stats['documents'], distinct_nontrivial=stats['documents'],
                   rule='URL strings over an alphabet of XML-special, entity-like and non-ASCII pieces (escape function and print + parse of a model importing from that URL); '
                        'generated CellML 2.0 documents over the whole feature space (unit children with prefixes / exponents / multipliers, imports, nested encapsulation, all variable attributes, several mapped pairs per connection with ids, resets, MathML with whitespace; a quarter with special characters in ids / initial values / URLs): parse, print, parse, print',
                   samples=[lines[3], impl[3], model[3]], traces_validated_against_impl=len(lines) - len(corr) + len(alines) - len(acorr), exhaustive=False, outcome_histogram=stats)
    stats['attribute_sets'] = len(alines); stats['attribute_sets_reparsed'] = len(again)
    for what, text, s in oracle[:3]:
        chk.violation('print + parse does not preserve the model: ' + what, {'kind': 'oracle', 'engine': 'roundtrip', 'cellml': text, 'url': s, 'why': what}, True)
    for what, l in aoracle[:3]:
        chk.violation('print + parse does not preserve the model: ' + what, {'kind': 'oracle', 'engine': 'attrs', 'line': l, 'why': what}, True)
    if not oracle and not aoracle:
        for l, i, m in acorr[:3]:
            chk.violation('attribute model and parser / printer disagree (correspondence `attrs` broken): %s: implementation %s, model %s' % (l, i, m),
                          {'kind': 'correspondence', 'engine': 'attrs', 'line': l, 'why': 'implementation %s, model %s' % (i, m), 'theorem': 'Cellml.Props.C02.unit_roundtrip / variable_roundtrip'}, False)
    if not oracle:
        for what, s in corr[:3]:
            chk.violation('escaping model and escapeAttributeValue disagree (correspondence `xml` broken): ' + what,
                          {'kind': 'correspondence', 'engine': 'xml', 'url': s, 'why': what, 'theorem': 'Cellml.Props.C02.unescape_escape'}, False)
