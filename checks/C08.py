"""C08 — unit compatibility and scaling obey the algebra of units."""
import random, sys
from fractions import Fraction
from vlib.common import *
sys.path.insert(0, os.path.join(ROOT, 'gen'))
import tables

EXPS = ['1', '1', '1', '2', '3', '-1', '-2', '1/2', '-1/2', '3/2', '-3', '4', '0']
PFX = [0, 0, 0, 3, -3, -6, 6, -2, -9, 1, -1, 2, 9, 5, -4, 12]


def frac(s):
    return Fraction(s)


def gen_env(rng, nmax, nstd):
    n = rng.randint(1, nmax)
    tidy = rng.random() < 0.4      # prefixes and multipliers only on children of exponent 1 (where the scale is the SI scale)
    env = []           # ('c', [(kind, j, pfx, exp, lg)]) | ('a', j)
    basechain = []     # does entry i count as a base unit for isBaseUnit() (childless, possibly through aliases)?
    for i in range(n):
        r = rng.random()
        if r < 0.18 or i == 0 and r < 0.4:
            env.append(('c', [])); basechain.append(True)
        elif r < 0.30 and i > 0 and any(not b for b in basechain):
            j = rng.choice([k for k in range(i) if not basechain[k]])
            env.append(('a', j)); basechain.append(False)
        else:
            cs = []
            for _ in range(rng.randint(1, 4)):
                exp = rng.choice(EXPS)
                carr = rng.random() < 0.5
                if tidy and carr and rng.random() < 0.8:
                    exp = '1'
                elif tidy and exp != '1':
                    carr = False
                pfx = rng.choice(PFX) if carr else 0
                lg = rng.choice([0, 0, 0, 1, -1, 2, -3, 3]) if carr else 0
                if i > 0 and rng.random() < 0.55:
                    cs.append(('u', rng.randrange(i), pfx, exp, lg))
                else:
                    cs.append(('s', rng.randrange(nstd), pfx, exp, lg))
            env.append(('c', cs)); basechain.append(False)
    return env


def env_sexp(env):
    out = []
    for d in env:
        if d[0] == 'a':
            out.append('(a %d)' % d[1])
        else:
            out.append('(c' + ''.join(' (%s %d %d %s %d)' % c for c in d[1]) + ')')
    return '(env ' + ' '.join(out) + ')'


def reference(env, stds, nbase, dimless):
    """independent reference (spec level): exponent vectors with exact fractions"""
    vecs = []
    for i, d in enumerate(env):
        if d[0] == 'a':
            vecs.append(dict(vecs[d[1]]))
        elif not d[1]:
            vecs.append({nbase + i: Fraction(1)})
        else:
            v = {}
            for kind, j, pfx, exp, lg in d[1]:
                src = stds[j] if kind == 's' else vecs[j]
                for k, e in src.items():
                    v[k] = v.get(k, 0) + frac(exp) * e
            vecs.append(v)
    def norm(v):
        return {k: e for k, e in v.items() if e != 0 and k != dimless}
    return [norm(v) for v in vecs]


def reference_scale(env, stdmult):
    """independent reference: log10 of the scale of every entry w.r.t. its base units, exact fractions"""
    sc = []
    for d in env:
        if d[0] == 'a':
            sc.append(sc[d[1]])
        else:
            sc.append(sum(((stdmult[j] if kind == 's' else sc[j]) + pfx) * frac(exp) + lg for kind, j, pfx, exp, lg in d[1]) if d[1] else Fraction(0))
    return sc


def exp_one_carriers(env):
    """per entry: do prefixes and multipliers sit on children of exponent 1, here and in everything referenced?"""
    ok = []
    for d in env:
        if d[0] == 'a':
            ok.append(ok[d[1]])
        else:
            ok.append(all((frac(exp) == 1 or (pfx == 0 and lg == 0)) and (kind == 's' or ok[j]) for kind, j, pfx, exp, lg in d[1]))
    return ok


KW = ('<units name="W"><unit units="metre"/><unit units="second" exponent="-1"/></units><units name="kW"><unit units="W" prefix="kilo"/></units>'
      '<units name="kW2"><unit units="metre" prefix="kilo"/><unit units="second" exponent="-1"/></units>')
HINT_DOC = ('<?xml version="1.0" encoding="UTF-8"?>\n<model xmlns="http://www.cellml.org/cellml/2.0#" name="m">' + KW +
            '<component name="c1"><variable name="a" units="kW" interface="public"/></component><component name="c2"><variable name="a" units="metre" interface="public"/></component>'
            '<connection component_1="c1" component_2="c2"><map_variables variable_1="a" variable_2="a"/></connection></model>\n')
HINT2_DOC = ('<?xml version="1.0" encoding="UTF-8"?>\n<model xmlns="http://www.cellml.org/cellml/2.0#" name="m">'
             '<units name="mV"><unit prefix="milli" units="volt"/></units><units name="mV2"><unit units="mV" exponent="2"/></units>'
             '<units name="V2s"><unit units="volt" exponent="2"/><unit units="second"/></units>'
             '<component name="c1"><variable name="a" units="mV2" interface="public"/></component><component name="c2"><variable name="a" units="V2s" interface="public"/></component>'
             '<connection component_1="c1" component_2="c2"><map_variables variable_1="a" variable_2="a"/></connection></model>\n')
WARN_DOC = ('<?xml version="1.0" encoding="UTF-8"?>\n<model xmlns="http://www.cellml.org/cellml/2.0#" name="m">' + KW +
            '<component name="c1"><variable name="a" units="kW"/><variable name="b" units="kW2" initial_value="1"/>'
            '<math xmlns="http://www.w3.org/1998/Math/MathML"><apply><eq/><ci>a</ci><ci>b</ci></apply></math></component></model>\n')


def scale_reports(chk, lib):
    """the scale the validator reports for a mismatch and the analyser's own units arithmetic on kW = kilo (metre.second^-1), a prefix
    on a reference to compound units: the reported factor is the one Units::scalingFactor gives (10^3), and a = b with a in kW and
    b in (kilo metre).second^-1 (equivalent units) is not reported as a mismatch"""
    kf = {f['id']: f for f in known_findings()['findings'] if f['property'] == 'C08'}
    wd = tempfile.mkdtemp(prefix='c08p-')
    try:
        hr = build_hx('hx_roundtrip', lib)
        fn = os.path.join(wd, 'h.cellml'); open(fn, 'w').write(HINT_DOC)
        r = subprocess.run([hr, fn], capture_output=True, text=True, timeout=120)
        hints = re.findall(r'multiplication factor of 10\^(-?\d+)', r.stdout)
        chk.cov['validator_hint_probe'] = hints
        if '=====T2' not in r.stdout:
            chk.violation('implementation violates the units algebra: the validator crashed on the scale-report probe', {'kind': 'oracle', 'engine': 'files', 'cellml': HINT_DOC}, True)
        elif hints != ['3']:
            chk.violation('implementation violates the units algebra: kW = kilo (metre.second^-1) connected to metre: the validator reports a scale mismatch of 10^%s, Units gives 10^3' % hints,
                          {'kind': 'oracle', 'engine': 'files', 'cellml': HINT_DOC, 'why': 'reported scale mismatch %s, expected [3]' % hints}, True)
        # an exponent on a reference to derived units reaches the scale of the leaves: (milli volt)^2 is 10^-6 volt^2
        fn = os.path.join(wd, 'h2.cellml'); open(fn, 'w').write(HINT2_DOC)
        r = subprocess.run([hr, fn], capture_output=True, text=True, timeout=120)
        hints2 = re.findall(r'multiplication factor of 10\^(-?\d+)', r.stdout)
        chk.cov['validator_hint_probe_nested_exponent'] = hints2
        if '=====T2' not in r.stdout:
            chk.violation('implementation violates the units algebra: the validator crashed on the nested-exponent scale-report probe', {'kind': 'oracle', 'engine': 'files', 'cellml': HINT2_DOC}, True)
        elif hints2 != ['-6']:
            chk.violation('implementation violates the units algebra: mV2 = (milli volt)^2 connected to volt^2.second: the validator reports a scale mismatch of 10^%s, Units::scalingFactor(mV2, volt^2) is 10^6 (scale 10^-6)' % hints2,
                          {'kind': 'oracle', 'engine': 'files', 'cellml': HINT2_DOC, 'why': 'reported scale mismatch %s, expected [-6]' % hints2}, True)
        hg = build_hx('hx_gencode', lib)
        fn = os.path.join(wd, 'w.cellml'); open(fn, 'w').write(WARN_DOC)
        r = subprocess.run([hg, fn, 'C'], capture_output=True, text=True, timeout=120)
        m = re.search(r'analyser_warnings (\d+)', r.stdout)
        chk.cov['analyser_units_probe'] = m.group(1) if m else None
        if not m:
            chk.violation('implementation violates the units algebra: the analyser crashed on the units-arithmetic probe', {'kind': 'oracle', 'engine': 'files', 'cellml': WARN_DOC}, True)
        elif m.group(1) != '0':
            if 'C08-analyser-parent-scale-counted-per-child' in kf:
                chk.known_finding(kf['C08-analyser-parent-scale-counted-per-child']['what'])
            else:
                chk.violation('implementation violates the units algebra: a = b with a in kW = kilo (metre.second^-1) and b in (kilo metre).second^-1 (Units::equivalent) makes the analyser warn that the units are not equivalent',
                              {'kind': 'oracle', 'engine': 'files', 'cellml': WARN_DOC, 'why': 'analyser_warnings ' + m.group(1)}, True)
    finally:
        shutil.rmtree(wd, ignore_errors=True)


def applied_scaling(chk, lib, rng):
    """the scaling the analyser and generator apply to connected variables is the one Units::scalingFactor gives: k = 123 in units A,
    seen in another component as k_y in units B; y = k_y (alone on the right-hand side), z = k_y + k_y, w = 2 k_y; the generated C code is run"""
    sys.path.insert(0, os.path.join(ROOT, 'pygen'))
    import models as M
    pairs = [(a, b) for d in M.BY_DIM.values() for a in d for b in d if a != b]
    rng.shuffle(pairs)
    hg = build_hx('hx_gencode', lib)
    wd = tempfile.mkdtemp(prefix='c08s-')
    n = 0
    try:
        for a, b in pairs[:12 if chk.tier == 'quick' else len(pairs)]:
            defs = ''.join(x for nm, (d, sc, x) in M.UNITS.items() if x and nm in (a, b))
            doc = ('<?xml version="1.0" encoding="UTF-8"?>\n<model xmlns="http://www.cellml.org/cellml/2.0#" xmlns:cellml="http://www.cellml.org/cellml/2.0#" name="m">' + defs +
                   '<component name="src"><variable name="k" units="%s" initial_value="123" interface="public"/></component>'
                   '<component name="use"><variable name="k_y" units="%s" interface="public"/><variable name="y" units="%s"/><variable name="z" units="%s"/><variable name="w" units="%s"/>'
                   '<math xmlns="http://www.w3.org/1998/Math/MathML"><apply><eq/><ci>y</ci><ci>k_y</ci></apply><apply><eq/><ci>z</ci><apply><plus/><ci>k_y</ci><ci>k_y</ci></apply></apply>'
                   '<apply><eq/><ci>w</ci><apply><times/><cn cellml:units="dimensionless">2</cn><ci>k_y</ci></apply></apply></math></component>'
                   '<connection component_1="src" component_2="use"><map_variables variable_1="k" variable_2="k_y"/></connection></model>\n') % (a, b, b, b, b)
            fn = os.path.join(wd, 'm.cellml'); open(fn, 'w').write(doc)
            r = subprocess.run([hg, fn, 'C'], capture_output=True, text=True, timeout=120)
            out = r.stdout
            if '=====IMPL' not in out:
                chk.violation('implementation violates the units algebra: the library crashed on connected variables in %s / %s' % (a, b), {'kind': 'oracle', 'engine': 'files', 'cellml': doc}, True); continue
            iface = out[out.index('=====IFACE') + 11:out.index('=====IMPL')]
            impl = out[out.index('=====IMPL') + 10:]
            lines, err = M.run_generated_c(impl, iface, wd, False)
            if err:
                chk.violation('implementation violates the units algebra: generated code for connected variables in %s / %s does not run: %s' % (a, b, err[:200]), {'kind': 'oracle', 'engine': 'files', 'cellml': doc}, True); continue
            vals = {l.split()[2]: float(l.split()[3]) for l in lines if len(l.split()) >= 4}
            f = M.scale(a) / M.scale(b)
            n += 1
            for nm, want in (('y', 123 * f), ('z', 246 * f), ('w', 246 * f)):
                got = vals.get(nm)
                if got is None or abs(got - want) > 1e-9 * max(1.0, abs(want)):
                    chk.violation('implementation violates the units algebra: k = 123 %s seen as %s: %s is computed as %r, the scaling factor gives %r' % (a, b, {'y': 'y = k_y', 'z': 'z = k_y + k_y', 'w': 'w = 2 k_y'}[nm], got, want),
                                  {'kind': 'oracle', 'engine': 'files', 'cellml': doc, 'why': '%s = %r, expected %r' % (nm, got, want)}, True)
                    break
    finally:
        shutil.rmtree(wd, ignore_errors=True)
    chk.cov['applied_scaling_models'] = n


def run(chk, replay=None):
    lib = build_lib()
    hx = build_hx('hx_units', lib)
    if not replay:
        scale_reports(chk, lib)
        applied_scaling(chk, lib, random.Random(chk.seed + 8))
    _, tbl, _ = run_lines(hx, ['tables'], [])
    gen = {'Cellml/Generated/StdUnits.lean': tables.std_units_table('\n'.join(tbl))}
    leandir, ok, out, changed = standard_lean(chk, 'C08', gen)
    chk.assumptions += [
        'std::map<string,double> of base exponents (zeros and dimensionless erased) is modelled by its lookup function; size+inclusion comparison is modelled by pointwise equality',
        'exponents and log-multipliers are exact rationals in the model; the correspondence uses dyadic exponents and power-of-ten multipliers so that every double operation of the implementation is exact; areEqual()/pow rounding is not modelled',
        'imports: an imported units is an alias of an entry of a library model; importing a user-defined *base* unit (keyed by the importing name in the code) is outside the model and not generated',
        'the own reduction to base units of the validator (updateBaseUnitCount) is not modelled: its verdict on connected variables is compared with Units::compatible on the implementation; its hint multiplier and the analyser copy of the units arithmetic are not covered',
        'cyclic units definitions are outside this property (C01/C04)']
    chk.cov['trusted_base'] += ['harness/hx_units.cpp + lean/Cellml/Engine/Units.lean', 'gen/tables.py: standard tables printed by a program including utilities.h', 'python exact-fraction reference for base exponents (checks/C08.py)']
    if not ok:
        chk.violation('Lean obligations of C08 no longer check: ' + out[-1500:], {'kind': 'proof', 'theorem_or_build_log': out[-3000:], 'changed_tables': changed}, False)
    drv = drv_path(leandir)
    if not os.path.exists(drv):
        return
    base = [l.split()[1] for l in tbl if l.startswith('BASE ')]
    stdrows = [l.split() for l in tbl if l.startswith('STD ')]
    stds = [{base.index(b.split(':')[0]): Fraction(b.split(':')[1]) for b in r[3:]} for r in stdrows]
    stdmult = [Fraction(r[2]) for r in stdrows]
    nbase, dimless, nstd = len(base), base.index('dimensionless'), len(stdrows)
    rng = random.Random(chk.seed)
    lines, metas = [], []
    if replay:
        r = json.load(open(replay)); lines = r['lines']; metas = [None] * len(lines)
    else:
        # corpus first: the import-exponent witness (fix 65999c8): (imported km)^2 vs metre^2
        metre = [r[1] for r in stdrows].index('metre')
        wit = [('c', [('s', metre, 3, '1', 0)]), ('a', 0), ('c', [('u', 1, 0, '2', 0)]), ('c', [('s', metre, 0, '2', 6)])]
        envs = [wit]
        nenv = 120 if chk.tier == 'quick' else 1200
        nmax = 8 if chk.tier == 'quick' else 14
        envs += [gen_env(rng, nmax, nstd) for _ in range(nenv)]
        for env in envs:
            n = len(env)
            order = list(range(n)); rng.shuffle(order)
            ops = ['(u %d)' % i for i in range(n)] + ['(s %d)' % rng.randrange(nstd), '(s %d)' % rng.randrange(nstd), '(n)', '(u %d)' % (n + 3)]
            qs = [(a, b) for a in ops for b in ops]
            if len(qs) > 150:
                qs = rng.sample(qs, 150)
            lines.append('(units %s (order %s) %s)' % (env_sexp(env), ' '.join(map(str, order)), ' '.join('(q %s %s)' % q for q in qs)))
            metas.append((env, qs))
    _, impl, e1 = run_lines(hx, [], lines)
    _, model, e2 = run_lines(drv, ['units'], lines)
    nq = 0; disagree = []; orafail = []
    hist = {'compatible': 0, 'incompatible': 0, 'undefined_or_null': 0, 'equivalent': 0, 'nonunit_factor': 0}
    def parse(r):
        return re.findall(r'\(q ([^)]*)\)', r)
    for li, (l, x, y) in enumerate(zip(lines, impl, model)):
        xi, yi = parse(x), parse(y)
        if len(xi) != len(yi) or not xi:
            disagree.append((l, x[:200], y[:200])); continue
        ref = None
        if metas[li]:
            env, qs = metas[li]
            ref = reference(env, stds, nbase, dimless)
            refsc = reference_scale(env, stdmult); expone = exp_one_carriers(env)
        for qi, (a, b) in enumerate(zip(xi, yi)):
            nq += 1
            ta, tb = a.split(), b.split()
            same = ta[0] == tb[0] and ta[1] == tb[1] and ta[4] == tb[4]
            for k in (2, 3):
                if (ta[k] == 'none') != (tb[k] == 'none') or (ta[k] != 'none' and Fraction(ta[k]) != Fraction(tb[k])):
                    same = False
            if not same:
                disagree.append((l, 'query %d impl (%s)' % (qi, a), 'model (%s)' % b))
            # the validator's verdict on connected variables with these units is the one Units::compatible gives
            def via_import(op):
                mo = re.match(r'\(u (\d+)\)', op)
                if not mo or not metas[li] or int(mo.group(1)) >= len(metas[li][0]):
                    return True
                env_ = metas[li][0]
                def go(i):
                    d = env_[i]
                    return d[0] == 'a' or any(k == 'u' and go(j) for k, j, _p, _e, _l in d[1])
                return go(int(mo.group(1)))
            # (the validator does not follow imported units: pairs that reach an import are left out)
            if len(ta) > 6 and ta[6] in '01' and metas[li] and not via_import(metas[li][1][qi][0]) and not via_import(metas[li][1][qi][1]):
                hist['validator_verdicts'] = hist.get('validator_verdicts', 0) + 1
                if (ta[6] == '1') != (ta[0] != '1'):
                    orafail.append((l, 'query %d: the validator %s non-matching units for connected variables although Units::compatible says %s: (%s)' % (qi, 'reports' if ta[6] == '1' else 'does not report', ta[0], a)))
            if ta[5] != '1':
                orafail.append((l, 'query %d: scalingFactor is inconsistent with the unit multipliers or factor(a,b)*factor(b,a) != 1: (%s)' % (qi, a)))
            if ta[0] == '1':
                hist['compatible'] += 1
                if ta[4] == '1': hist['equivalent'] += 1
                elif ta[2] != ta[3]: hist['nonunit_factor'] += 1
            elif ta[2] == 'none' or ta[3] == 'none': hist['undefined_or_null'] += 1
            else: hist['incompatible'] += 1
            if ref is not None:
                env, qs = metas[li]
                def vec(op):
                    m = re.match(r'\((\w)(?: (\d+))?\)', op)
                    if m.group(1) == 'n': return None
                    i = int(m.group(2))
                    if m.group(1) == 's': return {k: e for k, e in stds[i].items() if k != dimless and e != 0}
                    return ref[i] if i < len(ref) else None
                va, vb = vec(qs[qi][0]), vec(qs[qi][1])
                expect = va is not None and vb is not None and va == vb
                # the scale of each operand is the sum over its children of multiplier + exponent x (prefix + scale of the referenced units) (CellML: multiplier x (prefix x u)^exponent); compared where prefixes and multipliers sit on children of exponent 1, as the property says,
                # whatever the order of the children
                for op, got in ((qs[qi][0], ta[2]), (qs[qi][1], ta[3])):
                    m = re.match(r'\((\w)(?: (\d+))?\)', op)
                    if m.group(1) == 'u' and int(m.group(2)) < len(refsc) and got != 'none' and expect and expone[int(m.group(2))]:
                        hist['scales_checked'] = hist.get('scales_checked', 0) + 1
                        if Fraction(got) != refsc[int(m.group(2))]:
                            orafail.append((l, 'query %d %s: the log10 scale of %s is %s but its definition gives %s' % (qi, qs[qi], op, got, refsc[int(m.group(2))])))
                if (ta[0] == '1') != expect:
                    orafail.append((l, 'query %d %s: Units::compatible=%s but the base-unit exponents %s vs %s say %s' % (qi, qs[qi], ta[0], va, vb, expect)))
    chk.cov.update(evaluations=nq, distinct_nontrivial=len(set(lines)),
                   rule='generated acyclic unit environments (user base units, compounds over standard and earlier units, imported aliases; dyadic exponents, integer/SI prefixes, power-of-ten multipliers) '
                        'added to the model in shuffled order; all pairs of operands incl. standard, null and missing; one evaluation = one pair; non-trivial = distinct environment lines',
                   samples=[lines[0][:400], impl[0][:200], model[0][:200]], traces_validated_against_impl=nq - len(disagree), exhaustive=False,
                   outcome_histogram=hist, environments=len(lines))
    seen = set()
    for l, why in orafail[:3]:
        chk.violation('implementation violates the units algebra: ' + why, {'kind': 'oracle', 'engine': 'units', 'lines': [l], 'why': why}, True)
    if not orafail:
        for l, x, y in disagree[:3]:
            chk.violation('units model and implementation disagree (correspondence `units` broken): %s / %s' % (x, y),
                          {'kind': 'correspondence', 'engine': 'units', 'lines': [l], 'impl': x, 'model': y}, False)
