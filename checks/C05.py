"""C05 — analysis classifies every model and variable correctly and consistently."""
import random, sys, tempfile, shutil, subprocess
from vlib.common import *
sys.path.insert(0, os.path.join(ROOT, 'pygen'))
import models as M
import absys as A

VALID = ('algebraic', 'ode', 'nla', 'dae')
KIND2TYPE = {'voi': 'voi', 'const': 'constant', 'cconst': 'computed_constant', 'state': 'state', 'alg': 'algebraic'}


def analyse_real(hx, fn, ext=()):
    r = subprocess.run([hx, fn, 'C'] + list(ext), capture_output=True, text=True, timeout=120)
    if '=====IFACE' not in r.stdout:
        return None
    info = r.stdout[r.stdout.index('=====INFO') + 10:r.stdout.index('=====IFACE')]
    d = {'type': None, 'vars': {}, 'eqs': [], 'errors': [], 'info': info}
    for l in info.split('\n'):
        t = l.split()
        if not t:
            continue
        if t[0] == 'type': d['type'] = t[1]
        elif t[0] == 'voi': d['vars'][(t[1], t[2])] = ('voi', None)
        elif t[0] == 'state': d['vars'][(t[2], t[3])] = ('state', int(t[1]))
        elif t[0] == 'variable': d['vars'][(t[2], t[3])] = (t[4], int(t[1]))
        elif t[0] == 'error': d['errors'].append(l[6:])
        elif t[0] == 'xnlasys':
            d.setdefault('nlasys', {})[int(t[1])] = (int(t[2]), [int(x) for x in t[4:]])
        elif t[0] == 'xequation':
            k = t.index('deps')
            d['eqs'].append({'type': t[1], 'vars': t[3:k], 'deps': [x.strip('[]').split(',') for x in t[k + 1:t.index('nla')]], 'nla': int(t[-1])})
    return d


def classes_of(a, real, inv=None):
    """class (as the set of its member names) -> sorted list of (type) reported for its members"""
    out = {}
    for d in a['classes']:
        key = frozenset((inv or {}).get((a['cname'][c], n), (a['cname'][c], n)) for c, n in d['members'])
        out[key] = tuple(sorted(real['vars'][(a['cname'][c], n)][0] for c, n in d['members'] if (a['cname'][c], n) in real['vars']))
    return out


def wellformed(a, real):
    """structural invariants of a valid AnalyserModel; returns a list of complaints"""
    bad = []
    rv = real['vars']
    for d in a['classes']:
        n = sum(1 for c, nm in d['members'] if (a['cname'][c], nm) in rv)
        if n != 1:
            bad.append('the class %s appears %d times in the analysed model' % (sorted(d['members']), n))
    for kind in ('state', 'other'):
        idx = sorted(i for (t, i) in rv.values() if i is not None and ((t == 'state') == (kind == 'state')))
        if idx != list(range(len(idx))):
            bad.append('%s indices are not 0..n-1: %s' % (kind, idx))
    computed = {}
    for k, e in enumerate(real['eqs']):
        for v in e['vars']:
            computed.setdefault(v, []).append(k)
    for (c, n), (t, i) in rv.items():
        if t in ('state', 'computed_constant', 'algebraic'):
            ks = computed.get('%s.%s' % (c, n), [])
            if not ks:
                bad.append('%s.%s (%s) is computed by no equation' % (c, n, t))
            elif len(ks) > 1 and not all(real['eqs'][k]['type'] == 'nla' for k in ks):
                bad.append('%s.%s is computed by %d equations that are not one NLA system' % (c, n, len(ks)))
    # the equations of one NLA system carry one system index: siblings, and equations that compute a common variable
    ns = real.get('nlasys', {})
    for k, (idx, sibs) in ns.items():
        for j in sibs:
            if j in ns and ns[j][0] != idx:
                bad.append('NLA equation %d (system %d) has sibling %d in system %d' % (k, idx, j, ns[j][0]))
    for v, ks in computed.items():
        idxs = set(ns[k][0] for k in ks if k in ns)
        if len(idxs) > 1:
            bad.append('%s is computed by equations of %d NLA systems' % (v, len(idxs)))
    # directly solved equations admit a dependency-first order
    direct = [k for k, e in enumerate(real['eqs']) if e['type'] not in ('nla', 'external')]
    owner = {}
    for k, e in enumerate(real['eqs']):
        for v in e['vars']:
            owner[v] = k
    edges = {k: set() for k in direct}
    for k in direct:
        for dep in real['eqs'][k]['deps']:
            for v in dep:
                if v in owner and owner[v] in edges and real['eqs'][k]['type'] != 'ode':
                    edges[k].add(owner[v])
    done, changed = set(), True
    while changed:
        changed = False
        for k in direct:
            if k not in done and edges[k] <= done | {k}:
                done.add(k); changed = True
    if len(done) != len(direct):
        bad.append('the directly solved equations cannot be ordered dependencies first')
    return bad


PROBE_T = """<?xml version="1.0" encoding="UTF-8"?>
<model xmlns="http://www.cellml.org/cellml/2.0#" xmlns:cellml="http://www.cellml.org/cellml/2.0#" name="m">
  <component name="c">
    %s
    <math xmlns="http://www.w3.org/1998/Math/MathML">
      %s
    </math>
  </component>
</model>
"""
_V = '<variable name="%s" units="dimensionless"%s/>'
_N = '<cn cellml:units="dimensionless">%s</cn>'
PROBES = {
    # h = x + sin(x) listed before / after h = 5, x initialised: the witness of Props.C05.not_orderIndependent
    'C05-order-initialised-unknown': (
        [_V % ('h', ''), _V % ('x', ' initial_value="3"')],
        ['<apply><eq/><ci>h</ci><apply><plus/><ci>x</ci><apply><sin/><ci>x</ci></apply></apply></apply>', '<apply><eq/><ci>h</ci>%s</apply>' % (_N % 5)]),
    # x + sin(x) = 9, x + y = 5, both initialised: a square system whose equations do not have the same unknowns
    'C05-nla-unequal-unknowns': (
        [_V % ('x', ' initial_value="1"'), _V % ('y', ' initial_value="2"')],
        ['<apply><eq/><apply><plus/><ci>x</ci><apply><sin/><ci>x</ci></apply></apply>%s</apply>' % (_N % 9), '<apply><eq/><apply><plus/><ci>x</ci><ci>y</ci></apply>%s</apply>' % (_N % 5)]),
}


def probes(chk, hx, wd, oracle):
    """the inputs of the known findings, replayed on the implementation (both listings of the equations)"""
    kf = {f['id']: f for f in known_findings()['findings'] if f['property'] == 'C05'}
    for pid, (vs, eqs) in PROBES.items():
        types = []
        for order in (eqs, eqs[::-1]):
            fn = os.path.join(wd, 'probe.cellml'); text = PROBE_T % ('\n    '.join(vs), '\n      '.join(order)); open(fn, 'w').write(text)
            r = analyse_real(hx, fn)
            types.append(r['type'] if r else 'crash')
        if types == ['nla', 'nla']:
            continue
        if pid in kf:
            chk.known_finding(kf[pid]['what'])
        else:
            oracle.append(('the two-equation system %s is analysed as %s / %s (equations listed forwards / backwards), expected nla' % (eqs, types[0], types[1]), [text]))


NLA3 = ('<?xml version="1.0" encoding="UTF-8"?>\n<model xmlns="http://www.cellml.org/cellml/2.0#" xmlns:cellml="http://www.cellml.org/cellml/2.0#" name="m"><component name="c">'
        + ''.join('<variable name="%s" units="dimensionless" initial_value="1"/>' % v for v in 'abdex') + '<math xmlns="http://www.w3.org/1998/Math/MathML">%s</math></component></model>\n')
NLA3_EQS = ['<apply><eq/><apply><plus/><ci>a</ci><ci>b</ci></apply><cn cellml:units="dimensionless">3</cn></apply>',
            '<apply><eq/><apply><plus/><ci>d</ci><ci>e</ci></apply><cn cellml:units="dimensionless">7</cn></apply>',
            '<apply><eq/><apply><times/><ci>b</ci><ci>d</ci><ci>x</ci></apply><cn cellml:units="dimensionless">6</cn></apply>']


def nla_grouping_stage(chk, hx, wd, oracle, stats):
    """three NLA equations of which two share no unknown and the third links them, in every order: whatever the analyser makes of the
    system (see known finding C05-nla-unequal-unknowns), the equations it solves together carry one system index and the grouping does
    not depend on the order"""
    import itertools
    seen = set()
    for perm in itertools.permutations(range(3)):
        text = NLA3 % ''.join(NLA3_EQS[i] for i in perm)
        fn = os.path.join(wd, 'nla3.cellml'); open(fn, 'w').write(text)
        real = analyse_real(hx, fn)
        stats['nla_grouping'] = stats.get('nla_grouping', 0) + 1
        if real is None:
            oracle.append(('the analyser crashed', [text])); continue
        ns = real.get('nlasys', {})
        groups = frozenset(frozenset(perm[k] for k in ns if ns[k][0] == idx) for idx in set(v[0] for v in ns.values()))
        seen.add((real['type'], groups))
        for k, (idx, sibs) in ns.items():
            if any(j in ns and ns[j][0] != idx for j in sibs):
                oracle.append(('the sibling equations of an NLA system carry different system indices (%s) when the equations are listed in the order %s' % (sorted((k_, v_[0]) for k_, v_ in ns.items()), list(perm)), [text])); break
    if len(seen) > 1 and not oracle:
        oracle.append(('the grouping of three NLA equations into systems depends on the order in which they are listed: %s' % sorted((t, sorted(map(sorted, g))) for t, g in seen), [NLA3 % ''.join(NLA3_EQS)]))


def relay_case(rng):
    """a state that lives in a chain of connected components: initialised in one, integrated in another, read in one or two (before or after the ODE)"""
    n = rng.randint(2, 4)
    init_at, ode_at = rng.randrange(n), rng.randrange(n)
    readers = sorted(set(rng.randrange(n) for _ in range(rng.randint(1, 2))))
    comps = []
    for c in range(n):
        vs = ['<variable name="x" units="dimensionless" interface="public"%s/>' % (' initial_value="1"' if c == init_at else '')]
        eqs = []
        if c == ode_at:
            vs.append('<variable name="t" units="dimensionless"/>')
            eqs.append('<apply><eq/><apply><diff/><bvar><ci>t</ci></bvar><ci>x</ci></apply><cn cellml:units="dimensionless">1</cn></apply>')
        if c in readers:
            vs.append('<variable name="y%d" units="dimensionless"/>' % c)
            eqs.insert(rng.randint(0, len(eqs)), '<apply><eq/><ci>y%d</ci><apply><times/><cn cellml:units="dimensionless">2</cn><ci>x</ci></apply></apply>' % c)
        rng.shuffle(vs)
        comps.append('<component name="k%d">%s%s</component>' % (c, ''.join(vs), '<math xmlns="http://www.w3.org/1998/Math/MathML">%s</math>' % ''.join(eqs) if eqs else ''))
    conns = ['<connection component_1="k%d" component_2="k%d"><map_variables variable_1="x" variable_2="x"/></connection>' % ((c, c + 1) if rng.random() < 0.5 else (c + 1, c)) for c in range(n - 1)]
    rng.shuffle(comps); rng.shuffle(conns)
    text = '<?xml version="1.0" encoding="UTF-8"?>\n<model xmlns="http://www.cellml.org/cellml/2.0#" xmlns:cellml="http://www.cellml.org/cellml/2.0#" name="m">' + ''.join(comps) + ''.join(conns) + '</model>'
    return text, readers


def relay_stage(chk, hx, wd, rng, oracle, stats):
    for _ in range(40 if chk.tier == 'quick' else 400):
        text, readers = relay_case(rng)
        fn = os.path.join(wd, 'relay.cellml'); open(fn, 'w').write(text)
        real = analyse_real(hx, fn)
        stats['relay'] = stats.get('relay', 0) + 1
        relay_check(real, text, oracle)


def relay_check(real, text, oracle):
    if True:
        if real is None:
            oracle.append(('the analyser crashed', [text], [], 'relay')); return
        if real['type'] != 'ode':
            oracle.append(('a state relayed through a chain of connected components and read there is analysed as %s, expected ode' % real['type'], [text], [], 'relay')); return
        states = [k for k, e in enumerate(real['eqs']) if e['type'] == 'ode']
        for e in real['eqs']:
            if e['type'] == 'ode':
                continue
            have = set(v for dep in e['deps'] for v in dep)
            if not (len(states) == 1 and set(real['eqs'][states[0]]['vars']) <= have and have):
                oracle.append(('the equation computing %s reads the state x of a chain of connected components but does not depend on its ODE (its dependencies compute %s)' % (e['vars'], sorted(have)), [text], [], 'relay'))


def run(chk, replay=None):
    lib = build_lib()
    hx = build_hx('hx_gencode', lib)
    leandir, ok, out, changed = standard_lean(chk, 'C05')
    chk.assumptions += [
        'the Lean model works on an abstraction of the CellML model (pygen/absys.py): equivalence classes in the order the analyser creates its internal variables, equations with the classes they mention and what stands alone on either side; member names are assumed unique across the model so that the name comparison of variableOnLhsRhs is a comparison of variables',
        'units analysis, issue texts, the pre-checks (several / initialised variables of integration, two initialised equivalent variables, non-first-order ODEs) and external variables (C20) are outside this model',
        'order and renaming independence is checked on the implementation for every generated system; for the model the full statement OrderIndependent is refuted by a concrete witness (Props.C05.not_orderIndependent: h = x + sin(x) with x initialised, listed before or after h = 5), which is replayed on the implementation and is the known finding C05-order-initialised-unknown',
        'components are taken in document order (generated models are flat)']
    chk.cov['trusted_base'] += ['harness/hx_gencode.cpp + lean/Cellml/Engine/Analyse.lean', 'pygen/absys.py (abstraction of CellML text, mirrors the traversal order of analyseNode)', 'pygen/models.py (ground-truth systems)']
    if not ok:
        chk.violation('Lean obligations of C05 no longer check: ' + out[-1500:], {'kind': 'proof', 'theorem_or_build_log': out[-3000:]}, False)
    drv = drv_path(leandir)
    rng = random.Random(chk.seed)
    n = 60 if chk.tier == 'quick' else 600
    nperm = 3 if chk.tier == 'quick' else 6
    stats = {'systems': 0, 'variants': 0, 'permutations': 0, 'types': {}, 'ground_truth_classes': 0}
    oracle, lines, metas = [], [], []
    wd = tempfile.mkdtemp(prefix='c05-')
    try:
        cases = []
        if replay:
            r = json.load(open(replay))
            cases = [(None, t, 'replay', r.get('externals', [])) for t in r['cellml']]
        else:
            for i in range(n):
                sysd = M.gen_system(rng, ncomp=rng.randint(1, 4), nq=rng.randint(2, 9), depth=rng.randint(1, 3), ode=rng.random() < 0.7, typed=True)
                if i % 5 == 4:
                    # a chain of computed constants and an implicit equation that reads its end and a non-constant variable
                    sysd = M.chain_system(rng)
                    text = M.to_cellml(sysd, rng)
                else:
                    text = M.to_cellml(sysd, rng, nla=rng.random() < 0.3, implicit=rng.choice([0.0, 0.0, 0.5]), nla_ext=0.5)
                cases.append((sysd, text, 'base', []))
                r = rng.random()
                if r < 0.15 and '<apply><eq/>' in text:
                    cases.append((None, re.sub(r'<apply><eq/>.*?</apply></math>', '</math>', text, count=1), 'missing-equation', []))
                elif r < 0.3 and text.count('interface="public"/>') > 0:
                    k = rng.randrange(1, 1 + text.count('interface="public"/>'))
                    parts = text.split('interface="public"/>')
                    cases.append((None, 'interface="public"/>'.join(parts[:k]) + 'interface="public" initial_value="1"/>' + 'interface="public"/>'.join(parts[k:]), 'extra-initial-value', []))
                # two faults at once: a state that is never initialised and a variable computed twice — unsuitably constrained
                if sysd.get('ode') and not sysd.get('nla_block') and rng.random() < 0.7:
                    sts = [q for q in sysd['qs'] if q.kind == 'state' and q.init is not None and q.init_from is None]
                    # (the variable computed twice is one whose equation reads nothing: an extra equation that reads the state, an
                    # initialised constant or anything downstream of them is legitimately used to determine *that* instead)
                    dup = [q for q in sysd['qs'] if q.kind in ('alg', 'cconst') and q.idx in sysd['eqtext'] and q.idx not in (sysd.get('implicit') or ()) and not M.leaves(q.rhs, set())]
                    if sts and dup:
                        st, dq = rng.choice(sts), rng.choice(dup)
                        c_ = sysd.get('init_at', {}).get(st.idx, st.home)
                        decl = '<variable name="%s" units="%s" interface="public" initial_value="%s"/>' % (st.members[c_][0], st.members[c_][1], st.init)
                        extra = '<apply><eq/><ci>%s</ci><cn cellml:units="dimensionless">1</cn></apply>' % dq.members[dq.home][0]
                        if text.count(decl) == 1 and text.count(sysd['eqtext'][dq.idx]) == 1:
                            t2 = text.replace(decl, decl.replace(' initial_value="%s"' % st.init, ''))
                            t2 = t2.replace(sysd['eqtext'][dq.idx], (sysd['eqtext'][dq.idx] + extra) if rng.random() < 0.5 else (extra + sysd['eqtext'][dq.idx]))
                            cases.append((None, t2, 'two-faults', []))
                # external marks: a random quantity; the unknown of a removed equation (no NLA block: the pruning of NLA unknowns is not modelled)
                if not sysd.get('nla_block') and not sysd.get('implicit') and rng.random() < 0.8:
                    cand = [q for q in sysd['qs'] if q.kind != 'voi']
                    q = rng.choice(cand)
                    cases.append((None, text, 'marked', ['c%d' % q.home, q.members[q.home][0]]))
                    victims = [q for q in sysd['qs'] if q.kind in ('alg', 'cconst')]
                    if victims:
                        v = rng.choice(victims)
                        t2 = text.replace(sysd['eqtext'][v.idx], '', 1)
                        if rng.random() < 0.6:
                            # an equation that can only be solved as an NLA equation once the marked unknown is known
                            vn = v.members[v.home][0]
                            comp = '<component name="c%d">' % v.home
                            extra = '<apply><eq/><apply><plus/><apply><times/><ci>nq</ci><ci>nq</ci></apply><ci>nq</ci></apply><ci>%s</ci></apply>' % vn
                            blk = t2[t2.index(comp):]
                            blk_end = blk.index('</component>')
                            body = blk[:blk_end]
                            if '<math' in body:
                                body = body.replace('</math>', extra + '</math>', 1)
                            else:
                                body += '  <math xmlns="http://www.w3.org/1998/Math/MathML">' + extra + '</math>\n  '
                            body = body.replace(comp, comp + '\n    <variable name="nq" units="dimensionless"/>', 1)
                            t2 = t2[:t2.index(comp)] + body + blk[blk_end:]
                        cases.append((None, t2, 'rescued', ['c%d' % v.home, v.members[v.home][0]]))
        for sysd, text, tag, ext in cases:
            fn = os.path.join(wd, 'm.cellml'); open(fn, 'w').write(text)
            real = analyse_real(hx, fn, ext)
            if replay and r.get('family') == 'relay':
                relay_check(real, text, oracle); continue
            if real is None:
                oracle.append(('the analyser crashed', [text])); continue
            stats['systems' if tag == 'base' else 'variants'] += 1
            stats['types'][real['type']] = stats['types'].get(real['type'], 0) + 1
            if tag == 'two-faults' and real['type'] != 'unsuitably_constrained':
                oracle.append(('a state is never initialised and a variable is computed twice, but the model is analysed as %s instead of unsuitably constrained' % real['type'], [text]))
            if tag == 'rescued' and real['type'] not in VALID:
                oracle.append(('the only unknown %s.%s is marked as external but the model is analysed as %s' % (ext[0], ext[1], real['type']), [text], ext))
            a = A.parse(text, ext)
            skip = any('cannot be both a variable of integration and initialised' in e or 'cannot therefore both be initialised' in e for e in real['errors'])
            if not skip:
                lines.append(A.wire(a)); metas.append((text, real, a))
            if real['type'] in VALID and not ext:
                for w in wellformed(a, real):
                    oracle.append(('the analysed model is not well formed: ' + w, [text]))
            if sysd is not None:
                imp_ = sysd.get('implicit') or set()
                if imp_ and not sysd.get('nla_block') and real['type'] != ('dae' if sysd['ode'] else 'nla'):
                    oracle.append(('a well-posed system with implicit equations (%s) is analysed as %s' % ('DAE' if sysd['ode'] else 'NLA', real['type']), [text]))
                if not imp_ and real['type'] != ('ode' if sysd['ode'] else 'algebraic') and not sysd.get('nla_block'):
                    oracle.append(('a well-posed %s system is analysed as %s' % ('ODE' if sysd['ode'] else 'algebraic', real['type']), [text]))
                if real['type'] in VALID:
                    # ground truth roles (a computed constant / algebraic variable that reads an NLA unknown is out of the ground truth's scope)
                    dyn = {}
                    def dynamic(q):
                        if q.idx not in dyn:
                            dyn[q.idx] = q.kind in ('state', 'voi') or (q.kind == 'alg' and any(dynamic(sysd['qs'][k]) for k in M.leaves(q.rhs, set())))
                        return dyn[q.idx]
                    for q in sysd['qs']:
                        want = KIND2TYPE[q.kind] if q.kind != 'alg' else ('algebraic' if dynamic(q) else 'computed_constant')
                        got = [real['vars'][('c%d' % c, nm)][0] for c, (nm, u) in q.members.items() if ('c%d' % c, nm) in real['vars']]
                        stats['ground_truth_classes'] += 1
                        if got != [want]:
                            oracle.append(('quantity v%d is a %s by construction but is classified %s' % (q.idx, want, got), [text]))
                    # the NLA block: nx, ny (and the initialised na, which the analyser counts among the unknowns) are solved together, the consumers nz = 2 nx, nw = nz + 1, nu = nw - na
                    # hang off an NLA unknown and are algebraic, however long the chain
                    if sysd.get('nla_block') and not ext:
                        byname = {nm: t for (c, nm), (t, i) in real['vars'].items()}
                        # … and when na is computed by `na = 3` in another component (reached through a connection) it is a computed constant
                        for nm, want in (('nx', 'algebraic'), ('ny', 'algebraic'), ('nz', 'algebraic'), ('nw', 'algebraic'), ('nu', 'algebraic')) + ((('na', 'computed_constant'),) if sysd.get('nla_ext') else ()):
                            if nm in byname:
                                stats['ground_truth_classes'] += 1
                                if byname[nm] != want:
                                    oracle.append(('the variable %s of the NLA block is %s by construction but is classified %s' % (nm, want, byname[nm]), [text]))
                    # every directly solved equation depends on the equations computing the non-constant quantities it reads
                    if not ext:
                        rname, owner = {}, {}
                        for q in sysd['qs']:
                            for c, (nm, u) in q.members.items():
                                if ('c%d' % c, nm) in real['vars']:
                                    rname[q.idx] = 'c%d.%s' % (c, nm)
                        for k, e in enumerate(real['eqs']):
                            for v in e['vars']:
                                owner[v] = k
                        for q in sysd['qs']:
                            if q.rhs is None or q.idx in imp_ or q.idx not in rname or rname[q.idx] not in owner:
                                continue
                            e = real['eqs'][owner[rname[q.idx]]]
                            if e['type'] in ('nla', 'external'):
                                continue
                            have = set(v for dep in e['deps'] for v in dep)
                            for k in sorted(M.leaves(q.rhs, set())):
                                stats['dependencies'] = stats.get('dependencies', 0) + 1
                                if k != q.idx and rname.get(k) in owner and rname[k] not in have:
                                    oracle.append(('the equation computing %s reads %s (%s) but does not depend on the equation that computes it (its dependencies compute %s)' % (
                                        rname[q.idx], rname[k], sysd['qs'][k].kind, sorted(have)), [text]))
                # permutations and consistent renamings
                base = classes_of(a, real)
                for k in range(nperm):
                    rn = None
                    if k % 2 == 1:
                        names = ['zz%d' % j for j in range(300)]; rng.shuffle(names)
                        rn = {}
                        for q in sysd['qs']:
                            for c, (nm, u) in q.members.items():
                                rn[(c, nm)] = names.pop()
                        for c in range(sysd['ncomp']):
                            rn['c%d' % c] = names.pop()
                        if sysd.get('nla_block'):
                            for nm in ('nx', 'ny', 'na', 'nz', 'nw', 'nu'):
                                rn[('cnla', nm)] = names.pop()
                            rn[('cnb', 'na')] = names.pop()
                    pt = M.to_cellml(sysd, rng, perm=rng, rename=rn)
                    open(fn, 'w').write(pt)
                    r2 = analyse_real(hx, fn)
                    stats['permutations'] += 1
                    if r2 is None:
                        oracle.append(('the analyser crashed on a permuted model', [text, pt])); continue
                    inv = {(rn['c%d' % c], rn[(c, nm)]): ('c%d' % c, nm) for q in sysd['qs'] for c, (nm, u) in q.members.items()} if rn else None
                    if rn:
                        inv.update({(k[0], v): k for k, v in rn.items() if isinstance(k, tuple) and k[0] in ('cnla', 'cnb')})
                    if r2['type'] != real['type']:
                        oracle.append(('the model type changes from %s to %s when the model is %s' % (real['type'], r2['type'], 'renamed and reordered' if rn else 'reordered'), [text, pt]))
                    elif real['type'] in VALID:
                        c2 = classes_of(A.parse(pt), r2, inv)
                        diff = [(sorted(x), base[x], c2.get(x)) for x in base if base[x] != c2.get(x)]
                        if diff:
                            oracle.append(('the classification changes when the model is %s: %s' % ('renamed and reordered' if rn else 'reordered', diff[:3]), [text, pt]))
        if not replay:
            probes(chk, hx, wd, oracle)
            relay_stage(chk, hx, wd, rng, oracle, stats)
            nla_grouping_stage(chk, hx, wd, oracle, stats)
    finally:
        shutil.rmtree(wd, ignore_errors=True)
    model = run_lines_parallel(drv, ['analyse'], lines)[1] if os.path.exists(drv) and lines else []
    corr = []
    ndeps = [0]
    for (text, real, a), m in zip(metas, model):
        mm = re.match(r'type (\S+) vars (\S*) eqs (\S*)', m)
        if not mm:
            corr.append(('the analyser model rejects the system: ' + m[:100], text)); continue
        if mm.group(1) != real['type']:
            corr.append(('model type: implementation %s, model %s' % (real['type'], mm.group(1)), text)); continue
        if real['type'] not in VALID:
            continue
        mv = mm.group(2).split(',')
        # dependencies: what the equations an equation depends on compute (directly solved equations, no external variables)
        md = re.search(r' eqs (\S*) deps (\S*)$', m)
        if md and not a['ext']:
            meq = [(x.split(':')[0], [int(u) for u in x.split(':')[1].split('+') if u]) for x in md.group(1).split(',') if x]
            mdep = [[int(j) for j in x.split('+') if j] for x in md.group(2).split(',')] if meq else []
            klass = {}
            for k, d in enumerate(a['classes']):
                for c, nm in d['members']:
                    klass['%s.%s' % (a['cname'][c], nm)] = k
            want = {}
            for i, (ty, unk) in enumerate(meq):
                if ty not in ('unknown', 'nla') and i < len(mdep):
                    want[frozenset(unk)] = frozenset(u for j in mdep[i] for u in meq[j][1])
            got = {}
            for e in real['eqs']:
                if e['type'] not in ('nla', 'external'):
                    got[frozenset(klass.get(v, -1) for v in e['vars'])] = frozenset(klass.get(v, -1) for dep in e['deps'] for v in dep)
            ndeps[0] += len(got)
            if want != got:
                bad = [(sorted(k), sorted(want.get(k, [])), sorted(got.get(k, []))) for k in set(want) | set(got) if want.get(k) != got.get(k)]
                corr.append(('dependencies (classes computed by the equations depended on) of the equation computing %s: model %s, implementation %s' % bad[0], text)); continue
        for k, d in enumerate(a['classes']):
            ent = [real['vars'][(a['cname'][c], nm)] for c, nm in d['members'] if (a['cname'][c], nm) in real['vars']]
            mt, mi = mv[k].split(':')
            if len(ent) == 1 and (ent[0][0] != mt or (ent[0][1] is not None and str(ent[0][1]) != mi)):
                corr.append(('class %d (%s): implementation %s:%s, model %s:%s' % (k, sorted(d['members'])[0], ent[0][0], ent[0][1], mt, mi), text)); break
    chk.cov.update(evaluations=len(lines) + stats['permutations'], distinct_nontrivial=stats['systems'],
                   rule='generated ground-truth systems (constants, computed constants, algebraic variables, states, NLA blocks with consumers; 1-4 connected components) with known roles, '
                        'their missing-equation / extra-initial-value variants, and %d permutations (components, variables, equations, connections; every other one consistently renamed) of each; '
                        'one evaluation = one analysis compared with the Lean model or with the unpermuted analysis' % nperm,
                   samples=[lines[0][:300] if lines else '', model[0][:200] if model else ''],
                   traces_validated_against_impl=len(lines) - len(corr), exhaustive=False, outcome_histogram=dict(stats, dependency_sets_compared=ndeps[0]))
    for o in oracle[:3]:
        what, texts = o[0], o[1]
        chk.violation('analysis is not consistent: ' + what, {'kind': 'oracle', 'engine': 'analyse', 'cellml': texts, 'externals': o[2] if len(o) > 2 else [], 'family': o[3] if len(o) > 3 else 'generated', 'why': what}, True)
    if not oracle:
        for what, text in corr[:3]:
            chk.violation('analyser model and Analyser::analyseModel disagree (correspondence `analyse` broken): ' + what,
                          {'kind': 'correspondence', 'engine': 'analyse', 'cellml': [text], 'why': what, 'theorem': 'Cellml.Props.C05.loop_complete / indices_dense / reads_imply_depends'}, False)
