"""C03 — generated code computes what the model's equations say (expression level: parenthesisation, special cases)."""
import random, sys, tempfile, shutil
from vlib.common import *
sys.path.insert(0, os.path.join(ROOT, 'gen'))
sys.path.insert(0, os.path.join(ROOT, 'pygen'))
import tables
import exprs as X
import models as M
import subprocess


def dec(h):
    return bytes.fromhex(h[1:]).decode('latin-1') if h.startswith('#') else h


def systems_stage(chk, lib, replay_text=None):
    """second tie (implementation only): whole generated models — parse, analyse, generate C and Python, compile / execute,
    compare every reported constant, computed constant, algebraic variable, state and rate with the ground truth"""
    hxg = build_hx('hx_gencode', lib)
    rng = random.Random(chk.seed + 1)
    n = 1 if replay_text else (60 if chk.tier == 'quick' else 700)
    stats = {'systems': 0, 'fragile_regenerated': 0, 'ode': 0, 'algebraic': 0, 'values_compared': 0, 'rates_compared': 0, 'scaled_members': 0}
    fails = []
    attempts = 0
    while stats['systems'] < n and attempts < 20 * n:
        attempts += 1
        if replay_text:
            text, sysd = replay_text, None
        else:
            sysd = M.gen_system(rng, ncomp=rng.randint(1, 4), nq=rng.randint(2, 10), depth=rng.randint(1, 4), ode=rng.random() < 0.7)
            if attempts % 4 == 0:
                sysd = M.const_chain_system(rng)      # deep chains of computed constants
            try:
                M.ground_truth(sysd)
            except M.Fragile:
                stats['fragile_regenerated'] += 1; continue
            # listing: as generated (dependencies first), reversed (every dependency after what needs it) or shuffled
            r = rng.random()
            text = M.to_cellml(sysd, rng, perm=M.Reversed() if r < 0.3 else (rng if r < 0.6 else None))
            stats['reversed' if r < 0.3 else ('shuffled' if r < 0.6 else 'in_order')] = stats.get('reversed' if r < 0.3 else ('shuffled' if r < 0.6 else 'in_order'), 0) + 1
        stats['systems'] += 1
        wd = tempfile.mkdtemp(prefix='c03m-')
        try:
            fn = os.path.join(wd, 'm.cellml'); open(fn, 'w').write(text)
            results = {}
            for prof in ('C', 'PY'):
                r = subprocess.run([hxg, fn, prof], capture_output=True, text=True, timeout=120)
                out = r.stdout
                if '=====IMPL' not in out:
                    fails.append((prof + ': the library crashed (rc=%d)' % r.returncode, text, '')); break
                info = out[out.index('=====INFO') + 10:out.index('=====IFACE')]
                iface = out[out.index('=====IFACE') + 11:out.index('=====IMPL')]
                impl = out[out.index('=====IMPL') + 10:]
                ty = [l.split()[1] for l in info.split('\n') if l.startswith('type ')][0]
                if sysd is None:
                    ode = ty == 'ode'
                else:
                    ode = sysd['ode']
                    if ty != ('ode' if ode else 'algebraic'):
                        fails.append(('%s: a well-posed %s system is analysed as %s: %s' % (prof, 'ODE' if ode else 'algebraic', ty, info[:300]), text, '')); break
                if prof == 'C':
                    stats['ode' if ode else 'algebraic'] += 1
                    lines, err = M.run_generated_c(impl, iface, wd, ode)
                else:
                    lines, err = M.run_generated_py(impl, ode)
                if err:
                    fails.append(('%s: generated code does not run: %s' % (prof, err), text, impl[-1500:])); continue
                results[prof] = lines
                if sysd is None:
                    continue
                voi = [x for x in lines if x.startswith('VOI')]
                for l in lines:
                    t = l.split()
                    if not t or t[0] == 'VOI':
                        continue
                    exp = M.expected_value(sysd, t[1], t[2])
                    if exp is None:
                        fails.append(('%s: reports an unknown variable %s' % (prof, l), text, '')); continue
                    stats['values_compared'] += 1
                    if M.scale(exp[2].members[int(t[1][1:])][1]) != 1.0:
                        stats['scaled_members'] += 1
                    if not X.same(exp[0], float(t[3])):
                        fails.append(('%s: %s.%s = %r, the equations give %r' % (prof, t[1], t[2], float(t[3]), exp[0]), text, impl[impl.find('nitialise'):][:2500]))
                    if t[0] == 'S':
                        v = voi[0].split()
                        sv = M.scale(sysd['qs'][0].members[int(v[1][1:])][1])
                        er = exp[2].rate / M.scale(exp[2].members[int(t[1][1:])][1]) * sv
                        stats['rates_compared'] += 1
                        if not X.same(er, float(t[4])):
                            fails.append(('%s: rate of %s.%s = %r, the equations give %r' % (prof, t[1], t[2], float(t[4]), er), text, impl[impl.find('nitialise'):][:2500]))
            if sysd is None and len(results) == 2:
                a = [l.split() for l in results['C'] if l.split()]; b = [l.split() for l in results['PY'] if l.split()]
                for x, y in zip(a, b):
                    if x[:3] != y[:3] or (x[0] != 'VOI' and not X.same(float(x[3]), float(y[3]))):
                        fails.append(('the C and Python implementations disagree: %s vs %s' % (x, y), text, ''))
        finally:
            shutil.rmtree(wd, ignore_errors=True)
    if not replay_text:
        prefix_probe(chk, hxg, fails, stats)
    chk.cov['systems_stage'] = stats
    for what, text, extra in fails[:3]:
        chk.violation('generated implementation does not compute what the model says: ' + what,
                      {'kind': 'oracle', 'engine': 'systems', 'cellml': text, 'why': what, 'generated_excerpt': extra}, True)
    return stats


PREFIX_PROBE = """<?xml version="1.0" encoding="UTF-8"?>
<model xmlns="http://www.cellml.org/cellml/2.0#" name="prefix_exponent">
  <units name="mm2"><unit prefix="milli" exponent="2" units="metre"/></units>
  <units name="m2"><unit exponent="2" units="metre"/></units>
  <component name="source"><variable name="A" units="mm2" initial_value="4" interface="public"/></component>
  <component name="user">
    <variable name="A" units="m2" interface="public"/>
    <variable name="y" units="m2"/>
    <math xmlns="http://www.w3.org/1998/Math/MathML"><apply><eq/><ci>y</ci><ci>A</ci></apply></math>
  </component>
  <connection component_1="source" component_2="user"><map_variables variable_1="A" variable_2="A"/></connection>
</model>
"""


def prefix_probe(chk, hxg, fails, stats):
    """the input of known finding C03-prefix-under-exponent, always replayed: A = 4 mm^2 read as m^2 through a connection (y = A gives 4e-6)"""
    kf = {f['id']: f for f in known_findings()['findings'] if f['property'] == 'C03'}
    wd = tempfile.mkdtemp(prefix='c03p-')
    try:
        fn = os.path.join(wd, 'm.cellml'); open(fn, 'w').write(PREFIX_PROBE)
        r = subprocess.run([hxg, fn, 'C'], capture_output=True, text=True, timeout=120)
        out = r.stdout
        if '=====IMPL' not in out:
            fails.append(('C: the library crashed on the prefix probe (rc=%d)' % r.returncode, PREFIX_PROBE, '')); return
        iface = out[out.index('=====IFACE') + 11:out.index('=====IMPL')]
        impl = out[out.index('=====IMPL') + 10:]
        lines, err = M.run_generated_c(impl, iface, wd, False)
        if err:
            fails.append(('C: generated code of the prefix probe does not run: %s' % err, PREFIX_PROBE, impl[-1500:])); return
        ys = [float(l.split()[3]) for l in lines if len(l.split()) >= 4 and l.split()[2] == 'y']
        stats['prefix_probe'] = ys
        if ys and X.same(ys[0], 4e-6):
            return
        if 'C03-prefix-under-exponent' in kf:
            chk.known_finding(kf['C03-prefix-under-exponent']['what'])
        else:
            fails.append(('C: A = 4 mm^2 (metre, prefix milli, exponent 2) connected to a variable in m^2: y = A is computed as %r, the units give 4e-06' % (ys[:1],), PREFIX_PROBE, impl[impl.find('nitialise'):][:1500]))
    finally:
        shutil.rmtree(wd, ignore_errors=True)


def run(chk, replay=None):
    lib = build_lib()
    hx = build_hx('hx_expr', lib)
    _, prof, _ = run_lines(hx, ['profile'], [])
    gen = {'Cellml/Generated/Profiles.lean': tables.profiles_table('\n'.join(prof))}
    leandir, ok, out, changed = standard_lean(chk, 'C03', gen)
    chk.assumptions += [
        'scope of the theorems: expression trees (the shapes Analyser::analyseNode builds) printed by generateCode for the C and the Python profile; '
        'equation ordering, unit scaling of the AST and MathML-to-AST construction are exercised by the execution oracle only (not yet modelled)',
        'values are rationals with uninterpreted identifiers and functions: the theorems are about which operation is applied to which operands, not floating point',
        'the stratified grammar (Cellml/Gen/Grammar.lean) stands for the C and Python expression grammars; its adequacy (and that of the token view of the text) is supported by compiling the generated C with gcc and evaluating the generated Python, not proved',
        'helper functions (xor, min, sec, eq_func, …) are calls of uninterpreted functions in the theorems; their bodies are executed by the oracle',
        'the leading-minus test of the code is textual; the model tests the first token (equal unless an identifier starts with "-")',
        'areEqual() tolerance in the special cases (exponent 0.5 / 2, degree 2, base 10) is modelled by exact comparison',
        'profiles with a power or xor operator are outside the theorems (neither built-in profile has one)']
    chk.cov['trusted_base'] += ['harness/hx_expr.cpp + lean/Cellml/Engine/Expr.lean', 'gen/tables.py: profile getters printed by hx_expr',
                                'pygen/exprs.py: MathML reference semantics, gcc and python3 as executors of the generated text']
    if not ok:
        chk.violation('Lean obligations of C03 no longer check: ' + out[-1500:], {'kind': 'proof', 'theorem_or_build_log': out[-3000:], 'changed_tables': changed}, False)
    drv = drv_path(leandir)
    _, hl, _ = run_lines(hx, ['helpers'], [])
    helpers = {'C': [], 'PY': []}
    for l in hl:
        t = l.split()
        if len(t) >= 4:
            helpers[t[1]].append(dec(t[3]))
    consts = {}
    for l in prof:
        t = l.split()
        if t[0] == 'STR' and t[1] == 'C' and t[2] in ('eString', 'piString'):
            consts[t[2]] = float(dec(t[3]))
    X.CONST_VALUES = consts
    rng = random.Random(chk.seed)
    if replay and 'cellml' in json.load(open(replay)):
        systems_stage(chk, lib, json.load(open(replay))['cellml'])
        return
    if replay:
        r = json.load(open(replay))
        trees = [X.from_json(t) for t in r['trees']]
    else:
        trees = X.systematic()
        n, dmax = (3000, 5) if chk.tier == 'quick' else (25000, 7)
        trees += [X.gen(rng, rng.randint(1, dmax)) for _ in range(n)]
    def evaluate(trees):
        """run both ties on the trees: returns (codes, disagreements, bad model flags, oracle failures, value count)"""
        codes = {}
        disagree, flagbad = [], []
        for pr in ('C', 'PY'):
            lines = ['(expr %s %s)' % (pr, X.sexp(t)) for t in trees]
            impl = run_lines_parallel(hx, [], lines)[1]
            model = run_lines_parallel(drv, ['expr'], lines)[1] if os.path.exists(drv) else [''] * len(lines)
            codes[pr] = [dec(i) if i.startswith('#') else None for i in impl]
            for t, i, m in zip(trees, impl, model):
                mt = m.split()
                if not mt or mt[0] != i:
                    disagree.append((pr, t, i, m))
                elif mt[1:] != ['ex=1', 'ok=1', 'lex=1']:
                    flagbad.append((pr, t, i, m))
        wd = tempfile.mkdtemp(prefix='c03-')
        try:
            vc = X.run_c([c or '0' for c in codes['C']], helpers['C'], wd)
        finally:
            shutil.rmtree(wd, ignore_errors=True)
        vp = X.run_python([c or '0' for c in codes['PY']], helpers['PY'])
        orafail = []
        nval = 0
        for ti, t in enumerate(trees):
            ref = X.reference(t)
            for pr, vals in (('C', vc[ti]), ('PY', vp[ti])):
                code = codes[pr][ti]
                if code is None:
                    orafail.append((pr, t, 'the generator crashed', None, None)); continue
                bad = 0
                for r, v in zip(ref, vals):
                    nval += 1
                    if v == 'syntax':
                        bad = 99; break
                    if r == 'undef' or v == 'undef' or v == 'crash' or isinstance(v, str):
                        hist['undefined_skipped'] += 1
                    elif X.same(r, v):
                        hist['agree'] += 1
                    else:
                        bad += 1
                if bad and bad != 99 and pr == 'C' and X.has_int_division(t) and 'C03-integer-division-of-truth-values' in kf:
                    if not hist.get('known_integer_division'):
                        chk.known_finding(kf['C03-integer-division-of-truth-values']['what'])
                    hist['known_integer_division'] = hist.get('known_integer_division', 0) + 1
                elif bad >= 2 or bad == 99 or (bad == 1 and X.discrete(t)):
                    orafail.append((pr, t, code, ref, vals))
                elif bad == 1:
                    hist['numerically_fragile_discarded'] += 1
        return codes, disagree, flagbad, orafail, nval
    hist = {'agree': 0, 'undefined_skipped': 0, 'numerically_fragile_discarded': 0}
    kf = {f['id']: f for f in known_findings()['findings'] if f['property'] == 'C03'}
    if not replay:
        # the input of known finding C03-integer-division-of-truth-values, always replayed: (x0 <= x0) / ((x0 <= x0) + (x1 <= x1)) = 1/2
        one = lambda v: ('LEQ', ('ci', v), ('ci', v))
        trees = trees + [('DIVIDE', one('x0'), ('PLUS', one('x0'), one('x1')))]
    codes, disagree, flagbad, orafail, nval = evaluate(trees)
    if orafail and not replay:
        # shrink: the smallest failing subtrees of the smallest failures
        orafail.sort(key=lambda x: X.size(x[1]))
        subs = []
        for _, t, _, _, _ in orafail[:5]:
            X.subtrees(t, subs)
        subs = [t for t in {X.sexp(t): t for t in subs}.values()]
        if subs:
            _, _, _, of2, _ = evaluate(subs)
            orafail = of2 + orafail
    edges, types = set(), set()
    for t in trees:
        X.edges_in(t, edges); X.types_in(t, types)
    chk.cov.update(evaluations=2 * len(trees), distinct_nontrivial=len(set(map(X.sexp, trees))),
                   rule='expression trees in the shapes analyseNode builds: every parent operator over every kind of operand at depth 2 (systematic), then random trees of depth <= %d over the whole operator set; '
                        'each tree printed by Generator::equationCode with the C and the Python profile; one evaluation = one (tree, profile); the text is compared byte for byte with the model, '
                        'compiled (gcc) / evaluated (python3) under %d valuations and compared with the MathML reference value' % (5 if chk.tier == 'quick' else 7, len(X.VALUATIONS)),
                   samples=[X.show(trees[-1])[:300], (codes['C'][-1] or '')[:300], (codes['PY'][-1] or '')[:300]],
                   traces_validated_against_impl=2 * len(trees) - len(disagree), exhaustive=False,
                   outcome_histogram=hist, parent_child_edges_covered=len(edges), node_types_covered=len(types),
                   executed_values=nval, model_flags_bad=len(flagbad))
    if not replay:
        systems_stage(chk, lib)
    def tj(t):
        return None if t is None else ([t[0], t[1]] if t[0] in ('cn', 'ci') else [t[0], tj(t[1]), tj(t[2])])
    orafail.sort(key=lambda x: X.size(x[1]))
    for pr, t, code, ref, vals in orafail[:3]:
        chk.violation('generated %s code does not compute the expression: %s => %s (expected %s, got %s)' % (pr, X.show(t), code, ref, vals),
                      {'kind': 'oracle', 'engine': 'expr', 'profile': pr, 'trees': [tj(t)], 'code': code, 'expected': [str(x) for x in ref or []], 'got': [str(x) for x in vals or []]}, True)
    if not orafail:
        disagree.sort(key=lambda x: X.size(x[1]))
        for pr, t, i, m in disagree[:3]:
            chk.violation('expression model and Generator::equationCode disagree (correspondence `expr` broken; theorems gen_ok / gen_parses no longer cover the code): %s impl %s model %s' % (X.show(t), dec(i), dec(m.split()[0]) if m else m),
                          {'kind': 'correspondence', 'engine': 'expr', 'profile': pr, 'trees': [tj(t)], 'impl': dec(i), 'model': m, 'theorem': 'Cellml.Props.C03.gen_parses'}, False)
        for pr, t, i, m in flagbad[:3]:
            chk.violation('model flags (expression shape / sufficient parentheses / token view) fail on %s: %s' % (X.show(t), m),
                          {'kind': 'model-flags', 'engine': 'expr', 'profile': pr, 'trees': [tj(t)], 'model': m}, False)
