"""C03 — generated code computes what the model's equations say (expression level: parenthesisation, special cases)."""
import random, sys, tempfile, shutil
from vlib.common import *
sys.path.insert(0, os.path.join(ROOT, 'gen'))
sys.path.insert(0, os.path.join(ROOT, 'pygen'))
import tables
import exprs as X


def dec(h):
    return bytes.fromhex(h[1:]).decode('latin-1') if h.startswith('#') else h


def run(chk, replay=None):
    lib = build_lib()
    hx = build_hx('hx_expr', lib)
    _, prof, _ = run_lines(hx, ['profile'], [])
    gen = {'Cellml/Generated/Profiles.lean': tables.profiles_table('\n'.join(prof))}
    leandir, ok, out, changed = standard_lean(chk, 'C03', gen)
    chk.assumptions += [
        'scope of the theorems: expression trees (the shapes Analyser::analyseNode builds) printed by generateCode for the C and the Python profile; '
        'equation ordering, unit scaling of the AST and MathML-to-AST construction are exercised by the execution oracle only (not yet modelled)',
        'values are rationals with uninterpreted identifiers and functions: the theorems are about which operation is applied to which operands, not floating point',
        'the stratified grammar (Cellml/Gen/Grammar.lean) stands for the C and Python expression grammars; its adequacy (and that of the token view of the text) is supported by compiling the generated C with gcc and evaluating the generated Python, not proved',
        'helper functions (xor, min, sec, eq_func, …) are calls of uninterpreted functions in the theorems; their bodies are executed by the oracle',
        'the leading-minus test of the code is textual; the model tests the first token (equal unless an identifier starts with "-")',
        'areEqual() tolerance in the special cases (exponent 0.5 / 2, degree 2, base 10) is modelled by exact comparison',
        'profiles with a power or xor operator are outside the theorems (neither built-in profile has one)']
    chk.cov['trusted_base'] += ['harness/hx_expr.cpp + lean/Cellml/Engine/Expr.lean', 'gen/tables.py: profile getters printed by hx_expr',
                                'pygen/exprs.py: MathML reference semantics, gcc and python3 as executors of the generated text']
    if not ok:
        chk.violation('Lean obligations of C03 no longer check: ' + out[-1500:], {'kind': 'proof', 'theorem_or_build_log': out[-3000:], 'changed_tables': changed}, False)
    drv = drv_path(leandir)
    _, hl, _ = run_lines(hx, ['helpers'], [])
    helpers = {'C': [], 'PY': []}
    for l in hl:
        t = l.split()
        if len(t) >= 4:
            helpers[t[1]].append(dec(t[3]))
    consts = {}
    for l in prof:
        t = l.split()
        if t[0] == 'STR' and t[1] == 'C' and t[2] in ('eString', 'piString'):
            consts[t[2]] = float(dec(t[3]))
    X.CONST_VALUES = consts
    rng = random.Random(chk.seed)
    if replay:
        r = json.load(open(replay))
        trees = [X.from_json(t) for t in r['trees']]
    else:
        trees = X.systematic()
        n, dmax = (3000, 5) if chk.tier == 'quick' else (25000, 7)
        trees += [X.gen(rng, rng.randint(1, dmax)) for _ in range(n)]
    def evaluate(trees):
        """run both ties on the trees: returns (codes, disagreements, bad model flags, oracle failures, value count)"""
        codes = {}
        disagree, flagbad = [], []
        for pr in ('C', 'PY'):
            lines = ['(expr %s %s)' % (pr, X.sexp(t)) for t in trees]
            impl = run_lines_parallel(hx, [], lines)[1]
            model = run_lines_parallel(drv, ['expr'], lines)[1] if os.path.exists(drv) else [''] * len(lines)
            codes[pr] = [dec(i) if i.startswith('#') else None for i in impl]
            for t, i, m in zip(trees, impl, model):
                mt = m.split()
                if not mt or mt[0] != i:
                    disagree.append((pr, t, i, m))
                elif mt[1:] != ['ex=1', 'ok=1', 'lex=1']:
                    flagbad.append((pr, t, i, m))
        wd = tempfile.mkdtemp(prefix='c03-')
        try:
            vc = X.run_c([c or '0' for c in codes['C']], helpers['C'], wd)
        finally:
            shutil.rmtree(wd, ignore_errors=True)
        vp = X.run_python([c or '0' for c in codes['PY']], helpers['PY'])
        orafail = []
        nval = 0
        for ti, t in enumerate(trees):
            ref = X.reference(t)
            for pr, vals in (('C', vc[ti]), ('PY', vp[ti])):
                code = codes[pr][ti]
                if code is None:
                    orafail.append((pr, t, 'the generator crashed', None, None)); continue
                bad = 0
                for r, v in zip(ref, vals):
                    nval += 1
                    if v == 'syntax':
                        bad = 99; break
                    if r == 'undef' or v == 'undef' or v == 'crash' or isinstance(v, str):
                        hist['undefined_skipped'] += 1
                    elif X.same(r, v):
                        hist['agree'] += 1
                    else:
                        bad += 1
                if bad >= 2 or bad == 99 or (bad == 1 and X.discrete(t)):
                    orafail.append((pr, t, code, ref, vals))
                elif bad == 1:
                    hist['numerically_fragile_discarded'] += 1
        return codes, disagree, flagbad, orafail, nval
    hist = {'agree': 0, 'undefined_skipped': 0, 'numerically_fragile_discarded': 0}
    codes, disagree, flagbad, orafail, nval = evaluate(trees)
    if orafail and not replay:
        # shrink: the smallest failing subtrees of the smallest failures
        orafail.sort(key=lambda x: X.size(x[1]))
        subs = []
        for _, t, _, _, _ in orafail[:5]:
            X.subtrees(t, subs)
        subs = [t for t in {X.sexp(t): t for t in subs}.values()]
        if subs:
            _, _, _, of2, _ = evaluate(subs)
            orafail = of2 + orafail
    edges, types = set(), set()
    for t in trees:
        X.edges_in(t, edges); X.types_in(t, types)
    chk.cov.update(evaluations=2 * len(trees), distinct_nontrivial=len(set(map(X.sexp, trees))),
                   rule='expression trees in the shapes analyseNode builds: every parent operator over every kind of operand at depth 2 (systematic), then random trees of depth <= %d over the whole operator set; '
                        'each tree printed by Generator::equationCode with the C and the Python profile; one evaluation = one (tree, profile); the text is compared byte for byte with the model, '
                        'compiled (gcc) / evaluated (python3) under %d valuations and compared with the MathML reference value' % (5 if chk.tier == 'quick' else 7, len(X.VALUATIONS)),
                   samples=[X.show(trees[-1])[:300], (codes['C'][-1] or '')[:300], (codes['PY'][-1] or '')[:300]],
                   traces_validated_against_impl=2 * len(trees) - len(disagree), exhaustive=False,
                   outcome_histogram=hist, parent_child_edges_covered=len(edges), node_types_covered=len(types),
                   executed_values=nval, model_flags_bad=len(flagbad))
    def tj(t):
        return None if t is None else ([t[0], t[1]] if t[0] in ('cn', 'ci') else [t[0], tj(t[1]), tj(t[2])])
    orafail.sort(key=lambda x: X.size(x[1]))
    for pr, t, code, ref, vals in orafail[:3]:
        chk.violation('generated %s code does not compute the expression: %s => %s (expected %s, got %s)' % (pr, X.show(t), code, ref, vals),
                      {'kind': 'oracle', 'engine': 'expr', 'profile': pr, 'trees': [tj(t)], 'code': code, 'expected': [str(x) for x in ref or []], 'got': [str(x) for x in vals or []]}, True)
    if not orafail:
        disagree.sort(key=lambda x: X.size(x[1]))
        for pr, t, i, m in disagree[:3]:
            chk.violation('expression model and Generator::equationCode disagree (correspondence `expr` broken; theorems gen_ok / gen_parses no longer cover the code): %s impl %s model %s' % (X.show(t), dec(i), dec(m.split()[0]) if m else m),
                          {'kind': 'correspondence', 'engine': 'expr', 'profile': pr, 'trees': [tj(t)], 'impl': dec(i), 'model': m, 'theorem': 'Cellml.Props.C03.gen_parses'}, False)
        for pr, t, i, m in flagbad[:3]:
            chk.violation('model flags (expression shape / sufficient parentheses / token view) fail on %s: %s' % (X.show(t), m),
                          {'kind': 'model-flags', 'engine': 'expr', 'profile': pr, 'trees': [tj(t)], 'model': m}, False)
