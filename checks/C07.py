"""C07 — import resolution terminates, succeeds exactly when possible, reports failures."""
import random, sys, tempfile, shutil, subprocess, itertools, binascii, copy
from vlib.common import *
sys.path.insert(0, os.path.join(ROOT, 'pygen'))
sys.path.insert(0, os.path.join(ROOT, 'gen'))
import worlds as W
import tables

ORIGIN = 'f0.cellml'
WHY = {'IMPORTER_MISSING_FILE': 'missing_file', 'IMPORTER_NULL_MODEL': 'null_model', 'IMPORT_EQUIVALENT_INFOSET': 'cycle',
       'IMPORTER_MISSING_UNITS': 'missing_units', 'IMPORTER_MISSING_COMPONENT': 'missing_component'}


def write_world(w, wd):
    for f in os.listdir(wd):
        os.remove(os.path.join(wd, f))
    for n, f in w.items():
        t = W.render(n, f.get('was', f) if f['kind'] == 'notxml' and f.get('cut') else f, f.get('cut'))
        if t is not None:
            open(os.path.join(wd, n), 'w').write(t)


SAMEHREF = {
    'A.cellml': '<?xml version="1.0" encoding="UTF-8"?>\n<model xmlns="http://www.cellml.org/cellml/2.0#" xmlns:xlink="http://www.w3.org/1999/xlink" name="A"><import xlink:href="a/m.cellml"><units name="u" units_ref="u"/></import></model>\n',
    'a/m.cellml': '<?xml version="1.0" encoding="UTF-8"?>\n<model xmlns="http://www.cellml.org/cellml/2.0#" xmlns:xlink="http://www.w3.org/1999/xlink" name="M1"><import xlink:href="b/m.cellml"><units name="u" units_ref="u"/></import></model>\n',
    'a/b/m.cellml': '<?xml version="1.0" encoding="UTF-8"?>\n<model xmlns="http://www.cellml.org/cellml/2.0#" xmlns:xlink="http://www.w3.org/1999/xlink" name="M2"><import xlink:href="a/m.cellml"><units name="u" units_ref="u"/></import></model>\n',
    'a/b/a/m.cellml': '<?xml version="1.0" encoding="UTF-8"?>\n<model xmlns="http://www.cellml.org/cellml/2.0#" name="M3"><units name="u"><unit units="metre"/></units></model>\n'}


def samehref_probe(chk, hx, kf, stats):
    """the input of known finding C07-same-relative-href, always replayed: a chain of units imports through sub-directories in
    which the same relative href ("a/m.cellml") names two different files; returns a complaint or None"""
    wd = tempfile.mkdtemp(prefix='c07s-')
    try:
        for n, t in SAMEHREF.items():
            os.makedirs(os.path.dirname(os.path.join(wd, n)), exist_ok=True)
            open(os.path.join(wd, n), 'w').write(t)
        rc, o = run_script(hx, ['importer strict', 'parse %s/A.cellml' % wd, 'resolve %s/' % wd, 'unresolved', 'flatten'])
        if rc != 0 or len(o) < 5:
            return 'the library %s on a chain of imports through sub-directories' % ('does not terminate' if rc == 'hang' else 'crashed (rc=%s)' % rc)
        got, unres, fl = o[2].split()[1] == '1', o[3].split()[1] == '1', o[4].split()[1]
        stats['samehref_probe'] = [got, unres, fl]
        if got and not unres and fl != 'null':
            return None
        if got and 'C07-same-relative-href' in kf:
            chk.known_finding(kf['C07-same-relative-href']['what'])
            return None
        return ('a chain of units imports A -> a/m.cellml -> a/b/m.cellml -> a/b/a/m.cellml (hrefs "a/m.cellml", "b/m.cellml", "a/m.cellml"; every file exists): '
                'resolveImports %s, hasUnresolvedImports() %s, flattenModel %s' % (got, unres, fl))
    finally:
        shutil.rmtree(wd, ignore_errors=True)


def issues(line, rules):
    out = []
    for m in re.findall(r'\[(\d) R(\d+) T(\d+) #([0-9a-f]*)\]', line):
        out.append((int(m[0]), rules[int(m[1])], binascii.unhexlify(m[3]).decode('utf-8', 'replace')))
    return out


def run_script(hx, cmds, timeout=30):
    try:
        r = subprocess.run([hx], input='\n'.join(cmds) + '\n', capture_output=True, text=True, timeout=timeout)
    except subprocess.TimeoutExpired:
        return 'hang', []
    return r.returncode, r.stdout.split('\n')


def run(chk, replay=None):
    lib = build_lib()
    hx = build_hx('hx_import', lib)
    leandir, ok, out, changed = standard_lean(chk, 'C07')
    chk.assumptions += [
        'worlds are sets of files in one directory (URL normalisation and sub-directories are outside the Lean model); imported files are well-formed CellML 2.0 models, missing, not XML (truncated) or foreign XML',
        '"can be satisfied" is decided by an independent oracle (pygen/worlds.py: every import reachable from the origin exists and no dependency cycle passes through an import; cycles of local unit references are a validation matter); '
        'worlds whose files import from each other although no entity depends on itself are only required to terminate, as the property says',
        'after a repair the library of the importer is emptied (Importer::removeAllModels) before the fresh resolution: caching of parsed models is documented behaviour',
        'the Lean theorems are about the model of the resolution algorithm (Cellml/Import/Model.lean), tied by comparing status and the reference rules of the issues on every generated world']
    chk.cov['trusted_base'] += ['harness/hx_import.cpp + lean/Cellml/Engine/World.lean', 'pygen/worlds.py (world generator, renderer and resolvability oracle)']
    if not ok:
        chk.violation('Lean obligations of C07 no longer check: ' + out[-1500:], {'kind': 'proof', 'theorem_or_build_log': out[-3000:]}, False)
    drv = drv_path(leandir)
    rng = random.Random(chk.seed)
    rules = tables.enum_members(open('/repo/src/api/libcellml/issue.h').read(), 'ReferenceRule')
    stats = {'worlds': 0, 'exhaustive_small': 0, 'random': 0, 'faulted': 0, 'repairs': 0, 'resolvable': 0, 'unresolvable': 0, 'excluded_file_cycles': 0, 'dangling_either': 0,
             'repair_without_clearing_fails': 0, 'known_below_local_units': 0, 'why': {}}
    oracle, corr = [], []
    kf = {f['id']: f for f in known_findings()['findings'] if f['property'] == 'C07'}
    wd = tempfile.mkdtemp(prefix='c07-')
    try:
        cases = []          # (world, label, faulted-from or None)
        if replay:
            r = json.load(open(replay))
            cases = [(r['world'], 'replay', r.get('repaired'))]
        else:
            # the input of known finding C07-imports-below-local-units, always replayed
            cases.append(({'f0.cellml': W.model([], [W.C('c0', imp=('f1.cellml', 'c0'))]),
                           'f1.cellml': W.model([W.U('u0', kids=['u1']), W.U('u1', imp=('f2.cellml', 'u0'))], [W.C('c0', units=['u0'])]),
                           'f2.cellml': W.model([W.U('u0')])}, 'probe', None))
            # corpus: a component that uses alias units (u2 = 1 u0 = 1 u1) imported from the file that also defines what they
            # are built from (flattening recursed without end before fix 9c49b9b), here with the file importing from itself
            cases.append(({'f0.cellml': W.model([W.U('u0', imp=('f1.cellml', 'u2')), W.U('u1')], [W.C('c0', imp=('f1.cellml', 'c0'))]),
                           'f1.cellml': W.model([W.U('u0', kids=['u1']), W.U('u1'), W.U('u2', imp=('f1.cellml', 'u0'))],
                                                [W.C('c0', kids=[W.C('c1', kids=[W.C('c2', units=['u2', 'u2'])], units=['second']), W.C('c3', imp=('f1.cellml', 'c2'))])])}, 'corpus', None))
            # ... and without: the alias comes from a third file, the library defines the units it is built from itself
            cases.append(({'f0.cellml': W.model([], [W.C('c0', imp=('f1.cellml', 'c0'))]),
                           'f1.cellml': W.model([W.U('u0', imp=('f2.cellml', 'u0')), W.U('u1')], [W.C('c0', units=['u0', 'u1'])]),
                           'f2.cellml': W.model([W.U('u0', kids=['u1']), W.U('u1')])}, 'corpus', None))
            small = list(itertools.chain(W.small_units_worlds(2, 2), W.small_comp_worlds(2, 2), W.small_units_worlds(3, 1), W.small_comp_worlds(3, 1)))
            if chk.tier == 'quick':
                small = rng.sample(small, 500)
            cases += [(w, 'small', None) for w in small]
            dia = list(W.diamond_worlds())
            cases += [(w, 'diamond', None) for w in dia]
            stats['diamonds'] = len(dia)
            rel = list(W.relay_worlds())
            cases += [(w, 'relay', None) for w in rel]
            stats['relays'] = len(rel)
            rho = list(W.rho_worlds())
            cases += [(w, 'rho', None) for w in rho]
            stats['rhos'] = len(rho)
            stats['exhaustive_small'] = len(small)
            n = 250 if chk.tier == 'quick' else 3000
            for _ in range(n):
                w = W.random_world(rng, cyclic=rng.choice([0.0, 0.0, 0.05, 0.15]))
                cases.append((w, 'random', None))
                if rng.random() < 0.7:
                    fw = W.apply_fault(w, rng, ORIGIN)
                    if fw:
                        cases.append((fw[0], 'fault ' + fw[1], w))
        lines, metas = [], []
        for w, label, repaired in cases:
            stats['worlds'] += 1
            stats['random'] += label == 'random'
            stats['faulted'] += label.startswith('fault')
            write_world(w, wd)
            cmds = ['importer strict', 'parse %s/%s' % (wd, ORIGIN), 'resolve %s/' % wd, 'unresolved', 'flatten']
            rc, o = run_script(hx, cmds)
            rec = {'world': w, 'label': label, 'repaired': repaired}
            if rc != 0 or len(o) < 5:
                oracle.append(('the library %s while resolving / flattening (%s)' % ('does not terminate' if rc == 'hang' else 'crashed (rc=%s)' % rc, label), rec)); continue
            got = o[2].split()[1] == '1'
            iss = issues(o[2], rules)
            unres = o[3].split()[1] == '1'
            fl = o[4].split()[1]
            fiss = issues(o[4], rules)
            strict_, lenient = W.resolvable(w, ORIGIN), W.resolvable(w, ORIGIN, dangling_ok=True)
            below = W.unvisited_imports(w, ORIGIN)
            if below and 'C07-imports-below-local-units' in kf:
                # the importer never looks below a units that is not imported: status and hasUnresolvedImports() are not
                # compared with the oracle for such a world (termination, issues on failure and the Lean model still are)
                stats['known_below_local_units'] += 1
                if got and unres:
                    chk.known_finding(kf['C07-imports-below-local-units']['what'])
                if not got:
                    errs = [i for i in iss if i[0] == 0]
                    if not errs:
                        oracle.append(('resolveImports returned false without an error issue (%s)' % label, rec)); continue
                lines.append(W.wire(w, ORIGIN)); metas.append((rec, got, [WHY.get(i[1], i[1]) for i in iss if i[0] == 0]))
                continue
            excluded = W.file_cycle(w, ORIGIN) and not W.entity_cycle(w, ORIGIN)
            if excluded:
                stats['excluded_file_cycles'] += 1
            elif strict_ != lenient:
                stats['dangling_either'] += 1
            else:
                stats['resolvable' if strict_ else 'unresolvable'] += 1
                if got != strict_:
                    oracle.append(('resolveImports returns %s although %s (%s)' % (got, 'every transitive import can be satisfied' if strict_ else 'some transitive import cannot be satisfied', label), rec)); continue
            if excluded:
                lines.append(W.wire(w, ORIGIN)); metas.append((rec, got, [WHY.get(i[1], i[1]) for i in iss if i[0] == 0]))
                continue        # only termination is required of this family; the model is still compared
            if got and unres:
                oracle.append(('resolveImports returned true but hasUnresolvedImports() is true (%s)' % label, rec)); continue
            if not got:
                errs = [i for i in iss if i[0] == 0]
                if not errs:
                    oracle.append(('resolveImports returned false without an error issue (%s)' % label, rec)); continue
                if fl != 'null' or not fiss:
                    oracle.append(('resolveImports failed but flattenModel returns %s with %d issues (%s)' % (fl, len(fiss), label), rec)); continue
            # correspondence with the Lean model
            lines.append(W.wire(w, ORIGIN)); metas.append((rec, got, [WHY.get(i[1], i[1]) for i in iss if i[0] == 0]))
            for x in metas[-1][2]:
                stats['why'][x] = stats['why'].get(x, 0) + 1
            # repair: the same importer, files restored, library emptied
            if repaired is not None and not got:
                stats['repairs'] += 1
                cmds2 = cmds[:3]
                for n_, f in repaired.items():
                    t = W.render(n_, f)
                    if t is not None:
                        cmds2.append('write %s/%s %s' % (wd, n_, t.encode().hex()))
                cmds2 += ['resolve %s/' % wd, 'clearlib', 'resolve %s/' % wd, 'unresolved']
                rc2, o2 = run_script(hx, cmds2)
                k = len(cmds2)
                if rc2 != 0 or len(o2) < k:
                    oracle.append(('the library crashed / hung in a repair sequence (%s)' % label, rec)); continue
                exp = W.resolvable(repaired, ORIGIN)
                ex2 = W.file_cycle(repaired, ORIGIN) and not W.entity_cycle(repaired, ORIGIN)
                again = o2[k - 4].split()[1] == '1'
                fresh = o2[k - 2].split()[1] == '1'
                if exp and not again:
                    stats['repair_without_clearing_fails'] += 1
                    # a file that was missing or not XML at all has left nothing in the library: once it is repaired the same
                    # importer resolves it without the library being emptied (what a parsed file leaves there is the caller's to replace)
                    if label.split()[1] in ('missing', 'notxml', 'truncate') and fresh:
                        oracle.append(('after the fault (%s) is repaired, resolveImports on the same importer still fails although the faulty file left nothing to be cached' % label, rec)); continue
                if not ex2 and exp == W.resolvable(repaired, ORIGIN, True) and fresh != exp and not (W.unvisited_imports(repaired, ORIGIN) and kf):
                    oracle.append(('after the fault (%s) is repaired and the library emptied, a fresh resolveImports on the same importer returns %s, expected %s' % (label, fresh, exp), rec)); continue
    finally:
        shutil.rmtree(wd, ignore_errors=True)
    model = run_lines_parallel(drv, ['world'], lines)[1] if os.path.exists(drv) and lines else []
    for (rec, got, why), m in zip(metas, model):
        t = m.split()
        if len(t) < 2 or t[0] != 'resolve':
            corr.append(('the import model rejects the world: ' + m[:100], rec)); continue
        if (t[1] == '1') != got:
            corr.append(('status: implementation %s, model %s' % (got, t[1]), rec)); continue
        if sorted(t[2:]) != sorted(why):
            corr.append(('reasons of the failures: implementation %s, model %s' % (why, t[2:]), rec)); continue
    chk.cov.update(evaluations=stats['worlds'] + stats['repairs'], distinct_nontrivial=stats['worlds'],
                   rule='every world of 2 files x 2 units, 2 files x 2 components, 3 files x 1 units, 3 files x 1 component (each entity a leaf, a reference to another entity of its file, or an import of any entity of any file: self-imports and cycles of every length included; a sample at the quick tier); '
                        'every depth-three world in which an imported component (or units) of a second file uses two units that are leaves or imports from a third file whose units are leaves, imports from a fourth file or refer to each other; random worlds of 2-5 files (units with child references, nested components using units, imports mostly downwards, some back-edges) and one fault each (file missing, truncated at three lengths, foreign XML, referenced entity removed), then repaired and resolved again with the same importer',
                   samples=[lines[0][:300] if lines else '', model[0][:100] if model else ''], traces_validated_against_impl=len(lines) - len(corr), exhaustive=(chk.tier == 'thorough'), outcome_histogram=stats)
    if not replay:
        sh = samehref_probe(chk, hx, kf, stats)
        if sh:
            chk.violation('import resolution is not decided correctly: ' + sh, {'kind': 'oracle', 'engine': 'files', 'files': SAMEHREF, 'why': sh}, True)
    for what, rec in oracle[:3]:
        chk.violation('import resolution is not decided correctly: ' + what, {'kind': 'oracle', 'engine': 'world', 'world': rec['world'], 'repaired': rec['repaired'], 'wire': W.wire(rec['world'], ORIGIN), 'why': what}, True)
    if not oracle:
        for what, rec in corr[:3]:
            chk.violation('import model and Importer::resolveImports disagree (correspondence `world` broken): ' + what,
                          {'kind': 'correspondence', 'engine': 'world', 'world': rec['world'], 'repaired': rec['repaired'], 'wire': W.wire(rec['world'], ORIGIN), 'why': what, 'theorem': 'Cellml.Props.C07.*'}, False)
