"""C13 — identifier assignment is complete, unique and non-destructive."""
import random, copy
from vlib.common import *
from pygen import entities as E

KINDS = {'COMPONENT': 0, 'COMPONENT_REF': 1, 'CONNECTION': 2, 'ENCAPSULATION': 3, 'IMPORT': 4, 'MAP_VARIABLES': 5, 'MATH': 6, 'MODEL': 7,
         'RESET': 8, 'RESET_VALUE': 9, 'TEST_VALUE': 10, 'UNDEFINED': 11, 'UNIT': 12, 'UNITS': 13, 'VARIABLE': 14}
AUTO = ['b4da55', 'b4da56', 'b4da57', 'b4da58', 'b4da5a', 'b4da60', 'B4DA55', '0b4da55']
IDPOOL = ['', '', '', '', 'id1', 'id2', 'x'] + AUTO


def all_vars(model):
    out = []
    def walk(c, path):
        for k in range(len(c['vars'])):
            out.append((path, k))
        for j, kid in enumerate(c['kids']):
            walk(kid, path + '.' + str(j))
    for i, c in enumerate(model['comps']):
        walk(c, str(i))
    return out


def gen_scenario(rng, nops):
    old = E.IDS
    E.IDS = IDPOOL
    try:
        m = E.gen_model(rng)
    finally:
        E.IDS = old
    vs = all_vars(m)
    equivs, conn, used = [], {}, set()
    for _ in range(rng.randint(0, 5)):
        if len(vs) < 2: break
        (p1, k1), (p2, k2) = rng.sample(vs, 2)
        # each variable takes part in at most one equivalence: with longer chains the connection-id getter goes through
        # indirectly equivalent variables in pointer order (address dependence, see C12) and is not a function of the model
        if p1 == p2 or (p1, k1) in used or (p2, k2) in used: continue
        used.add((p1, k1)); used.add((p2, k2))
        key = tuple(sorted([p1, p2]))
        if key not in conn: conn[key] = rng.choice(IDPOOL)
        equivs.append('(e %s %d %s %d %s %s)' % (p1, k1, p2, k2, E.H(rng.choice(IDPOOL)), E.H(conn[key])))
    # connections made of several variable pairs between the same two components
    comps = sorted({p for p, _ in vs})
    nshared = 0
    if len(comps) >= 2 and rng.random() < 0.8:
        pa, pb = rng.sample(comps, 2)
        va = [v for v in vs if v[0] == pa and v not in used]; vb = [v for v in vs if v[0] == pb and v not in used]
        key = tuple(sorted([pa, pb]))
        shared = rng.choice(["id1", "x", "b4da56"]) if rng.random() < 0.6 else None     # the mappings of the connection share one identifier
        for x, y in list(zip(va, vb))[:3]:
            if key not in conn: conn[key] = rng.choice(IDPOOL)
            used.add(x); used.add(y)
            equivs.append('(e %s %d %s %d %s %s)' % (x[0], x[1], y[0], y[1], E.H(shared if shared else rng.choice(IDPOOL)), E.H(conn[key])))
            nshared = nshared + 1 if shared else 0
    ops = ['(setmodel)'] if rng.random() < 0.9 else []
    if nshared >= 2:
        # "fix the duplicate": re-identify one of the mappings that share an identifier (not only the first), then look around
        ops += ['(setmodel)', '(%s 5 %d)' % (rng.choice(['assignidk', 'assignid2k']), rng.randrange(0, 4)), '(ids)', '(dups)']
    for _ in range(nops):
        r = rng.random()
        if r < 0.22: ops.append('(edit %d %s)' % (rng.randrange(0, 40), E.H(rng.choice(IDPOOL + ['b4da59', 'zz']))))
        elif r < 0.40: ops.append('(assignall)')
        elif r < 0.52: ops.append('(assignids %d)' % rng.choice(list(KINDS.values())))
        elif r < 0.50: ops.append('(assignid %d)' % rng.randrange(0, 40))
        elif r < 0.60: ops.append('(%s %d %d)' % (rng.choice(['assignidk', 'assignid2k', 'assignid2k']), rng.choice([2, 2, 5, 5, 12, 4, 1, 3, 9, 10, 14, 0]), rng.randrange(0, 6)))
        elif r < 0.64: ops.append('(editk %d %d %s)' % (rng.choice([2, 5, 12, 4, 1, 3]), rng.randrange(0, 6), E.H(rng.choice(IDPOOL + ['b4da59', 'zz']))))
        elif r < 0.70: ops.append('(clearall)')
        elif r < 0.80: ops.append('(item %s)' % E.H(rng.choice(AUTO + ['id1', 'zz'])))
        elif r < 0.85: ops.append('(count %s)' % E.H(rng.choice(AUTO + ['id1', 'x'])))
        elif r < 0.87: ops.append('(itemi %s %d)' % (E.H(rng.choice(['id1', 'id2', 'x', 'b4da55', 'zz'])), rng.choice([0, 1, 1, 2, 3, 7])))
        elif r < 0.92: ops.append('(ids)')
        elif r < 0.96: ops.append('(dups)')
        elif r < 0.975: ops.append('(printauto)')
        elif r < 0.985: ops.append('(setmodel)')
        else: ops.append('(switch)')
    if rng.random() < 0.25:
        # the annotator is handed a second model object with the same identifiers (a re-parse / clone), then used on it
        i = rng.randrange(1, len(ops) + 1)
        ops[i:i] = ['(switch)', '(item %s)' % E.H(rng.choice(IDPOOL[4:])), '(%s %d %d)' % (rng.choice(['assignidk', 'editk 2 0 #7a7a) (assignidk']), rng.choice([0, 14, 13, 7]), rng.randrange(0, 3)), '(ids)']
    if rng.random() < 0.35:
        # an item re-identified through one of its other handles, then looked at and assigned around
        k = rng.choice([2, 2, 5, 12, 4])
        ops += ['(%s %d %d)' % (rng.choice(['assignid2k', 'assignidk']), k, rng.randrange(0, 4)), '(ids)', '(dups)', '(count %s)' % E.H(rng.choice(IDPOOL[4:])), '(assignall)']
    # after an assignment, look up a run of the automatic identifiers: each must come back as the item that carries it
    out = []
    for o in ops:
        out.append(o)
        if (o.startswith('(assignall') or o.startswith('(assignids')) and rng.random() < 0.6:
            out += ['(item %s)' % E.H('%06x' % (0xb4da55 + k)) for k in range(rng.choice([6, 12, 20]))]
    ops = out
    # after an item has been re-identified, look up every identifier that items may share: each must come back as an item
    # that carries it (a mapping re-identified inside a connection whose mappings share an identifier must not take the
    # list entry of its sibling with it)
    out = []
    for o in ops:
        out.append(o)
        if o.startswith('(assignidk') or o.startswith('(assignid2k') or o.startswith('(assignid '):
            out += ['(item %s)' % E.H(i) for i in ('id1', 'id2', 'x', 'b4da55', 'b4da56')] + ['(count %s)' % E.H(rng.choice(['id1', 'id2', 'x']))]
            out += ['(itemi %s %d)' % (E.H(rng.choice(['id1', 'x', 'b4da55'])), k_) for k_ in (0, 1, 2)]
    ops = out
    if rng.random() < 0.5:
        ops.insert(rng.randrange(len(ops) + 1), '(printauto)')
    return '(annot %s (equivs %s) (ops %s))' % (E.sexp_model(m), ' '.join(equivs), ' '.join(ops))


def split_top(s):
    """top-level S-expressions of a string"""
    out, depth, start = [], 0, None
    for i, ch in enumerate(s):
        if ch == '(':
            if depth == 0: start = i
            depth += 1
        elif ch == ')':
            depth -= 1
            if depth == 0: out.append(s[start:i + 1])
    return out


def oracle(shape_line, ops, results):
    """the property's own oracle on the implementation's dumps"""
    bad = []
    sh = dict((x.split(' ', 1)[0][1:], x) for x in split_top(shape_line[1:-1]))
    kinds = [int(x) for x in sh['kinds'][1:-1].split()[1:]]
    visits = [int(x) for x in sh['visits'][1:-1].split()[1:]]
    def ids_of(res):
        m = re.search(r'\(ids([^)]*)\)\)$', res)
        return m.group(1).split()
    cur = sh['init'][1:-1].split()[1:]
    has_model = False
    for op, res in zip(ops, results):
        new = ids_of(res)
        head = op[1:-1].split()
        r = res[1:].split(' ', 1)[0] if not res.startswith('((') else 'list'
        if head[0] in ('setmodel', 'switch'): has_model = True
        if head[0] in ('assignall', 'assignids') and has_model:
            target = [i for i in visits if head[0] == 'assignall' or kinds[i] == int(head[1])]
            for i in set(target):
                if new[i] == '#': bad.append('%s left slot %d (kind %d) without an identifier' % (op, i, kinds[i]))
            for i, (o, n) in enumerate(zip(cur, new)):
                if o != '#' and o != n: bad.append('%s changed the existing identifier of slot %d' % (op, i))
                if o == '#' and n != '#' and (new.count(n) != 1 or n in cur): bad.append('%s assigned %s to slot %d although it is carried by another item' % (op, n, i))
        if head[0] in ('assignidk', 'assignid2k') and has_model:
            idx = [i for i, k in enumerate(kinds) if k == int(head[1])]
            if idx:
                i = idx[int(head[2]) % len(idx)]
                if new[i] == '#' or new[i] in cur or new.count(new[i]) != 1: bad.append('%s gave slot %d the identifier %s which is not fresh' % (op, i, new[i]))
                for j, (o, n) in enumerate(zip(cur, new)):
                    if j != i and o != n: bad.append('%s changed slot %d' % (op, j))
        if head[0] in ('assignid', 'assignid2') and has_model and int(head[1]) < len(cur):
            i = int(head[1])
            if new[i] == '#' or new[i] in cur or new.count(new[i]) != 1: bad.append('%s gave slot %d the identifier %s which is not fresh' % (op, i, new[i]))
            for j, (o, n) in enumerate(zip(cur, new)):
                if j != i and o != n: bad.append('%s changed slot %d' % (op, j))
        if head[0] == 'printauto':
            f = res[2:].split(')')[0].split()       # p unchanged missing k ids…
            gen = f[4:]
            if f[1] != '1' or new != cur: bad.append('printModel(model, true) modified the model')
            if f[2] != '0': bad.append('printModel(model, true) left %s element(s) without an identifier or dropped an existing one' % f[2])
            if len(gen) != int(f[3]): bad.append('printModel(model, true) wrote %d new identifiers for %s elements that lacked one' % (len(gen), f[3]))
            present = set(x for x, k in zip(cur, kinds) if x != '#')
            for g in gen:
                if gen.count(g) != 1 or g in present: bad.append('printModel(model, true) wrote the identifier %s which is carried by another element' % g)
        if head[0] == 'item' and has_model:
            want = head[1]
            cnt = new.count(want)
            if r.startswith('i'):
                k = int(r[1:])
                if new[k] != want or cnt != 1: bad.append('%s returned slot %d which carries %s (count %d)' % (op, k, new[k], cnt))
            elif r == 'none' and cnt == 1: bad.append('%s found nothing although exactly one item carries the identifier' % op)
            elif r == 'unknown-object': bad.append('%s returned an object that is not an item of the model' % op)
        if head[0] == 'itemi' and has_model:
            cnt, k = new.count(head[1]), int(head[2])
            if k < cnt and r != 'some': bad.append('%s: %d items carry the identifier but the lookup answered %s' % (op, cnt, r))
            if k >= cnt and r != 'none1': bad.append('%s: only %d item(s) carry the identifier; the lookup answered %s (none1 = nothing, explained by an issue)' % (op, cnt, r))
        if head[0] == 'count' and has_model and int(r[1:]) != new.count(head[1]):
            bad.append('%s returned %s, an independent traversal counts %d' % (op, r, new.count(head[1])))
        if head[0] in ('ids', 'dups') and has_model:
            got = res[1:].split(') (ids')[0][3:].split()
            want = sorted(set(x for x in new if x != '#' and (head[0] == 'ids' or new.count(x) > 1)), key=lambda h: bytes.fromhex(h[1:]))
            if got != want: bad.append('%s returned %s, an independent traversal gives %s' % (op, got, want))
        cur = new
    return bad


def run(chk, replay=None):
    lib = build_lib()
    hx = build_hx('hx_annot', lib, extra_src=[os.path.join(ROOT, 'harness', 'hx_entity.h')])
    leandir, ok, out, changed = standard_lean(chk, 'C13')
    chk.assumptions += [
        'a model is seen as a sequence of identifier slots and the visit sequence of doSetAllAutomaticIds; both are computed from the real object graph by the harness (independent traversal) and exact identifiers are compared',
        'all pairs of one connection carry the same connection id (what the parser and setEquivalenceConnectionId produce); import sources are not shared between entities',
        'each generated variable takes part in at most one equivalence: for longer equivalence chains Variable::equivalenceConnectionId walks indirectly equivalent variables in pointer order, so its value is not a function of the model (address dependence, C12)',
        'std::hash collisions of the model hash are not modelled (the snapshot is the id list itself); item(id, index) among duplicates and MathML ids are not modelled',
        'Printer::printModel(model, true): the model gives the identifiers handed out (freshIds) for the number of elements that lack one, which the harness counts in the plain print; the order in which the printer reaches the elements is not modelled (the generated identifiers are compared as a sorted list), identifiers inside MathML are ignored']
    chk.cov['trusted_base'] += ['harness/hx_annot.cpp + hx_entity.h (slot/visit computation), lean/Cellml/Engine/Annot.lean', 'python scenario generator and oracle in checks/C13.py']
    if not ok:
        chk.violation('Lean obligations of C13 no longer check: ' + out[-1500:], {'kind': 'proof', 'theorem_or_build_log': out[-3000:]}, False)
    drv = drv_path(leandir)
    if not os.path.exists(drv):
        return
    rng = random.Random(chk.seed)
    if replay:
        lines = json.load(open(replay))['lines']
    else:
        n = 150 if chk.tier == 'quick' else 1500
        lines = [gen_scenario(rng, rng.randint(2, 6 if chk.tier == 'quick' else 12)) for _ in range(n)]
        # the stored witness of the repaired defect: edit after setModel, then assignAllIds
        m = {'id': '', 'name': 'm', 'enc': '', 'units': [], 'comps': [{'id': '', 'name': 'c', 'enc': '', 'math': '', 'imp': {'src': None, 'ref': ''}, 'vars': [], 'resets': [], 'kids': []}]}
        lines.insert(0, '(annot %s (equivs ) (ops (setmodel) (edit 1 %s) (assignall) (item %s)))' % (E.sexp_model(m), E.H('b4da55'), E.H('b4da55')))
        cp = os.path.join(ROOT, 'corpus', 'C13.txt')
        if os.path.exists(cp):
            lines = [l.strip() for l in open(cp) if l.strip()] + lines
    if not replay:
        # probe of known finding C13-mathml-ids-not-collected: identifiers inside a math string
        math = '<math xmlns="http://www.w3.org/1998/Math/MathML" id="b4da55"><apply id="b4da56"><eq/><ci>a</ci><ci>b</ci></apply></math>\n'
        pm = {'id': '', 'name': 'm', 'enc': '', 'units': [], 'comps': [{'id': '', 'name': 'c', 'enc': '', 'math': math, 'imp': {'src': None, 'ref': ''}, 'vars': [], 'resets': [], 'kids': []}]}
        _, pr, _ = run_lines(hx, [], ['(annot %s (equivs ) (ops (printauto) (setmodel) (assignall)))' % E.sexp_model(pm)])
        taken = [E.H('b4da55'), E.H('b4da56')]
        hit = bool(pr) and any(t in pr[0].split('(r', 1)[-1] for t in taken)
        if hit:
            kf = [f for f in known_findings()['findings'] if f.get('id') == 'C13-mathml-ids-not-collected']
            if kf:
                chk.known_finding(kf[0]['what'])
            else:
                chk.violation('annotator violates the property: an identifier carried by a MathML element is handed out again by printModel(model, true) / assignAllIds()',
                              {'kind': 'oracle', 'engine': 'annot', 'lines': ['(annot %s (equivs ) (ops (printauto) (setmodel) (assignall)))' % E.sexp_model(pm)], 'why': pr[0][:300]}, True)
    if not replay:
        # the annotator probes of the bad-argument audit (harness/hx_badargs.cpp, shared with C09): foreign / null items are refused,
        # a shared import source is one item, an index past the last unit is refused
        hb = build_hx('hx_badargs', lib)
        rb = subprocess.run([hb], capture_output=True, text=True, timeout=1200)
        for ln in rb.stdout.split('\n'):
            if '\t' in ln and ln.startswith('annotator'):
                name, res = ln.split('\t')[:2]
                chk.cov.setdefault('annotator_probes', []).append(name)
                if res != 'ok':
                    chk.violation('annotator violates the property: %s — %s' % (name, res), {'kind': 'oracle', 'engine': 'badargs', 'probe': name, 'result': res, 'how': 'harness/hx_badargs.cpp runs the probe of that name'}, True)
    _, impl, e1 = run_lines_parallel(hx, [], lines)
    mlines, opsl = [], []
    for l, x in zip(lines, impl):
        parts = split_top(x)
        ops = split_top(l[1:-1])[-1]
        opsl.append(split_top(ops[1:-1]))
        if len(parts) == 2 and parts[0].startswith('(shape'):
            rs = split_top(parts[1][3:-1])
            ol = split_top(ops[5:-1])
            for k, o in enumerate(ol):
                if o == '(printauto)':
                    mk = re.match(r'\(\(p \d+ \d+ (\d+)', rs[k]) if k < len(rs) else None
                    ol[k] = '(printauto %s)' % (mk.group(1) if mk else '0')
            ops = '(ops %s)' % ' '.join(ol)
            mlines.append('(annot %s %s)' % (parts[0][7:-1], ops))
        else:
            mlines.append('(annot)')
    _, model, e2 = run_lines_parallel(drv, ['annot'], mlines)
    disagree, orafail = [], []
    nops = 0; hist = {}
    for l, x, y, ops in zip(lines, impl, model, opsl):
        parts = split_top(x)
        if len(parts) != 2:
            orafail.append((l, 'implementation answered: ' + x[:200])); continue
        for o in ops:
            k = o[1:-1].split()[0]; hist[k] = hist.get(k, 0) + 1
        nops += len(ops)
        results = split_top(parts[1][3:-1])
        bad = oracle(parts[0], ops, results)
        if bad:
            orafail.append((l, '; '.join(bad[:3])))
        if parts[1] != y:
            mres = split_top(y[3:-1]) if y.startswith('(r') else []
            k = next((i for i, (a, b) in enumerate(zip(results, mres)) if a != b), min(len(results), len(mres)))
            disagree.append((l, 'op %d %s: impl %s' % (k, ops[k] if k < len(ops) else '?', results[k][:300] if k < len(results) else '?'), 'model %s' % (mres[k][:300] if k < len(mres) else y[:100])))
    chk.cov.update(evaluations=nops, distinct_nontrivial=len(set(lines)),
                   rule='generated models (pre-existing, duplicated and auto-id-shaped identifiers; connections with mapping/connection ids) x random histories of setModel / direct id edits / assignAllIds / assignIds(type) / assignId(item) / clearAllIds / item / itemCount / ids / duplicateIds; '
                        'after every operation all identifiers of the real model are dumped in slot order and compared exactly; one evaluation = one operation',
                   samples=[lines[0][:300], impl[0][:300], model[0][:300]], traces_validated_against_impl=len(lines) - len(disagree), exhaustive=False, operation_histogram=hist, scenarios=len(lines))
    for l, why in orafail[:3]:
        chk.violation('annotator violates the property: ' + why, {'kind': 'oracle', 'engine': 'annot', 'lines': [l], 'why': why}, True)
    if not orafail:
        for l, x, y in disagree[:3]:
            chk.violation('annotator model and implementation disagree (correspondence `annot` broken): %s / %s' % (x, y), {'kind': 'correspondence', 'engine': 'annot', 'lines': [l], 'impl': x, 'model': y}, False)
