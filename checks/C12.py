"""C12 — operations are pure: no hidden state and no mutation of their input."""
import random, sys, tempfile, shutil, subprocess, collections
from vlib.common import *
sys.path.insert(0, os.path.join(ROOT, 'pygen'))
sys.path.insert(0, os.path.join(ROOT, 'gen'))
import docs as D
import models as M
import modules as MO
import legacy as L
import tables

SERVICES = ['parser', 'parserp', 'printer', 'validator', 'analyser', 'generator', 'importer']


def run_script(hx, cmds, timeout=120):
    try:
        r = subprocess.run([hx], input='\n'.join(cmds) + '\n', capture_output=True, text=True, timeout=timeout)
    except subprocess.TimeoutExpired:
        return 'hang', []
    return r.returncode, r.stdout.split('\n')


def strip_blanks(line):
    return re.sub(r' blanks=\S+', '', line)


class Inputs:
    def __init__(self, rng, wd, n):
        self.docs = []          # dict(file, kind, math, wsmath, analysable)
        k = 0
        def add(text, kind, analysable=False, permissive=False):
            nonlocal k
            fn = os.path.join(wd, 'd%d.cellml' % k); k += 1
            open(fn, 'w').write(text)
            inner = ''.join(re.findall(r'<math.*?</math>', text, re.S))
            self.docs.append(dict(file=fn, kind=kind, math='<math' in text, wsmath=bool(re.search(r'>\s+<', inner)), analysable=analysable, permissive=permissive, text=text))
        while len([d for d in self.docs if d['kind'] == 'doc']) < n:
            add(D.gen_doc(rng, specials=False, imports=False, resets=True), 'doc')
        while len([d for d in self.docs if d['kind'] == 'system']) < n:
            sysd = M.gen_system(rng, ncomp=rng.randint(1, 3), nq=rng.randint(2, 6), depth=rng.randint(1, 2), ode=rng.random() < 0.7, typed=True)
            try:
                M.ground_truth(sysd)
            except Exception:
                continue
            t = M.to_cellml(sysd, rng)
            if rng.random() < 0.5:
                t = re.sub(r'(<apply>)', r'\1\n        ', t)       # white space inside the MathML
            add(t, 'system', analysable=True)
        for d in [x for x in self.docs if x['kind'] == 'doc'][:max(2, n // 3)]:
            t = d['text']
            m = re.search(r'  <units name="(u\d)"', t)
            broken = t.replace(' units="volt"', ' units="no_such_units"', 1) if ' units="volt"' in t else t.replace('<model ', '<model bogus="1" ', 1)
            add(broken, 'invalid')
        for d in [x for x in self.docs if x['kind'] == 'doc' and '<reset' not in x['text']][:max(2, n // 3)]:
            try:
                add(L.to1x(d['text'], rng.choice(['1.0', '1.1']), rng), 'legacy', permissive=True)
            except Exception:
                pass
        # twins: the same document with one units defined differently (x = 3 u): what a service remembers by NAME from one
        # model must not leak into the next
        self.twins = []
        for udef in ('<unit units="second"/>', '<unit units="metre"/>', '<unit units="volt" prefix="milli"/>', '<unit units="second" exponent="-1"/>'):
            self.twins.append(len(self.docs))
            add('<?xml version="1.0" encoding="UTF-8"?>\n<model xmlns="http://www.cellml.org/cellml/2.0#" xmlns:cellml="http://www.cellml.org/cellml/2.0#" name="twin">\n'
                '  <units name="u">%s</units>\n  <component name="c">\n    <variable name="x" units="u"/>\n    <variable name="y" units="u" initial_value="1"/>\n'
                '    <math xmlns="http://www.w3.org/1998/Math/MathML">\n      <apply><eq/><ci>x</ci><apply><plus/><ci>y</ci><cn cellml:units="u">3</cn></apply></apply>\n    </math>\n  </component>\n</model>\n' % udef,
                'system', analysable=True)
        # documents without any units issue whose equations read differently in the C and in the Python profile
        self.eqdocs = []
        for rhs in ('<apply><and/><ci>y</ci><apply><abs/><ci>y</ci></apply></apply>',
                    '<piecewise><piece><pi/><apply><gt/><ci>y</ci><cn cellml:units="dimensionless">1</cn></apply></piece><otherwise><apply><arccos/><ci>y</ci></apply></otherwise></piecewise>'):
            self.eqdocs.append(len(self.docs))
            add('<?xml version="1.0" encoding="UTF-8"?>\n<model xmlns="http://www.cellml.org/cellml/2.0#" xmlns:cellml="http://www.cellml.org/cellml/2.0#" name="eq">\n'
                '  <component name="c">\n    <variable name="x" units="dimensionless"/>\n    <variable name="y" units="dimensionless" initial_value="1"/>\n'
                '    <math xmlns="http://www.w3.org/1998/Math/MathML">\n      <apply><eq/><ci>x</ci>%s</apply>\n    </math>\n  </component>\n</model>\n' % rhs, 'system', analysable=True)
        # a model whose import names a file that does not exist (resolution fails and leaves an error in the importer)
        self.bad = os.path.join(wd, 'badworld'); os.makedirs(self.bad, exist_ok=True)
        open(os.path.join(self.bad, 'origin.cellml'), 'w').write('<?xml version="1.0" encoding="UTF-8"?>\n<model xmlns="http://www.cellml.org/cellml/2.0#" xmlns:xlink="http://www.w3.org/1999/xlink" name="bad">'
                                                                 '<import xlink:href="nowhere.cellml"><component component_ref="c" name="c"/></import></model>\n')
        self.worlds = []
        for i in range(max(2, n // 3)):
            md = MO.gen(rng)
            dd = os.path.join(wd, 'w%d' % i); os.makedirs(dd)
            for nm, t in md['files'].items():
                open(os.path.join(dd, nm), 'w').write(t)
            self.worlds.append(dd)


def run(chk, replay=None):
    lib = build_lib()
    hx = build_hx('hx_purity', lib)
    gen = {'Cellml/Generated/Globals.lean': tables.globals_table(REPO)}
    leandir, ok, out, changed = standard_lean(chk, 'C12', gen)
    chk.assumptions += [
        'process-wide state is found by a textual scan of /repo/src (calls of libxml2 default / handler setters, locale, environment and random-seed functions; static variables that are not const): state reached in another way is outside the table obligation',
        'the Lean model has the one flag that the scan finds shared between services (xmlKeepBlanksDefault); it predicts for every parse of a history whether the white space of MathML is kept, and that prediction is compared with the implementation',
        'outputs are compared through canonical dumps (white space between MathML tags is insignificant there, which is what keeps the known finding from being reported at every comparison), issue lists (level, rule, description) and the exact text of printed models and generated code',
        'histories are sequential calls in one process; threads are outside']
    chk.cov['trusted_base'] += ['harness/hx_purity.cpp + lean/Cellml/Engine/Purity.lean', 'gen/tables.py: globals_table (scan of /repo/src)', 'pygen/docs.py, models.py, modules.py, legacy.py (inputs)']
    if not ok:
        chk.violation('Lean obligations of C12 no longer check (a new write of process-wide state or a new static variable re-opens writers_known / statics_known): ' + out[-1500:],
                      {'kind': 'proof', 'theorem_or_build_log': out[-3000:], 'table': gen['Cellml/Generated/Globals.lean']}, False)
    drv = drv_path(leandir)
    rng = random.Random(chk.seed)
    kf = {f['id']: f for f in known_findings()['findings'] if f['property'] == 'C12'}
    stats = collections.Counter()
    oracle, corr = [], []
    wd = tempfile.mkdtemp(prefix='c12-')
    try:
        inp = Inputs(rng, wd, 6 if chk.tier == 'quick' else 12)
        # steps: (kind, input index)
        def step_cmds(kind, i, slots, mslot, shared=None):
            """commands of one step using the service instances in `slots`; returns (commands, model op symbols, index of the observed line).
            `shared`: input index -> model slot already holding the parsed input in this history (the model OBJECT is reused)"""
            if kind in ('parse', 'parsep'):
                d = inp.docs[i]
                p = slots['parserp' if kind == 'parsep' else 'parser']
                return ['parse %d %d %s' % (p, mslot, d['file'])], ['p1' if d['math'] else 'p0'], 0
            d = inp.docs[i] if kind != 'flatten' else None
            if kind == 'flatten':
                w = inp.worlds[i]
                return ['parse %d %d %s/origin.cellml' % (slots['parser'], mslot, w), 'clearlib %d' % slots['importer'], 'resolve %d %d %s/' % (slots['importer'], mslot, w),
                        'flatten %d %d %d' % (slots['importer'], mslot, mslot + 1)], ['p1', 'a1', 'o'], 3
            if kind == 'analysenull':
                return ['analysenull %d' % slots['analyser']], ['o'], 0
            if kind == 'resolvebad':
                return ['parse %d %d %s/origin.cellml' % (slots['parser'], mslot, inp.bad), 'resolve %d %d %s/' % (slots['importer'], mslot, inp.bad)], ['p0', 'o'], 1
            if kind == 'resolveplain':
                # an import-free document resolved with whatever the importer has been through: the call starts from an empty issue list
                return ['parse %d %d %s' % (slots['parserp' if d['permissive'] else 'parser'], mslot, d['file']), 'resolve %d %d %s/' % (slots['importer'], mslot, wd)], ['p1' if d['math'] else 'p0', 'o'], 1
            if shared is not None and i in shared:
                pre, sym, mslot = [], [], shared[i]
            else:
                pre = ['parse %d %d %s' % (slots['parserp' if d['permissive'] else 'parser'], mslot, d['file'])]
                sym = ['p1' if d['math'] else 'p0']
                if shared is not None:
                    shared[i] = mslot
            n0 = len(pre)
            if kind == 'print':
                return pre + ['print %d %d' % (slots['printer'], mslot)], sym + ['pr'], n0
            if kind == 'validate':
                return pre + ['validate %d %d' % (slots['validator'], mslot)], sym + ['a1' if d['math'] else 'a0'], n0
            if kind == 'analyse':
                return pre + ['analyse %d %d' % (slots['analyser'], mslot)], sym + ['a1' if d['math'] else 'a0'], n0
            if kind == 'generate':
                return pre + ['analyse %d %d' % (slots['analyser'], mslot), 'generate %d %d %s' % (slots['generator'], slots['analyser'], 'C')], sym + ['a1' if d['math'] else 'a0', 'o'], n0 + 1
            if kind in ('eqcode', 'eqcodepy'):
                return pre + ['analyse %d %d' % (slots['analyser'], mslot), 'eqcode %d %s' % (slots['analyser'], 'D' if kind == 'eqcode' else 'PY')], sym + ['a1' if d['math'] else 'a0', 'o'], n0 + 1
            if kind == 'generatex':
                cv = ('nosuch', 'nosuch')
                for cm in re.finditer(r'<component name="(\w+)">(.*?)</component>', d['text'], re.S):
                    st = re.search(r'<diff/><bvar><ci>\w+</ci></bvar><ci>(\w+)</ci>', cm.group(2)) or re.search(r'<variable name="(\w+)"[^>]*initial_value', cm.group(2))
                    if st:
                        cv = (cm.group(1), st.group(1)); break
                return pre + ['analysex %d %d %s %s' % (slots['analyser'], mslot, cv[0], cv[1]), 'generate %d %d %s' % (slots['generator'], slots['analyser'], 'C')], sym + ['a1' if d['math'] else 'a0', 'o'], n0 + 1
            raise ValueError(kind)
        def random_step():
            kind = rng.choice(['parse', 'parse', 'parsep', 'print', 'print', 'validate', 'validate', 'analyse', 'analyse', 'generate', 'generate', 'generatex', 'generatex', 'flatten', 'eqcode', 'eqcode', 'eqcodepy', 'analysenull', 'resolvebad', 'resolveplain'])
            if kind == 'flatten':
                return kind, rng.randrange(len(inp.worlds))
            if kind in ('analysenull', 'resolvebad'):
                return kind, 0
            pool = [k for k, d in enumerate(inp.docs) if (kind != 'parse' or not d['permissive']) and (kind not in ('analyse', 'generate', 'generatex', 'eqcode', 'eqcodepy') or d['kind'] in ('system', 'doc', 'invalid')) and (kind != 'generatex' or d['kind'] == 'system')]
            return kind, rng.choice(pool)
        news = lambda base: ['new %s %d' % (s, base) for s in SERVICES]
        ref_cache = {}
        def reference(kind, i):
            if (kind, i) not in ref_cache:
                cmds, sym, k = step_cmds(kind, i, {s: 0 for s in SERVICES}, 10)
                rc, o = run_script(hx, news(0) + cmds)
                ref_cache[(kind, i)] = None if rc != 0 or len(o) < len(SERVICES) + len(cmds) else strip_blanks(o[len(SERVICES) + k])
            return ref_cache[(kind, i)]
        ntrials = 40 if chk.tier == 'quick' else 400
        hist_lines, hist_meta = [], []
        if replay:
            ntrials = 0
        for trial in range(ntrials):
            stats['histories'] += 1
            target = random_step()
            ref = reference(*target)
            if ref is None:
                oracle.append(('the library crashed on a single %s call in a fresh process' % target[0], {'target': target, 'input': inp.docs[target[1]]['text'] if target[0] != 'flatten' else inp.worlds[target[1]]})); continue
            cmds = news(0) + news(1)
            syms, observed = [], []       # observed: (line index, reference or None, description, wsmath)
            mslot = 10
            prefix = [random_step() for _ in range(rng.randint(2, 8))]
            if target[0] not in ('parse', 'parsep', 'flatten'):
                # other services on the very input of the target, so that the same model object is met again
                for kk in rng.sample(['print', 'validate', 'analyse', 'generate', 'generatex', 'eqcodepy'], 2):
                    if kk != 'generatex' or inp.docs[target[1]]['kind'] == 'system':
                        prefix.insert(rng.randrange(len(prefix) + 1), (kk, target[1]))
            plan = [(s, 0) for s in prefix] + [(target, 0), (target, 0), (target, 1)]
            shared = {} if rng.random() < 0.7 else None
            if trial % 4 == 1:
                # twins: one service instance meets two models that differ in the definition of one units
                i0, i1 = rng.sample(inp.twins, 2)
                kind = rng.choice(['analyse', 'analyse', 'validate', 'print', 'generate'])
                target = (kind, i1)
                prefix = [random_step() for _ in range(rng.randint(0, 2))] + [(kind, i0)] + [random_step() for _ in range(rng.randint(0, 2))]
                plan = [(s_, 0) for s_ in prefix] + [(target, 0), (target, 0), (target, 1)]
                shared = {} if rng.random() < 0.5 else None
            if trial % 4 == 2:
                # the static Generator::equationCode with the default profile after a call with an explicit profile (and after
                # analyses, which ask for equation code with a profile of their own when they report issues)
                systems = [k for k, d in enumerate(inp.docs) if d['kind'] in ('system', 'doc', 'invalid')]
                i0, i1 = rng.choice(inp.eqdocs + [rng.choice(systems)]), rng.choice(systems)
                target = ('eqcode', i0)
                prefix = [random_step() for _ in range(rng.randint(0, 2))] + [('eqcodepy', i1)] + [random_step() for _ in range(rng.randint(0, 1))]
                plan = [(s_, 0) for s_ in prefix] + [(target, 0), (target, 0), (target, 1)]
                shared = {} if rng.random() < 0.5 else None
            if trial % 4 == 3:
                # an importer that has just failed (its issue list holds an error) resolves a model without imports
                plain = [k for k, d in enumerate(inp.docs) if d['kind'] in ('doc', 'system')]
                target = ('resolveplain', rng.choice(plain))
                prefix = [random_step() for _ in range(rng.randint(0, 2))] + [('resolvebad', 0)] + [random_step() for _ in range(rng.randint(0, 1)) if False]
                plan = [(s_, 0) for s_ in prefix] + [(target, 0), (target, 0), (target, 1)]
                shared = None
            if trial % 4 == 0:
                # the same model object analysed under two configurations and generated with one generator
                systems = [k for k, d in enumerate(inp.docs) if d['kind'] == 'system']
                i0 = rng.choice(systems)
                first, second = rng.choice([('generate', 'generatex'), ('generatex', 'generate')])
                target = (second, i0)
                prefix = [random_step() for _ in range(rng.randint(0, 3))] + [(first, i0)] + [random_step() for _ in range(rng.randint(0, 2))]
                plan = [(s_, 0) for s_ in prefix] + [(target, 0), (target, 0), (target, 1)]
                shared = {}
            for (kind, i), inst in plan:
                c, sy, k = step_cmds(kind, i, {s: inst for s in SERVICES}, mslot, shared if kind not in ('parse', 'parsep', 'flatten') else None)
                base = len(cmds)
                cmds += c; syms += sy; mslot += 2
                observed.append((base + k, reference(kind, i), '%s of input %d with %s instances' % (kind, i, 'fresh' if inst else 'reused'), (kind, i)))
                for j, cc in enumerate(c):
                    if cc.startswith('parse '):
                        fn = cc.split()[3]
                        dd = [d for d in inp.docs if d['file'] == fn]
                        hist_meta.append((trial, base + j, dd[0]['wsmath'] if dd else None))
            rc, o = run_script(hx, cmds)
            rec = {'script': cmds, 'target': list(target)}
            if rc != 0 or len(o) < len(cmds):
                oracle.append(('the library crashed / hung in a history of service calls (rc=%s)' % rc, rec)); hist_meta = [m for m in hist_meta if m[0] != trial]; continue
            for idx, refl, what, key in observed:
                stats['calls_compared'] += 1
                got = strip_blanks(o[idx])
                if 'unchanged=0' in got:
                    oracle.append(('%s changes the model it is given' % what, dict(rec, line=o[idx]))); break
                if 'library=0' in got:
                    oracle.append(('%s changes a model of the importer library' % what, dict(rec, line=o[idx]))); break
                if refl is not None and got != refl:
                    oracle.append(('%s gives a different result after other calls than in a fresh process: %r instead of %r' % (what, got, refl), dict(rec, line=o[idx], reference=refl))); break
            hist_lines.append(('(history %s)' % ' '.join(syms), trial, o))
        # the history model: white space of MathML kept or dropped at every parse
        model = run_lines(drv, ['purity'], [h[0] for h in hist_lines])[1] if os.path.exists(drv) and hist_lines else []
        for (line, trial, o), m in zip(hist_lines, model):
            parses = [mm for mm in hist_meta if mm[0] == trial]
            bits = m.split()
            if len(bits) != len(parses):
                corr.append(('the history model answers %r for %d parses' % (m, len(parses)), line)); continue
            for (t_, idx, ws), b in zip(parses, bits):
                mo = re.search(r'blanks=(\S+)', o[idx])
                if ws and mo and mo.group(1) in '01':
                    stats['blank_bits_compared'] += 1
                    if mo.group(1) != b:
                        corr.append(('white space of MathML at a parse: implementation %s, model %s (history %s)' % (mo.group(1), b, line), line)); break
        # probe of the known finding: parse, print, parse
        wsdocs = [d for d in inp.docs if d['wsmath'] and not d['permissive']]
        if wsdocs and not replay:
            d = wsdocs[0]
            rc, o = run_script(hx, news(0) + ['parse 0 10 %s' % d['file'], 'print 0 10', 'parse 0 12 %s' % d['file']])
            if rc == 0 and len(o) > 9:
                b1, b2 = re.search(r'blanks=(\S+)', o[7]).group(1), re.search(r'blanks=(\S+)', o[9]).group(1)
                if b1 != b2:
                    if 'C12-keep-blanks' in kf:
                        chk.known_finding(kf['C12-keep-blanks']['what'])
                    else:
                        oracle.append(('the same text parsed before and after a printModel call gives different math strings (white space kept: %s, then %s)' % (b1, b2), {'script': ['parse', 'print', 'parse'], 'input': d['text']}))
    finally:
        shutil.rmtree(wd, ignore_errors=True)
    chk.cov.update(evaluations=stats['calls_compared'] + stats['blank_bits_compared'], distinct_nontrivial=stats['histories'],
                   rule='histories of 2-10 random service calls (strict / permissive parse, print, validate, analyse, generate C, analyse with an external variable + generate C, resolve + flatten; in most histories the services meet the same model object again) on generated documents (general CellML 2.0 documents, analysable systems with and without white space in their MathML, '
                        'invalid variants, CellML 1.x rewritings, import worlds) with long-lived service instances, followed by a target call with the reused instances, the same call again, and the same call with fresh instances: each compared with the call in a fresh process; '
                        'every non-mutating service must leave the dump of its argument (and of the importer library) unchanged',
                   samples=[hist_lines[0][0] if hist_lines else '', model[0] if model else ''], traces_validated_against_impl=stats['blank_bits_compared'], exhaustive=False, outcome_histogram=dict(stats))
    for what, rec in oracle[:3]:
        chk.violation('a service call is not pure: ' + what, dict(rec, kind='oracle', engine='purity', why=what), True)
    if not oracle:
        for what, line in corr[:3]:
            chk.violation('purity model and implementation disagree (correspondence `purity` broken): ' + what,
                          {'kind': 'correspondence', 'engine': 'purity', 'history': line, 'why': what, 'theorem': 'Cellml.Props.C12.after_print / after_parse_math'}, False)
