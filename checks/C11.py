"""C11 — clone() is a faithful, independent deep copy."""
import random, copy
from vlib.common import *
sys.path.insert(0, os.path.join(ROOT, 'gen'))
import tables
from pygen import entities as E
from checks.C13 import split_top, all_vars

KINDS = ['units', 'var', 'reset', 'comp', 'model']


def make_consistent(rng, m):
    """variables that name units of the model carry that units' content (what a parsed document gives); resets refer to
    variables of their own component more often than to free-standing ones"""
    byname = {}
    for u in m['units']:
        byname.setdefault(u['name'], u)
    def walk(c):
        for v in c['vars']:
            if v['units'] is not None and v['units']['name'] in byname:
                v['units'] = copy.deepcopy(byname[v['units']['name']])
        for r in c['resets']:
            for f in ('var', 'tvar'):
                if c['vars'] and rng.random() < 0.6:
                    r[f] = rng.randrange(len(c['vars']))
        for k in c['kids']: walk(k)
    for c in m['comps']: walk(c)
    return m


def own_resets(rng, c):
    for r in c['resets']:
        for f in ('var', 'tvar'):
            if c['vars'] and rng.random() < 0.6:
                r[f] = rng.randrange(len(c['vars']))
    for k in c['kids']: own_resets(rng, k)
    return c


def run(chk, replay=None):
    lib = build_lib()
    hx = build_hx('hx_clone', lib, extra_src=[os.path.join(ROOT, 'harness', 'hx_entity.h')])
    leandir, ok, out, changed = standard_lean(chk, 'C11', {'Cellml/Generated/CloneFields.lean': tables.clone_table(REPO)})
    chk.assumptions += [
        'objects carry the epoch of the call that created them; independence is tied to the code by pointer disjointness of the two reachable object graphs (all mutable state lives in the reachable entity objects)',
        'content = the wire dump (every attribute the API exposes, resets by index into their component, whether an order is set); variables that name units of the model hold units with the content of the model\'s (parser / linkUnits situation)',
        'equivalences are compared by position including mapping / connection ids; a variable may take part in several equivalences, added in random order; all pairs between two components carry the same connection id, as in a document (otherwise the connection-id getter depends on addresses: C12)']
    chk.cov['trusted_base'] += ['harness/hx_clone.cpp + hx_entity.h (builder, dumper, reachability), lean/Cellml/Engine/Clone.lean', 'python generators (pygen/entities.py)']
    if not ok:
        chk.violation('Lean obligations of C11 no longer check: ' + out[-1500:], {'kind': 'proof', 'theorem_or_build_log': out[-3000:]}, False)
    drv = drv_path(leandir)
    if not os.path.exists(drv):
        return
    rng = random.Random(chk.seed)
    lines = []
    if replay:
        lines = json.load(open(replay))['lines']
    else:
        n = 80 if chk.tier == 'quick' else 800
        for kind in KINDS:
            for _ in range(n):
                if kind == 'model':
                    m = make_consistent(rng, E.gen_model(rng))
                    vs = all_vars(m); used = set(); eq = []; conn = {}
                    for _ in range(rng.randint(0, 6)):
                        if len(vs) < 2: break
                        a, b = rng.sample(vs, 2)
                        if a[0] == b[0] or (a, b) in used or (b, a) in used: continue
                        used.add((a, b))
                        key = tuple(sorted([a[0], b[0]]))      # one connection id per pair of components, as in a document
                        if key not in conn: conn[key] = rng.choice(E.IDS)
                        eq.append('(e %s %d %s %d %s %s)' % (a[0], a[1], b[0], b[1], E.H(rng.choice(E.IDS)), E.H(conn[key])))
                    lines.append('(clone model %s (equivs %s))' % (E.sexp_model(m), ' '.join(eq)))
                elif kind == 'comp':
                    lines.append('(clone comp %s)' % E.sexp_comp(own_resets(rng, E.gen_comp(rng))))
                else:
                    lines.append('(clone %s %s)' % (kind, E.SEXP[kind](E.GEN[kind](rng))))
    _, impl, e1 = run_lines_parallel(hx, [], lines)
    _, model, e2 = run_lines_parallel(drv, ['clone'], lines)
    disagree, orafail, known = [], [], []
    hist = {}
    kf = [f for f in known_findings()['findings'] if f['property'] == 'C11']
    for l, x, y in zip(lines, impl, model):
        kind = l.split()[1]
        hist[kind] = hist.get(kind, 0) + 1
        parts = split_top(x)
        if len(parts) != 3:
            orafail.append((l, 'implementation answered: ' + x[:200])); continue
        r, orig, info = parts
        if r != y:
            disagree.append((l, r[:300], y[:300]))
        bad = []
        if r[3:-1] != orig[6:-1]:
            # first difference, for the report
            a, b = r[3:-1], orig[6:-1]
            k = next((i for i in range(min(len(a), len(b))) if a[i] != b[i]), min(len(a), len(b)))
            bad.append('content of the clone differs from the original near ...%s / ...%s' % (a[max(0, k - 40):k + 40], b[max(0, k - 40):k + 40]))
        f = dict(t.split('=', 1) for t in info[6:-1].split())
        if f['eq'] != '11': bad.append('clone->equals(original) / original->equals(clone) = %s' % f['eq'])
        if f['parent'] != '0': bad.append('the clone has a parent')
        if f['equivs'] != 'ok': bad.append('variable equivalences of the clone: ' + f['equivs'])
        shared = [k for k in f['shared'].split(',') if k and k != '-']
        if shared == ['import'] and kf:
            known.append(l)
        elif shared:
            bad.append('the clone shares objects with the original: ' + ','.join(shared))
        if bad:
            orafail.append((l, '; '.join(bad)))
    chk.cov.update(evaluations=len(lines), distinct_nontrivial=len(set(lines)),
                   rule='every kind (units, variable, reset, component, model with equivalences) of generated entities (valid or not): clone, dump both, equals both ways, parent, pointer-reachability of both graphs, equivalences by position; one evaluation = one clone() call',
                   samples=[dict(line=lines[i][:200], impl=impl[i][:200], model=model[i][:200]) for i in (0, len(lines) // 2, len(lines) - 1) if i < len(lines)],
                   traces_validated_against_impl=len(lines) - len(disagree), exhaustive=False, kind_histogram=hist, known_finding_instances=len(known))
    if known:
        chk.known_finding(kf[0]['what'] + ' (%d generated entities with imports hit it)' % len(known))
    for l, why in orafail[:3]:
        chk.violation('clone() breaks the property: ' + why, {'kind': 'oracle', 'engine': 'clone', 'lines': [l], 'why': why}, True)
    if not orafail:
        for l, x, y in disagree[:3]:
            chk.violation('clone model and implementation disagree (correspondence `clone` broken): impl %s / model %s' % (x, y), {'kind': 'correspondence', 'engine': 'clone', 'lines': [l], 'impl': x, 'model': y}, False)
