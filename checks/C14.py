"""C14 — CellML 1.0 / 1.1 documents are faithfully transformed in permissive mode."""
import random, sys, tempfile, shutil, subprocess, difflib, itertools
import xml.etree.ElementTree as ET
from vlib.common import *
sys.path.insert(0, os.path.join(ROOT, 'pygen'))
import docs as D
import legacy as L


def sec(o, a, b):
    return o[o.index('=====' + a) + len(a) + 6:o.index('=====' + b)]


def norm(d):
    d = d.replace(' #6e6f6e65 ', ' # ')                                        # interface "none" = no interface
    return re.sub(r'^(\(model \S+ id \S+ encid) \S+\)', r'\1 #)', d)           # the id of a 1.x group is not the encapsulation id


DOC = '<?xml version="1.0" encoding="UTF-8"?>\n<model xmlns="%s" name="m"><component name="c"><variable name="v" units="%s"%s/></component></model>\n'
NSV = {'10': 'http://www.cellml.org/cellml/1.0#', '11': 'http://www.cellml.org/cellml/1.1#', '20': 'http://www.cellml.org/cellml/2.0#', 'other': 'http://www.cellml.org/cellml/3.0#'}


def run(chk, replay=None):
    lib = build_lib()
    hx = build_hx('hx_roundtrip', lib)
    leandir, ok, out, changed = standard_lean(chk, 'C14')
    chk.assumptions += [
        'the Lean part covers the decisions of the transformation (interface merge, liter / meter respelling, version gate, which groups describe encapsulation); the XML surgery (namespaces, group / relationship_ref, map_components, hoisting of component-level units, cmeta:id) is checked on the implementation through matched pairs: a generated 2.0 document and its mechanical rewriting to 1.0 / 1.1 syntax (pygen/legacy.py)',
        'not expressible in 1.x and therefore not generated: resets; imports in 1.0; the id of a 1.x group is not taken as encapsulation id, the id of a 1.x connection element is dropped (the id of map_components becomes the connection id): both normalised away',
        'memory-level behaviour of the libxml2 namespace surgery is outside this check']
    chk.cov['trusted_base'] += ['harness/hx_roundtrip.cpp + lean/Cellml/Engine/Legacy.lean', 'pygen/docs.py, pygen/legacy.py (rewriter)']
    if not ok:
        chk.violation('Lean obligations of C14 no longer check: ' + out[-1500:], {'kind': 'proof', 'theorem_or_build_log': out[-3000:]}, False)
    drv = drv_path(leandir)
    rng = random.Random(chk.seed)
    kf = {f['id']: f for f in known_findings()['findings'] if f['property'] == 'C14'}
    wd = tempfile.mkdtemp(prefix='c14-')
    corr, oracle = [], []
    stats = {'decision_cases': 0, 'pairs': 0, 'v1.0': 0, 'v1.1': 0, 'known_math_respelling': 0}
    def real(text, mode):
        fn = os.path.join(wd, 'd.cellml'); open(fn, 'w').write(text)
        r = subprocess.run([hx, fn] + ([mode] if mode else []), capture_output=True, text=True, timeout=120)
        return r.stdout if '=====T2' in r.stdout else None
    try:
        # 1. decisions: every sequence of up to three interface attributes; spellings; gate
        lines, expect, docs_of = [], [], {}
        vals = ['in', 'out', 'none']
        seqs = [[]] + [[a] for a in itertools.product(['pub', 'priv'], vals)]
        seqs += [[(k1, v1), (k2, v2)] for k1, k2 in (('pub', 'priv'), ('priv', 'pub')) for v1 in vals for v2 in vals]
        for sq in seqs:
            attrs = ''.join(' %s_interface="%s"' % ('public' if k == 'pub' else 'private', v) for k, v in sq)
            o = real(DOC % (NSV['11'], 'second', attrs), 'permissive')
            m = re.search(r'\(var #76 #\w* #\w* (#\w*) ', sec(o, 'D0', 'I0')) if o else None
            got = bytes.fromhex(m.group(1)[1:]).decode() if m else '<none>'
            lines.append('(iface %s)' % ' '.join('(%s %s)' % kv for kv in sq)); expect.append(got or 'none')
        for u in ['liter', 'meter', 'litre', 'metre', 'second', 'Liter', 'meters']:
            o = real(DOC % (NSV['10'], u, ''), 'permissive')
            m = re.search(r'\(var #76 (#\w*) ', sec(o, 'D0', 'I0')) if o else None
            lines.append('(respell #%s)' % u.encode().hex()); expect.append(m.group(1) if m else '<none>')
        for strict in ('1', '0'):
            for v in ('10', '11', '20', 'other'):
                o = real(DOC % (NSV[v], 'second', ''), None if strict == '1' else 'permissive')
                loaded = '1' if (o and '(var #76' in sec(o, 'D0', 'I0')) else '0'
                lines.append('(gate %s %s)' % (strict, v)); expect.append(loaded)
        # groups: every sequence of up to three relationship_ref elements over a few relationship values (none = no attribute)
        rvals = ['encapsulation', 'containment', 'Encapsulation', 'encapsulation ', '', None]
        gseqs = [[]] + [[a] for a in rvals] + [list(p) for p in itertools.product(rvals, repeat=2)] + ([list(p) for p in itertools.product(rvals[:4] + [None], repeat=3)] if chk.tier == 'thorough' else [list(p) for p in itertools.permutations(['encapsulation', 'containment', None], 3)])
        for gs in gseqs:
            refs = ''.join('<relationship_ref%s%s/>' % ('' if v is None else ' relationship="%s"' % v, ' name="n%d"' % i if v != 'encapsulation' else '') for i, v in enumerate(gs))
            doc = '<?xml version="1.0" encoding="UTF-8"?>\n<model xmlns="%s" name="m"><component name="a"/><component name="b"/><group>%s<component_ref component="a"><component_ref component="b"/></component_ref></group></model>\n' % (NSV[rng.choice(['10', '11'])], refs)
            o = real(doc, 'permissive')
            nested = '1' if (o and re.search(r'^  \(component #62 ', sec(o, 'D0', 'I0'), re.M)) else '0'
            lines.append('(group %s)' % ' '.join('_' if v is None else '#' + v.encode().hex() for v in gs)); expect.append(nested)
        # several encapsulation groups: a random forest over up to seven components, its (child, parent) pairs dealt out to groups
        # (subtrees cut out into groups of their own, roots dealt out, groups in any order); the hierarchy of the transformed model
        # against the model's parent map (Props.C14.groups_spec)
        for k in range(40 if chk.tier == 'quick' else 400):
            names = ['n%d' % i for i in range(rng.randint(2, 7))]
            parent = {}
            for i, nm in enumerate(names[1:], 1):
                if rng.random() < 0.8:
                    parent[nm] = names[rng.randrange(i)]
            kids = {nm: [c for c in names if parent.get(c) == nm] for nm in names}
            cut = set(nm for nm in names if nm in parent and kids[nm] and rng.random() < 0.5)
            def ref(nm, top):
                sub = [] if (nm in cut and not top) else [ref(c, False) for c in kids[nm]]
                return (nm, sub)
            roots = [nm for nm in names if nm not in parent and kids[nm]] + sorted(cut)
            if not roots:
                continue
            trees = [ref(nm, True) for nm in roots]
            rng.shuffle(trees)
            ngroups = rng.randint(1, len(trees))
            groups = [[] for _ in range(ngroups)]
            for t_ in trees:
                groups[rng.randrange(ngroups)].append(t_)
            groups = [g for g in groups if g]
            def xml(t_):
                return '<component_ref component="%s"%s' % (t_[0], '/>' if not t_[1] else '>' + ''.join(xml(c) for c in t_[1]) + '</component_ref>')
            def wire(t_):
                return '(r %s%s)' % (t_[0], ''.join(' ' + wire(c) for c in t_[1]))
            comps = list(names); rng.shuffle(comps)
            doc = '<?xml version="1.0" encoding="UTF-8"?>\n<model xmlns="%s" name="m">%s%s</model>\n' % (
                NSV[rng.choice(['10', '11'])], ''.join('<component name="%s"/>' % c for c in comps),
                ''.join('<group><relationship_ref relationship="encapsulation"/>%s</group>' % ''.join(xml(t_) for t_ in g) for g in groups))
            o = real(doc, 'permissive')
            got = '<crash>'
            if o:
                stack, par = [], {}
                for l in sec(o, 'D0', 'I0').split('\n'):
                    m = re.match(r'^( *)\(component #([0-9a-f]*) ', l)
                    if m:
                        d = len(m.group(1)) // 2
                        nm = bytes.fromhex(m.group(2)).decode()
                        stack = stack[:d]
                        par[nm] = stack[-1] if stack else '-'
                        stack.append(nm)
                got = ' '.join('%s>%s' % (nm, par.get(nm, '?')) for nm in names)
            stats['group_dealings'] = stats.get('group_dealings', 0) + 1
            lines.append('(groups 1 (names %s) %s)' % (' '.join(names), ' '.join('(g %s)' % ' '.join(wire(t_) for t_ in g) for g in groups))); expect.append(got)
            docs_of[len(lines) - 1] = doc
        model = run_lines(drv, ['legacy'], lines)[1] if os.path.exists(drv) else [''] * len(lines)
        stats['decision_cases'] = len(lines)
        for l, e, m in zip(lines, expect, model):
            if e != m:
                corr.append(('%s: implementation %s, model %s' % (l, e, m), l))
        # 2. matched pairs
        n = 120 if chk.tier == 'quick' else 1200
        for k in range(1 if replay else n):
            if replay:
                r = json.load(open(replay)); text, t1, ver = r['cellml20'], r['cellml1x'], r.get('version', '1.1')
                respell = False
            else:
                ver = rng.choice(['1.0', '1.1'])
                text = D.gen_doc(rng, imports=(ver == '1.1'), resets=False)
                if rng.random() < 0.4:
                    # a user-defined units whose name merely starts with / contains a 1.x spelling: it must keep its name
                    mu = re.search(r'<units name="(u\d)"', text)
                    if mu:
                        text = text.replace('"%s"' % mu.group(1), '"%s"' % rng.choice(['meter_per_ms', 'liter_x', 'meters', 'centimeter', 'literal']))
                respell = rng.random() < 0.15
                math_cmeta = rng.random() < 0.3
                t1 = L.to1x(text, ver, rng, respell_math=respell, math_cmeta=math_cmeta)
            o2, o1, os1 = real(text, None), real(t1, 'permissive'), real(t1, None)
            if o1 is None or o2 is None or os1 is None:
                oracle.append(('the library crashed', text, t1, ver)); continue
            if sec(o2, 'I0', 'V0').strip():
                continue          # the generated 2.0 document is not accepted by the strict parser: not a matched pair
            stats['pairs'] += 1; stats['v' + ver] += 1
            d2, d1, i1 = norm(sec(o2, 'D0', 'I0')), norm(sec(o1, 'D0', 'I0')), sec(o1, 'I0', 'V0')
            strong = [l for l in i1.split('\n') if l.strip() and not l.startswith('2 ')]
            if strong:
                oracle.append(('the permissive parser reports more than messages: ' + strong[0][:200], text, t1, ver)); continue
            # every stored math string is a self-contained XML document (prefixes used by the math element itself included)
            bad_math = None
            for mh in re.findall(r'math #([0-9a-f]+)', d1):
                ms = bytes.fromhex(mh).decode('utf-8', 'replace')
                try:
                    ET.fromstring('<r>' + ms + '</r>')
                except ET.ParseError as e:
                    bad_math = (ms, str(e)); break
            if bad_math:
                oracle.append(('a math string of the transformed model is not a self-contained XML document (%s): %s' % (bad_math[1], bad_math[0][:300]), text, t1, ver)); continue
            if re.search(r'<math [^>]*cmeta:id="', t1):
                # the 1.x document carries cmeta:id on math elements where the 2.0 original has id: compared modulo that spelling
                def respell_id(m):
                    ms = bytes.fromhex(m.group(1)).decode('utf-8', 'replace')
                    ms = ms.replace(' xmlns:cmeta="http://www.cellml.org/metadata/1.0#"', '').replace(' cmeta:id="', ' id="')
                    return 'math #' + ms.encode().hex()
                d1 = re.sub(r'math #([0-9a-f]+)', respell_id, d1)
            if d1 != d2:
                hx_ = lambda t_: t_.encode().hex()
                def respelled_in_math(dd):
                    return dd.replace(hx_('cellml:units="meter"'), hx_('cellml:units="metre"')).replace(hx_('cellml:units="liter"'), hx_('cellml:units="litre"'))
                if respell and respelled_in_math(d1) == respelled_in_math(d2) and 'C14-math-respelling' in kf:
                    chk.known_finding(kf['C14-math-respelling']['what']); stats['known_math_respelling'] += 1
                else:
                    dec = lambda x: re.sub(r'#([0-9a-f]*)', lambda m: repr(bytes.fromhex(m.group(1)).decode('utf-8', 'replace')), x)
                    df = '\n'.join(dec(l)[:400] for l in list(difflib.unified_diff(d2.split('\n'), d1.split('\n'), lineterm='', n=0))[:8])
                    oracle.append(('the %s rewriting is not transformed into the content of the 2.0 original: %s' % (ver, df[:900]), text, t1, ver)); continue
            ds, iss = sec(os1, 'D0', 'I0'), sec(os1, 'I0', 'V0')
            if not any(l.startswith('0 ') for l in iss.split('\n')) or '(component' in ds:
                oracle.append(('the strict parser does not refuse the %s document' % ver, text, t1, ver))
    finally:
        shutil.rmtree(wd, ignore_errors=True)
    chk.cov.update(evaluations=stats['decision_cases'] + stats['pairs'], distinct_nontrivial=stats['pairs'],
                   rule='decisions: every sequence of up to two public_interface / private_interface attributes with values in / out / none, unit spellings, version gate x {strict, permissive}; '
                        'matched pairs: generated reset-free 2.0 documents rewritten to 1.0 / 1.1 syntax (namespace, cmeta:id, interface attributes in random order and direction, group / relationship_ref, map_components, liter / meter, units moved into a component)',
                   samples=[lines[5], expect[5], model[5]], traces_validated_against_impl=len(lines) - len(corr), exhaustive=False, outcome_histogram=stats)
    for what, text, t1, ver in oracle[:3]:
        chk.violation('CellML 1.x transformation is not faithful: ' + what, {'kind': 'oracle', 'engine': 'legacy', 'cellml20': text, 'cellml1x': t1, 'version': ver, 'why': what}, True)
    if not oracle:
        for what, l in corr[:3]:
            chk.violation('legacy decision model and parser disagree (correspondence `legacy` broken): ' + what,
                          {'kind': 'correspondence', 'engine': 'legacy', 'line': l, 'why': what, 'theorem': 'Cellml.Props.C14.merge_spec / encapsulation_iff'}, False)
