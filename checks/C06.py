"""C06 — flattening yields an import-free model with the same meaning."""
import random, sys, tempfile, shutil, subprocess, glob, binascii, collections
from vlib.common import *
sys.path.insert(0, os.path.join(ROOT, 'pygen'))
sys.path.insert(0, os.path.join(ROOT, 'checks'))
import exprs as X
import models as M
import modular as MD
import modules as MO
import C20


def iss(line):
    return [(int(m[0]), int(m[1]), binascii.unhexlify(m[3]).decode('utf-8', 'replace')) for m in re.findall(r'\[(\d) R(\d+) T(\d+) #([0-9a-f]*)\]', line)]


def flatten_world(hxi, files, wd, nlib=4):
    """writes the files, resolves and flattens origin.cellml; returns (error text or None, outputs)"""
    for f in glob.glob(wd + '/*'):
        if os.path.isfile(f):
            os.remove(f)
    for n, t in files.items():
        open(os.path.join(wd, n), 'w').write(t)
    flatf = os.path.join(wd, 'flat.out')
    cmds = ['importer strict', 'parse %s/origin.cellml' % wd, 'validate origin', 'dump origin', 'resolve %s/' % wd, 'libcount'] + ['dump lib%d' % k for k in range(nlib)] + \
           ['flatten', 'dump origin'] + ['dump lib%d' % k for k in range(nlib)] + ['hasimports flat', 'validate flat', 'dump flat', 'print flat %s' % flatf]
    try:
        r = subprocess.run([hxi], input='\n'.join(cmds) + '\n', capture_output=True, text=True, timeout=120)
    except subprocess.TimeoutExpired:
        return 'flattening does not terminate', None
    o = r.stdout.split('\n')
    if r.returncode != 0 or len(o) < len(cmds):
        return 'the library crashed while resolving / flattening (rc=%s)' % r.returncode, None
    i = 6 + nlib
    res = dict(origin_issues=iss(o[2]), origin0=o[3], resolved=o[4].split()[1] == '1', resolve_issues=iss(o[4]), lib0=o[6:6 + nlib], flat=o[i].split()[1], flat_issues=iss(o[i]),
               origin1=o[i + 1], lib1=o[i + 2:i + 2 + nlib], hasimports=o[i + 2 + nlib].split()[1], valid=iss(o[i + 3 + nlib]), dump=o[i + 4 + nlib], flatf=flatf)
    if res['origin_issues']:
        return 'skip: the importing model is not valid: %s' % res['origin_issues'][:2], res
    if not res['resolved']:
        return 'the imports of a resolvable world are not resolved: %s' % res['resolve_issues'][:2], res
    if res['flat'] != 'model':
        return 'flattenModel returns null on a resolved, valid world: %s' % res['flat_issues'][:2], res
    if res['origin0'] != res['origin1']:
        return 'flattenModel changes the model it is given', res
    if res['lib0'] != res['lib1']:
        return 'flattenModel changes a model of the library', res
    if res['hasimports'] != '0':
        return 'the flat model still has imports', res
    if res['valid']:
        return 'the flat model of valid models is not valid: %s' % res['valid'][:2], res
    return None, res


def component_names(dump_hex):
    d = binascii.unhexlify(dump_hex.split()[1][1:]).decode('utf-8', 'replace') if len(dump_hex.split()) > 1 and len(dump_hex.split()[1]) > 1 else ''
    return [binascii.unhexlify(m).decode() for m in re.findall(r'\(component #([0-9a-f]*) ', d)]


SHARED_CHILD = {
    'origin.cellml': '<?xml version="1.0" encoding="UTF-8"?>\n<model xmlns="http://www.cellml.org/cellml/2.0#" xmlns:xlink="http://www.w3.org/1999/xlink" name="main">\n'
                     '  <import xlink:href="lib.cellml"><units units_ref="U" name="U"/></import>\n  <units name="base"><unit units="ampere" prefix="milli"/></units>\n'
                     '  <units name="ref"><unit units="metre" exponent="2"/></units>\n  <component name="c1"><variable name="x" units="U" interface="public" initial_value="1"/></component>\n'
                     '  <component name="c2"><variable name="y" units="ref" interface="public"/><variable name="k0" units="base" initial_value="1"/></component>\n'
                     '  <connection component_1="c1" component_2="c2"><map_variables variable_1="x" variable_2="y"/></connection>\n</model>\n',
    'lib.cellml': '<?xml version="1.0" encoding="UTF-8"?>\n<model xmlns="http://www.cellml.org/cellml/2.0#" name="lib">\n  <units name="W"><unit units="base" exponent="3"/></units>\n'
                  '  <units name="V"><unit units="base" exponent="2"/></units>\n  <units name="U"><unit units="V" exponent="-1"/><unit units="W" exponent="1"/><unit units="base"/></units>\n'
                  '  <units name="base"><unit units="metre"/></units>\n</model>\n'}


_H = '<?xml version="1.0" encoding="UTF-8"?>\n<model xmlns="http://www.cellml.org/cellml/2.0#" xmlns:xlink="http://www.w3.org/1999/xlink" name="%s">\n'
# known finding C06-renaming-captures-mapped-units: the library's A (millisecond) is mapped onto the importer's equivalent B, then the
# library's own B (kilogram) is renamed B_1 and the by-name update of the usages also catches x
UNIT_SWAP = {
    'origin.cellml': _H % 'main' + '  <import xlink:href="lib.cellml"><component component_ref="c" name="c"/></import>\n  <units name="B"><unit prefix="milli" units="second"/></units>\n'
                     '  <component name="m"><variable name="t" units="B" initial_value="1"/></component>\n</model>\n',
    'lib.cellml': _H % 'lib' + '  <units name="A"><unit prefix="milli" units="second"/></units>\n  <units name="B"><unit prefix="kilo" units="gram"/></units>\n'
                  '  <component name="c"><variable name="x" units="A" initial_value="2"/><variable name="y" units="B" initial_value="3"/></component>\n</model>\n'}
# known finding C06-placeholder-units-written-to-the-library: the middle model's u is renamed on transfer; the update of the usages resolves the
# placeholder of the imported child d to the variable of the leaf library and re-points its units (which merely share the name u)
CHAIN2 = {
    'origin.cellml': _H % 'main' + '  <import xlink:href="mid.cellml"><component component_ref="c" name="c"/></import>\n  <units name="u"><unit prefix="milli" units="second"/></units>\n'
                     '  <component name="m"><variable name="t" units="u" initial_value="1"/></component>\n</model>\n',
    'mid.cellml': _H % 'mid' + '  <import xlink:href="leaf.cellml"><component component_ref="d" name="d"/></import>\n  <units name="u"><unit prefix="kilo" units="gram"/></units>\n'
                  '  <units name="u2"><unit units="metre"/><unit units="metre"/></units>\n  <component name="c"><variable name="x" units="u" initial_value="2"/><variable name="z" units="u2" interface="private"/></component>\n'
                  '  <connection component_1="c" component_2="d"><map_variables variable_1="z" variable_2="z"/></connection>\n'
                  '  <encapsulation><component_ref component="c"><component_ref component="d"/></component_ref></encapsulation>\n</model>\n',
    'leaf.cellml': _H % 'leaf' + '  <units name="u"><unit units="metre"/><unit units="metre"/></units>\n  <component name="d"><variable name="z" units="u" initial_value="3" interface="public"/></component>\n</model>\n'}


def renaming_probes(chk, hxi, wd, oracle, stats):
    kfs = {f['id']: f for f in known_findings()['findings'] if f['property'] == 'C06'}
    # 1. x must still be in milliseconds
    err, res = flatten_world(hxi, UNIT_SWAP, wd)
    bad = err
    if not err:
        flat = open(res['flatf']).read()
        m = re.search(r'<variable name="x" units="(\w+)"', flat)
        d = re.search(r'<units name="%s">(.*?)</units>' % (m.group(1) if m else '?'), flat, re.S)
        stats['unit_swap_probe'] = m.group(1) if m else None
        if not (d and 'second' in d.group(1)):
            bad = 'the variable x of the library (milliseconds, units A) is in %s in the flat model, defined as %s' % (m.group(1) if m else '?', ' '.join((d.group(1) if d else '?').split()))
    if bad:
        if 'C06-renaming-captures-mapped-units' in kfs and not err:
            chk.known_finding(kfs['C06-renaming-captures-mapped-units']['what'])
        else:
            oracle.append(('units change their meaning through flattening: ' + bad, {'files': UNIT_SWAP, 'kind': 'renaming-probe'}))
    # 2. the leaf library must stay as it is and the flat model must be valid
    err, res = flatten_world(hxi, CHAIN2, wd)
    stats['chain2_probe'] = err
    if err:
        if 'C06-placeholder-units-written-to-the-library' in kfs and err == 'flattenModel changes a model of the library':
            chk.known_finding(kfs['C06-placeholder-units-written-to-the-library']['what'])
        else:
            oracle.append((err, {'files': CHAIN2, 'kind': 'renaming-probe'}))


def units_import_world(rng):
    """an imported units whose definition reaches one child units through several references (U = V^a W^b, V = base^2, W = base^3), the child's
    name (and sometimes an intermediate one) clashing with different units of the importing model; a variable in U is connected to one in
    the same units spelt with standard units, so the flat model is valid only if U keeps its meaning"""
    H = '<?xml version="1.0" encoding="UTF-8"?>\n<model xmlns="http://www.cellml.org/cellml/2.0#" xmlns:xlink="http://www.w3.org/1999/xlink" name="%s">\n'
    a, b = rng.choice([1, 2, -1]), rng.choice([1, 2, 3])
    std, other = rng.choice([('kilogram', 'second'), ('metre', 'ampere'), ('second', 'kelvin')])
    three = rng.random() < 0.4
    defs = ['<units name="U"><unit units="V" exponent="%d"/><unit units="W" exponent="%d"/>%s</units>' % (a, b, '<unit units="base"/>' if three else ''),
            '<units name="V"><unit units="base" exponent="2"/></units>', '<units name="W"><unit units="base" exponent="3"/></units>', '<units name="base"><unit units="%s"/></units>' % std]
    rng.shuffle(defs)
    total = 2 * a + 3 * b + (1 if three else 0)
    if total in (1, 2, 3):
        # `ref` would be equivalent to base, V or W: the shape of known finding C06-shared-child-units-moved (probed separately)
        return units_import_world(rng)
    clash = ['<units name="base"><unit units="%s" prefix="milli"/></units>' % other]
    if rng.random() < 0.4:
        clash.append('<units name="%s"><unit units="%s" exponent="2"/></units>' % (rng.choice(['V', 'W']), other))
    users = ''.join('<variable name="k%d" units="%s" initial_value="1"/>' % (i, re.search(r'name="(\w+)"', c).group(1)) for i, c in enumerate(clash))
    origin = (H % 'main' + '  <import xlink:href="lib.cellml"><units units_ref="U" name="%s"/></import>\n' % rng.choice(['U', 'U', 'imported_u']))
    uname = re.search(r'name="(\w+)"/></import>', origin).group(1)
    body = clash + ['<units name="ref"><unit units="%s" exponent="%d"/></units>' % (std, total)]
    rng.shuffle(body)
    origin += ''.join('  ' + x + '\n' for x in body)
    origin += ('  <component name="c1"><variable name="x" units="%s" interface="public" initial_value="1"/></component>\n'
               '  <component name="c2"><variable name="y" units="ref" interface="public"/>%s</component>\n'
               '  <connection component_1="c1" component_2="c2"><map_variables variable_1="x" variable_2="y"/></connection>\n</model>\n') % (uname, users)
    return {'origin.cellml': origin, 'lib.cellml': H % 'lib' + ''.join('  ' + x + '\n' for x in defs) + '</model>\n'}


def run(chk, replay=None):
    lib = build_lib()
    hxi = build_hx('hx_import', lib)
    hxg = build_hx('hx_gencode', lib)
    hxf = build_hx('hx_flat', lib)
    leandir, ok, out, changed = standard_lean(chk, 'C06')
    chk.assumptions += [
        'the Lean part covers the re-basing of equivalences by index stacks and the choice of fresh names; cloning, the transfer and de-duplication of units and the rewriting of cn units are not modelled: '
        'that the flat model is valid, import-free and computes the same values, with the inputs unchanged, is decided on the implementation',
        '"the same meaning" is decided by construction: a generated monolithic model with known values is split into an importing model and library files without changing it (pygen/modular.py), and a family of '
        'library modules with encapsulated children has closed-form values (pygen/modules.py); the flat model is analysed, its C code executed and compared with those values',
        'flat models are compared through the analyser: one reported variable per equivalence class']
    chk.cov['trusted_base'] += ['harness/hx_import.cpp, hx_flat.cpp, hx_gencode.cpp + lean/Cellml/Engine/Flatten.lean', 'pygen/models.py (ground truth), pygen/modular.py (meaning-preserving split), pygen/modules.py (module family)', 'gcc (execution of the generated C)']
    if not ok:
        chk.violation('Lean obligations of C06 no longer check: ' + out[-1500:], {'kind': 'proof', 'theorem_or_build_log': out[-3000:]}, False)
    drv = drv_path(leandir)
    rng = random.Random(chk.seed)
    stats = collections.Counter()
    pol = collections.Counter()
    oracle, corr = [], []
    kf = {f['id']: f for f in known_findings()['findings'] if f['property'] == 'C06'}
    wd = tempfile.mkdtemp(prefix='c06-')
    try:
        # 1. correspondence: re-basing
        n = 400 if chk.tier == 'quick' else 4000
        lines = []
        def stack(k=None):
            return [rng.randrange(3) for _ in range(rng.randint(0, 4) if k is None else k)]
        for _ in range(n):
            o, d = stack(rng.randint(1, 3)), stack(rng.randint(1, 3))
            if rng.random() < 0.5:
                s = (o + stack(rng.randint(0, 3))) if rng.random() < 0.7 else stack()
                lines.append('(rebase (%s) (%s) (%s))' % (' '.join(map(str, s)), ' '.join(map(str, o)), ' '.join(map(str, d))))
            else:
                keys = sorted({tuple(o + stack(rng.randint(1, 3))) for _ in range(rng.randint(1, 4))})
                ents = []
                for k in keys:
                    ts = [(o + stack(rng.randint(1, 3))) if rng.random() < 0.7 else stack(rng.randint(1, 4)) for _ in range(rng.randint(1, 3))]
                    ents.append('(e (%s) %s)' % (' '.join(map(str, k)), ' '.join('(%s)' % ' '.join(map(str, t)) for t in ts)))
                lines.append('(rebasemap (%s) (%s) %s)' % (' '.join(map(str, o)), ' '.join(map(str, d)), ' '.join(ents)))
        impl = run_lines(hxf, [], lines)[1]
        model = run_lines(drv, ['flatten'], lines)[1] if os.path.exists(drv) else [''] * len(lines)
        for l, i, m in zip(lines, impl, model):
            if i != m:
                corr.append(('%s: implementation %r, model %r' % (l, i, m), l))
        stats['rebase_lines'] = len(lines)
        # 2. modularised ground-truth systems
        nsys = 40 if chk.tier == 'quick' else 400
        attempts = 0
        while stats['modular_systems'] < nsys and attempts < 30 * nsys and not replay:
            attempts += 1
            sysd = M.gen_system(rng, ncomp=rng.randint(2, 4), nq=rng.randint(3, 8), depth=rng.randint(1, 2), ode=rng.random() < 0.7, typed=True)
            try:
                M.ground_truth(sysd)
            except Exception:
                continue
            text = M.to_cellml(sysd, rng)
            mono = os.path.join(wd, 'mono.xml'); open(mono, 'w').write(text)
            base = C20.run_real(hxg, mono, [])
            if base is None or base['type'] not in ('ode', 'algebraic'):
                continue
            md = MD.modularise(text, rng)
            if md is None:
                continue
            stats['modular_systems'] += 1
            for p_ in md['policy'].values():
                pol[p_] += 1
            rec = {'files': md['files'], 'kind': 'modular', 'policy': md['policy']}
            err, res = flatten_world(hxi, md['files'], wd)
            if err:
                if err.startswith('skip'):
                    stats['skipped_invalid_origin'] += 1; continue
                oracle.append((err, rec)); continue
            # the units of the cn elements of the moved components: every name must exist in the flat model and, when it is not a
            # units of the monolith, be the library's cn-only units (dimensionless, no factor)
            flat_text = open(res['flatf']).read()
            fdefs = {m_.group(1): m_.group(2) for m_ in re.finditer(r'<units name="([^"]+)">(.*?)</units>', flat_text, re.S)}
            mono_units = set(re.findall(r'<units name="([^"]+)"', text))
            badcn = None
            for cname in md['moved']:
                cm_ = re.search(r'<component name="%s">(.*?)</component>' % cname, flat_text, re.S)
                mono_c = re.search(r'<component name="%s">(.*?)</component>' % cname, text, re.S)
                if not cm_ or not mono_c:
                    continue
                fu = re.findall(r'cellml:units="([^"]+)"', cm_.group(1)); mu_ = re.findall(r'cellml:units="([^"]+)"', mono_c.group(1))
                if len(fu) != len(mu_):
                    badcn = 'component %s has %d cn elements in the flat model, %d before' % (cname, len(fu), len(mu_)); break
                lib_c = None
                for lf_, lt_ in md['files'].items():
                    mm_ = re.search(r'<component name="%s">(.*?)</component>' % md['srcname'].get(cname, cname), lt_, re.S) if lf_.startswith('lib') else None
                    if mm_:
                        lib_c = re.findall(r'cellml:units="([^"]+)"', mm_.group(1))
                for j, un in enumerate(fu):
                    if un == 'dimensionless':
                        continue
                    if un not in fdefs:
                        badcn = 'cn element %d of component %s refers to units %s, which the flat model does not define' % (j, cname, un); break
                    special = lib_c is not None and j < len(lib_c) and (lib_c[j].startswith('cnu_') or (lib_c[j] == 'percent' and mu_[j] == 'dimensionless'))
                    if special and ('multiplier' in fdefs[un] or 'prefix' in fdefs[un] or 'units="dimensionless"' not in fdefs[un]):
                        badcn = 'cn element %d of component %s was in the library\'s plain dimensionless units %s and is in %s (%s) in the flat model' % (j, cname, lib_c[j], un, fdefs[un].strip()[:80]); break
                if badcn:
                    break
            if badcn:
                oracle.append(('the units of a cn element change through flattening: ' + badcn, rec)); continue
            real = C20.run_real(hxg, res['flatf'], [])
            if real is None:
                oracle.append(('the analyser crashes on the flat model', rec)); continue
            if real['type'] != base['type']:
                oracle.append(('the flat model is analysed as %s, the same model without imports as %s (%s)' % (real['type'], base['type'], real['messages'][:2]), rec)); continue
            def roles(d):
                o_ = {}
                for (c, nm), (t, i) in d['vars'].items():
                    e = M.expected_value(sysd, c, nm)
                    o_.setdefault(e[2].idx if e else (c, nm), []).append(t)
                return {k: sorted(v) for k, v in o_.items()}
            if roles(real) != roles(base):
                oracle.append(('the variables of the flat model do not have the roles they have in the same model without imports', rec)); continue
            lines_, e_ = M.run_generated_c(real['impl'], real['iface'], wd, real['type'] == 'ode')
            if e_:
                oracle.append(('the code generated from the flat model does not run: ' + e_, rec)); continue
            voi = [x for x in lines_ if x.startswith('VOI')]
            bad = None
            for l in lines_:
                t = l.split()
                if t and t[0] in ('S', 'V'):
                    e = M.expected_value(sysd, t[1], t[2])
                    if e is None:
                        bad = 'the flat model reports an unknown variable %s.%s' % (t[1], t[2]); break
                    stats['values_compared'] += 1
                    if not X.same(e[0], float(t[3])):
                        bad = 'in the flat model %s.%s = %s, the equations give %r' % (t[1], t[2], t[3], e[0]); break
                    if t[0] == 'S':
                        v = voi[0].split(); sv = M.scale(sysd['qs'][0].members[int(v[1][1:])][1])
                        er = e[2].rate / M.scale(e[2].members[int(t[1][1:])][1]) * sv
                        if not X.same(er, float(t[4])):
                            bad = 'in the flat model the rate of %s.%s = %s, the equations give %r' % (t[1], t[2], t[4], er); break
            if bad:
                oracle.append((bad, rec)); continue
            stats['modular_ok'] += 1
        # 3. module family: encapsulated children, internal connections, repeated imports, clashes
        nmod = 60 if chk.tier == 'quick' else 600
        name_lines, name_meta = [], []
        cases = []
        if replay:
            r = json.load(open(replay))
            if r.get('module'):
                cases = [r['module']]
        else:
            cases = [MO.gen(rng) for _ in range(nmod)]
        for md in cases:
            stats['module_worlds'] += 1
            rec = {'files': md['files'], 'kind': 'module', 'opts': md['opts'], 'module': md}
            err, res = flatten_world(hxi, md['files'], wd)
            if err:
                oracle.append((err, rec)); continue
            real = C20.run_real(hxg, res['flatf'], [])
            if real is None:
                oracle.append(('the analyser crashes on the flat model', rec)); continue
            if real['type'] != 'algebraic':
                oracle.append(('the flat model is analysed as %s instead of algebraic (%s)' % (real['type'], real['messages'][:2]), rec)); continue
            lines_, e_ = M.run_generated_c(real['impl'], real['iface'], wd, False)
            if e_:
                oracle.append(('the code generated from the flat model does not run: ' + e_, rec)); continue
            vals = {}
            for l in lines_:
                t = l.split()
                if t and t[0] == 'V':
                    vals.setdefault(t[1], {})[t[2]] = float(t[3])
            allowed = {}
            for c, d in md['expect'].items():
                for v, e in d.items():
                    allowed[(c, v)] = [e]
            for key_, es in md['multi'].items():
                allowed[tuple(key_.split('.'))] = es
            nrep, bad = 0, None
            for c in vals:
                basec = 'outer' if re.match(r'm\d+$', c) else re.sub(r'_\d+$', '', c)
                for v, g in vals[c].items():
                    nrep += 1
                    es = allowed.get((basec, v))
                    if es is None:
                        if v == 'zz':
                            continue
                        bad = 'the flat model reports an unknown variable %s.%s' % (c, v); break
                    stats['values_compared'] += 1
                    if not any(X.same(g, e) for e in es):
                        bad = 'in the flat model %s.%s = %r, the module gives one of %s' % (c, v, g, es); break
                if bad:
                    break
            if not bad and 'total' not in vals.get('main', {}):
                bad = 'main.total is not computed by the flat model'
            want = 3 * md['n'] + 2 + (1 if md['opts']['clash_comp'] not in (None, 'm1') else 0) + md.get('nown', 0)
            if not bad and md.get('nown'):
                # the components of the importing model that are encapsulated in the instance: all there, with their own units
                dd = binascii.unhexlify(res['dump'].split()[1][1:]).decode('utf-8', 'replace')
                ms_def = re.search(r"\(units #%s [^\n]*" % 'ms'.encode().hex(), dd)
                for j in range(md['nown']):
                    mo = re.search(r"\(component #%s [^\n]*?\(var #%s (#[0-9a-f]*) " % (('own%d' % j).encode().hex() + '(?:5f[0-9a-f]+)?', 'zz'.encode().hex()), dd)
                    if not mo:
                        bad = 'the component own%d that the importing model encapsulates in the import is missing from the flat model' % j; break
                    un = bytes.fromhex(mo.group(1)[1:]).decode()
                    ud = re.search(r"\(units #%s [^\n]*" % un.encode().hex(), dd)
                    if ud is None or 'second'.encode().hex() not in ud.group(0):
                        if md['opts']['mv'] == 'ms' and 'C06-own-children-units-captured' in kf:
                            chk.known_finding(kf['C06-own-children-units-captured']['what']); stats['known_units_captured'] += 1
                        else:
                            bad = 'the variable of own%d, declared in milliseconds by the importing model, has units %s in the flat model, which are not a millisecond' % (j, un); break
            if not bad:
                # the constant of leafB (a grandchild of the instance when the module is two levels deep) is in volt, whatever
                # its units are called in the flat model
                ft = open(res['flatf']).read() if os.path.exists(res['flatf']) else ''
                udefs = {m_.group(1): m_.group(2) for m_ in re.finditer(r'<units name="([^"]+)">(.*?)</units>', ft, re.S)}
                def reduce_(un, depth=0):
                    """exponents of the standard units a units name reduces to (standard names taken as independent), None = undefined;
                    prefixes and multipliers make the result differ from plain volt on purpose"""
                    if un == 'dimensionless':
                        return {}
                    if un not in udefs:
                        return {un: 1.0} if un in ('volt', 'second', 'metre', 'ampere', 'kilogram', 'mole', 'kelvin', 'candela') else None
                    if depth > 8:
                        return None
                    out = {}
                    for ch in re.findall(r'<unit ([^>]*)/>', udefs[un]):
                        at = dict(re.findall(r'(\w+)="([^"]*)"', ch))
                        sub = reduce_(at.get('units', ''), depth + 1)
                        if sub is None:
                            return None
                        if at.get('prefix') or at.get('multiplier'):
                            out['scaled'] = out.get('scaled', 0) + 1
                        for k_, e_ in sub.items():
                            out[k_] = out.get(k_, 0) + e_ * float(at.get('exponent', '1'))
                    return {k_: e_ for k_, e_ in out.items() if e_ != 0}
                for cm in re.finditer(r'<component name="(leafB[^"]*)".*?</component>', ft, re.S):
                    for un in re.findall(r'<cn[^>]*cellml:units="([^"]+)"', cm.group(0)):
                        stats['cn_units_of_grandchildren'] = stats.get('cn_units_of_grandchildren', 0) + 1
                        if reduce_(un) != ({'volt': 1.0, 'second': -1.0} if md['opts'].get('cu_compound') else {'volt': 1.0}):
                            bad = 'the constant of %s, in volt (per second when spelt with two units) in the library, is in units %s in the flat model, which reduce to %s (%s)' % (cm.group(1), un, reduce_(un), re.sub(r'\s+', ' ', udefs.get(un, 'undefined')).strip()); break
                    if bad:
                        break
            want += 1 if md['opts'].get('cu_clash') else 0
            want += 2 * md['n'] if md['opts'].get('cu_compound') else 0
            if not bad and nrep != want:
                bad = '%d variables are reported by the flat model, %d equivalence classes are expected' % (nrep, want)
            if bad:
                oracle.append((bad, rec)); continue
            # names of the components of the flat model vs the fresh-name model
            names = component_names(res['dump'])
            used = ['m%d' % (i + 1) for i in range(md['n'])] + ['main'] + ([md['opts']['clash_comp']] if md['opts']['clash_comp'] not in (None, 'm1') else [])
            sub = (['mid'] if md['depth'] == 2 else []) + ['leafA', 'leafB']
            if md.get('nown'):
                stats['module_ok'] += 1
                continue        # the names of components moved across with the instance are outside the fresh-name model
            name_lines.append('(names (%s) (%s) %d)' % (' '.join(used), ' '.join(sub), md['n'])); name_meta.append((sorted(names), rec))
            stats['module_ok'] += 1
        # a subtree with the names a and a_1 imported into a model that has a component a: the renamed a must not take a_1
        if not replay:
            twin = {'lib.cellml': '<?xml version="1.0" encoding="UTF-8"?>\n<model xmlns="http://www.cellml.org/cellml/2.0#" name="lib">\n'
                                  '  <component name="outer"><variable name="x" units="second" interface="private" initial_value="1"/></component>\n'
                                  '  <component name="a"><variable name="x" units="second" interface="public"/></component>\n'
                                  '  <component name="a_1"><variable name="y" units="second" interface="public" initial_value="2"/></component>\n'
                                  '  <connection component_1="outer" component_2="a"><map_variables variable_1="x" variable_2="x"/></connection>\n'
                                  '  <encapsulation><component_ref component="outer"><component_ref component="a"/><component_ref component="a_1"/></component_ref></encapsulation>\n</model>\n',
                    'origin.cellml': '<?xml version="1.0" encoding="UTF-8"?>\n<model xmlns="http://www.cellml.org/cellml/2.0#" name="main">\n'
                                     '  <import xmlns:xlink="http://www.w3.org/1999/xlink" xlink:href="lib.cellml"><component component_ref="outer" name="m1"/></import>\n'
                                     '  <component name="a"><variable name="z" units="second" initial_value="3"/></component>\n</model>\n'}
            stats['module_worlds'] += 1
            err, res = flatten_world(hxi, twin, wd)
            rec = {'files': twin, 'kind': 'twin-names'}
            if err:
                oracle.append((err, rec))
            else:
                name_lines.append('(names (m1 a) (a a_1) 1)'); name_meta.append((sorted(component_names(res['dump'])), rec))
        if not replay:
            renaming_probes(chk, hxi, wd, oracle, stats)
        # the input of known finding C06-shared-child-units-moved, always replayed
        if not replay:
            err, res = flatten_world(hxi, SHARED_CHILD, wd)
            stats['shared_child_probe'] = (res or {}).get('valid')
            if res and res.get('resolved') and res.get('flat') == 'model' and res.get('valid'):
                kfs = {f['id']: f for f in known_findings()['findings'] if f['property'] == 'C06'}
                if 'C06-shared-child-units-moved' in kfs:
                    chk.known_finding(kfs['C06-shared-child-units-moved']['what'])
                else:
                    oracle.append(('imported units change their meaning through flattening: the flat model is not valid: %s' % res['valid'][:1], {'files': SHARED_CHILD, 'kind': 'units-import'}))
            elif not res or not res.get('resolved') or res.get('flat') != 'model':
                oracle.append(('the shared-child probe is not resolved / flattened: %s' % err, {'files': SHARED_CHILD, 'kind': 'units-import'}))
        # imported units whose definition reaches a clashing child units through several references
        for _ in range(0 if replay else (25 if chk.tier == 'quick' else 250)):
            uw = units_import_world(rng)
            stats['units_import_worlds'] = stats.get('units_import_worlds', 0) + 1
            err, res = flatten_world(hxi, uw, wd)
            rec = {'files': uw, 'kind': 'units-import'}
            if err and err.startswith('skip') and res:
                # before the imports are resolved the validator cannot know what the imported units are (it reports the connection):
                # what counts is the flat model, valid exactly when U has kept its meaning
                if not res['resolved'] or res['flat'] != 'model':
                    oracle.append(('the imports of a resolvable world are not resolved / flattened: %s' % (res['resolve_issues'] + res['flat_issues'])[:2], rec))
                elif res['valid']:
                    oracle.append(('imported units change their meaning through flattening: the flat model is not valid: %s' % res['valid'][:1], rec))
                elif res['lib0'] != res['lib1'] or res['hasimports'] != '0':
                    oracle.append(('flattenModel changes a model of the library or leaves imports', rec))
            elif err:
                oracle.append((err, rec))
        model = run_lines(drv, ['flatten'], name_lines)[1] if os.path.exists(drv) and name_lines else []
        for (names, rec), m in zip(name_meta, model):
            if sorted(m.split()) != names:
                corr.append(('component names of the flat model: implementation %s, model %s' % (names, sorted(m.split())), rec))
    finally:
        shutil.rmtree(wd, ignore_errors=True)
    hist = dict(stats); hist['units_policies'] = dict(pol)
    chk.cov.update(evaluations=stats['rebase_lines'] + stats['modular_systems'] + stats['module_worlds'], distinct_nontrivial=stats['modular_systems'] + stats['module_worlds'],
                   rule='index stacks and equivalence maps over small indices (targets inside and outside the origin) through the real rebaseIndexStack / rebaseEquivalenceMap; generated ground-truth systems split into an importing model and '
                        '1-2 library files (components imported under the same or another name, one import element per component or shared; library units under the same names, renamed, clashing with other units of the importer, imported from a third file directly, renamed, '
                        'through an intermediate units, with a clashing intermediate units; units used by one cn only); a module family (component with children one or two levels deep, sibling and parent-child connections, 1-3 instances, clashing component and units names, units imported)',
                   samples=[lines[0] if lines else '', impl[0] if impl else ''], traces_validated_against_impl=stats['rebase_lines'] + len(name_lines) - len(corr), exhaustive=False, outcome_histogram=hist)
    for what, rec in oracle[:3]:
        chk.violation('flattening does not give an import-free model with the same meaning: ' + what, dict(rec, kind='oracle', engine='flatten', why=what), True)
    if not oracle:
        for what, rec in corr[:3]:
            chk.violation('flatten model and implementation disagree (correspondence `flatten` broken): ' + what,
                          {'kind': 'correspondence', 'engine': 'flatten', 'input': rec, 'why': what, 'theorem': 'Cellml.Props.C06.rebase_under / fresh_not_used'}, False)
