"""C19 — model repair helpers establish what they promise."""
import random, copy
from vlib.common import *
from pygen import entities as E
from checks.C13 import split_top, all_vars

STD = ['second', 'metre', 'volt', 'dimensionless']


def parent(p):
    return p.rsplit('.', 1)[0] if '.' in p else '-'


def rel(pv, pe):
    if parent(pv) == parent(pe): return 'sibling'
    if parent(pv) == pe: return 'vChildOfE'
    if parent(pe) == pv: return 'vParentOfE'
    return 'unreachable'


def required(rels):
    pub = priv = False
    for r in rels:
        if r in ('sibling', 'vChildOfE'): pub = True
        elif r == 'vParentOfE': priv = True
        else: return None
    return {(True, True): 'public_and_private', (True, False): 'public', (False, True): 'private'}.get((pub, priv))


def gen_fix(rng):
    m = E.gen_model(rng)
    for _ in range(4):
        if len(all_vars(m)) >= 3: break
        m = E.gen_model(rng)
    def strip(c):
        # resets built by the harness refer to free-standing variables, on which Validator::validateReset dereferences a
        # null owning component (memory safety: C01/C09) - they play no role for interfaces
        c['resets'] = []
        c['imp'] = {'src': None, 'ref': ''}       # the validator skips the connections of imported components
        for v in c['vars']: v['units'] = None     # unit mismatches of equivalent variables are reported under the same rule
        for k in c['kids']: strip(k)
    for c in m['comps']: strip(c)
    vs = all_vars(m)
    equivs, seen, rels = [], set(), {}
    for _ in range(rng.randint(1, 7)):
        if not vs: break
        a = rng.choice(vs)
        r = rng.random()
        if r < 0.74 and len(vs) > 1:
            b = rng.choice(vs)
            if a == b or (a, b) in seen or (b, a) in seen: continue
            seen.add((a, b))
            equivs.append(('(e %s %d (in %s %d))' % (a[0], a[1], b[0], b[1]), '(e %s %d (in %s %d))' % (a[0], a[1], b[0], b[1])))
            rels.setdefault(a, []).append(rel(a[0], b[0])); rels.setdefault(b, []).append(rel(b[0], a[0]))
        elif r < 0.84:
            b = rng.choice(vs)
            equivs.append(('(e %s %d (out %s %d))' % (a[0], a[1], b[0], b[1]), '(e %s %d (out))' % (a[0], a[1])))
            rels.setdefault(a, []).append('unreachable')
        elif r < 0.92:
            equivs.append(('(e %s %d (loosecomp))' % a, '(e %s %d (out))' % a))
            rels.setdefault(a, []).append('unreachable')
        else:
            equivs.append(('(e %s %d (loosevar))' % a, '(e %s %d (loosevar))' % a))
            rels.setdefault(a, []).append('parentless')
    return m, equivs, rels


def py_clean(m):
    def ct(c):
        kids = [k for k in (ct(k) for k in c['kids']) if k is not None]
        if not c['vars'] and not c['resets'] and not kids and c['math'] == '' and c['imp']['src'] is None and c['name'] == '' and c['id'] == '':
            return None
        return '(c %s %s %d %d%s)' % (E.H(c['name']), E.H(c['id']), len(c['vars']), len(c['resets']), ''.join(' ' + k for k in kids))
    comps = [k for k in (ct(c) for c in m['comps']) if k is not None]
    units = [u for u in m['units'] if not (u['imp']['src'] is None and u['name'] == '' and u['id'] == '' and not u['children'])]
    return '(r (comps%s) (units%s))' % (''.join(' ' + c for c in comps), ''.join(' %s|%s' % (E.H(u['name']), E.H(u['id'])) for u in units))


def gen_clean(rng):
    m = E.gen_model(rng)
    def blank(c, depth):
        if rng.random() < 0.45:
            c['name'] = ''; c['id'] = ''
        if rng.random() < 0.5: c['math'] = ''
        if rng.random() < 0.5: c['vars'] = []
        if rng.random() < 0.6: c['resets'] = []
        if rng.random() < 0.8: c['imp'] = {'src': None, 'ref': ''}
        if depth > 0 and rng.random() < 0.5:
            c['kids'].append({'id': '', 'name': '', 'enc': rng.choice(['', 'e1']), 'math': '', 'imp': {'src': None, 'ref': rng.choice(['', 'r'])}, 'vars': [], 'resets': [], 'kids': []})
        for k in c['kids']: blank(k, depth - 1)
    for c in m['comps']: blank(c, 2)
    if rng.random() < 0.6:
        m['comps'].append({'id': '', 'name': '', 'enc': '', 'math': '', 'imp': {'src': None, 'ref': ''}, 'vars': [], 'resets': [], 'kids': []})
    for u in m['units']:
        if rng.random() < 0.4: u['name'] = ''; u['id'] = ''
        if rng.random() < 0.5: u['children'] = []
        if rng.random() < 0.8: u['imp'] = {'src': None, 'ref': ''}
    if rng.random() < 0.6:
        m['units'].insert(rng.randint(0, len(m['units'])), {'id': '', 'name': '', 'imp': {'src': None, 'ref': ''}, 'children': []})
    return m


def run(chk, replay=None):
    lib = build_lib()
    hx = build_hx('hx_repair', lib, extra_src=[os.path.join(ROOT, 'harness', 'hx_entity.h')])
    leandir, ok, out, changed = standard_lean(chk, 'C19')
    chk.assumptions += [
        'a variable is seen through the relative positions of its equivalent variables (sibling / parent / child / unreachable / parentless), computed from component paths; "unreachable" covers another model and a parentless component',
        'the validator interface check is compared per variable as "involved in a MAP_VARIABLES_ELEMENT issue" (its report of an unreachable pair is de-duplicated across the two ends)',
        'linkUnits: a units object is standard / owned by this model / owned by another model / without a model; unit children and imports of units are not otherwise modelled; clean: components and units by the fields the documented definition mentions']
    chk.cov['trusted_base'] += ['harness/hx_repair.cpp + hx_entity.h, lean/Cellml/Engine/Repair.lean', 'python generators and reference (checks/C19.py)']
    if not ok:
        chk.violation('Lean obligations of C19 no longer check: ' + out[-1500:], {'kind': 'proof', 'theorem_or_build_log': out[-3000:]}, False)
    drv = drv_path(leandir)
    if not os.path.exists(drv):
        return
    rng = random.Random(chk.seed)
    n = 120 if chk.tier == 'quick' else 1200
    cases = []     # (kind, hx line, aux)
    if replay:
        r = json.load(open(replay))
        cases = [(r['case'], l, r.get('aux')) for l in r['lines']]
    else:
        old = E.IFACES
        E.IFACES = ['', '', 'none', 'public', 'private', 'public_and_private', 'bogus', 'xpublicx', 'PUBLIC']
        try:
            # corpus: the early-exit witness (fix 9bfe6a9): A.v ~ B.w (sibling), A.v ~ A1.x (child), A.v ~ A/A1/A11.z (unreachable)
            blank = lambda n, kids, nv: {'id': '', 'name': n, 'enc': '', 'math': '', 'imp': {'src': None, 'ref': ''}, 'vars': [{'id': '', 'name': 'v%d' % i, 'initial': '', 'iface': '', 'units': None} for i in range(nv)], 'resets': [], 'kids': kids}
            wm = {'id': '', 'name': 'm', 'enc': '', 'units': [], 'comps': [blank('A', [blank('A1', [blank('A11', [], 1)], 1)], 1), blank('B', [], 1)]}
            we = [('(e 0 0 (in 1 0))',) * 2, ('(e 0 0 (in 0.0 0))',) * 2, ('(e 0 0 (in 0.0.0 0))',) * 2]
            cases.append(('fix', '(fix %s (equivs %s))' % (E.sexp_model(wm), ' '.join(x[0] for x in we)),
                          (we, {('0', 0): ['sibling', 'vParentOfE', 'unreachable'], ('1', 0): ['sibling'], ('0.0', 0): ['vChildOfE'], ('0.0.0', 0): ['unreachable']})))
            for _ in range(n):
                m, eq, rels = gen_fix(rng)
                cases.append(('fix', '(fix %s (equivs %s))' % (E.sexp_model(m), ' '.join(x[0] for x in eq)), (eq, rels)))
        finally:
            E.IFACES = old
        for _ in range(n):
            m = E.gen_model(rng)
            names = [u['name'] for u in m['units']]
            refs = []
            for (p, k) in all_vars(m):
                kind = rng.choice(['none', 'standard', 'linked', 'foreign', 'loose', 'loose', 'loosechild'])
                name = rng.choice(STD) if kind in ('standard', 'loosechild') else (rng.choice(names) if names and (kind == 'linked' or rng.random() < 0.6) else rng.choice(['zz', 'mV', 'second']))
                if kind == 'linked' and not names: kind = 'loose'
                refs.append('(u %s %d %s %s)' % (p, k, kind, E.H(name)))
            cases.append(('link', '(link %s (refs %s))' % (E.sexp_model(m), ' '.join(refs)), None))
        for _ in range(n):
            m = gen_clean(rng)
            cases.append(('clean', '(clean %s)' % E.sexp_model(m), m))
    lines = [c[1] for c in cases]
    _, impl, e1 = run_lines_parallel(hx, [], lines)
    mlines = []
    for (kind, l, aux), x in zip(cases, impl):
        parts = split_top(x)
        if kind == 'fix' and len(parts) == 2 and aux is not None:
            mlines.append('(fix %s (equivs %s))' % (parts[0], ' '.join(e[1] for e in aux[0])))
        elif kind == 'fix' and len(parts) == 2:
            mlines.append('(fix %s %s)' % (parts[0], re.sub(r'\((out|loosecomp)[^)]*\)', '(out)', split_top(l[1:-1])[-1])))
        elif kind == 'link' and len(parts) == 3:
            mlines.append('(link %s %s)' % (parts[0], parts[1][8:-1]))
        elif kind == 'clean':
            mlines.append(l)
        else:
            mlines.append('(bad)')
    _, model, e2 = run_lines_parallel(drv, ['repair'], mlines)
    disagree, orafail = [], []
    hist = {}
    for (kind, l, aux), x, y in zip(cases, impl, model):
        parts = split_top(x)
        res = parts[-1] if parts else x
        hist[kind] = hist.get(kind, 0) + 1
        if not res.startswith('(r'):
            orafail.append((kind, l, 'implementation answered: ' + x[:200], aux)); continue
        if res != y:
            disagree.append((kind, l, res[:400], y[:400], aux))
        # property oracle on the implementation
        if kind == 'fix' and aux is not None:
            eq, rels = aux
            vars_ = [(v.split()[1], int(v.split()[2]), v.split()[3][:-1]) for v in split_top(parts[0][6:-1])]
            witheq = [(p, k, i) for (p, k, i) in vars_ if (p, k) in rels]
            rows = [r[1:-1].split()[1:] for r in split_top(res[3:-1])[0:]] if len(res) > 5 else []
            okflag = res[3]
            anybad = any(required(rels[(p, k)]) is None for (p, k, i) in witheq)
            if (okflag == '1') == anybad:
                orafail.append((kind, l, 'fixVariableInterfaces returned %s but %s equivalence is unreachable or parentless' % (okflag, 'some' if anybad else 'no'), aux))
            for (p, k, before), row in zip(witheq, rows):
                after, ib, ia = bytes.fromhex(row[0][1:]).decode(), row[1], row[2]
                before = bytes.fromhex(before[1:]).decode()
                need = required(rels[(p, k)])
                if need is not None:
                    if ia != '0': orafail.append((kind, l, 'variable %s[%d] still has a validator interface issue after the fix (interface %r, required %s)' % (p, k, after, need), aux))
                    suff = before == 'public_and_private' or before == need
                    if suff and after != before: orafail.append((kind, l, 'variable %s[%d]: sufficient interface %r was changed to %r' % (p, k, before, after), aux))
                    if not suff and after != need: orafail.append((kind, l, 'variable %s[%d]: interface %r not repaired to %s (now %r)' % (p, k, before, need, after), aux))
                elif after != before:
                    orafail.append((kind, l, 'variable %s[%d] with an unreachable equivalence was modified' % (p, k), aux))
        if kind == 'link':
            t = res[3:-1].split(' ', 3)
            ub, okf, ua = t[0], t[1], t[2]
            rest = t[3] if len(t) > 3 else ''
            if okf == '1' and (ua != '0' or '(u loose' in rest or '(u foreign' in rest or 'not-the-models-object' in rest):
                orafail.append((kind, l, 'linkUnits returned true but a variable is not linked to the model\'s own units: ' + rest[:200], aux))
        if kind == 'clean' and aux is not None:
            want = py_clean(aux)
            if res != want:
                orafail.append((kind, l, 'clean() left %s, the documented definition gives %s' % (res[:300], want[:300]), aux))
    chk.cov.update(evaluations=len(cases), distinct_nontrivial=len(set(lines)),
                   rule='fix: generated models with arbitrary interface strings and equivalences across sibling / parent / child / unreachable positions, other models, parentless components and variables; '
                        'link: variables naming units by loose object, standard name, own-model object, foreign object; clean: models seeded with empty components/units at every depth; one evaluation = one model',
                   samples=[dict(case=cases[i][0], impl=impl[i][:300], model=model[i][:300]) for i in (0, 1, len(cases) // 2, len(cases) - 1) if i < len(cases)],
                   traces_validated_against_impl=len(cases) - len(disagree), exhaustive=False, case_histogram=hist)
    for kind, l, why, aux in orafail[:3]:
        chk.violation('repair helper breaks its promise (%s): %s' % (kind, why), {'kind': 'oracle', 'engine': 'repair', 'case': kind, 'lines': [l], 'why': why}, True)
    if not orafail:
        for kind, l, x, y, aux in disagree[:3]:
            chk.violation('repair model and implementation disagree (correspondence `repair` %s broken): impl %s / model %s' % (kind, x, y),
                          {'kind': 'correspondence', 'engine': 'repair', 'case': kind, 'lines': [l], 'impl': x, 'model': y}, False)
