"""C04 — the validator accepts valid models and rejects every rule violation."""
import random, sys, tempfile, shutil, subprocess
from vlib.common import *
sys.path.insert(0, os.path.join(ROOT, 'pygen'))
sys.path.insert(0, os.path.join(ROOT, 'gen'))
import docs as D
import tables

MML = 'http://www.w3.org/1998/Math/MathML'
MATH = '<math xmlns="%s"><apply><eq/>%%s%%s</apply></math>' % MML
TV = '<test_value><math xmlns="%s">%%s</math></test_value>' % MML
RV = '<reset_value><math xmlns="%s">%%s</math></reset_value>' % MML
CN = '<cn cellml:units="second">1</cn>'

# (name, where, element text, rules of which at least one must be cited by an error)
COMPONENT_FAULTS = [
    ('variable-name-not-an-identifier', '<variable name="9x" units="second"/>', ['VARIABLE_NAME_VALUE', 'DATA_REPR_IDENTIFIER_BEGIN_EURO_NUM', 'DATA_REPR_IDENTIFIER_LATIN_ALPHANUM', 'DATA_REPR_IDENTIFIER_AT_LEAST_ONE_ALPHANUM']),
    ('variable-name-duplicated', '<variable name="zdup" units="second"/><variable name="zdup" units="second"/>', ['VARIABLE_NAME_UNIQUE']),
    ('variable-units-missing', '<variable name="zz" units="no_such_units"/>', ['VARIABLE_UNITS_VALUE']),
    ('variable-interface-invalid', '<variable name="zz" units="second" interface="both"/>', ['VARIABLE_INTERFACE_VALUE']),
    ('variable-initial-value-invalid', '<variable name="zz" units="second" initial_value="1.2.3"/>', ['VARIABLE_INITIAL_VALUE_VALUE']),
    ('variable-initial-value-missing-variable', '<variable name="zz" units="second" initial_value="nosuchvar"/>', ['VARIABLE_INITIAL_VALUE_VALUE']),
    ('math-ci-missing-variable', '<variable name="zz" units="second"/>' + MATH % ('<ci>zz</ci>', '<ci>nosuch</ci>'), ['MATH_CI_VARIABLE_REFERENCE']),
    ('math-cn-without-units', '<variable name="zz" units="second"/>' + MATH % ('<ci>zz</ci>', '<cn>1</cn>'), ['MATH_CN_UNITS_ATTRIBUTE']),
    ('math-cn-unknown-units', '<variable name="zz" units="second"/>' + MATH % ('<ci>zz</ci>', '<cn cellml:units="no_units">1</cn>'), ['MATH_CN_UNITS_ATTRIBUTE_REFERENCE', 'MATH_CN_UNITS_ATTRIBUTE']),
    ('math-unsupported-element', '<variable name="zz" units="second"/>' + MATH % ('<ci>zz</ci>', '<apply><foo/><ci>zz</ci></apply>'), ['MATH_MATHML', 'MATH_CHILD']),
    ('math-empty-ci', '<variable name="zz" units="second"/>' + MATH % ('<ci>zz</ci>', '<apply><plus/><ci>zz</ci><ci></ci></apply>'), ['MATH_CI_VARIABLE_REFERENCE', 'MATH_MATHML']),
    ('math-empty-ci-in-bvar', '<variable name="zz" units="second"/><variable name="zt" units="second"/>' + MATH % ('<apply><diff/><bvar><ci></ci></bvar><ci>zz</ci></apply>', '<ci>zt</ci>'), ['MATH_CI_VARIABLE_REFERENCE', 'MATH_MATHML']),
    ('math-empty-ci-in-degree', '<variable name="zz" units="second"/>' + MATH % ('<ci>zz</ci>', '<apply><root/><degree><ci></ci></degree><ci>zz</ci></apply>'), ['MATH_CI_VARIABLE_REFERENCE', 'MATH_MATHML']),
    ('math-unsupported-element-in-logbase', '<variable name="zz" units="second"/>' + MATH % ('<ci>zz</ci>', '<apply><log/><logbase><apply><foo/><ci>zz</ci></apply></logbase><ci>zz</ci></apply>'), ['MATH_MATHML', 'MATH_CHILD']),
] + [
    # every MathML fault at every kind of location (the validator walks the tree twice: references and units, then arity / cn format)
    ('math-%s-at-%s' % (fn, ln), '<variable name="zz" units="second"/>' + MATH % ('<ci>zz</ci>', loc % frag), rules)
    for fn, frag, rules in [
        ('missing-variable', '<ci>nosuch</ci>', ['MATH_CI_VARIABLE_REFERENCE']),
        ('cn-without-units', '<cn>1</cn>', ['MATH_CN_UNITS_ATTRIBUTE']),
        ('cn-unknown-units', '<cn cellml:units="no_units">1</cn>', ['MATH_CN_UNITS_ATTRIBUTE_REFERENCE', 'MATH_CN_UNITS_ATTRIBUTE']),
        ('unsupported-element', '<apply><foo/><ci>zz</ci></apply>', ['MATH_MATHML', 'MATH_CHILD']),
        ('empty-ci', '<ci></ci>', ['MATH_CI_VARIABLE_REFERENCE', 'MATH_MATHML']),
        ('cn-not-a-number', '<cn cellml:units="second">one</cn>', ['MATH_CN_FORMAT', 'MATH_CN_BASE10']),
        ('cn-base-two', '<cn cellml:units="second" base="2">101</cn>', ['MATH_CN_BASE10', 'MATH_CN_FORMAT', 'MATH_MATHML']),
        ('relation-with-one-operand', '<apply><gt/><ci>zz</ci></apply>', ['MATH_MATHML']),
        ('divide-with-three-operands', '<apply><divide/><ci>zz</ci><ci>zz</ci><ci>zz</ci></apply>', ['MATH_MATHML'])]
    for ln, loc in [
        ('operand', '<apply><plus/><ci>zz</ci>%s</apply>'),
        ('first-operand', '<apply><times/>%s<ci>zz</ci></apply>'),
        ('nested-operand', '<apply><plus/><ci>zz</ci><apply><minus/><apply><sin/>%s</apply></apply></apply>'),
        ('piece-value', '<piecewise><piece>%s<apply><gt/><ci>zz</ci>' + CN + '</apply></piece><otherwise>' + CN + '</otherwise></piecewise>'),
        ('piece-condition', '<piecewise><piece>' + CN + '%s</piece><otherwise>' + CN + '</otherwise></piecewise>'),
        ('inside-piece-condition', '<piecewise><piece>' + CN + '<apply><and/><apply><gt/><ci>zz</ci>' + CN + '</apply>%s</apply></piece><otherwise>' + CN + '</otherwise></piecewise>'),
        ('second-piece-condition', '<piecewise><piece>' + CN + '<apply><gt/><ci>zz</ci>' + CN + '</apply></piece><piece>' + CN + '%s</piece></piecewise>'),
        ('otherwise', '<piecewise><piece>' + CN + '<apply><gt/><ci>zz</ci>' + CN + '</apply></piece><otherwise>%s</otherwise></piecewise>'),
        ('degree', '<apply><root/><degree>%s</degree><ci>zz</ci></apply>'),
        ('logbase', '<apply><log/><logbase>%s</logbase><ci>zz</ci></apply>'),
        ('degree-of-bvar', '<apply><diff/><bvar><ci>zz</ci><degree>%s</degree></bvar><ci>zz</ci></apply>')]
] + [
    ('math-cn-not-a-number', '<variable name="zz" units="second"/>' + MATH % ('<ci>zz</ci>', '<cn cellml:units="second">one</cn>'), ['MATH_CN_FORMAT', 'MATH_CN_BASE10']),
    ('reset-without-order', '<variable name="ra" units="second"/><variable name="rb" units="second"/><reset variable="ra" test_variable="rb">' + TV % CN + RV % CN + '</reset>', ['RESET_ORDER_VALUE', 'RESET_ATTRIBUTE_REQUIRED']),
    ('reset-without-test-value', '<variable name="ra" units="second"/><variable name="rb" units="second"/><reset variable="ra" test_variable="rb" order="901">' + RV % CN + '</reset>', ['RESET_TEST_VALUE_CHILD', 'RESET_CHILD', 'TEST_VALUE_CHILD', 'TEST_VALUE_ELEMENT']),
    ('reset-value-math-missing-variable', '<variable name="ra" units="second"/><variable name="rb" units="second"/><reset variable="ra" test_variable="rb" order="902">' + TV % CN + RV % '<ci>nosuch</ci>' + '</reset>', ['MATH_CI_VARIABLE_REFERENCE']),
    ('reset-test-value-cn-without-units', '<variable name="ra" units="second"/><variable name="rb" units="second"/><reset variable="ra" test_variable="rb" order="903">' + TV % '<cn>1</cn>' + RV % CN + '</reset>', ['MATH_CN_UNITS_ATTRIBUTE']),
    ('reset-order-duplicated', '<variable name="ra" units="second"/><variable name="rb" units="second"/><reset variable="ra" test_variable="rb" order="904">' + TV % CN + RV % CN + '</reset><reset variable="ra" test_variable="rb" order="904">' + TV % CN + RV % CN + '</reset>', ['RESET_ORDER_UNIQUE']),
]
MODEL_FAULTS = [
    ('units-name-duplicated', '<units name="zu"/><units name="zu"/>', ['UNITS_NAME_UNIQUE']),
    ('units-named-like-a-standard-unit', '<units name="second"/>', ['UNITS_STANDARD']),
    ('unit-prefix-invalid', '<units name="zu"><unit units="second" prefix="wrong"/></units>', ['UNIT_ATTRIBUTE_PREFIX_VALUE']),
    ('unit-prefix-invalid-on-user-units', '<units name="zl"><unit units="metre" prefix="milli"/></units><units name="zu"><unit units="zl" prefix="wolf" exponent="2"/></units>', ['UNIT_ATTRIBUTE_PREFIX_VALUE']),
    ('unit-prefix-out-of-range-on-user-units', '<units name="zl"><unit units="metre"/></units><units name="zu"><unit units="zl" prefix="99999999999999999999"/></units>', ['UNIT_ATTRIBUTE_PREFIX_VALUE']),
    ('unit-prefix-out-of-range', '<units name="zu"><unit units="second" prefix="99999999999999999999"/></units>', ['UNIT_ATTRIBUTE_PREFIX_VALUE']),
    ('unit-reference-missing', '<units name="zu"><unit units="no_such_units"/></units>', ['UNIT_UNITS_REFERENCE']),
    ('units-cyclic', '<units name="zca"><unit units="zcb"/></units><units name="zcb"><unit units="zca"/></units>', ['UNIT_UNITS_CIRCULAR_REFERENCE']),
    ('units-name-not-an-identifier', '<units name="1u"/>', ['UNITS_NAME_VALUE', 'DATA_REPR_IDENTIFIER_BEGIN_EURO_NUM']),
    ('component-name-duplicated', '<component name="zc"/><component name="zc"/>', ['COMPONENT_NAME_UNIQUE']),
    ('component-name-not-an-identifier', '<component name="1c"/>', ['COMPONENT_NAME_VALUE', 'DATA_REPR_IDENTIFIER_BEGIN_EURO_NUM']),
    ('id-duplicated', '<units name="zi1" id="dupid"/><units name="zi2" id="dupid"/>', ['XML_ID_ATTRIBUTE']),
    ('equivalence-insufficient-interface', '<component name="zp"><variable name="a" units="second" interface="none"/></component><component name="zq"><variable name="a" units="second" interface="public"/></component>'
     '<connection component_1="zp" component_2="zq"><map_variables variable_1="a" variable_2="a"/></connection>', ['VARIABLE_INTERFACE_VALUE', 'MAP_VARIABLES_VARIABLE1_ATTRIBUTE', 'MAP_VARIABLES_VARIABLE2_ATTRIBUTE', 'MAP_VARIABLES_ELEMENT']),
    ('equivalence-incompatible-units', '<component name="zp"><variable name="a" units="second" interface="public"/></component><component name="zq"><variable name="a" units="volt" interface="public"/></component>'
     '<connection component_1="zp" component_2="zq"><map_variables variable_1="a" variable_2="a"/></connection>', ['MAP_VARIABLES_ELEMENT', 'MAP_VARIABLES_UNIQUE', 'MAP_VARIABLES_VARIABLE1_ATTRIBUTE']),
    ('reset-order-duplicated-across-a-chain-of-equivalences', '<component name="zr1"><variable name="a" units="second" interface="public"/><variable name="t" units="second"/><reset variable="a" test_variable="t" order="905">' + TV % CN + RV % CN + '</reset></component>'
     '<component name="zr2"><variable name="b" units="second" interface="public"/></component>'
     '<component name="zr3"><variable name="c" units="second" interface="public"/><variable name="t" units="second"/><reset variable="c" test_variable="t" order="905">' + TV % CN + RV % CN + '</reset></component>'
     '<connection component_1="zr1" component_2="zr2"><map_variables variable_1="a" variable_2="b"/></connection><connection component_1="zr3" component_2="zr2"><map_variables variable_1="c" variable_2="b"/></connection>', ['RESET_ORDER_UNIQUE']),
    ('import-without-location', '<import xmlns:xlink="http://www.w3.org/1999/xlink" xlink:href=""><units units_ref="x" name="zimp"/></import>', ['IMPORT_HREF', 'IMPORT_HREF_LOCATOR']),
    ('import-units-without-reference', '<import xmlns:xlink="http://www.w3.org/1999/xlink" xlink:href="lib.cellml"><units units_ref="" name="zimp"/></import>', ['IMPORT_UNITS_UNITS_REFERENCE', 'IMPORT_UNITS_UNITS_REFERENCE_VALUE']),
    ('import-component-name-duplicated', '<import xmlns:xlink="http://www.w3.org/1999/xlink" xlink:href="lib.cellml"><component component_ref="x" name="zimc"/></import><component name="zimc"/>', ['IMPORT_COMPONENT_NAME_UNIQUE', 'COMPONENT_NAME_UNIQUE']),
]


IMPORTED_CHILD = {
    'main.cellml': '<?xml version="1.0" encoding="UTF-8"?>\n<model xmlns="http://www.cellml.org/cellml/2.0#" xmlns:xlink="http://www.w3.org/1999/xlink" name="main"><import xlink:href="source.cellml"><component name="mine" component_ref="parent"/></import></model>\n',
    'source.cellml': '<?xml version="1.0" encoding="UTF-8"?>\n<model xmlns="http://www.cellml.org/cellml/2.0#" name="source"><component name="parent"><variable name="p" units="second"/></component>'
                     '<component name="child"><variable name="q" units="second" initial_value="abc"/></component><encapsulation><component_ref component="parent"><component_ref component="child"/></component_ref></encapsulation></model>\n'}


def imported_child_probe(chk, lib, kf, stats):
    """the input of known finding C04-imported-children-not-validated, always replayed: an imported component whose encapsulated
    child (in the imported model) has an invalid initial value; imports resolved, then validated.  Returns a complaint or None."""
    hx = build_hx('hx_import', lib)
    wd = tempfile.mkdtemp(prefix='c04i-')
    try:
        for n, t in IMPORTED_CHILD.items():
            open(os.path.join(wd, n), 'w').write(t)
        r = subprocess.run([hx], input='\n'.join(['importer strict', 'parse %s/main.cellml' % wd, 'resolve %s/' % wd, 'validate origin', 'flatten', 'validate flat']) + '\n', capture_output=True, text=True, timeout=60)
        o = r.stdout.split('\n')
        if r.returncode != 0 or len(o) < 6:
            return 'the library crashed while validating a model with a resolved import'
        nerr = lambda line: len(re.findall(r'\[0 R', line))
        stats['imported_child_probe'] = {'resolved': o[2].split()[1], 'errors_origin': nerr(o[3]), 'errors_flattened': nerr(o[5])}
        if o[2].split()[1] != '1' or nerr(o[3]) > 0:
            return None
        if 'C04-imported-children-not-validated' in kf:
            chk.known_finding(kf['C04-imported-children-not-validated']['what'])
            return None
        return ('a model imports component "parent" whose encapsulated child has initial_value="abc": after resolveImports the validator reports no error for the importing model '
                '(the flattened model: %d errors)' % nerr(o[5]))
    finally:
        shutil.rmtree(wd, ignore_errors=True)


def sec(o, a, b):
    return o[o.index('=====' + a) + len(a) + 6:o.index('=====' + b)]


STD_BASE = {'second': {'s': 1}, 'metre': {'m': 1}, 'kilogram': {'kg': 1}, 'ampere': {'A': 1}, 'kelvin': {'K': 1}, 'mole': {'mol': 1}, 'candela': {'cd': 1}, 'dimensionless': {},
            'newton': {'kg': 1, 'm': 1, 's': -2}, 'volt': {'kg': 1, 'm': 2, 's': -3, 'A': -1}, 'litre': {'m': 3}, 'joule': {'kg': 1, 'm': 2, 's': -2}, 'hertz': {'s': -1}, 'gram': {'kg': 1}}


def connected_units_case(rng):
    """two connected variables whose units are built from compound units, with repeated references; returns (text, same
    base units?) — the exponent vectors are computed with exact fractions"""
    from fractions import Fraction as Fr
    n = rng.randint(2, 5)
    defs, vecs = [], []
    for i in range(n):
        if rng.random() < 0.15:
            defs.append([]); vecs.append({'b%d' % i: Fr(1)}); continue
        kids = []
        for _ in range(rng.randint(1, 3)):
            ref = ('u%d' % rng.randrange(i)) if (i > 0 and rng.random() < 0.6) else rng.choice(sorted(STD_BASE))
            kids.append((ref, rng.choice(['1', '1', '1', '2', '-1', '3', '0.5', '-2']), rng.choice(['', '', 'milli', 'kilo', 'centi']), rng.choice(['', '', '10', '0.1'])))
        if rng.random() < 0.5 and kids:
            kids.append((kids[0][0], rng.choice(['1', '1', '2', '-1']), '', ''))       # the same units referenced again
        v = {}
        for ref, e, pf, mu in kids:
            src = vecs[int(ref[1:])] if ref.startswith('u') and ref[1:].isdigit() else {k: Fr(x) for k, x in STD_BASE[ref].items()}
            for k, x in src.items():
                v[k] = v.get(k, 0) + Fr(e) * x
        defs.append(kids); vecs.append({k: x for k, x in v.items() if x != 0})
    a = rng.randrange(n)
    same = rng.random() < 0.5
    cands = [j for j in range(n) if (vecs[j] == vecs[a]) == same and j != a]
    b = rng.choice(cands) if cands else a
    text = '<?xml version="1.0" encoding="UTF-8"?>\n<model xmlns="http://www.cellml.org/cellml/2.0#" name="m">\n'
    for i, kids in enumerate(defs):
        if not kids:
            text += '  <units name="u%d"/>\n' % i
        else:
            text += '  <units name="u%d">%s</units>\n' % (i, ''.join('<unit units="%s"%s%s%s/>' % (r, ' exponent="%s"' % e if e != '1' else '', ' prefix="%s"' % pf if pf else '', ' multiplier="%s"' % mu if mu else '') for r, e, pf, mu in kids))
    text += ('  <component name="c1"><variable name="v" units="u%d" interface="public"/></component>\n  <component name="c2"><variable name="w" units="u%d" interface="public"/></component>\n'
             '  <connection component_1="c1" component_2="c2"><map_variables variable_1="v" variable_2="w"/></connection>\n</model>\n') % (a, b)
    return text, vecs[a] == vecs[b]


def run(chk, replay=None):
    lib = build_lib()
    hx = build_hx('hx_roundtrip', lib)
    leandir, ok, out, changed = standard_lean(chk, 'C04', {'Cellml/Generated/MathWalk.lean': tables.mathml_walk_table(REPO)})
    chk.assumptions += [
        'the Lean part models two uniqueness checks (component names in traversal order, collected ids) and the identifier syntax; every other rule is exercised on the implementation only: valid-by-construction documents must be accepted with zero issues and every injected single-rule violation must raise an error citing one of the rules listed for it',
        'faults are injected as additional elements (a new variable, math block, reset, units, component, connection or import) at a random applicable location: top-level or encapsulated component, first or last child; the W3C MathML DTD inside libxml2 is not modelled',
        'the documents go through the strict parser first, so only faults that the model can hold are injected']
    chk.cov['trusted_base'] += ['harness/hx_roundtrip.cpp + lean/Cellml/Engine/Valid.lean', 'pygen/docs.py (valid-by-construction documents), fault catalogue in checks/C04.py', 'gen/tables.py (rule enumerators)']
    if not ok:
        chk.violation('Lean obligations of C04 no longer check: ' + out[-1500:], {'kind': 'proof', 'theorem_or_build_log': out[-3000:]}, False)
    drv = drv_path(leandir)
    rules = tables.enum_members(open('/repo/src/api/libcellml/issue.h').read(), 'ReferenceRule')
    rng = random.Random(chk.seed)
    kf = {f['id']: f for f in known_findings()['findings'] if f['property'] == 'C04'}
    wd = tempfile.mkdtemp(prefix='c04-')
    stats = {'valid_documents': 0, 'accepted': 0, 'faults_injected': 0, 'faults_rejected': 0, 'by_fault': {}, 'in_encapsulated_component': 0, 'known_shared_import_id': 0}
    oracle, corr = [], []
    def validate(text):
        fn = os.path.join(wd, 'd.cellml'); open(fn, 'w').write(text)
        r = subprocess.run([hx, fn], capture_output=True, text=True, timeout=120)
        if '=====T2' not in r.stdout:
            return None
        v0 = sec(r.stdout, 'V0', 'T1')
        issues = []
        for l in v0.split('\n')[1:]:
            m = re.match(r'(\d) R(\d+) (.*)', l)
            if m:
                issues.append((int(m.group(1)), rules[int(m.group(2))] if int(m.group(2)) < len(rules) else m.group(2), m.group(3)))
        return sec(r.stdout, 'I0', 'V0'), issues
    try:
        n = 40 if chk.tier == 'quick' else 300
        if replay:
            r = json.load(open(replay))
            res = validate(r['cellml'])
            if res is None:
                oracle.append(('the library crashed', r['cellml'], None))
            elif r.get('expect_rules'):
                if not [i for i in res[1] if i[0] == 0 and i[1] in r['expect_rules']]:
                    oracle.append(('the injected fault is still not reported', r['cellml'], r.get('fault')))
            elif res[1]:
                oracle.append(('the valid document is still rejected: %s' % (res[1][:2],), r['cellml'], None))
            n = 0
        for k in range(n):
            shared = rng.random() < 0.1
            text = D.gen_doc(rng, specials=False)
            if shared:
                text = text.replace('<model ', '<model ', 1).replace('</model>', '', 1).rstrip('\n') + '\n  <import xmlns:xlink="http://www.w3.org/1999/xlink" xlink:href="shared.cellml" id="shared_import"><units units_ref="a" name="zsa"/><units units_ref="b" name="zsb"/></import>\n</model>\n'
            res = validate(text)
            if res is None:
                oracle.append(('the library crashed on a valid document', text, None)); continue
            stats['valid_documents'] += 1
            pissues, vissues = res
            if pissues.strip():
                continue            # not accepted by the strict parser: generator slip, not a validator matter
            if vissues:
                only_shared = all(i[1] == 'XML_ID_ATTRIBUTE' and 'import source' in i[2] for i in vissues if i[0] == 0) or all('import source' in i[2] or i[2].startswith(' - ') for i in vissues)
                if shared and 'C04-shared-import-id' in kf and all(i[1] in ('XML_ID_ATTRIBUTE',) for i in vissues if i[0] == 0):
                    chk.known_finding(kf['C04-shared-import-id']['what']); stats['known_shared_import_id'] += 1
                else:
                    oracle.append(('a valid-by-construction document is rejected: %s %s' % (vissues[0][1], vissues[0][2][:200]), text, None)); continue
            else:
                stats['accepted'] += 1
            if shared:
                continue
            # single faults, each at a random applicable location
            comps = re.findall(r'  <component name="(c\d+)"[^/>]*>\n', text)
            encaps = set(re.findall(r'<component_ref component="(c\d+)"', text)) - set(re.findall(r'<encapsulation[^>]*>\s*<component_ref component="(c\d+)"', text))
            for name, elem, want in (COMPONENT_FAULTS + MODEL_FAULTS) if chk.tier == 'thorough' else rng.sample(COMPONENT_FAULTS + MODEL_FAULTS, 12):
                if (name, elem, want) in COMPONENT_FAULTS:
                    if not comps:
                        continue
                    c = rng.choice(comps)
                    m = re.search(r'  <component name="%s"[^/>]*>\n' % c, text)
                    if rng.random() < 0.5:
                        pos = m.end()
                    else:
                        pos = text.index('  </component>', m.end())
                    faulty = text[:pos] + '    ' + elem + '\n' + text[pos:]
                    stats['in_encapsulated_component'] += c in encaps
                else:
                    def at(pat):
                        m = re.search(pat, text, re.M)
                        return m.start() if m else None
                    first_comp, first_conn, first_enc, end = at(r'^  <component '), at(r'^  <connection '), at(r'^  <encapsulation'), text.index('</model>')
                    if '<import' in elem:
                        pos = text.index('\n', text.index('<model')) + 1
                    elif '<connection' in elem:
                        pos = first_conn or first_enc or end
                    else:
                        pos = first_comp if (first_comp is not None and rng.random() < 0.5) else (first_conn or first_enc or end)
                    faulty = text[:pos] + '  ' + elem + '\n' + text[pos:]
                res = validate(faulty)
                stats['faults_injected'] += 1
                stats['by_fault'][name] = stats['by_fault'].get(name, 0) + 1
                if res is None:
                    oracle.append(('the library crashed on the fault %s' % name, faulty, name)); continue
                errs = [i for i in res[1] if i[0] == 0]
                if res[0].strip() and not errs:
                    continue        # the strict parser already refused it
                if not errs:
                    oracle.append(('the fault %s is accepted without an error' % name, faulty, name, want))
                elif not [i for i in errs if i[1] in want]:
                    oracle.append(('the fault %s is reported, but under %s instead of one of %s' % (name, sorted({i[1] for i in errs}), want), faulty, name, want))
                else:
                    stats['faults_rejected'] += 1
            # a top-level component that repeats the name of a component encapsulated elsewhere (the second element of that
            # name stays at the top level: the document format resolves component_ref to the first one)
            if encaps and not replay:
                xname = rng.choice(sorted(encaps))
                def at2(pat):
                    m2 = re.search(pat, text, re.M)
                    return m2.start() if m2 else None
                pos = at2(r'^  <connection ') or at2(r'^  <encapsulation') or text.index('</model>')
                faulty = text[:pos] + '  <component name="%s"/>\n' % xname + text[pos:]
                res = validate(faulty)
                stats['faults_injected'] += 1
                stats['by_fault']['component-name-repeats-encapsulated'] = stats['by_fault'].get('component-name-repeats-encapsulated', 0) + 1
                if res is None:
                    oracle.append(('the library crashed on the fault component-name-repeats-encapsulated', faulty, 'component-name-repeats-encapsulated'))
                else:
                    errs = [i for i in res[1] if i[0] == 0]
                    if not (res[0].strip() and not errs):
                        if not [i for i in errs if i[1] == 'COMPONENT_NAME_UNIQUE']:
                            oracle.append(('a top-level component repeating the name %s of an encapsulated component is accepted (errors: %s)' % (xname, sorted({i[1] for i in errs})), faulty, 'component-name-repeats-encapsulated', ['COMPONENT_NAME_UNIQUE']))
                        else:
                            stats['faults_rejected'] += 1
        # component names repeated at every relative position of a tree built through the API (a document can only repeat a
        # name at the top level: component_ref resolves to the first component of that name)
        if not replay:
            import copy
            from pygen import entities as E
            hxe = build_hx('hx_equals', lib, extra_src=[os.path.join(ROOT, 'harness', 'hx_entity.h')])
            tlines, tmeta = [], []
            for k in range(40 if chk.tier == 'quick' else 400):
                cnt = [0]
                def tree(depth):
                    cnt[0] += 1
                    return {'id': '', 'name': 'n%d' % cnt[0], 'enc': '', 'math': '', 'imp': {'src': None, 'ref': ''}, 'vars': [], 'resets': [],
                            'kids': [tree(depth + 1) for _ in range(rng.randint(0, 2 if depth < 3 else 0))]}
                m = {'id': '', 'name': 'm', 'enc': '', 'units': [], 'comps': [tree(0) for _ in range(rng.randint(1, 3))]}
                allc = []
                def walk(c):
                    allc.append(c)
                    for kk in c['kids']:
                        walk(kk)
                for c in m['comps']:
                    walk(c)
                tlines.append('(validate %s)' % E.sexp_model(m)); tmeta.append(('valid', None))
                if len(allc) >= 2:
                    a, b = rng.sample(range(len(allc)), 2)
                    m2 = copy.deepcopy(m)
                    all2 = []
                    def walk2(c):
                        all2.append(c)
                        for kk in c['kids']:
                            walk2(kk)
                    for c in m2['comps']:
                        walk2(c)
                    all2[b]['name'] = all2[a]['name']
                    tlines.append('(validate %s)' % E.sexp_model(m2)); tmeta.append(('dup', '%s at positions %d and %d of the pre-order' % (all2[a]['name'], a, b)))
            outs = run_lines(hxe, [], tlines)[1]
            uniq = str(rules.index('COMPONENT_NAME_UNIQUE'))
            for l, (kind, what), o in zip(tlines, tmeta, outs):
                stats['api_trees'] = stats.get('api_trees', 0) + 1
                t = o.split()
                if not t or t[0] != 'rules':
                    oracle.append(('the library crashed on a component tree built through the API', l, 'api-tree')); continue
                if kind == 'valid' and t[1:]:
                    oracle.append(('a tree of components with distinct names is rejected (rules %s)' % t[1:], l, 'api-tree'))
                if kind == 'dup' and uniq not in t[1:]:
                    oracle.append(('two components named %s are accepted' % what, l, 'component-name-repeated-anywhere', ['COMPONENT_NAME_UNIQUE']))
        # connected variables with compound units (repeated references, fractional exponents): compatible iff the same base units
        for k in range(60 if chk.tier == 'quick' else 600):
            if replay:
                break
            text, same = connected_units_case(rng)
            res = validate(text)
            stats['connected_units'] = stats.get('connected_units', 0) + 1
            if res is None:
                oracle.append(('the library crashed on two connected variables with compound units', text, 'connected-units', [])); continue
            errs = [i for i in res[1] if i[0] == 0]
            if same and errs:
                oracle.append(('two connected variables with the same base units are rejected: %s' % errs[0][2][:200], text, 'connected-units-valid', [])); continue
            if not same and not [i for i in errs if i[1].startswith('MAP_VARIABLES')]:
                oracle.append(('two connected variables with different base units are accepted', text, 'connected-units-incompatible', ['MAP_VARIABLES_ELEMENT'])); continue
        # correspondence of the two modelled checks
        lines, expect, docs_of = [], [], {}
        for k in range(30 if chk.tier == 'quick' else 200):
            names = [rng.choice(['a', 'b', 'c', 'dd', 'e']) for _ in range(rng.randint(1, 7))]
            doc = '<?xml version="1.0" encoding="UTF-8"?>\n<model xmlns="http://www.cellml.org/cellml/2.0#" name="m">' + ''.join('<component name="%s"/>' % x for x in names) + '</model>'
            res = validate(doc)
            got = sorted(re.search(r"with the name '([^']*)'", i[2]).group(1) for i in res[1] if i[1] == 'COMPONENT_NAME_UNIQUE') if res else None
            lines.append('(names %s)' % ' '.join('#' + x.encode().hex() for x in names)); expect.append(','.join(got) if got else '-')
            ids = [rng.choice(['i1', 'i2', 'i3', 'i4']) for _ in range(rng.randint(1, 6))]
            doc = '<?xml version="1.0" encoding="UTF-8"?>\n<model xmlns="http://www.cellml.org/cellml/2.0#" name="m">' + ''.join('<units name="u%d" id="%s"/>' % (j, x) for j, x in enumerate(ids)) + '</model>'
            res = validate(doc)
            got = sorted(re.search(r"attribute '([^']*)'", i[2]).group(1) for i in res[1] if i[1] == 'XML_ID_ATTRIBUTE') if res else None
            lines.append('(ids %s)' % ' '.join('#' + x.encode().hex() for x in ids)); expect.append(','.join(got) if got else '-')
            # ids on every kind of element, several of them described by the same words (two unit children of one units)
            slots = [rng.choice(['i1', 'i2', 'i3', 'i4', 'i5', 'i6']) if rng.random() < 0.6 else None for _ in range(14)]
            a_ = [' id="%s"' % x if x else '' for x in slots]
            doc = ('<?xml version="1.0" encoding="UTF-8"?>\n<model xmlns="http://www.cellml.org/cellml/2.0#" name="m"%s>'
                   '<units name="u0"%s><unit units="second"%s/><unit units="metre"%s/></units><units name="u1"%s><unit units="second"%s/><unit units="second"%s/></units>'
                   '<component name="c"%s><variable name="ab" units="u0" interface="public"%s/><variable name="y" units="u0"%s/></component>'
                   '<component name="bc"%s><variable name="a" units="u0" interface="public"%s/></component>'
                   '<connection component_1="c" component_2="bc"%s><map_variables variable_1="ab" variable_2="a"%s/></connection></model>') % tuple(a_)
            # (variable 'ab' of component 'c' and variable 'a' of component 'bc': the two ends of the equivalence spell the same when concatenated)
            res = validate(doc)
            got = sorted(re.search(r"attribute '([^']*)'", i[2]).group(1) for i in res[1] if i[1] == 'XML_ID_ATTRIBUTE') if res else None
            ids = [x for x in slots if x]
            dup = sorted(x for x in set(ids) if ids.count(x) > 1)
            if got is not None and got != dup:
                oracle.append(('the ids %s are carried by more than one element each, the validator reports duplicates for %s' % (dup, got), doc, 'id-duplicated', ['XML_ID_ATTRIBUTE']))
            if ids:
                lines.append('(ids %s)' % ' '.join('#' + x.encode().hex() for x in ids)); expect.append(','.join(got) if got else '-')
                docs_of[len(lines) - 1] = doc
        # identifier syntax: the rule (if any) under which a component name is rejected
        alphabet = ['a', 'Z', 'q', '0', '9', '_', '-', ' ', '.', ':', 'é', 'µ', '٣', '__', 'x1']
        idnames = ['', '_', '1', 'a', '_1', '1_', 'a b', 'é', 'a-1', '0x', 'A_9z']
        idnames += [''.join(rng.choice(alphabet) for _ in range(rng.randint(1, 5))) for _ in range(60 if chk.tier == 'quick' else 600)]
        reason = [('must contain one or more basic Latin alphabetic characters', 'empty'), ('must not begin with a European numeric character', 'begins_with_digit'),
                  ('must not contain any characters other than [a-zA-Z0-9_]', 'not_latin_alphanumeric')]
        for nm in idnames:
            doc = '<?xml version="1.0" encoding="UTF-8"?>\n<model xmlns="http://www.cellml.org/cellml/2.0#" name="m"><component name="%s"/></model>' % nm
            res = validate(doc)
            got = sorted({r_ for i in res[1] if i[1].startswith('COMPONENT_NAME') for t_, r_ in reason if t_ in i[2]}) if res else ['crash']
            lines.append('(ident #%s)' % nm.encode().hex()); expect.append(','.join(got) if got else 'ok')
        model = run_lines(drv, ['valid'], lines)[1] if os.path.exists(drv) else [''] * len(lines)
        for l, e, m in zip(lines, expect, model):
            if e != m:
                corr.append(('%s: implementation %s, model %s' % (l, e, m), l))
    finally:
        shutil.rmtree(wd, ignore_errors=True)
    chk.cov.update(evaluations=stats['valid_documents'] + stats['faults_injected'] + len(lines), distinct_nontrivial=stats['valid_documents'],
                   rule='valid-by-construction documents (pygen/docs.py without special characters) must be accepted; %d kinds of single-rule violations injected as additional elements at a random applicable location (top-level / encapsulated component, first / last child, model level) must raise an error citing the rule; '
                        'component-name and id multisets against the uniqueness model' % len(COMPONENT_FAULTS + MODEL_FAULTS),
                   samples=[lines[0] if lines else '', expect[0] if expect else '', model[0] if model else ''], traces_validated_against_impl=len(lines) - len(corr), exhaustive=False, outcome_histogram=stats)
    if not replay:
        ic = imported_child_probe(chk, lib, kf, stats)
        if ic:
            chk.violation('the validator does not decide validity correctly: ' + ic, {'kind': 'oracle', 'engine': 'files', 'files': IMPORTED_CHILD, 'why': ic}, True)
    for o in oracle[:3]:
        chk.violation('the validator does not decide validity correctly: ' + o[0], {'kind': 'oracle', 'engine': 'valid', 'cellml': o[1], 'fault': o[2], 'expect_rules': o[3] if len(o) > 3 else None, 'why': o[0]}, True)
    if not oracle:
        for what, l in corr[:3]:
            chk.violation('uniqueness model and validator disagree (correspondence `valid` broken): ' + what,
                          {'kind': 'correspondence', 'engine': 'valid', 'line': l, 'why': what, 'theorem': 'Cellml.Props.C04.names_accepted_iff / ids_accepted_iff'}, False)
